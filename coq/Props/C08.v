(* Props/C08.v — property C08: X12 -> XML -> X12 is the identity on structurally valid documents.
   Statements only (proofs: Proofs/C08_xml.v, C08_lemmas.v; per-map facts: Gen/C08, regenerated on every run).

   Chain: (1) the XML text written by the model of x12xml_simple / XMLWriter is EXACTLY the serialisation of the
   abstract event sequence of Spec/C08_spec.v (xml_text_refines), for any sequence of located segments of a map whose
   loop paths pass the prefix test (proved for every shipped map by evaluation: C08_shipped_maps_prefix_safe);
   (2) that event sequence is balanced, puts every segment inside loop elements spelling out its map path, and opens a
   fresh loop element at the first segment of a loop; (3) escaping is invertible and leaves no raw < > ('), so data
   cannot introduce markup; (4) the element tree of one segment converts back (model of xmlx12_simple.get_segment) to
   the segment with its not-used elements blanked.
   (5) READING BACK (Spec/C08_parse_spec.v, Proofs/C08_parse.v, C08_doc.v): xml_read is a small total reader for
   exactly the XML subset the writer emits (declaration, optional DOCTYPE, elements with quoted attributes, text,
   the five entities, end-of-line and attribute-value normalisation, the XML 1.0 character range), returning the
   tree as ElementTree presents it; C08_xml_read_inverts_serialiser: for every balanced one-rooted event sequence
   with well-formed names and XML-representable values, xml_read (serialise evs) is the tree of the events;
   C08_document_read_back: for any located segments (hypotheses of (1) plus doc_xml_ok: ids and values
   representable; doc_shallow: loop depth <= 60, XmlIn's fuel), the text written reads back as the tree of the
   events, its <seg> nodes are the per-segment trees, and converting it (model of xmlx12_simple.convert) hands
   exactly those segments to the X12 writer, whose output C11 characterises.  What XML cannot carry is stated and
   machine-checked (TAB / LF in an id become a blank, CR in data becomes LF, control characters make the text
   unreadable: Proofs/C08_doc_examples.v, each agreeing with expat on the real writer's output).
   NOT proved: that expat / ElementTree agree with xml_read (trusted; compared by the check on every run, and on the
   examples); the per-segment conversion (4) for ISA and for composite-bearing segments of the shipped maps, whose
   ids the existing lemma's hypothesis node_fits does not cover (the document theorem (5) covers them up to the
   segment trees, and the check converts them on every run). *)
From Coq Require Import String.
From PX.Lib Require Import Base PyStr Xml.
From PX.Gen Require Import MapRegexes.
From PX.Gen.Maps Require M_dataele M_codes.
From PX.Gen.C08 Require Import All.
From PX.Model Require Import Path Segment MapLoad MapTree OutW XmlOut XmlIn.
From PX.Spec Require Import C01_spec C08_spec C08_parse_spec.
From PX.Proofs Require Import C08_lemmas C08_xml C08_parse C08_doc.

Theorem C08_escape_content_invertible :
  forall t, exists e, escape_cont (Some t) = Some e /\ xml_unescape e = t /\ no_raw ["<"%char; ">"%char] e = true.
Proof. exact escape_cont_roundtrip. Qed.
Print Assumptions C08_escape_content_invertible.

Theorem C08_escape_attribute_invertible :
  forall t, exists e, escape_attr (Some t) = Some e /\ xml_unescape e = t /\ no_raw ["<"%char; ">"%char; "'"%char] e = true.
Proof. exact escape_attr_roundtrip. Qed.
Print Assumptions C08_escape_attribute_invertible.

(* inputs_fit: no composite carries more components than its node defines (the writer leaves the surplus out —
   fix f38f280 — while the event description lists every component); without it the statement is false:
   C08_text_needs_fit *)
Theorem C08_text_is_serialised_events :
  forall xs st chunks,
    inputs_ok [] xs = true -> inputs_fit xs = true ->
    run_model xs x_empty = (st, chunks, Ok tt) ->
    concat chunks = xml_decl ++ ser 0 (doc_events xs).
Proof. exact xml_text_refines_corrected. Qed.
Print Assumptions C08_text_is_serialised_events.

Theorem C08_text_needs_fit :
  inputs_ok [] fit_cex = true /\ inputs_fit fit_cex = false /\
  exists st chunks, run_model fit_cex x_empty = (st, chunks, Ok tt) /\ concat chunks <> xml_decl ++ ser 0 (doc_events fit_cex).
Proof. exact xml_text_refines_needs_fit. Qed.
Print Assumptions C08_text_is_serialised_events.

Theorem C08_events_balanced : forall xs, balanced [] (doc_events xs) = true.
Proof. exact doc_events_balanced. Qed.
Print Assumptions C08_events_balanced.

Theorem C08_segments_nested_by_map_path :
  forall xs, seg_contexts [] (doc_events xs) = map (fun x => map (@Some str) (lc_path x)) xs.
Proof. exact seg_contexts_are_paths. Qed.
Print Assumptions C08_segments_nested_by_map_path.

Theorem C08_repeated_loop_opens_fresh_element :
  forall last cur, cur <> [] ->
    exists pre, loop_events true last cur = pre ++ [XOpen (list_ascii_of_string "loop") (Some (Some (List.last cur [])))].
Proof. exact first_segment_opens_fresh_loop. Qed.
Print Assumptions C08_repeated_loop_opens_fresh_element.

(* the tree of one segment converts back to the segment (not-used elements blanked); the hypothesis ids_parse —
   the segment id has the X12 form and positions are below 99 — is necessary: C08_roundtrip_needs_wellformed_ids *)
Theorem C08_segment_tree_roundtrip :
  forall gi d s, node_fits gi s = true -> xd_free s = true -> ids_parse gi s = true ->
    exists s', get_segment (seg_tree gi d s) = Ok s' /\ format_seg XD s' = format_seg XD (blank_unused gi s).
Proof. exact seg_tree_roundtrip_corrected. Qed.
Print Assumptions C08_segment_tree_roundtrip.

Theorem C08_roundtrip_needs_wellformed_ids :
  ~ (forall gi d s, node_fits gi s = true -> xd_free s = true ->
       exists s', get_segment (seg_tree gi d s) = Ok s' /\ format_seg XD s' = format_seg XD (blank_unused gi s)).
Proof. exact seg_tree_roundtrip_is_false. Qed.
Print Assumptions C08_roundtrip_needs_wellformed_ids.

(* every shipped map that loads: the prefix test is safe on every ordered pair of its loop paths *)
Theorem C08_shipped_maps_prefix_safe :
  Forall (fun c => map_c08_ok map_regexes M_dataele.tree M_codes.tree (snd c) = true) checked.
Proof. exact checked_ok. Qed.
Print Assumptions C08_shipped_maps_prefix_safe.

(* ... which is the premise `prefix_safe` of inputs_ok for any two segments located in that map *)
Theorem C08_prefix_safe_in_map :
  forall m last cur, map_paths_safe m = true ->
    In last ([] :: loop_paths 40 (root_nodes m) []) -> In cur ([] :: loop_paths 40 (root_nodes m) []) ->
    prefix_safe last cur = true.
Proof.
  intros m last cur H Hl Hc. unfold map_paths_safe in H.
  rewrite forallb_forall in H. specialize (H last Hl). rewrite forallb_forall in H. exact (H cur Hc).
Qed.
Print Assumptions C08_prefix_safe_in_map.

(* ---- reading back ---- *)
Theorem C08_xml_read_inverts_serialiser :
  forall evs, balanced [] evs = true -> one_root evs = true -> evs_ok evs = true ->
  exists t, tree_of evs = Some t /\ xml_read (xml_decl ++ ser 0 evs) = Some t.
Proof. exact xml_read_inverts_ser. Qed.
Print Assumptions C08_xml_read_inverts_serialiser.

Theorem C08_document_read_back :
  forall xs st chunks,
  inputs_ok [] xs = true -> inputs_fit xs = true -> doc_xml_ok xs = true -> doc_shallow xs = true ->
  run_model xs x_empty = (st, chunks, Ok tt) ->
  exists doc,
    xml_read (concat chunks) = Some doc /\
    tree_of (doc_events xs) = Some doc /\
    map drop_ctext (seg_nodes doc) = map seg_tree_of xs /\
    forall w, convert doc w = w_iter (fun x => write_back (seg_tree_of x)) xs w.
Proof. exact document_read_back. Qed.
Print Assumptions C08_document_read_back.
