(* Props/C12.v — property C12: validation results do not depend on delimiters or line layout.
   Statements only (proofs: Proofs/C12_reader.v, C12_lemmas.v).

   PARTIAL.  Proved here, for the reader (segmentation, segment construction, every envelope / control-number /
   counter / HL / LX check and its source position): the same document written with any two admissible delimiter
   triples and any two line-break conventions, fed in any chunking, is read as the same segments (ISA16, which IS a
   delimiter, apart) with the same errors at the same positions.  Hypothesis ctl_simple (the elements the reader
   interprets carry one component) is the part of "for all documents" the theorem does not cover.  The remaining
   pipeline takes the parsed segments as input.  For two of its layers the delimiters are proved irrelevant
   (Proofs/C12_layers.v): segment validation (C12_validation_delims_irrelevant) and the walker
   (C12_walker_delims_irrelevant), each under a computable hypothesis saying that no composite value is read where the
   map expects a simple element (without it the offending VALUE is quoted in an error text with the separator of the
   source, so the statement is false: Witness12.* are the proved counterexamples).  The acknowledgement bodies are
   functions of the error tree alone (Props/C05.v).  End to end the check still compares complete runs of the
   implementation on re-encoded documents. *)
From Coq Require Import String.
From PX.Lib Require Import Base PyStr.
From PX.Model Require Import Path Segment Raw Reader MapLoad MapTree Element Walker.
From PX.Spec Require Import C01_spec C12_spec C12b_spec.
From PX.Proofs Require Import C01_roundtrip C12_reader C12_layers.

(* a parsed segment does not remember the delimiters it was written with *)
Theorem C12_segment_delims_irrelevant :
  forall d1 d2 s, distinct_delims d1 = true -> distinct_delims d2 = true ->
    clean_seg d1 s = true -> clean_seg d2 s = true ->
    parse_seg d1 (format_seg d1 s) = parse_seg d2 (format_seg d2 s).
Proof. exact parse_format_delims_irrelevant. Qed.
Print Assumptions C12_segment_delims_irrelevant.

(* CR / LF / CRLF (any run of them) after the terminators changes nothing *)
Theorem C12_line_breaks_irrelevant :
  forall d conv segs, distinct_delims d = true -> delims_not_break d = true -> is_break conv = true ->
    forallb (clean_seg d) segs = true -> forallb id_starts_plain segs = true ->
    raw_spec (seg_term d) (encode d conv segs) = raw_spec (seg_term d) (encode d [] segs).
Proof. exact raw_spec_breaks. Qed.
Print Assumptions C12_line_breaks_irrelevant.

Theorem C12_reader_independent_partial :
  forall d1 d2 conv1 conv2 f body lx sch1 sch2,
    distinct_delims d1 = true -> distinct_delims d2 = true ->
    delims_not_break d1 = true -> delims_not_break d2 = true ->
    is_break conv1 = true -> is_break conv2 = true ->
    isa_fields_ok f = true ->
    clean_seg d1 (isa_for d1 f) = true -> clean_seg d2 (isa_for d2 f) = true ->
    body_ok d1 body = true -> body_ok d2 body = true ->
    forallb id_starts_plain body = true -> forallb ctl_simple body = true ->
    reading lx (encode d1 conv1 (isa_for d1 f :: body)) sch1 =
    reading lx (encode d2 conv2 (isa_for d2 f :: body)) sch2
    /\ exists v, reading lx (encode d1 conv1 (isa_for d1 f :: body)) sch1 = Ok v.
Proof. exact reading_delims_layout_independent. Qed.
Print Assumptions C12_reader_independent_partial.

(* segment validation (element checks, syntax notes, error texts and quoted values) does not look at the delimiters *)
Theorem C12_validation_delims_irrelevant :
  forall d1 d2 c sn sg, simple_positions_ok sn sg = true -> overflow_ok sn sg = true ->
    seg_is_valid d1 c sn sg = seg_is_valid d2 c sn sg.
Proof. exact validation_delims_irrelevant. Qed.
Print Assumptions C12_validation_delims_irrelevant.

(* the hypotheses are needed: a composite value at a simple position is quoted with the source's separator *)
Theorem C12_validation_needs_simple_positions :
  exists d1 d2 c sn sg, overflow_ok sn sg = true /\ seg_is_valid d1 c sn sg <> seg_is_valid d2 c sn sg.
Proof.
  do 5 eexists.
  split; [exact (proj1 (proj2 Witness12.simple_position_needed)) | exact (proj2 (proj2 Witness12.simple_position_needed))].
Qed.
Print Assumptions C12_validation_needs_simple_positions.

(* the walker: same node found, same loop pushes / pops, same counters, same errors; the events differ only in the
   delimiters they carry along *)
Theorem C12_walker_delims_irrelevant :
  forall m w start d1 d2 sg sc cl ls, match_ok_everywhere m sg = true ->
    let '(w1, ev1, r1) := walk_st m w start d1 sg sc cl ls in
    let '(w2, ev2, r2) := walk_st m w start d2 sg sc cl ls in
    w1 = w2 /\ r1 = r2 /\ map strip_delims ev1 = map strip_delims ev2.
Proof. exact walker_delims_irrelevant. Qed.
Print Assumptions C12_walker_delims_irrelevant.
