(* Props/C12.v — property C12: validation results do not depend on delimiters or line layout.
   Statements only (proofs: Proofs/C12_reader.v, C12_lemmas.v).

   PARTIAL.  Proved here, for the reader (segmentation, segment construction, every envelope / control-number /
   counter / HL / LX check and its source position): the same document written with any two admissible delimiter
   triples and any two line-break conventions, fed in any chunking, is read as the same segments (ISA16, which IS a
   delimiter, apart) with the same errors at the same positions.  Hypothesis ctl_simple (the elements the reader
   interprets carry one component) is the part of "for all documents" the theorem does not cover.  The remaining
   pipeline (walker, element validation, acknowledgement) takes the parsed segments as input; its independence of
   the delimiters is NOT a theorem: the check compares complete runs of the implementation on re-encoded documents. *)
From Coq Require Import String.
From PX.Lib Require Import Base PyStr.
From PX.Model Require Import Path Segment Raw Reader.
From PX.Spec Require Import C01_spec C12_spec.
From PX.Proofs Require Import C01_roundtrip C12_reader.

(* a parsed segment does not remember the delimiters it was written with *)
Theorem C12_segment_delims_irrelevant :
  forall d1 d2 s, distinct_delims d1 = true -> distinct_delims d2 = true ->
    clean_seg d1 s = true -> clean_seg d2 s = true ->
    parse_seg d1 (format_seg d1 s) = parse_seg d2 (format_seg d2 s).
Proof. exact parse_format_delims_irrelevant. Qed.
Print Assumptions C12_segment_delims_irrelevant.

(* CR / LF / CRLF (any run of them) after the terminators changes nothing *)
Theorem C12_line_breaks_irrelevant :
  forall d conv segs, distinct_delims d = true -> delims_not_break d = true -> is_break conv = true ->
    forallb (clean_seg d) segs = true -> forallb id_starts_plain segs = true ->
    raw_spec (seg_term d) (encode d conv segs) = raw_spec (seg_term d) (encode d [] segs).
Proof. exact raw_spec_breaks. Qed.
Print Assumptions C12_line_breaks_irrelevant.

Theorem C12_reader_independent_partial :
  forall d1 d2 conv1 conv2 f body lx sch1 sch2,
    distinct_delims d1 = true -> distinct_delims d2 = true ->
    delims_not_break d1 = true -> delims_not_break d2 = true ->
    is_break conv1 = true -> is_break conv2 = true ->
    isa_fields_ok f = true ->
    clean_seg d1 (isa_for d1 f) = true -> clean_seg d2 (isa_for d2 f) = true ->
    body_ok d1 body = true -> body_ok d2 body = true ->
    forallb id_starts_plain body = true -> forallb ctl_simple body = true ->
    reading lx (encode d1 conv1 (isa_for d1 f :: body)) sch1 =
    reading lx (encode d2 conv2 (isa_for d2 f :: body)) sch2
    /\ exists v, reading lx (encode d1 conv1 (isa_for d1 f :: body)) sch1 = Ok v.
Proof. exact reading_delims_layout_independent. Qed.
Print Assumptions C12_reader_independent_partial.
