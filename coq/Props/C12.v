(* Props/C12.v — property C12: validation results do not depend on delimiters or line layout.
   Statements only (proofs: Proofs/C12_reader.v, C12_lemmas.v).

   Proved, layer by layer and END TO END.
   Reader (segmentation, segment construction, every envelope / control-number / counter / HL / LX check and its
   source position): the same document written with any two admissible delimiter triples and any two line-break
   conventions, fed in any chunking, is read as the same segments (ISA16, which IS a delimiter, apart) with the same
   errors at the same positions (C12_reader_independent_partial; hypothesis ctl_simple: the elements the reader
   interprets carry one component).  Segment validation and the walker: C12_validation_delims_irrelevant,
   C12_walker_delims_irrelevant, each under a computable hypothesis saying that no composite value is read where the
   map expects a simple element (necessary: Witness12).
   End to end (Spec/C12_doc_spec.v, Proofs/C12_doc_*.v): C12_pipeline_independent — for every environment, clock and
   document (15 header fields + any body), any two admissible triples and line conventions: x12n_document with the
   acknowledgement sink returns the SAME verdict, writes the SAME acknowledgement text, and makes the same handler
   calls up to the delimiters the segment objects carry (strip_dev), provided the layer hypotheses hold along the
   run (computable doc_layers_ok, implied by "every element single valued": C12_driver_independent_plain) and the
   ISA segment validates alike under both triples (isa_valid_same: ISA16 is validated as DATA against the character
   set, so under the basic set a '>' separator draws an error a ':' does not — proved necessary).  The 997 / 999 bodies
   do not depend on the source delimiters at all, whatever the echoed values.  Each hypothesis has a machine-checked
   counterexample (Proofs/C12_doc_cex.v).
   PARTIAL: the HTML report prints segments with the source's delimiters (by design) and the XML sink was not
   examined; the hypotheses are sufficient and individually necessary, not a characterisation.  The check still
   compares complete runs of the implementation on re-encoded documents. *)
From Coq Require Import String.
From PX.Lib Require Import Base PyStr.
From PX.Model Require Import Path Segment Raw Reader MapLoad MapTree Element Walker MapEnv Driver Pipeline.
From PX.Spec Require Import C01_spec C12_spec C12b_spec C12_doc_spec.
From PX.Proofs Require Import C01_roundtrip C12_reader C12_layers C12_doc_run C12_doc_pipeline.

(* a parsed segment does not remember the delimiters it was written with *)
Theorem C12_segment_delims_irrelevant :
  forall d1 d2 s, distinct_delims d1 = true -> distinct_delims d2 = true ->
    clean_seg d1 s = true -> clean_seg d2 s = true ->
    parse_seg d1 (format_seg d1 s) = parse_seg d2 (format_seg d2 s).
Proof. exact parse_format_delims_irrelevant. Qed.
Print Assumptions C12_segment_delims_irrelevant.

(* CR / LF / CRLF (any run of them) after the terminators changes nothing *)
Theorem C12_line_breaks_irrelevant :
  forall d conv segs, distinct_delims d = true -> delims_not_break d = true -> is_break conv = true ->
    forallb (clean_seg d) segs = true -> forallb id_starts_plain segs = true ->
    raw_spec (seg_term d) (encode d conv segs) = raw_spec (seg_term d) (encode d [] segs).
Proof. exact raw_spec_breaks. Qed.
Print Assumptions C12_line_breaks_irrelevant.

Theorem C12_reader_independent_partial :
  forall d1 d2 conv1 conv2 f body lx sch1 sch2,
    distinct_delims d1 = true -> distinct_delims d2 = true ->
    delims_not_break d1 = true -> delims_not_break d2 = true ->
    is_break conv1 = true -> is_break conv2 = true ->
    isa_fields_ok f = true ->
    clean_seg d1 (isa_for d1 f) = true -> clean_seg d2 (isa_for d2 f) = true ->
    body_ok d1 body = true -> body_ok d2 body = true ->
    forallb id_starts_plain body = true -> forallb ctl_simple body = true ->
    reading lx (encode d1 conv1 (isa_for d1 f :: body)) sch1 =
    reading lx (encode d2 conv2 (isa_for d2 f :: body)) sch2
    /\ exists v, reading lx (encode d1 conv1 (isa_for d1 f :: body)) sch1 = Ok v.
Proof. exact reading_delims_layout_independent. Qed.
Print Assumptions C12_reader_independent_partial.

(* segment validation (element checks, syntax notes, error texts and quoted values) does not look at the delimiters *)
Theorem C12_validation_delims_irrelevant :
  forall d1 d2 c sn sg, simple_positions_ok sn sg = true -> overflow_ok sn sg = true ->
    seg_is_valid d1 c sn sg = seg_is_valid d2 c sn sg.
Proof. exact validation_delims_irrelevant. Qed.
Print Assumptions C12_validation_delims_irrelevant.

(* the hypotheses are needed: a composite value at a simple position is quoted with the source's separator *)
Theorem C12_validation_needs_simple_positions :
  exists d1 d2 c sn sg, overflow_ok sn sg = true /\ seg_is_valid d1 c sn sg <> seg_is_valid d2 c sn sg.
Proof.
  do 5 eexists.
  split; [exact (proj1 (proj2 Witness12.simple_position_needed)) | exact (proj2 (proj2 Witness12.simple_position_needed))].
Qed.
Print Assumptions C12_validation_needs_simple_positions.

(* the walker: same node found, same loop pushes / pops, same counters, same errors; the events differ only in the
   delimiters they carry along *)
Theorem C12_walker_delims_irrelevant :
  forall m w start d1 d2 sg sc cl ls, match_ok_everywhere m sg = true ->
    let '(w1, ev1, r1) := walk_st m w start d1 sg sc cl ls in
    let '(w2, ev2, r2) := walk_st m w start d2 sg sc cl ls in
    w1 = w2 /\ r1 = r2 /\ map strip_delims ev1 = map strip_delims ev2.
Proof. exact walker_delims_irrelevant. Qed.
Print Assumptions C12_walker_delims_irrelevant.

(* END TO END: verdict, acknowledgement text and handler calls of x12n_document do not depend on delimiters / layout *)
Theorem C12_pipeline_independent :
  forall load idx clk htime dtd d1 d2 conv1 conv2 f body,
    distinct_delims d1 = true -> distinct_delims d2 = true ->
    delims_not_break d1 = true -> delims_not_break d2 = true ->
    is_break conv1 = true -> is_break conv2 = true ->
    isa_fields_ok f = true ->
    clean_seg d1 (isa_for d1 f) = true -> clean_seg d2 (isa_for d2 f) = true ->
    body_ok d1 body = true -> body_ok d2 body = true ->
    forallb id_starts_plain body = true -> forallb ctl_simple body = true ->
    isa_valid_same load d1 d2 f ->
    doc_layers_ok load idx (encode d1 conv1 (isa_for d1 f :: body)) = true ->
    let o1 := run_pipeline_gen load idx clk htime dtd ack_only (encode d1 conv1 (isa_for d1 f :: body)) in
    let o2 := run_pipeline_gen load idx clk htime dtd ack_only (encode d2 conv2 (isa_for d2 f :: body)) in
    o_result o1 = o_result o2 /\ o_ack o1 = o_ack o2 /\ map strip_dev (o_trace o1) = map strip_dev (o_trace o2).
Proof. exact pipeline_ack_delims_layout_independent. Qed.
Print Assumptions C12_pipeline_independent.

(* the layer hypotheses follow from "every element of the body is single valued" *)
Theorem C12_driver_independent_plain :
  forall load idx d1 d2 conv1 conv2 f body,
    distinct_delims d1 = true -> distinct_delims d2 = true ->
    delims_not_break d1 = true -> delims_not_break d2 = true ->
    is_break conv1 = true -> is_break conv2 = true ->
    isa_fields_ok f = true ->
    clean_seg d1 (isa_for d1 f) = true -> clean_seg d2 (isa_for d2 f) = true ->
    body_ok d1 body = true -> body_ok d2 body = true ->
    forallb id_starts_plain body = true -> forallb ctl_simple body = true ->
    isa_valid_same load d1 d2 f ->
    body_plain body = true ->
    snd (run_document_gen load idx (encode d1 conv1 (isa_for d1 f :: body))) =
    snd (run_document_gen load idx (encode d2 conv2 (isa_for d2 f :: body))) /\
    map strip_dev (fst (run_document_gen load idx (encode d1 conv1 (isa_for d1 f :: body)))) =
    map strip_dev (fst (run_document_gen load idx (encode d2 conv2 (isa_for d2 f :: body)))).
Proof. exact driver_delims_layout_independent_plain. Qed.
Print Assumptions C12_driver_independent_plain.
