(* Props/C16.v — property C16: shipped maps, index and code tables are
   consistent and fully addressable.  Statements only.  Finite by nature: the
   bound is the shipped configuration, regenerated from /repo/pyx12/map on
   every run (Gen/Maps, Gen/C16). *)
From Coq Require Import String.
From PX.Lib Require Import Base Xml.
From PX.Gen Require Import MapRegexes MapFiles.
From PX.Gen.Maps Require M_dataele M_codes M_maps.
From PX.Gen.C16 Require Import Index.
From PX.Model Require Import MapLoad.
From PX.Spec Require Import C16_spec.

(* For every map file the index names (and the two control maps), the loader
   model loads it and the list of offenders against the clauses of the property
   — undefined data element / external code set references, ill-formed usages,
   limits, positions or syntax notes, same-position siblings that cannot be
   told apart, nodes that cannot be fetched again by their own path, duplicate
   paths — is exactly the expected one: empty, except for the recorded findings
   (see Gen/C16/Index.v `checked` and known_findings.json). *)
Theorem C16_maps_consistent :
  Forall (fun c => map_offenders map_regexes M_dataele.tree M_codes.tree (snd (fst c)) = snd c) checked.
Proof. exact checked_ok. Qed.
Print Assumptions C16_maps_consistent.

(* The index keys are unambiguous, and every file the index names is among the checked maps. *)
Theorem C16_index_consistent :
  index_unambiguous the_index = true /\
  index_missing_files the_index map_file_names = expected_missing /\
  forallb (fun a => match mi_file a with
                    | Some f => mem_str f (map (fun c => fst (fst c)) checked) || mem_str f expected_missing
                    | None => false end) the_index = true.
Proof. exact index_ok. Qed.
Print Assumptions C16_index_consistent.
