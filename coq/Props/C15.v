(* Props/C15.v — property C15: element/composite validation enforces exactly
   what the map declares.  Statements only; clauses: Spec/C15_spec.v. *)
From Coq Require Import String.
From PX.Lib Require Import Base PyStr.
From PX.Model Require Import MapLoad MapTree Element.
From PX.Spec Require Import C15_spec C15_link.
From PX.Proofs Require Import C15_element.

(* On a well-formed definition the element check never raises, whatever the value. *)
Theorem C15_total :
  forall sub c e de pc v fs, wf_def c e de -> exists b evs, elem_is_valid sub c e pc (edata_of v) fs = Ok (b, evs).
Proof. exact elem_total. Qed.
Print Assumptions C15_total.

(* Without a control character in the value, the set of codes reported is EXACTLY the set the
   definition implies (independent clauses: missing when required, present when not used, too
   short / too long with sign and point not counted, needless trailing blanks, outside inline
   and external code lists, not of the declared type, not of the qualifier-selected format,
   not matching the pattern) — for every definition, value, charset setting, exclusion list. *)
Theorem C15_exact :
  forall sub c e de pc v fs b evs,
  wf_def c e de -> formats_datetime fs ->
  has_control_char (match v with Some x => x | None => [] end) = false ->
  elem_is_valid sub c e pc (edata_of v) fs = Ok (b, evs) ->
  forall code, In code (codes_of evs) <-> implies (x_charset c) (icvn_of c) (def_of c e de pc) fs v code = true.
Proof. exact elem_exact. Qed.
Print Assumptions C15_exact.

(* Always: every reported code is implied (no spurious error). *)
Theorem C15_sound :
  forall sub c e de pc v fs b evs,
  wf_def c e de -> formats_datetime fs ->
  elem_is_valid sub c e pc (edata_of v) fs = Ok (b, evs) ->
  forall code, In code (codes_of evs) -> implies (x_charset c) (icvn_of c) (def_of c e de pc) fs v code = true.
Proof. exact elem_sound. Qed.
Print Assumptions C15_sound.

(* With a control character (recorded finding C15-control-char-preempts): exactly the length
   codes and 6 — the later clauses are not evaluated. *)
Theorem C15_control_char_preempts :
  forall sub c e de pc x fs b evs,
  wf_def c e de -> has_control_char x = true -> C15_spec.usage_is (e_usage e) "N" = false ->
  elem_is_valid sub c e pc (Some [x]) fs = Ok (b, evs) ->
  b = false /\ forall code, In code (codes_of evs) <-> implies_with_control_char (def_of c e de pc) x code = true.
Proof. exact elem_control_char. Qed.
Print Assumptions C15_control_char_preempts.

(* The boolean result is false exactly when an error was reported. *)
Theorem C15_bool_iff_error :
  forall sub c e de pc v fs b evs,
  wf_def c e de -> formats_datetime fs ->
  elem_is_valid sub c e pc (edata_of v) fs = Ok (b, evs) ->
  (b = false <-> codes_of evs <> []).
Proof. exact elem_bool. Qed.
Print Assumptions C15_bool_iff_error.
