(* Props/C15.v — property C15 (statements only).  Filled as proofs land. *)
From PX.Lib Require Import Base.
