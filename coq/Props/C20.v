(* Props/C20.v — property C20: the normaliser preserves content, is idempotent
   and repairs counts.  Statements only.  The normaliser is
   read (C01) -> optional count repair -> format; so content preservation is
   C01's round-trip theorems (re-exported here), idempotence is the stability
   of formatting under read-then-format, and the repair is characterised on
   the reader's own check. *)
From Coq Require Import String.
From PX.Lib Require Import Base PyStr.
From PX.Model Require Import Path Segment Raw Reader Writer Norm.
From PX.Spec Require Import C01_spec.
From PX.Proofs Require Import C01_roundtrip C17_segment C20_norm.

(* What is written for a segment, read back, is the same segment up to the
   documented trimming (values and delimiters preserved). *)
Theorem C20_content_preserved :
  forall d s, distinct_delims d = true -> clean_seg d s = true ->
  canon (parse_seg d (format_seg d s)) = canon s.
Proof. exact parse_format_canon. Qed.
Print Assumptions C20_content_preserved.

(* The written text tokenises back into exactly those segments (one per line or not). *)
Theorem C20_output_rereads :
  forall d segs, distinct_delims d = true ->
  forallb (clean_seg d) segs = true -> forallb id_starts_plain segs = true ->
  map (seg_of_line d) (raw_spec (seg_term d) (concat (map (format_seg d) segs)))
  = map (fun s => parse_seg d (format_seg d s)) segs.
Proof. exact reread. Qed.
Print Assumptions C20_output_rereads.

(* Normalising the output again changes nothing: formatting is a fixed point of read-then-format. *)
Theorem C20_idempotent :
  forall d s, distinct_delims d = true -> clean_seg d s = true ->
  format_seg d (parse_seg d (format_seg d s)) = format_seg d s.
Proof. exact format_stable. Qed.
Print Assumptions C20_idempotent.

(* Count fixing alters nothing but the first element (the count / sequence number) ... *)
Theorem C20_fix_only_count :
  forall d x s es s', fix_seg d x s es = Ok s' ->
  sid s' = sid s /\ forall i j, i <> 0 -> cell s' i j = cell s i j.
Proof. exact fix_only_count. Qed.
Print Assumptions C20_fix_only_count.

(* ... and nothing at all when there is no count error. *)
Theorem C20_fix_noop :
  forall d x s es,
  has_code "021" es = false -> has_code "5" es = false -> has_code "4" es = false -> has_code "HL1" es = false ->
  fix_seg d x s es = Ok s.
Proof. exact fix_noop. Qed.
Print Assumptions C20_fix_noop.

(* After the repair the trailer reads without its count error, with exactly the
   same other errors and the same reader state (SE / GE / IEA).  The hypothesis
   that the trailer is not empty is needed: an element-less trailer also loses
   its "segment is empty" error once a count is written (C20_norm.v proves the
   statement without it false). *)
Theorem C20_fix_repairs_se :
  forall d x s x' es s',
  sep_not_numeric d -> sid_is s "SE" = true -> seg_empty s = false ->
  reader_step d x s = Ok (x', es) -> has_code "4" es = true -> fix_seg d x' s es = Ok s' ->
  exists es', reader_step d x s' = Ok (x', es') /\ has_code "4" es' = false /\ codes_but "4" es' = codes_but "4" es.
Proof. exact fix_repairs_se. Qed.
Print Assumptions C20_fix_repairs_se.

Theorem C20_fix_repairs_ge :
  forall d x s x' es s',
  sep_not_numeric d -> sid_is s "GE" = true -> seg_empty s = false ->
  reader_step d x s = Ok (x', es) -> has_code "5" es = true -> fix_seg d x' s es = Ok s' ->
  exists es', reader_step d x s' = Ok (x', es') /\ has_code "5" es' = false /\ codes_but "5" es' = codes_but "5" es.
Proof. exact fix_repairs_ge. Qed.
Print Assumptions C20_fix_repairs_ge.

Theorem C20_fix_repairs_iea :
  forall d x s x' es s',
  sep_not_numeric d -> sid_is s "IEA" = true -> seg_empty s = false ->
  reader_step d x s = Ok (x', es) -> has_code "021" es = true -> fix_seg d x' s es = Ok s' ->
  exists es', reader_step d x s' = Ok (x', es') /\ has_code "021" es' = false /\ codes_but "021" es' = codes_but "021" es.
Proof. exact fix_repairs_iea. Qed.
Print Assumptions C20_fix_repairs_iea.
