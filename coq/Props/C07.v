(* Props/C07.v — property C07: validation is total: any input yields a verdict or a documented refusal.
   Statements only.  Proofs: Proofs/C07_walker*.v, C07_valid.v, C07_errh.v, C07_zone.v, C07_first_ev.v, C07_text.v,
   C07_driver.v, C07_driver_maps.v; C04_reader.v, C01_raw.v.

   PARTIAL, in two respects (the premise plain_delims; three loop ids of the context reader).
   Premise plain_delims: the segment terminator and the element separator of the header are not among the letters
   I, S, A and differ.  Without it the statement is FALSE: C07_letter_terminator_raises (a recorded finding).
   The sinks are covered: C07_pipeline_total is about run_pipeline_gen = x12n_document with ANY subset of the
   acknowledgement / HTML / XML sinks, on every environment whose maps additionally satisfy the computable predicate
   sinks_ok (Spec/C07_sinks_spec.v), and C07_shipped_sinks_ok shows the shipped maps do.
   The context reader (Spec/C07_ctx_spec.v, Proofs/C07_ctx_*.v): C07_context_reader_total — for every environment
   satisfying the computable per-map condition cenv_ok for the requested loop id (maps well-formed for the tree
   builder; the requested loop, where it exists, begins with a SEGMENT; the three walker-bypassing jumps of the reader
   cannot land inside the requested loop) and every text with plain delimiters, iter_segments completes or raises
   X12Error / EngineError; C07_shipped_context_reader_total — the shipped configuration satisfies it for EVERY loop
   id (existing or not) except DETAIL, TABLE2AREA2 and TABLE2AREA3.  Those three begin with a LOOP, and for them the
   statement is false of the code: C07_context_reader_wrapper_loop_raises (AttributeError; recorded finding). *)
From Coq Require Import String.
From PX.Lib Require Import Base PyStr Xml.
From PX.Gen.Maps Require M_maps.
From PX.Model Require Import Path Segment Raw Reader MapLoad MapTree Walker Element Driver Pipeline Context CtxReader.
From PX.Spec Require Import C01_spec C07_walker_wf C07_valid_wf C07_spec C07_sinks_spec C07_ctx_spec.
From PX.Proofs Require Import C04_reader C07_walker C07_valid C07_text C07_driver C07_driver_maps Pipeline_off C07_pipeline C07_pipeline_maps C07_ctx_step C07_ctx_maps C07_ctx_all.

(* The reader's envelope bookkeeping raises nothing but the documented X12Error, whatever the segments. *)
Theorem C07_reader_steps_total :
  forall dl x segs, match run_steps dl x segs with Ok _ => True | Raise e => e = X12Error end.
Proof. exact reader_total. Qed.
Print Assumptions C07_reader_steps_total.

(* The walker never raises on a map satisfying the computable predicate walker_wf, for ANY data segment and state,
   and returns a segment node of the map or nothing. *)
Theorem C07_walker_total :
  forall m w start d sg seg_count cur_line ls_id,
    walker_wf m = true -> seg_ref m start ->
    match walk_st m w start d sg seg_count cur_line ls_id with
    | (_, _, Ok (Some r', _, _)) => seg_ref m r'
    | (_, _, Ok (None, _, _)) => True
    | (_, _, Raise e) => False
    end.
Proof. exact walker_total. Qed.
Print Assumptions C07_walker_total.

(* Segment validation never raises on a map satisfying valid_wf, for ANY data segment. *)
Theorem C07_validation_total :
  forall m sn d sg, valid_wf m = true -> seg_node_of m sn ->
    exists b evs, seg_is_valid d (ctx_of m) sn sg = Ok (b, evs).
Proof. exact validation_total. Qed.
Print Assumptions C07_validation_total.

(* THE THEOREM: for every environment whose maps satisfy the computable predicate map_ok (or fail to load with
   EngineError) and EVERY text with plain delimiters, validation returns a verdict or raises X12Error / EngineError. *)
Theorem C07_driver_total :
  forall load idx text, env_ok load idx -> plain_delims text = true ->
    match snd (run_document_gen load idx text) with Ok _ => True | Raise e => allowed e = true end.
Proof. exact driver_total_plain. Qed.
Print Assumptions C07_driver_total.

(* The shipped configuration (every map file regenerated from /repo/pyx12/map on this run) is such an environment;
   277.5010.X212, 820.4010.X061.A1 and 830.4010.PS are not covered (see DESIGN.md) and are absent from shipped_load. *)
Theorem C07_shipped_environment_ok : env_ok shipped_load shipped_idx.
Proof. exact shipped_env_ok. Qed.
Print Assumptions C07_shipped_environment_ok.

Theorem C07_shipped_total :
  forall text, plain_delims text = true ->
    match snd (run_document_gen shipped_load shipped_idx text) with Ok _ => True | Raise e => allowed e = true end.
Proof. exact shipped_total. Qed.
Print Assumptions C07_shipped_total.

(* the premise is needed: with the letter S as segment terminator the header is accepted, no segment is an ISA,
   and the interchange error of the IEA finds no interchange node *)
Theorem C07_letter_terminator_raises :
  header_ok no_isa_text = true /\ plain_delims no_isa_text = false /\
  snd (run_document_gen shipped_load shipped_idx no_isa_text) = Raise AttributeError.
Proof. split; [exact no_isa_header_ok|]. split; [exact no_isa_not_plain | exact no_isa_raises]. Qed.
Print Assumptions C07_letter_terminator_raises.

(* with all sinks off, the whole-pipeline model IS the driver *)
Theorem C07_pipeline_off_is_driver :
  forall load idx clk htime dtd text,
    run_pipeline_gen load idx clk htime dtd off text =
    {| o_result := snd (run_document_gen load idx text); o_ack := []; o_html := []; o_xml := [];
       o_trace := fst (run_document_gen load idx text); o_html_calls := [] |}.
Proof. exact pipeline_off_is_driver. Qed.
Print Assumptions C07_pipeline_off_is_driver.

(* THE THEOREM WITH SINKS: for every subset sk of the acknowledgement / HTML / XML sinks, every environment whose
   maps satisfy map_ok and sinks_ok, and EVERY text with plain delimiters, the whole pipeline returns a verdict or
   raises X12Error / EngineError. *)
Theorem C07_pipeline_total :
  forall load idx clk htime dtd sk text,
    env_ok_sinks load idx -> plain_delims text = true ->
    match o_result (run_pipeline_gen load idx clk htime dtd sk text) with
    | Ok _ => True | Raise e => allowed e = true end.
Proof. exact pipeline_total. Qed.
Print Assumptions C07_pipeline_total.

Theorem C07_shipped_sinks_ok : env_ok_sinks shipped_load shipped_idx.
Proof. exact shipped_env_ok_sinks. Qed.
Print Assumptions C07_shipped_sinks_ok.

(* ---- the context reader ---- *)
Theorem C07_context_reader_total :
  forall load idx loop_id text,
    cenv_ok loop_id load idx -> plain_delims text = true ->
    match ir_res (iter_segments_gen load idx loop_id text) with Ok _ => True | Raise e => allowed e = true end.
Proof. exact ctx_reader_total. Qed.
Print Assumptions C07_context_reader_total.

Theorem C07_shipped_context_reader_total :
  forall loop_id text,
    match loop_id with Some x => existsb (str_eqb x) shipped_bad = false | None => True end ->
    plain_delims text = true ->
    match ir_res (iter_segments_gen shipped_load shipped_idx loop_id text) with Ok _ => True | Raise e => allowed e = true end.
Proof. exact shipped_ctx_total_all. Qed.
Print Assumptions C07_shipped_context_reader_total.

(* the three excluded loop ids begin with a loop; there iteration raises AttributeError on a plain 837 *)
Theorem C07_context_reader_wrapper_loop_raises :
  shipped_bad = [sl "DETAIL"; sl "TABLE2AREA2"; sl "TABLE2AREA3"] /\
  plain_delims ctx_detail_text = true /\
  ir_res (iter_segments_gen shipped_load shipped_idx (Some (sl "DETAIL")) ctx_detail_text) = Raise AttributeError.
Proof. split; [reflexivity|]. split; [exact ctx_detail_plain | exact ctx_detail_raises]. Qed.
Print Assumptions C07_context_reader_wrapper_loop_raises.
