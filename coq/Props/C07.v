(* Props/C07.v — property C07: validation is total.  Statements only.  (work in progress: reader level) *)
From Coq Require Import String.
From PX.Lib Require Import Base PyStr.
From PX.Model Require Import Path Segment Raw Reader.
From PX.Proofs Require Import C04_reader.

(* The envelope bookkeeping of the reader raises nothing but the documented X12Error, whatever the segments. *)
Theorem C07_reader_steps_total :
  forall dl x segs, match run_steps dl x segs with Ok _ => True | Raise e => e = X12Error end.
Proof. exact reader_total. Qed.
Print Assumptions C07_reader_steps_total.
