(* Props/C17.v — property C17 (statements only).  Filled as proofs land. *)
From PX.Lib Require Import Base.
