(* Props/C17.v — property C17: reference-designator and path addressing is
   consistent.  Statements only; the grammar is Spec/C17_spec.v. *)
From Coq Require Import String.
From PX.Lib Require Import Base PyStr.
From PX.Model Require Import Path Segment.
From PX.Spec Require Import C17_spec.
From PX.Proofs Require Import C17_path C17_segment.

(* Parsing the printed form of any well-formed path (any depth, any ids) yields exactly its parts. *)
Theorem C17_parse_print :
  forall p, wf_path p ->
  exists x, parse_path (print_path p) = Ok x /\
    relative x = p_rel p /\ loop_list x = p_loops p /\ seg_id x = expected_seg p /\
    id_val x = expected_qual p /\ ele_idx x = expected_ele p /\ subele_idx x = expected_sub p.
Proof. exact parse_print. Qed.
Print Assumptions C17_parse_print.

(* Printing reproduces the text. *)
Theorem C17_format_parse :
  forall p x, wf_path p -> parse_path (print_path p) = Ok x -> format_path x = print_path p.
Proof. exact format_parse. Qed.
Print Assumptions C17_format_parse.

(* Parsing the printed form gives an equal path. *)
Theorem C17_reparse_equal :
  forall p x, wf_path p -> parse_path (print_path p) = Ok x ->
  exists y, parse_path (format_path x) = Ok y /\ path_eqb x y = true.
Proof. exact reparse_equal. Qed.
Print Assumptions C17_reparse_equal.

(* A qualifier or element index that follows loop ids without a segment id is rejected with the path error. *)
Theorem C17_rejects :
  forall (rel : bool) loops r,
  loops <> [] -> forallb wf_loop loops = true -> shape_ok r = true ->
  r_seg r = None -> (r_qual r <> None \/ r_ele r <> None \/ r_sub r <> None) ->
  parse_path ((if rel then [] else ["/"%char]) ++ join "/"%char loops ++ "/"%char :: print_refdes r)
    = Raise X12PathError.
Proof. exact rejects. Qed.
Print Assumptions C17_rejects.

(* Segment: write then read the same element designator. *)
Theorem C17_set_get_element :
  forall d s i v, value_ok d s i v ->
  exists s', set_ix d s (zi i, None) v = Ok s' /\
             get_ix s' (zi i, None) = Ok (GotComp [v]) /\ value_of d (GotComp [v]) = Some v.
Proof. exact set_get_ele. Qed.
Print Assumptions C17_set_get_element.

(* ... and component designator. *)
Theorem C17_set_get_component :
  forall d s i j v, is_isa16 s i = false ->
  exists s', set_ix d s (zi i, zi j) v = Ok s' /\ get_ix s' (zi i, zi j) = Ok (GotEle v).
Proof. exact set_get_comp. Qed.
Print Assumptions C17_set_get_component.

(* The segment is extended with empty positions exactly as far as needed. *)
Theorem C17_set_extends :
  forall d s i cj v s', set_ix d s (zi i, option_map Z.of_nat cj) v = Ok s' ->
  seg_len s' = Nat.max (seg_len s) (S i) /\ sid s' = sid s.
Proof. exact set_extends. Qed.
Print Assumptions C17_set_extends.

(* Every other position is unchanged. *)
Theorem C17_set_frame :
  forall d s i j v s', is_isa16 s i = false -> set_ix d s (zi i, zi j) v = Ok s' ->
  forall i' j', cell s' i' j' = if (i' =? i) && (j' =? j) then v else cell s i' j'.
Proof. exact set_frame_comp. Qed.
Print Assumptions C17_set_frame.

Theorem C17_set_frame_element :
  forall d s i v s', value_ok d s i v -> set_ix d s (zi i, None) v = Ok s' ->
  forall i' j', cell s' i' j' = if i' =? i then (if j' =? 0 then v else []) else cell s i' j'.
Proof. exact set_frame_ele. Qed.
Print Assumptions C17_set_frame_element.

(* A designator naming another segment is refused, for set and get. *)
Theorem C17_other_segment_refused :
  forall d s rd v xp x, parse_path rd = Ok xp -> seg_id xp = Some x -> sid s <> Some x ->
  seg_set d s rd v = Raise EngineError /\ seg_get s rd = Raise EngineError.
Proof. exact other_segment_refused. Qed.
Print Assumptions C17_other_segment_refused.

(* Arbitrary sequences of writes refine a finite map from positions to values. *)
Theorem C17_write_sequences :
  forall d s ops, no_isa16 s ops ->
  exists s', run_sets d s ops = Ok s' /\ forall i j, cell s' i j = fold_left upd ops (cell s) i j.
Proof. exact run_sets_refines. Qed.
Print Assumptions C17_write_sequences.

(* The link between designators and positions: a printed, well-formed designator
   (with or without the segment's own id) addresses element NN and component M. *)
From PX.Proofs Require Import C17_link.
Theorem C17_designator_indices :
  forall s r e, wf_refdes r = true -> r_ele r = Some e -> (r_seg r = None \/ r_seg r = sid s) ->
  parse_refdes s (print_refdes r) = Ok (Some (idx_of e), option_map idx_of (r_sub r)).
Proof. exact refdes_indices. Qed.
Print Assumptions C17_designator_indices.

Theorem C17_designator_other_segment :
  forall s r x, wf_refdes r = true -> r_seg r = Some x -> sid s <> Some x ->
  parse_refdes s (print_refdes r) = Raise EngineError.
Proof. exact refdes_other_segment. Qed.
Print Assumptions C17_designator_other_segment.
