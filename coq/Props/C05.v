(* Props/C05.v — property C05 (work in progress). *)
From Coq Require Import String.
From PX.Lib Require Import Base.
