(* Props/C05.v — property C05: verdict, reported errors and acknowledgement always agree.
   Statements only.  Specs: Spec/C05_spec.v, Spec/C05_spec999.v.  Proofs: Proofs/C05_ack.v, C05_ack999.v, C05_verdict.v,
   C05_tree.v, C05_forms.v, C05_printable.v, C05_examples.v (on top of the C06 envelope proofs).

   What is proved, for EVERY error tree (state of error_handler.err_handler) and clock:
   - the 997 / 999 written is exactly envelope + one numbered set per functional group node, whose body is a function
     (expected_sets_997 / _999, Spec) of the tree: AK1, then per set AK2, its AK3 / AK4 (IK3 / IK4) items in tree
     order with the segment position, element position, code and offending value of the node, AK5 (IK5) with the
     set's code, then AK9 with the group's code and totals (C05_997_content, C05_999_content);
   - it names every group and every set of the tree, in order, with their own control numbers
     (C05_names_every_group_and_set, C05_tree_is_visited: the handler API only ever builds trees all of whose nodes
     are visited);
   - a set is marked accepted exactly when no counted error lies inside it (C05_set_accepted_iff_no_counted_error);
   - the group totals are declared (GE01) / received (reader's count) / accepted = received - failed sets
     (C05_group_totals, C05_group_totals_origin);
   - the verdict is True exactly when no validation failed and the tree counts no error (C05_verdict_definition), and
     a tree with no counted error has every group and set accepted (C05_error_free_all_accepted).

   PARTIAL.  "no error reported at any level <-> accepted" is FALSE of the code in three corners, each a proved
   counterexample below and a recorded finding (known_findings.json: C05-errors-on-envelope-lines-do-not-count,
   C05-unlocated-set-counted-accepted): an element error on the ST line is not counted by the set; an element error
   on the GS line is counted by the verdict but the group is acknowledged A; a group that is never closed is
   acknowledged R / 0 / 0 / 0 whatever it contains.  That the error tree is the tree of the errors the validator
   reported (driver -> handler calls) is checked by correspondence (walk / pipeline units), not proved here. *)
From Coq Require Import String ZArith.
From PX.Lib Require Import Base PyStr PyInt.
From PX.Model Require Import Show Path Segment Errh Ack997 Ack999.
From PX.Model Require Driver.
From PX.Spec Require Import C06_spec C05_spec C05_spec999.
From PX.Proofs Require Import C06_lemmas C06_ack997 C06_ack999 C06_ack C05_ack C05_ack999 C05_verdict C05_tree C05_forms
                              C05_printable C05_examples.
Local Notation l := list_ascii_of_string.

(* ---- the content of the 997: nothing assumed about the tree or the clock ---- *)
Theorem C05_997_content :
  forall ck h h' lines, render_997 ck h = (h', lines, None) ->
  exists isa gs trailer,
    lines = map line_997 ([isa; gs] ++ number_sets 1 (expected_sets_997 h) ++ trailer) /\
    has_sid isa "ISA" = true /\ has_sid gs "GS" = true /\
    (exists x6, gs06_of h = Some x6 /\
       (trailer = [ge_997 (length (expected_sets_997 h)) x6; iea_997 ck] \/
        exists ta1, has_sid ta1 "TA1" = true /\ trailer = [ge_997 (length (expected_sets_997 h)) x6; ta1; iea_997 ck])) /\
    h' = normalise_997 h.
Proof. exact ack997_content_any. Qed.
Print Assumptions C05_997_content.

Theorem C05_999_content :
  forall ck h h' lines, render_999 ck h = (h', lines, None) ->
  exists isa gs trailer,
    lines = map line_999 ([isa; gs] ++ number_sets_999 1 (expected_sets_999 h) ++ trailer) /\
    has_sid isa "ISA" = true /\ has_sid gs "GS" = true /\
    (trailer = [ge_999 ck (length (expected_sets_999 h)); iea_999 ck] \/
     exists ta1, has_sid ta1 "TA1" = true /\ trailer = [ge_999 ck (length (expected_sets_999 h)); ta1; iea_999 ck]) /\
    h' = normalise_997 h.
Proof. exact ack999_content_any. Qed.
Print Assumptions C05_999_content.

(* the spec's totalising defaults (val, valZ, okl, the_seg) never show on a tree that yields a 997 *)
Theorem C05_997_spec_defaults_unused :
  forall ck h h' lines, render_997 ck h = (h', lines, None) -> printable_997 h.
Proof. exact render_997_printable. Qed.
Print Assumptions C05_997_spec_defaults_unused.

(* ---- names every group and set, in order ---- *)
Theorem C05_names_every_group_and_set :
  forall ck h h' lines, render_997 ck h = (h', lines, None) ->
  exists segs, lines = map line_997 segs /\ filter is_ak12 segs = names_997 h.
Proof. exact ack_names_every_group_and_set. Qed.
Print Assumptions C05_names_every_group_and_set.

Theorem C05_names_every_group_and_set_999 :
  forall ck h h' lines, render_999 ck h = (h', lines, None) ->
  exists segs, lines = map line_999 segs /\ filter is_ak12 segs = names_999 h.
Proof. exact ack999_names_every_group_and_set. Qed.
Print Assumptions C05_names_every_group_and_set_999.

(* whatever sequence of handler API calls built the tree (raising ones included), the names are ALL its group nodes,
   each followed by its own sets, and these sets put end to end are ALL set nodes, in creation order *)
Theorem C05_tree_is_visited :
  forall ms, Forall api_call ms ->
    let h := run_calls ms errh_init in
    names_997 h = flat_map (fun g => ak1_997 g :: map ak2_997 (nodes_at (h_st h) (gn_children g))) (h_gs h) /\
    flat_map (fun g => nodes_at (h_st h) (gn_children g)) (h_gs h) = h_st h.
Proof. intros ms H. apply tree_names. apply built_is_tree. exact H. Qed.
Print Assumptions C05_tree_is_visited.

(* ---- accepted exactly when no counted error ---- *)
Theorem C05_set_accepted_iff_no_counted_error :
  forall src h i t, c_st h = Some i -> nth_error (h_st h) i = Some t ->
  exists h' t', close_st_loop src h = (h', Ok tt) /\ nth_error (h_st h') i = Some t' /\
    (tn_ack t' = Some (l "A") <-> st_err_count h t = 0) /\
    (tn_ack t' = Some (l "R") <-> st_err_count h t <> 0) /\
    elc_is (ak5_997 h' t') 1 (st_code h t) = true.
Proof. exact set_accepted_iff_no_counted_error. Qed.
Print Assumptions C05_set_accepted_iff_no_counted_error.

Theorem C05_set_accepted_iff_no_counted_error_999 :
  forall src h i t, c_st h = Some i -> nth_error (h_st h) i = Some t ->
  exists h' t', close_st_loop src h = (h', Ok tt) /\ nth_error (h_st h') i = Some t' /\
    elc_is (ik5_999 h' t') 1 (st_code h t) = true.
Proof. exact set_accepted_iff_no_counted_error_999. Qed.
Print Assumptions C05_set_accepted_iff_no_counted_error_999.

(* ---- group totals ---- *)
Theorem C05_group_totals :
  forall h g,
  let sets := nodes_at (h_st h) (gn_children g) in
  elc (ak9_997 h g) 1 = Some (split ":"%char (val (gs_ack_written g))) /\
  elc_is (ak9_997 h g) 2 (fmt_Zi (gn_orig g)) = true /\
  elc_is (ak9_997 h g) 3 (fmt_Zi (gn_recv g)) = true /\
  elc_is (ak9_997 h g) 4 (fmt_Zi (gs_accepted h g)) = true /\
  gs_count_failed_st h g + length (filter st_passed sets) = length sets /\
  gs_accepted h g = Z.max (gn_recv g - (Z.of_nat (length sets) - Z.of_nat (length (filter st_passed sets)))) 0 /\
  (gn_recv g = Z.of_nat (length sets) -> gs_accepted h g = Z.of_nat (length (filter st_passed sets))).
Proof. exact group_totals. Qed.
Print Assumptions C05_group_totals.

Theorem C05_group_totals_999 :
  forall h g,
  elc (ak9_999 h g) 1 = Some (split ":"%char (val (gs_ack_written g))) /\
  elc_is (ak9_999 h g) 2 (fmt_Zi (gn_orig g)) = true /\
  elc_is (ak9_999 h g) 3 (fmt_Zi (gn_recv g)) = true /\
  elc_is (ak9_999 h g) 4 (fmt_Zi (gs_accepted h g)) = true.
Proof. exact group_totals_999. Qed.
Print Assumptions C05_group_totals_999.

(* where the numbers come from: GE01 as an integer (0 if absent / not numeric), the reader's set counter, and the
   group's code decided at the GE *)
Theorem C05_group_totals_origin :
  forall x src h i g z, c_gs h = Some i -> nth_error (h_gs h) i = Some g -> ge01_count x = Ok z ->
  exists h' g', close_gs_loop (Some x) src h = (h', Ok tt) /\ nth_error (h_gs h') i = Some g' /\
    gn_orig g' = z /\ gn_recv g' = src_st_count src /\ gn_ack g' = Some (gs_ack_code h g) /\
    gn_children g' = gn_children g /\ gn_errors g' = gn_errors g /\ gn_elements g' = gn_elements g /\
    gn_fic g' = gn_fic g /\ gn_ctl g' = gn_ctl g /\
    h_isa h' = h_isa h /\ h_st h' = h_st h /\ h_seg h' = h_seg h /\ h_ele h' = h_ele h.
Proof. exact close_gs_loop_totals. Qed.
Print Assumptions C05_group_totals_origin.

(* ---- the verdict ---- *)
Theorem C05_verdict_definition :
  forall s s' b, Driver.finish s = (s', Ok b) ->
  (b = true <-> Driver.ds_valid s' = true /\ get_error_count (Driver.ds_errh s') = 0).
Proof. exact verdict_definition. Qed.
Print Assumptions C05_verdict_definition.

Theorem C05_error_count_zero_iff_clean : forall h, get_error_count h = 0 <-> heap_clean h.
Proof. exact error_count_zero. Qed.
Print Assumptions C05_error_count_zero_iff_clean.

Theorem C05_error_free_all_accepted :
  forall h, get_error_count h = 0 ->
  Forall (fun g => gs_ack_code h g = l "A" /\
                   Forall (fun t => st_err_count h t = 0) (nodes_at (h_st h) (gn_children g))) (visited_gs h).
Proof. exact error_free_all_accepted. Qed.
Print Assumptions C05_error_free_all_accepted.

(* ---- where "reported at any level <-> accepted" is false of the code (recorded findings) ---- *)
(* an element error on the ST line (ST02 too short): not counted, AK5*A, AK9*A*1*1*1 *)
Theorem C05_st_element_error_not_counted_is_false :
  get_error_count h_st02 = 0 /\ exists h' lines, render_997 cex_ck h_st02 = (h', lines, None) /\
    In (l "AK5*A*7~
") lines /\ In (l "AK9*A*1*1*1~
") lines.
Proof.
  destruct st_element_error_not_counted as [E (h' & R)]. split; [exact E|].
  eexists _, _. split; [exact R|]. split; vm_compute; tauto.
Qed.
Print Assumptions C05_st_element_error_not_counted_is_false.

(* an element error on the GS line: counted (verdict False), group acknowledged A *)
Theorem C05_gs_element_error_acknowledged_A_is_false :
  get_error_count h_gs06 = 1 /\ exists h' lines, render_997 cex_ck h_gs06 = (h', lines, None) /\
    In (l "AK9*A*1*1*1*6~
") lines.
Proof.
  destruct gs_element_error_acknowledged_A as [E (h' & R)]. split; [exact E|].
  eexists _, _. split; [exact R|]. vm_compute; tauto.
Qed.
Print Assumptions C05_gs_element_error_acknowledged_A_is_false.

(* a group that is never closed: its set is accepted, the group says R*0*0*0 *)
Theorem C05_unclosed_group_totals_is_false :
  get_error_count h_noge = 0 /\ exists h' lines, render_997 cex_ck h_noge = (h', lines, None) /\
    In (l "AK5*A~
") lines /\ In (l "AK9*R*0*0*0~
") lines.
Proof.
  destruct unclosed_group_totals as [E (h' & R & _)]. split; [exact E|].
  eexists _, _. split; [exact R|]. split; vm_compute; tauto.
Qed.
Print Assumptions C05_unclosed_group_totals_is_false.
