(* Props/C06.v — property C06 (work in progress). *)
From Coq Require Import String.
From PX.Lib Require Import Base.
