(* Props/C06.v — property C06: every acknowledgement written is itself a complete, well-formed interchange.
   Statements only.  Proofs: Proofs/C06_lemmas.v, C06_build.v, C06_ack997.v, C06_ack999.v, C06_ack.v.

   What is proved, for EVERY error-handler state h (any number of interchanges, groups, sets, segment and element
   errors, echoed values of any content) whenever the visitor completes: the lines written are the lines of a list of
   segments that passes the independent recount of Spec/C06_spec.v — one ISA with 16 elements, one GS, transaction
   sets numbered 0001.. each with SE01 = number of segments actually in the set and SE02 = ST02, GE01 = number of
   sets, GE02 = GS06, optional TA1, IEA01 = 1, IEA02 = ISA13.
   Hypotheses: the clock strings are digits (they come from time.strftime); for the 997 only, gs06_ok: the echoed GS06
   of the group the envelope is built from does not contain '*' and does not end in '~' (the 997 builds GE as text and
   re-parses it).  Both are shown necessary by machine-checked counterexamples.
   PARTIAL: not proved here — that the text re-read by the reader draws no envelope error (follows from this recount
   plus the C04/C01 theorems only when every echoed value is free of the acknowledgement's delimiters: recorded
   finding C06-echo-splits-element), the element count of the TEXT of the 997's ISA (finding: empty ISA15), the case
   where the visitor raises (swallowed by x12n_document: the acknowledgement is cut short), and that the
   acknowledgement re-validates.  Those are the subject of the oracle of the check. *)
From Coq Require Import String.
From PX.Lib Require Import Base PyStr.
From PX.Model Require Import Path Segment Errh Writer Ack997 Ack999.
From PX.Spec Require Import C06_spec.
From PX.Proofs Require Import C06_ack997 C06_ack999 C06_ack.

Theorem C06_997_envelope_recount :
  forall ck h h' lines,
    clock_digits ck = true -> gs06_ok h = true ->
    render_997 ck h = (h', lines, None) ->
    exists segs, lines = map line_997 segs /\ envelope_ok segs = true.
Proof. exact ack997_envelope_real_clock. Qed.
Print Assumptions C06_997_envelope_recount.

Theorem C06_999_envelope_recount :
  forall ck h h' lines,
    clock_digits ck = true ->
    render_999 ck h = (h', lines, None) ->
    exists segs, lines = map line_999 segs /\ envelope_ok segs = true.
Proof. exact ack999_envelope_real_clock. Qed.
Print Assumptions C06_999_envelope_recount.

(* the hypothesis on GS06 is needed: a group control number "1~" (legal text when the source uses other delimiters)
   gives lines that NO segment list passing the recount can have *)
Theorem C06_997_needs_clean_gs06 :
  clock_digits cex_ck = true /\ gs06_ok cex_h = false /\
  (exists h', render_997 cex_ck cex_h = (h', cex_lines, None)) /\
  (forall segs, cex_lines = map line_997 segs -> envelope_ok segs = false).
Proof.
  destruct cex997_run as (A & B & C). split; [exact A|]. split; [exact B|]. split; [exact C|]. exact cex997_no_witness.
Qed.
Print Assumptions C06_997_needs_clean_gs06.

(* the 997 writes an ISA of 15 elements when the acknowledged ISA15 is empty (the 999 does not) *)
Theorem C06_997_short_isa_when_isa15_empty :
  (exists h' rest, render_997 cex_ck isa15_h =
     (h', list_ascii_of_string "ISA*00*          *00*          *ZZ*RECEIVER       *ZZ*SENDER         *260101*1200*^*00501*601011200*0*:~
" :: rest, None)) /\
  (exists h' rest, render_999 cex_ck isa15_h =
     (h', list_ascii_of_string "ISA*00*          *00*          *ZZ*RECEIVER       *ZZ*SENDER         *260101*1200*^*00501*601011200*0**:~
" :: rest, None)).
Proof. exact isa15_empty_short_line. Qed.
Print Assumptions C06_997_short_isa_when_isa15_empty.
