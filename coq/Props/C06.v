(* Props/C06.v — property C06: every acknowledgement written is itself a complete, well-formed interchange.
   Statements only.  Proofs: Proofs/C06_lemmas.v, C06_build.v, C06_ack997.v, C06_ack999.v, C06_ack.v.

   What is proved, for EVERY error-handler state h (any number of interchanges, groups, sets, segment and element
   errors, echoed values of any content) whenever the visitor completes: the lines written are the lines of a list of
   segments that passes the independent recount of Spec/C06_spec.v — one ISA with 16 elements, one GS, transaction
   sets numbered 0001.. each with SE01 = number of segments actually in the set and SE02 = ST02, GE01 = number of
   sets, GE02 = GS06, optional TA1, IEA01 = 1, IEA02 = ISA13.
   Hypotheses: the clock strings are digits (they come from time.strftime); for the 997 only, gs06_ok: the echoed GS06
   of the group the envelope is built from does not contain '*' and does not end in '~' (the 997 builds GE as text and
   re-parses it).  Both are shown necessary by machine-checked counterexamples.
   Re-reading (Proofs/C06_reread*.v): the recount implies that the reader, given those segments, reports no envelope
   error (C06_recount_reader_silent: any delimiters, with or without TA1), and — C06_997_rereads / C06_999_rereads —
   when in addition every echoed value is free of '~' and '*', the ISA fields have their fixed widths and GS06 is not
   empty (computable echo_clean_997 / _999 on the handler state; each conjunct shown necessary by a proved
   counterexample: C06_997_empty_gs06_draws_error is a recorded finding, the echoed terminator is the recorded finding
   C06-echo-splits-element), the TEXT written, tokenised under any read schedule and read by the reader, comes back
   as exactly those segments with no envelope error on any of them and nothing reported at the end of input.
   PARTIAL: not proved — the case where the visitor raises (swallowed by x12n_document: the acknowledgement is cut
   short), and that the acknowledgement re-validates against the 997 / 999 map.  Those are the subject of the oracle
   of the check. *)
From Coq Require Import String.
From PX.Lib Require Import Base PyStr.
From PX.Model Require Import Path Segment Raw Reader Errh Writer Ack997 Ack999.
From PX.Spec Require Import C01_spec C04_spec C06_spec C12_spec.
From PX.Proofs Require Import C04_reader C06_ack997 C06_ack999 C06_ack C06_reread C06_reread997 C06_reread999 C06_reread_examples.

Theorem C06_997_envelope_recount :
  forall ck h h' lines,
    clock_digits ck = true -> gs06_ok h = true ->
    render_997 ck h = (h', lines, None) ->
    exists segs, lines = map line_997 segs /\ envelope_ok segs = true.
Proof. exact ack997_envelope_real_clock. Qed.
Print Assumptions C06_997_envelope_recount.

Theorem C06_999_envelope_recount :
  forall ck h h' lines,
    clock_digits ck = true ->
    render_999 ck h = (h', lines, None) ->
    exists segs, lines = map line_999 segs /\ envelope_ok segs = true.
Proof. exact ack999_envelope_real_clock. Qed.
Print Assumptions C06_999_envelope_recount.

(* the hypothesis on GS06 is needed: a group control number "1~" (legal text when the source uses other delimiters)
   gives lines that NO segment list passing the recount can have *)
Theorem C06_997_needs_clean_gs06 :
  clock_digits cex_ck = true /\ gs06_ok cex_h = false /\
  (exists h', render_997 cex_ck cex_h = (h', cex_lines, None)) /\
  (forall segs, cex_lines = map line_997 segs -> envelope_ok segs = false).
Proof.
  destruct cex997_run as (A & B & C). split; [exact A|]. split; [exact B|]. split; [exact C|]. exact cex997_no_witness.
Qed.
Print Assumptions C06_997_needs_clean_gs06.

(* the 997 writes an ISA of 15 elements when the acknowledged ISA15 is empty (the 999 does not) *)
Theorem C06_997_short_isa_when_isa15_empty :
  (exists h' rest, render_997 cex_ck isa15_h =
     (h', list_ascii_of_string "ISA*00*          *00*          *ZZ*RECEIVER       *ZZ*SENDER         *260101*1200*^*00501*601011200*0*:~
" :: rest, None)) /\
  (exists h' rest, render_999 cex_ck isa15_h =
     (h', list_ascii_of_string "ISA*00*          *00*          *ZZ*RECEIVER       *ZZ*SENDER         *260101*1200*^*00501*601011200*0**:~
" :: rest, None)).
Proof. exact isa15_empty_short_line. Qed.
Print Assumptions C06_997_short_isa_when_isa15_empty.

(* the recount is enough for the reader: no envelope error on any segment, none at the end of input *)
Theorem C06_recount_reader_silent :
  forall dl lx segs, envelope_ok segs = true ->
  exists out xf, run_steps dl (fresh lx) segs = Ok (out, xf) /\
    Forall (fun es => env_codes es = []) out /\ env_codes (cleanup xf) = [].
Proof. exact envelope_ok_reader_silent. Qed.
Print Assumptions C06_recount_reader_silent.

(* without a TA1 the acknowledgement is the flattening of a well-formed, consistent C04 document tree; with a TA1
   (a segment between GE and IEA) no well-formed tree flattens to it *)
Theorem C06_recount_is_consistent_document :
  forall dl segs, envelope_ok segs = true -> no_ta1 segs = true ->
  exists d, wf_doc d = true /\ flatten d = segs /\ consistent dl d.
Proof. exact envelope_ok_consistent_doc. Qed.
Print Assumptions C06_recount_is_consistent_document.

(* THE TEXT of the 997, read back *)
Theorem C06_997_rereads :
  forall ck h h' lines lx sch,
  clock_digits ck = true -> echo_clean_997 ck h = true ->
  render_997 ck h = (h', lines, None) ->
  exists out,
    reading lx (concat lines) sch = Ok (version_997 (segs_or_nil_997 ck h), out, Ok []) /\
    map fst out = reread_997 (segs_or_nil_997 ck h) /\
    Forall (fun p => env_codes (snd p) = []) out.
Proof. exact ack997_reread_clean_only. Qed.
Print Assumptions C06_997_rereads.

Theorem C06_999_rereads :
  forall ck h h' lines lx sch,
  clock_digits ck = true -> echo_clean_999 ck h = true ->
  render_999 ck h = (h', lines, None) ->
  exists out,
    reading lx (concat lines) sch = Ok (version_999 (segs_or_nil_999 ck h), out, Ok []) /\
    map fst out = reread_999 (segs_or_nil_999 ck h) /\
    Forall (fun p => env_codes (snd p) = []) out.
Proof. exact ack999_reread_clean. Qed.
Print Assumptions C06_999_rereads.

(* the hypotheses are satisfiable (a two-group handler state with errors and a TA1) and each is needed *)
Theorem C06_reread_hypotheses_hold_somewhere :
  clock_digits cex_ck = true /\ echo_clean_997 cex_ck C05_examples.h_full = true /\ echo_clean_999 cex_ck C05_examples.h_full = true.
Proof. destruct worked_hypotheses as (A & _ & B & C & _). auto. Qed.
Print Assumptions C06_reread_hypotheses_hold_somewhere.

(* a source group whose GS06 is empty: the 997 completes, passes the recount, and is read back with gs/4 on its GE
   (the 999 numbers its own group and is silent) — recorded finding *)
Theorem C06_997_empty_gs06_draws_error :
  clock_digits cex_ck = true /\ gs06_ok h_empty06 = true /\
  (exists h', render_997 cex_ck h_empty06 = (h', lines7 h_empty06, None)) /\
  exists out, codes_of (reading false (concat (lines7 h_empty06)) []) = Some (out, Ok []) /\
              In (Some (list_ascii_of_string "GE"), [C "gs" "4"]) out.
Proof.
  destruct empty_gs06_draws_gs4 as (A & B & R & _ & E & _). split; [exact A|]. split; [exact B|]. split; [exact R|].
  eexists. split; [exact E|]. cbn. tauto.
Qed.
Print Assumptions C06_997_empty_gs06_draws_error.
