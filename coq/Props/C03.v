(* Props/C03.v — property C03: every single injected fault is rejected and localised.
   Statements only.  Proofs: Proofs/C0203_segment.v; Spec/C0203_spec.v.

   PARTIAL: segment level only (element faults and too many elements).  Proved: starting from a conformant segment,
   replacing ONE simple element by a value that draws the non-empty code set cds from its definition (any of: too
   long, too short, outside the code lists, wrong character class, impossible date or time, missing when required,
   present when not used) makes validation return false, every error event is filed at that element position, names
   that element and carries a code of cds, and every code of cds is reported; one extra trailing element gives
   exactly one error, code 3.  Side conditions, each shown necessary by a witness: the position is mentioned by no
   syntax note, is not the DTP02 format qualifier, the new value has no control character (for completeness of cds).
   Not proved: segment-level faults (unknown / out-of-place segment, missing required segment, repeat limits), the
   attachment of the error to the segment's position and line in the error tree, and that other sets stay accepted:
   checked on the implementation by single-fault injection into conformant documents. *)
From Coq Require Import String.
From PX.Lib Require Import Base PyStr.
From PX.Model Require Import Path Segment MapLoad MapTree Element.
From PX.Spec Require Import C07_valid_wf C15_spec C0203_spec.
From PX.Proofs Require Import C15_element C07_valid C0203_segment.

Theorem C03_single_element_fault_localised :
  forall m sn d sg sg' i e x cds,
    valid_wf m = true -> fmt_wf m = true -> seg_node_of m sn -> notes_wf sn = true ->
    seg_conforms (ctx_of m) sn d sg = true -> replaced_at sg sg' i x -> child_at sn i = Some (SubE e) ->
    unmentioned sn i -> is_qualifier_pos sg i = false -> cds <> [] ->
    (forall code, In code cds <-> draws (ctx_of m) e None (formats_for d sn sg' i e) (Some x) code = true) ->
    has_control_char x = false ->
    exists evs, seg_is_valid d (ctx_of m) sn sg' = Ok (false, evs) /\
      (forall p h, In (p, h) (located None evs) -> p = Some (Z.of_nat i + 1)%Z /\ err_refdes h = e_id e /\ In (err_code h) cds) /\
      (forall cde, In cde cds -> exists h, In (Some (Z.of_nat i + 1)%Z, h) (located None evs) /\ err_code h = cde).
Proof. exact single_element_fault_localised. Qed.
Print Assumptions C03_single_element_fault_localised.

Theorem C03_extra_element_rejected :
  forall m sn d sg sg' v, valid_wf m = true -> fmt_wf m = true -> seg_node_of m sn -> notes_wf sn = true ->
    seg_conforms (ctx_of m) sn d sg = true -> length (els sg) = length (s_children sn) -> extended_by sg sg' v ->
    exists evs h, seg_is_valid d (ctx_of m) sn sg' = Ok (false, evs) /\ filter is_err evs = [h] /\
      err_code h = cs "3" /\ err_refdes h = Some (fmt_02 (N.of_nat (S (length (s_children sn))))).
Proof. exact extra_element_rejected. Qed.
Print Assumptions C03_extra_element_rejected.
