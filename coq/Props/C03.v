(* Props/C03.v — property C03: every single injected fault is rejected and localised.
   Statements only.  Proofs: Proofs/C0203_segment.v; Spec/C0203_spec.v.

   Two levels.
   (i) SEGMENT (Proofs/C0203_segment.v): starting from a conformant segment, replacing ONE simple element by a value
   that draws the non-empty code set cds from its definition (too long, too short, outside the code lists, wrong
   character class, impossible date or time, missing when required, present when not used) makes validation return
   false, every error event is filed at that element position, names that element and carries a code of cds, and
   every code of cds is reported; one extra trailing element gives exactly one error, code 3.  Side conditions, each
   shown necessary by a witness: the position is mentioned by no syntax note, is not the DTP02 format qualifier, the
   new value has no control character.
   (ii) DOCUMENT, for the walker (Spec/C03_doc_spec.v, Proofs/C03_doc*.v, on the C02 machinery; maps with walker_wf,
   keys_ok and, for the structural faults, first_pos_least): C03_unknown_segment — a segment matching no node of the
   map, inserted anywhere in a conformant instance, draws exactly add_seg + seg_error('1', "Segment .. not found"),
   leaves the counters and the position unchanged, and every other item is located exactly as before with nothing
   reported; C03_single_structural_fault — an instance (relation finst: the rules of a conformant instance, except
   that a unit may exceed its limit or be preceded by one missing required child) whose only annotated fault is f:
   the items before are located silently, ONE step reports exactly the events of f (missing segment / loop: code 3
   at the first segment after the gap, or at the first segment of the next instance when the loop restarts at once
   — the case a defect hid before fix 279ef08; surplus segment: code 5 at the surplus item; surplus loop: code 4 at
   the first segment of the surplus instance), the items after are located silently, counters as predicted.
   PARTIAL: not proved — a missing child that is the last thing present in its instance when the loop is then left
   (Examples only: C03_doc_examples.Corners K4), the same-position corners where the walker really is imprecise
   (K1: a missing GE followed by IEA is never reported by the walker — the reader reports it; K2: reported twice;
   K3: reported one segment late — each machine-checked and reproduced on the implementation), the attachment of the
   error to the segment's line in the error tree, and that other sets stay accepted: checked on the implementation
   by single-fault injection into conformant documents. *)
From Coq Require Import String.
From PX.Lib Require Import Base PyStr.
From PX.Model Require Import Path Segment MapLoad MapTree Element Counter Walker.
From PX.Spec Require Import C07_valid_wf C07_walker_wf C15_spec C0203_spec C02_doc_spec C03_doc_spec.
From PX.Proofs Require Import C15_element C07_valid C0203_segment C02_doc_counter C02_doc_walk C02_doc C03_doc_walk C03_doc_inv C03_doc.

Theorem C03_single_element_fault_localised :
  forall m sn d sg sg' i e x cds,
    valid_wf m = true -> fmt_wf m = true -> seg_node_of m sn -> notes_wf sn = true ->
    seg_conforms (ctx_of m) sn d sg = true -> replaced_at sg sg' i x -> child_at sn i = Some (SubE e) ->
    unmentioned sn i -> is_qualifier_pos sg i = false -> cds <> [] ->
    (forall code, In code cds <-> draws (ctx_of m) e None (formats_for d sn sg' i e) (Some x) code = true) ->
    has_control_char x = false ->
    exists evs, seg_is_valid d (ctx_of m) sn sg' = Ok (false, evs) /\
      (forall p h, In (p, h) (located None evs) -> p = Some (Z.of_nat i + 1)%Z /\ err_refdes h = e_id e /\ In (err_code h) cds) /\
      (forall cde, In cde cds -> exists h, In (Some (Z.of_nat i + 1)%Z, h) (located None evs) /\ err_code h = cde).
Proof. exact single_element_fault_localised. Qed.
Print Assumptions C03_single_element_fault_localised.

Theorem C03_extra_element_rejected :
  forall m sn d sg sg' v, valid_wf m = true -> fmt_wf m = true -> seg_node_of m sn -> notes_wf sn = true ->
    seg_conforms (ctx_of m) sn d sg = true -> length (els sg) = length (s_children sn) -> extended_by sg sg' v ->
    exists evs h, seg_is_valid d (ctx_of m) sn sg' = Ok (false, evs) /\ filter is_err evs = [h] /\
      err_code h = cs "3" /\ err_refdes h = Some (fmt_02 (N.of_nat (S (length (s_children sn))))).
Proof. exact extra_element_rejected. Qed.
Print Assumptions C03_extra_element_rejected.

(* ---- the document level (walker) ---- *)
Theorem C03_unknown_segment_localised :
  forall m d, walker_wf m = true -> keys_ok m = true ->
  forall C sg0 pre post w z,
    conf_inst m d C ((C ++ [0], sg0) :: pre ++ post) ->
    (exists s0 rest, children_of m C = NSeg s0 :: rest) ->
    opened m w C ->
    unknown_seg m d z = true ->
    exists wk,
      run m d w (C ++ [0]) pre wk /\
      step_unknown m d wk (last_ref pre (C ++ [0])) z /\
      forall wz, same_counter wk wz ->
        exists w'', run m d wz (last_ref pre (C ++ [0])) post w'' /\
          forall r n, node_at (root_nodes m) r = Some n ->
            cnt m (w_counter w'') r = predicted (pre ++ post) (cnt m (w_counter w)) r.
Proof. exact C03_unknown_segment. Qed.
Print Assumptions C03_unknown_segment_localised.

Theorem C03_single_structural_fault :
  forall m d, walker_wf m = true -> keys_ok m = true -> first_pos_least m = true ->
  forall C sg0 fs0 body w f,
    finst m d C (((C ++ [0], sg0), fs0) :: body) ->
    (exists s0 rest, children_of m C = NSeg s0 :: rest) ->
    opened m w C ->
    faults_of body = [f] ->
    exists pre it post wk wk' w',
      body = pre ++ (it, [f]) :: post /\ faults_of pre = [] /\ faults_of post = [] /\
      run m d w (C ++ [0]) (items_of pre) wk /\
      step_ev m d wk (last_ref (items_of pre) (C ++ [0])) it (fault_ev m d (snd it) f) wk' /\
      run m d wk' (fst it) (items_of post) w' /\
      (forall r n, node_at (root_nodes m) r = Some n ->
         cnt m (w_counter w') r = predicted (items_of body) (cnt m (w_counter w)) r).
Proof. exact single_fault_located. Qed.
Print Assumptions C03_single_structural_fault.

(* conformant instances are exactly the annotated instances without any fault *)
Theorem C03_conformant_is_fault_free_instance :
  forall m d C its, conf_inst m d C its -> finst m d C (map (fun it => (it, [])) its).
Proof. intros m d. exact (proj1 (conf_finst m d)). Qed.
Print Assumptions C03_conformant_is_fault_free_instance.
