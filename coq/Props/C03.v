(* Props/C03.v — property C03 (work in progress). *)
From Coq Require Import String.
From PX.Lib Require Import Base.
