(* Props/C02.v — property C02 (work in progress). *)
From Coq Require Import String.
From PX.Lib Require Import Base.
