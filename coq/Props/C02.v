(* Props/C02.v — property C02: every map-conformant document is accepted with zero errors.
   Statements only.  Proofs: Proofs/C0203_segment.v (on C15, C14, C07_valid), Proofs/C07_walker.v; Spec/C0203_spec.v.

   Three levels, all theorems.
   (i) SEGMENT: for every map satisfying the computable predicates valid_wf / fmt_wf, every segment node with
   well-formed syntax notes and EVERY data segment that conforms to the node — no more elements than defined; at every
   position the value draws no error code from its definition (the clause-by-clause predicate of C15: usage, length,
   type language, code lists, pattern, qualifier-selected formats); every syntax note holds (C14 semantics) —
   validation returns true and emits no error event.  fmt_wf and notes_wf are necessary (witnesses in the proof file).
   (ii) WALKER (Spec/C02_doc_spec.v, Proofs/C02_doc*.v): an independent, generator-style description conf_inst /
   conf_body of "conformant instance of a loop of the map" (children in position order, required ones present,
   repeats within max_use / repeat, loop instances starting with their first segment, wrapper loops, every data
   segment matching its node and no rival candidate the walker tries first), and, for every map with walker_wf and
   keys_ok (distinct nodes have distinct counter keys), EVERY such instance: the walker locates item k at exactly its
   node, emits NO event at any step, and ends with the predicted usage counts.  walker_wf and keys_ok hold (by
   evaluation) on all loadable shipped maps except the two 999 maps, where keys_ok fails — and there the statement is
   false of the code: C02_999_conformant_rejected (recorded finding).
   (iii) WHOLE DOCUMENT (Spec/C02_whole_spec.v, Proofs/C02_whole*.v): C02_whole_document_accepted — for a
   conformant document (one interchange; every group a conformant instance of GS_LOOP of the map the index selects,
   its segments conforming to their nodes; envelope read silently — derived from C04's consistent outside HL / 837
   documents; maps with walker_wf, keys_ok, valid_wf, fmt_wf and the envelope shape top_okb) in any admissible
   delimiters and line layout, x12n_document returns True and calls NO error method of the handler;
   C02_whole_document_acknowledged — the final error tree counts no error, every group is acknowledged A and no set
   has a counted error.  Groups of one interchange may use different maps (compatibility top_compat, decidable).
   Excluded, exactly: several interchanges per text or an interchange without group; the 278 BHT map switch;
   wrappers entered through a loop other than their first; same-position siblings out of index order; HL / 837 LX
   numbering is a hypothesis on the reader model (reader_silent), not derived.  The check generates conformant
   documents for every map the index selects and applies the property to the implementation (recorded findings). *)
From Coq Require Import String.
From PX.Lib Require Import Base PyStr.
From PX.Model Require Import Path Segment Raw Reader MapLoad MapTree Element Counter Walker MapEnv Driver.
From PX.Model Require Errh.
From PX.Spec Require Import C01_spec C12_spec C12_doc_spec C07_valid_wf C07_walker_wf C0203_spec C02_doc_spec C05_spec C02_whole_spec.
From PX.Proofs Require Import C07_valid C0203_segment C02_doc_counter C02_doc_walk C02_doc C02_doc_examples C02_whole.

Theorem C02_conformant_segment_accepted :
  forall m sn d sg, valid_wf m = true -> fmt_wf m = true -> seg_node_of m sn -> notes_wf sn = true ->
    seg_conforms (ctx_of m) sn d sg = true ->
    exists evs, seg_is_valid d (ctx_of m) sn sg = Ok (true, evs) /\ no_error_event evs.
Proof. exact conformant_segment_accepted. Qed.
Print Assumptions C02_conformant_segment_accepted.

(* THE DOCUMENT LEVEL: an instance of a loop whose first child is a segment, once the walker has found that first
   segment (state `opened`): every further item is found at its node with NO event, and the counts are the predicted
   ones. *)
Theorem C02_conformant_instance_located :
  forall m d, walker_wf m = true -> keys_ok m = true ->
  forall C sg0 body w,
    conf_inst m d C ((C ++ [0], sg0) :: body) ->
    (exists s0 rest, children_of m C = NSeg s0 :: rest) ->
    opened m w C ->
    exists w',
      run m d w (C ++ [0]) body w' /\
      (forall r n, node_at (root_nodes m) r = Some n ->
         cnt m (w_counter w') r = predicted body (cnt m (w_counter w)) r).
Proof. exact conformant_instance_accepted. Qed.
Print Assumptions C02_conformant_instance_located.

(* what `run` means, item by item: the walker returns the item's node, no pops / pushes are in error, and the event
   list is EMPTY (no segment-not-found, mandatory-missing, repeat-exceeded ...) *)
Theorem C02_run_reports_nothing :
  forall m d, walker_wf m = true -> keys_ok m = true ->
  forall w p items w', run m d w p items w' -> forall pre it post, items = pre ++ it :: post ->
  exists wk wk', forall sc cl ls, exists pop push,
    walk_st m wk (last_ref pre p) d (snd it) sc cl ls = (wk', [], Ok (Some (fst it), pop, push)).
Proof. intros m d _ _. exact (run_no_error m d). Qed.
Print Assumptions C02_run_reports_nothing.

(* non-vacuity on shipped maps: a 12-item 997 set and a 19-item 835 set (wrapper DETAIL, nested repeats) are
   conformant instances, and the theorem applies *)
Theorem C02_document_level_applies :
  (walker_wf M997.mp = true /\ keys_ok M997.mp = true /\
   conf_inst M997.mp M997.d0 M997.stl ((M997.r_st, M997.P "ST*997*0001~") :: M997.body) /\
   opened M997.mp (start_state M997.mp M997.stl) M997.stl) /\
  (walker_wf M835.mp = true /\ keys_ok M835.mp = true /\
   conf_inst M835.mp M835.d0 M835.stl ((M835.r_st, M835.P "ST*835*0001~") :: M835.body) /\
   opened M835.mp (start_state M835.mp M835.stl) M835.stl).
Proof.
  split.
  - destruct M997.statics as [A B]. split; [exact A|]. split; [exact B|]. split; [exact M997.conformant | exact M997.start_opened].
  - destruct M835.statics as [A B]. split; [exact A|]. split; [exact B|]. split; [exact M835.conformant|].
    eapply (opened_by_entry M835.mp A B counter_init M835.stl); try (vm_compute; reflexivity). vm_compute. discriminate.
Qed.
Print Assumptions C02_document_level_applies.

(* the hypothesis keys_ok is needed, and fails on the shipped 999 maps: loop 2100 has two CTX nodes with ONE path,
   hence one counter.  IK3 + one CTX of each kind is a conformant instance, both are located at the right nodes,
   and the walker reports "Segment CTX exceeded max count" (recorded finding, reproduced on the implementation) *)
Theorem C02_999_conformant_rejected :
  walker_wf M999.mp = true /\ keys_ok M999.mp = false /\
  conf_inst M999.mp M999.d0 M999.l2100 ((M999.l2100 ++ [0], M999.P "IK3*NM1*8*2100*8~") :: M999.body) /\
  trace M999.mp M999.d0 (start_state M999.mp M999.l2100) (M999.l2100 ++ [0]) M999.body =
    [(Some (M999.l2100 ++ [1]), []);
     (Some (M999.l2100 ++ [2]), [("5", "Segment CTX exceeded max count.  Found 2, should have 1")]%string)].
Proof. destruct M999.keys_shared as (A & B & _ & C & D). auto. Qed.
Print Assumptions C02_999_conformant_rejected.

(* ---- THE WHOLE DOCUMENT ---- *)
Theorem C02_whole_document_accepted :
  forall load idx d conv f isal gs gL r_iea iea,
    is_break conv = true -> conformant_document load idx d f isal gs gL r_iea iea ->
    snd (run_document_gen load idx (doc_text d conv f gs iea)) = Ok true /\
    no_error_call (fst (run_document_gen load idx (doc_text d conv f gs iea))).
Proof. intros. eapply C02_whole_accepted; eassumption. Qed.
Print Assumptions C02_whole_document_accepted.

Theorem C02_whole_document_acknowledged :
  forall load idx d conv f isal gs gL r_iea iea,
    is_break conv = true -> conformant_document load idx d f isal gs gL r_iea iea ->
    exists sF, run_state load idx (doc_text d conv f gs iea) = Some sF /\ ds_valid sF = true /\
      Errh.get_error_count (ds_errh sF) = 0 /\
      Forall (fun g => Errh.gs_ack_code (ds_errh sF) g = list_ascii_of_string "A" /\
                       Forall (fun t => Errh.st_err_count (ds_errh sF) t = 0)
                              (nodes_at (Errh.h_st (ds_errh sF)) (Errh.gn_children g)))
             (visited_gs (ds_errh sF)).
Proof. intros. eapply C02_whole_acknowledged; eassumption. Qed.
Print Assumptions C02_whole_document_acknowledged.
