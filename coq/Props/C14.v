(* Props/C14.v — property C14: syntax notes (P, R, E, C, L) are evaluated
   exactly as X12 defines them.  Statements only. *)
From PX.Lib Require Import Base.
From PX.Model Require Import Segment Syntax.
From PX.Spec Require Import C14_spec.
From PX.Proofs Require Import C14_syntax.

(* For every note letter, every list of at least two element positions in
   1..99 (any arity), and every segment (any number of elements, any values —
   including segments shorter than the positions mentioned), the evaluator
   returns "valid" exactly when the X12 definition is not violated on the
   presence pattern of the mentioned elements; it never raises. *)
Theorem C14_syntax_exact :
  forall d sg code idxs,
    note_letter code = true -> 2 <= length idxs -> Forall idx_ok idxs -> seg_wf sg ->
    is_syntax_valid d sg code idxs = Ok (negb (violated code (map (present_spec sg) idxs))).
Proof. exact syntax_exact. Qed.
Print Assumptions C14_syntax_exact.

(* The side condition seg_wf (no element is an empty list of components) holds
   of every segment the reader constructs. *)
Theorem C14_parsed_segments_wf : forall d text, seg_wf (parse_seg d text).
Proof. exact parse_seg_wf. Qed.
Print Assumptions C14_parsed_segments_wf.

(* In segment validation a violated note raises exactly one element-level
   error, with code 10 for an exclusion note and 2 otherwise; a satisfied note
   raises none. *)
Theorem C14_syntax_routing :
  forall d sg notes, Forall note_ok notes -> seg_wf sg ->
    syntax_loop d sg notes = Ok (map (fun n => note_code (fst n)) (filter (note_violated sg) notes)).
Proof. exact syntax_routing. Qed.
Print Assumptions C14_syntax_routing.
