(* Props/C04.v — property C04: envelope, control-number and counter checks are
   exact.  Statements only; the recount is Spec/C04_spec.v. *)
From Coq Require Import String.
From PX.Lib Require Import Base.
From PX.Model Require Import Segment Reader.
From PX.Spec Require Import C04_spec.
From PX.Proofs Require Import C04_reader.

(* On every properly nested document tree (any number of interchanges, groups,
   sets; any control numbers and declared counts, numeric or not; trailers
   possibly missing at end of input) the envelope errors the reader reports at
   each segment and at end of input are exactly those of the independent recount. *)
Theorem C04_reader_exact :
  forall dl lx d, wf_doc d = true ->
  exists out xf,
    run_steps dl (fresh lx) (flatten d) = Ok (out, xf) /\
    map env_codes out = recount dl [] d /\
    env_codes (cleanup xf) = missing_at_end d.
Proof. exact reader_exact. Qed.
Print Assumptions C04_reader_exact.

(* A consistent envelope never draws an envelope error. *)
Theorem C04_consistent_silent :
  forall dl lx d, wf_doc d = true -> consistent dl d ->
  exists out xf,
    run_steps dl (fresh lx) (flatten d) = Ok (out, xf) /\
    Forall (fun es => env_codes es = []) out /\ env_codes (cleanup xf) = [].
Proof. exact consistent_silent. Qed.
Print Assumptions C04_consistent_silent.

(* Any other arrangement of header and trailer segments draws at least one
   envelope error (or the documented X12Error for an ISA without 16 elements). *)
Theorem C04_ill_nested_detected :
  forall dl lx segs, properly_nested segs = false ->
  match run_steps dl (fresh lx) segs with
  | Ok (out, _) => exists es, In es out /\ env_codes es <> []
  | Raise e => e = X12Error
  end.
Proof. exact ill_nested_detected. Qed.
Print Assumptions C04_ill_nested_detected.

(* The envelope bookkeeping never raises anything else, whatever the segments. *)
Theorem C04_reader_total :
  forall dl x segs, match run_steps dl x segs with Ok _ => True | Raise e => e = X12Error end.
Proof. exact reader_total. Qed.
Print Assumptions C04_reader_total.
