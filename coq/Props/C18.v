(* Props/C18.v — property C18: results are a function of the document and the
   parameters alone.  Statements only.  PARTIAL: the theorems are about the
   effect summary that tools/gen/effects.py regenerates from every module of
   pyx12/ on every run (a syntactic over-approximation, trusted); the runtime
   half of the property is covered by the differential runs of the check. *)
From Coq Require Import String.
From PX.Lib Require Import Base.
From PX.Gen Require Import Effects.
From PX.Model Require Import Effects.
From PX.Proofs Require Import C18_effects.

(* `reach` contains every function reachable from the entry points through the call graph. *)
Theorem C18_reachability_complete : forall x, Reachable x -> In x reach.
Proof. exact reach_complete. Qed.
Print Assumptions C18_reachability_complete.

(* No function reachable from x12n_document, X12ContextReader.__init__/iter_segments or
   xmlx12_simple.convert contains a write site to an object that outlives the call
   (module-level binding, class attribute, mutable default argument, or an attribute assigned one). *)
Theorem C18_no_persistent_write :
  forall f line what, Reachable f -> ~ In (f, line, what) write_sites.
Proof. exact no_persistent_write. Qed.
Print Assumptions C18_no_persistent_write.

(* Wall clock and random numbers are read only where the acknowledgement envelope and the HTML date line are built. *)
Theorem C18_clock_only_in_ack_envelope : clock_sites_ok = true.
Proof. exact clock_only_in_ack_and_html_header. Qed.
Print Assumptions C18_clock_only_in_ack_envelope.

(* No reachable function lets the iteration order of a set (which follows the interpreter's hash seed) reach a result: a set is
   only tested for membership, measured, sorted without a key, or listed and sorted without a key in the next statement. *)
Theorem C18_no_hash_order_leak :
  forall f line what, Reachable f -> ~ In (f, line, what) order_sites.
Proof. exact no_order_leak. Qed.
Print Assumptions C18_no_hash_order_leak.
