(* Props/C09.v — property C09 (work in progress). *)
From Coq Require Import String.
From PX.Lib Require Import Base.
