(* Props/C09.v — property C09: the context reader partitions the document without loss, duplication or reordering.
   Statements only.  Proofs: Proofs/C09_reader.v, C09_heap.v, C09_addseg.v, C09_ctx.v; Spec/C09_spec.v.

   PARTIAL.  Proved: for EVERY text, map environment and loop id for which iteration completes, if in the final store
   every children list is in allocation order (no loop node was ever inserted before an older sibling), then the
   segments of the yielded nodes, concatenated in the order yielded, are exactly the source segments in source order,
   each with the set position counter and line number the reader had.  The premise is about the run, not the input:
   it is NOT implied by completion — C09_unrestricted_is_false exhibits an (artificial) map with two sibling loops of
   the same id on which a completed iteration reorders two segments.  A map-level sufficient condition is not proved.
   Not proved either: that every tree is rooted at one instance of the requested loop and holds precisely that
   instance's segments arranged by map path (checked on the implementation by the oracle of this check). *)
From Coq Require Import String.
From PX.Lib Require Import Base PyStr.
From PX.Model Require Import Path Segment Raw Reader MapLoad Context CtxReader.
From PX.Spec Require Import C09_spec.
From PX.Proofs Require Import C09_ctx.

Theorem C09_no_loss_no_reorder_partial :
  forall load idx loop_id text r,
    r = iter_segments_gen load idx loop_id text -> ir_res r = Ok tt ->
    children_in_allocation_order (ir_heap r) ->
    exists src yss,
      source_items text = Ok src /\
      Forall2 (fun y ys => yield_items y = Ok ys) (ir_yields r) yss /\
      concat yss = src.
Proof. exact ctx_no_loss_no_reorder_partial. Qed.
Print Assumptions C09_no_loss_no_reorder_partial.

Theorem C09_unrestricted_is_false :
  ~ (forall load idx loop_id text r,
       r = iter_segments_gen load idx loop_id text -> ir_res r = Ok tt ->
       exists src yss,
         source_items text = Ok src /\
         Forall2 (fun y ys => yield_items y = Ok ys) (ir_yields r) yss /\
         concat yss = src).
Proof. exact ctx_no_loss_no_reorder_false. Qed.
Print Assumptions C09_unrestricted_is_false.
