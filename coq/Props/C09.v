(* Props/C09.v — property C09: the context reader partitions the document without loss, duplication or reordering.
   Statements only.  Proofs: Proofs/C09_reader.v, C09_heap.v, C09_addseg.v, C09_ctx.v; Spec/C09_spec.v.

   Proved: (1) for EVERY text, map environment and loop id for which iteration completes, if in the final store every
   children list is in allocation order, the segments of the yielded nodes, concatenated in the order yielded, are
   exactly the source segments in source order, each with the set position counter and line number the reader had
   (C09_no_loss_no_reorder_partial); the premise is about the run and is NOT implied by completion
   (C09_unrestricted_is_false: an artificial map with two sibling loops of one id).
   (2) A MAP-LEVEL condition discharges the premise (Spec/C09_order_spec.v, Proofs/C09_order_*.v): computable
   ctx_order_ok (bounded depth, no two loops share an x12 path, no segment child whose id could start its own loop
   while an earlier loop sibling is exposed) per map, lid_ok for the requested loop id, and compatibility of the maps
   the 278 BHT switch can reach: C09_allocation_order, and C09_no_loss_no_reorder without the premise.  The shipped
   configuration satisfies it for EVERY loop id except ISA_LOOP (C09_shipped_no_loss_no_reorder), by evaluation over
   the maps regenerated on each run.  For ISA_LOOP no per-map condition can suffice: the 4010 and 5010 maps put
   ISA_LOOP / GS_LOOP / ST_LOOP at different positions, and with an index that lets one interchange select maps of
   both scales a completed iteration reorders segments (C09_isa_loop_needs_cross_map_condition, on the shipped map
   files with one index entry added; with the shipped index that document is refused).
   PARTIAL: not proved — loop id ISA_LOOP on the shipped configuration; that every tree is rooted at one instance of
   the requested loop and holds precisely that instance's segments arranged by map path (checked on the
   implementation by the oracle of this check). *)
From Coq Require Import String.
From PX.Lib Require Import Base PyStr.
From PX.Model Require Import Path Segment Raw Reader MapLoad MapEnv Context CtxReader.
From PX.Spec Require Import C09_spec C09_order_spec.
From PX.Proofs Require Import C07_driver_maps C09_ctx C09_order_run C09_order_maps.

Theorem C09_no_loss_no_reorder_partial :
  forall load idx loop_id text r,
    r = iter_segments_gen load idx loop_id text -> ir_res r = Ok tt ->
    children_in_allocation_order (ir_heap r) ->
    exists src yss,
      source_items text = Ok src /\
      Forall2 (fun y ys => yield_items y = Ok ys) (ir_yields r) yss /\
      concat yss = src.
Proof. exact ctx_no_loss_no_reorder_partial. Qed.
Print Assumptions C09_no_loss_no_reorder_partial.

Theorem C09_unrestricted_is_false :
  ~ (forall load idx loop_id text r,
       r = iter_segments_gen load idx loop_id text -> ir_res r = Ok tt ->
       exists src yss,
         source_items text = Ok src /\
         Forall2 (fun y ys => yield_items y = Ok ys) (ir_yields r) yss /\
         concat yss = src).
Proof. exact ctx_no_loss_no_reorder_false. Qed.
Print Assumptions C09_unrestricted_is_false.

(* the map-level condition discharges the premise ... *)
Theorem C09_allocation_order :
  forall load idx loop_id text r,
    env_order_ok_x load idx loop_id ->
    r = iter_segments_gen load idx loop_id text -> ir_res r = Ok tt ->
    children_in_allocation_order (ir_heap r).
Proof. exact ctx_allocation_order_x. Qed.
Print Assumptions C09_allocation_order.

(* ... so, for such environments, every completed iteration yields the source segments, all of them, in order *)
Theorem C09_no_loss_no_reorder :
  forall load idx loop_id text r,
    env_order_ok_x load idx loop_id ->
    r = iter_segments_gen load idx loop_id text -> ir_res r = Ok tt ->
    exists src yss,
      source_items text = Ok src /\
      Forall2 (fun y ys => yield_items y = Ok ys) (ir_yields r) yss /\
      concat yss = src.
Proof. exact ctx_no_loss_no_reorder_x. Qed.
Print Assumptions C09_no_loss_no_reorder.

(* the shipped configuration (maps regenerated from /repo on this run), every loop id except ISA_LOOP *)
Theorem C09_shipped_no_loss_no_reorder :
  forall loop_id text r,
    not_isa_loop loop_id ->
    r = iter_segments_gen shipped_load shipped_idx loop_id text -> ir_res r = Ok tt ->
    exists src yss,
      source_items text = Ok src /\
      Forall2 (fun y ys => yield_items y = Ok ys) (ir_yields r) yss /\
      concat yss = src.
Proof. exact shipped_no_loss_no_reorder_x. Qed.
Print Assumptions C09_shipped_no_loss_no_reorder.

(* loop id ISA_LOOP: with the shipped map FILES and an arbitrary index the statement is false *)
Theorem C09_isa_loop_needs_cross_map_condition :
  ~ (forall idx text r,
       r = iter_segments_gen shipped_load idx (Some (sl "ISA_LOOP")) text -> ir_res r = Ok tt ->
       exists src yss,
         source_items text = Ok src /\
         Forall2 (fun y ys => yield_items y = Ok ys) (ir_yields r) yss /\
         concat yss = src).
Proof. exact isa_loop_needs_cross_map_condition. Qed.
Print Assumptions C09_isa_loop_needs_cross_map_condition.
