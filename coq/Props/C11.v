(* Props/C11.v — property C11: the writer always emits balanced envelopes with
   correct counts.  Statements only.  Histories: Spec/C11_spec.v. *)
From Coq Require Import String.
From PX.Lib Require Import Base PyStr.
From PX.Model Require Import Path Segment Raw Reader Writer.
From PX.Spec Require Import C01_spec C04_spec C11_spec.
From PX.Proofs Require Import C04_reader C11_writer.

(* The writer never raises on a well-nested history of writable segments. *)
Theorem C11_writer_total :
  forall dl rep eol h, history_ok dl h = true -> exists es, w_run_close (w0 dl rep eol) dl h = Ok es.
Proof. exact writer_total. Qed.
Print Assumptions C11_writer_total.

(* Every prefix of such a history is one: Close may be called after any prefix. *)
Theorem C11_prefix_closed :
  forall dl h1 h2, history_ok dl (h1 ++ h2) = true -> history_ok dl h1 = true.
Proof. exact prefix_ok. Qed.
Print Assumptions C11_prefix_closed.

(* What is written (history, then Close) — trailers supplied with any counts,
   omitted inside an enclosing trailer, or left to Close — is read back by the
   reader model without a single envelope error and with nothing left open:
   every trailer carries its header's control number and the true count
   (by C04_reader_exact this is what "no envelope error" means).
   Side conditions, each shown necessary by a counterexample in C11_writer.v:
   the writer's delimiters do not occur in the ids IEA/GE/SE nor among the
   digits, and no ISA13 ends with the component separator. *)
Theorem C11_writer_accepted :
  forall dl rep eol h es,
  trailer_ids_writable dl -> count_digits_writable dl -> isa_ids_writable dl h ->
  distinct_delims dl = true -> (length rep = 1 /\ free_of dl rep = true) ->
  history_ok dl h = true -> w_run_close (w0 dl rep eol) dl h = Ok es ->
  exists out xf,
    run_steps dl (fresh false) (map (rt dl) es) = Ok (out, xf) /\
    Forall (fun e => env_codes e = []) out /\ cleanup xf = [].
Proof. exact writer_accepted. Qed.
Print Assumptions C11_writer_accepted.

(* Non-trailer segments are written unchanged and in order; the ISA only gets
   the writer's own separators in ISA11 (00501) and ISA16. *)
Theorem C11_segments_kept :
  forall dl rep eol h es,
  trailer_ids_writable dl ->
  history_ok dl h = true -> w_run_close (w0 dl rep eol) dl h = Ok es ->
  filter (fun s => negb (is_trailer s)) es = map (isa_fix dl rep) (filter (fun s => negb (is_trailer s)) h).
Proof. exact writer_keeps_segments. Qed.
Print Assumptions C11_segments_kept.

(* Non-vacuity: a real interchange satisfies every hypothesis above. *)
Theorem C11_hypotheses_satisfiable :
  let d := {| seg_term := "~"%char; ele_term := "*"%char; subele_term := ":"%char |} in
  let p := fun t => parse_seg d (list_ascii_of_string t) in
  let h := [p "ISA*00*          *00*          *ZZ*ZZ000          *ZZ*ZZ001          *030828*1128*U*00401*000010121*0*T*:"%string;
            p "GS*HC*ZZ000*ZZ001*20030828*1128*17*X*004010X098A1"%string; p "ST*837*11280001"%string;
            p "REF*87*004010X098A1"%string; p "SE*9*11280001"%string; p "GE*7*17"%string] in
  history_ok d h = true /\ distinct_delims d = true /\ trailer_ids_writable d /\ count_digits_writable d /\ isa_ids_writable d h.
Proof. exact real_history_ok. Qed.
Print Assumptions C11_hypotheses_satisfiable.
