(* Props/C11.v — property C11 (statements only).  Filled as proofs land. *)
From PX.Lib Require Import Base.
