(* Props/C10.v — property C10 (work in progress). *)
From Coq Require Import String.
From PX.Lib Require Import Base.
