(* Props/C10.v — property C10: the tree editing API obeys its read / write / copy laws.
   Statements only.  Proofs: Proofs/C10_tree.v (on the C17 segment laws); Spec/C10_spec.v; model: Model/Context.v.

   PARTIAL.  Proved over the heap model of the X12DataNode API, for every heap, node, path and value:
   - a copy shares no mutable data with its original: everything reachable from the copy was allocated by the copy,
     its inner parent pointers stay inside it, it looks the same as the original, and deleting or setting values
     through the copy leaves every original object untouched (set_value: when the copied node had no parent object —
     the copy's ROOT keeps the original's parent, and a '../' path through it reaches the original tree: proved
     counterexample);
   - exists / count / first / select agree whenever select completes;
   - set_value then get_value returns the value and changes exactly one segment object, inside it exactly the
     addressed element or component (hypotheses each shown necessary by a proved counterexample: the value does not
     end in the separator it would be split at; the path still resolves after the write, which holds when the element
     is not one that segment matching reads — position >= 4).
   Not proved: add_segment / add_loop / add_node placement in map order, delete_segment, the add_* instances of copy
   independence.  The check runs random API scripts on model and implementation and applies the laws to the
   implementation. *)
From Coq Require Import String.
From PX.Lib Require Import Base PyStr.
From PX.Model Require Import Path Segment MapLoad MapTree Walker Context.
From PX.Spec Require Import C10_spec.
From PX.Proofs Require Import C10_tree.

Theorem C10_copy_is_fresh :
  forall h h' o c, copy_node o h = (h', Ok c) ->
    heap_extends h h' /\ c = length h /\
    (forall x, reachable_children h' c x <-> length h <= x < length h') /\
    (forall x obj, reachable_children h' c x -> x <> c -> nth_error h' x = Some obj ->
       exists y yo, o_parent obj = RObj y /\ reachable_children h' c y /\ length h <= y /\
                    nth_error h' y = Some yo /\ In x (o_children yo)).
Proof. exact copy_is_fresh. Qed.
Print Assumptions C10_copy_is_fresh.

Theorem C10_copy_looks_the_same :
  forall h h' o c, heap_wf h -> copy_node o h = (h', Ok c) ->
    iter_same_as_copy (node_iterate_segments h' c) (node_iterate_segments h o).
Proof. exact copy_looks_the_same. Qed.
Print Assumptions C10_copy_looks_the_same.

Theorem C10_delete_in_copy_leaves_original :
  forall h h' o c x h'' r, copy_node o h = (h', Ok c) -> reachable_children h' c x ->
    node_delete x h' = (h'', r) -> same_below (length h) h' h''.
Proof. exact copy_delete_independent. Qed.
Print Assumptions C10_delete_in_copy_leaves_original.

Theorem C10_set_value_in_copy_leaves_original :
  forall h h' o c ox x p v h'' r,
    copy_node o h = (h', Ok c) -> nth_error h o = Some ox -> (forall y, o_parent ox <> RObj y) ->
    reachable_children h' c x -> node_set_value x p v h' = (h'', r) -> same_below (length h) h' h''.
Proof. exact copy_set_value_independent. Qed.
Print Assumptions C10_set_value_in_copy_leaves_original.

Theorem C10_queries_agree :
  forall h self p xs, g_all (node_select h self p) = Ok xs ->
    node_exists h self p = Ok (negb (length xs =? 0)) /\ node_count h self p = Ok (length xs) /\
    node_first h self p = Ok (hd_error xs).
Proof. exact queries_agree. Qed.
Print Assumptions C10_queries_agree.

Theorem C10_set_value_frame :
  forall self p v h h' r, node_set_value self p v h = (h', r) ->
    length h' = length h /\
    forall o, (forall key, value_target h self p <> Ok (Some (o, key))) -> nth_error h' o = nth_error h o.
Proof. exact set_value_frame. Qed.
Print Assumptions C10_set_value_frame.

(* set then get: for an element from position 4 on (segment matching never reads those), of a segment with at least
   three elements, with a value that does not end in the separator it would be split at *)
Theorem C10_set_then_get :
  forall h h' self p v tgt key ox sd i cj,
    node_set_value self p v h = (h', Ok tt) ->
    value_target h self p = Ok (Some (tgt, key)) ->
    nth_error h tgt = Some ox -> o_seg ox = Some sd ->
    refdes_pos (xg_s (sd_x sd)) key i cj ->
    C10_spec.value_ok (xg_d (sd_x sd)) (xg_s (sd_x sd)) i cj v ->
    3 <= i -> 3 <= seg_len (xg_s (sd_x sd)) ->
    node_get_value h' self p = Ok (Some v).
Proof. exact set_then_get_from_04. Qed.
Print Assumptions C10_set_then_get.
