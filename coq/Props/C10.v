(* Props/C10.v — property C10: the tree editing API obeys its read / write / copy laws.
   Statements only.  Proofs: Proofs/C10_tree.v (on the C17 segment laws); Spec/C10_spec.v; model: Model/Context.v.

   PARTIAL.  Proved over the heap model of the X12DataNode API, for every heap, node, path and value:
   - a copy shares no mutable data with its original: everything reachable from the copy was allocated by the copy,
     its inner parent pointers stay inside it, it looks the same as the original, and deleting or setting values
     through the copy leaves every original object untouched (set_value: when the copied node had no parent object —
     the copy's ROOT keeps the original's parent, and a '../' path through it reaches the original tree: proved
     counterexample);
   - exists / count / first / select agree whenever select completes;
   - set_value then get_value returns the value and changes exactly one segment object, inside it exactly the
     addressed element or component (hypotheses each shown necessary by a proved counterexample: the value does not
     end in the separator it would be split at; the path still resolves after the write, which holds when the element
     is not one that segment matching reads — position >= 4).
   - placement (Proofs/C10_place.v): after an Ok add_segment / add_loop / add_node the live children of the parent,
     read as (map position, object), are exactly insert_by_pos of the old ones and the new node — after the last
     live sibling whose position is <= the new one's, FIRST when there is none (a defect found while proving this and
     fixed in /repo: the node used to go last) — so children in map order stay in map order; the heap changes by the
     allocation and the parent's list only; the forest invariant is kept;
   - iteration (C10_place_iter.v): the parent's iterate_segments after the add is the old iteration with the new
     node's items spliced in at that place, each node exactly once (C10_add_segment_once);
   - delete (C10_place_del.v): delete() tombstones exactly the node, leaves every other object untouched, is
     idempotent, and every iteration / select / count / exists / first that completed before returns the same
     minus the deleted subtree, in the same order (C10_delete_laws); delete_segment likewise.
   Not proved: get_value / set_value after add or delete, traces that end in an exception for the delete laws, the
   add_* instances of copy independence.  add_node keeps the forest only for a detached node that is not an ancestor
   (the code does not check: proved counterexample ex_add_node_attached_twice).  The check runs random API scripts
   on model and implementation and applies the laws to the implementation. *)
From Coq Require Import String.
From PX.Lib Require Import Base PyStr.
From PX.Model Require Import Path Segment MapLoad MapTree Walker Context.
From PX.Spec Require Import C10_spec C10_place_spec.
From PX.Proofs Require Import C10_tree C10_place C10_place_iter C10_place_del.

Theorem C10_copy_is_fresh :
  forall h h' o c, copy_node o h = (h', Ok c) ->
    heap_extends h h' /\ c = length h /\
    (forall x, reachable_children h' c x <-> length h <= x < length h') /\
    (forall x obj, reachable_children h' c x -> x <> c -> nth_error h' x = Some obj ->
       exists y yo, o_parent obj = RObj y /\ reachable_children h' c y /\ length h <= y /\
                    nth_error h' y = Some yo /\ In x (o_children yo)).
Proof. exact copy_is_fresh. Qed.
Print Assumptions C10_copy_is_fresh.

Theorem C10_copy_looks_the_same :
  forall h h' o c, heap_wf h -> copy_node o h = (h', Ok c) ->
    iter_same_as_copy (node_iterate_segments h' c) (node_iterate_segments h o).
Proof. exact copy_looks_the_same. Qed.
Print Assumptions C10_copy_looks_the_same.

Theorem C10_delete_in_copy_leaves_original :
  forall h h' o c x h'' r, copy_node o h = (h', Ok c) -> reachable_children h' c x ->
    node_delete x h' = (h'', r) -> same_below (length h) h' h''.
Proof. exact copy_delete_independent. Qed.
Print Assumptions C10_delete_in_copy_leaves_original.

Theorem C10_set_value_in_copy_leaves_original :
  forall h h' o c ox x p v h'' r,
    copy_node o h = (h', Ok c) -> nth_error h o = Some ox -> (forall y, o_parent ox <> RObj y) ->
    reachable_children h' c x -> node_set_value x p v h' = (h'', r) -> same_below (length h) h' h''.
Proof. exact copy_set_value_independent. Qed.
Print Assumptions C10_set_value_in_copy_leaves_original.

Theorem C10_queries_agree :
  forall h self p xs, g_all (node_select h self p) = Ok xs ->
    node_exists h self p = Ok (negb (length xs =? 0)) /\ node_count h self p = Ok (length xs) /\
    node_first h self p = Ok (hd_error xs).
Proof. exact queries_agree. Qed.
Print Assumptions C10_queries_agree.

Theorem C10_set_value_frame :
  forall self p v h h' r, node_set_value self p v h = (h', r) ->
    length h' = length h /\
    forall o, (forall key, value_target h self p <> Ok (Some (o, key))) -> nth_error h' o = nth_error h o.
Proof. exact set_value_frame. Qed.
Print Assumptions C10_set_value_frame.

(* set then get: for an element from position 4 on (segment matching never reads those), of a segment with at least
   three elements, with a value that does not end in the separator it would be split at *)
Theorem C10_set_then_get :
  forall h h' self p v tgt key ox sd i cj,
    node_set_value self p v h = (h', Ok tt) ->
    value_target h self p = Ok (Some (tgt, key)) ->
    nth_error h tgt = Some ox -> o_seg ox = Some sd ->
    refdes_pos (xg_s (sd_x sd)) key i cj ->
    C10_spec.value_ok (xg_d (sd_x sd)) (xg_s (sd_x sd)) i cj v ->
    3 <= i -> 3 <= seg_len (xg_s (sd_x sd)) ->
    node_get_value h' self p = Ok (Some v).
Proof. exact set_then_get_from_04. Qed.
Print Assumptions C10_set_then_get.

(* ---- placement in map order ---- *)
Theorem C10_add_segment_placement :
  forall h h' p a n, forest h -> add_segment p a h = (h', Ok n) ->
  exists pos olds,
    live_children h p = Ok olds /\
    live_children h' p = Ok (insert_by_pos olds (pos, n)) /\
    (pos_sorted olds ->
       exists before after,
         olds = before ++ after /\
         live_children h' p = Ok (before ++ (pos, n) :: after) /\
         Forall (fun s => (fst s <= pos)%Z) before /\ Forall (fun s => (pos < fst s)%Z) after /\
         pos_sorted (before ++ (pos, n) :: after)).
Proof. exact add_segment_map_order. Qed.
Print Assumptions C10_add_segment_placement.

(* the exact heap after the add: one object allocated, the parent's list replaced, nothing else; invariant kept *)
Theorem C10_add_segment_heap :
  forall h h' p a n, forest h -> add_segment p a h = (h', Ok n) ->
  exists me mn x sm pos olds,
    nth_error h p = Some me /\ o_class me = CLoop /\ o_map me = Some mn /\
    get_segment h p a = Ok x /\ mn_child_node false mn x = Ok (Some sm) /\ mn_pos sm = Ok pos /\
    live_children h p = Ok olds /\
    n = length h /\
    h' = set_nth (h ++ [new_seg (Some sm) x (RObj p) [] []]) p
                 (upd_children me (map snd (insert_by_pos olds (pos, n)))) /\
    live_children h' p = Ok (insert_by_pos olds (pos, n)) /\
    forest h'.
Proof. exact add_segment_placement. Qed.
Print Assumptions C10_add_segment_heap.

(* the list-level law: a sorted sibling list stays sorted, the new node after equal positions *)
Theorem C10_insert_by_pos_sorted :
  forall (A : Type) (xs : list (Z * A)) v, pos_sorted xs ->
  exists before after,
    xs = before ++ after /\ insert_by_pos xs v = before ++ v :: after /\
    Forall (fun s => (fst s <= fst v)%Z) before /\ Forall (fun s => (fst v < fst s)%Z) after /\
    pos_sorted (insert_by_pos xs v).
Proof. intros A. exact (@insert_by_pos_sorted A). Qed.
Print Assumptions C10_insert_by_pos_sorted.

(* ---- exactly once in iteration ---- *)
Theorem C10_add_segment_once :
  forall h h' p a n items,
  forest h -> add_segment p a h = (h', Ok n) -> node_iterate_segments h' p = (items, None) ->
  exists l1 l2 it,
    node_iterate_segments h p = (l1 ++ l2, None) /\ items = l1 ++ it :: l2 /\ it_node it = n /\
    NoDup (map it_node items) /\ ~ In n (map it_node (l1 ++ l2)).
Proof. exact add_segment_once. Qed.
Print Assumptions C10_add_segment_once.

(* ---- delete ---- *)
Theorem C10_delete_laws :
  forall h h' x, forest h -> node_delete x h = (h', Ok tt) ->
  forest h' /\ length h' = length h /\ (forall o, o <> x -> nth_error h' o = nth_error h o) /\
  node_delete x h' = (h', Ok tt) /\
  (forall p l, p <> x -> live_ids h p = Ok l -> live_ids h' p = Ok (remove_one (Nat.eqb x) l)) /\
  (forall q xs, in_subtree h x q = false -> node_iterate_segments h q = (xs, None) ->
     node_iterate_segments h' q = (filter (fun it => negb (in_subtree h x (it_node it))) xs, None)) /\
  (forall q s xs, (forall y, up_chain h q y -> in_subtree h x y = false) -> g_all (node_select h q s) = Ok xs ->
     let xs' := filter (fun o => negb (in_subtree h x o)) xs in
     g_all (node_select h' q s) = Ok xs' /\
     node_count h q s = Ok (length xs) /\ node_count h' q s = Ok (length xs') /\
     node_exists h' q s = Ok (negb (length xs' =? 0)) /\ node_first h' q s = Ok (hd_error xs')).
Proof. exact node_delete_laws. Qed.
Print Assumptions C10_delete_laws.
