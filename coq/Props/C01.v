(* Props/C01.v — property C01: tokenisation is lossless and independent of read
   chunking and source kind.  Statements only. *)
From Coq Require Import String.
From PX.Lib Require Import Base PyStr.
From PX.Model Require Import Path Segment Raw Reader.
From PX.Spec Require Import C01_spec.
From PX.Proofs Require Import C01_exact C01_raw C01_roundtrip.

(* For every text with a well-formed ISA header and EVERY read schedule (every
   way the stream may split its reads), the raw tokeniser yields exactly the
   non-empty pieces terminated by the declared terminator, and recovers the
   declared delimiters. *)
Theorem C01_chunk_independent :
  forall t sch, header_ok t = true ->
  exists r, raw_all {| rest := t; sched := sch |} = Ok (r, raw_spec (seg_term (header_delims t)) t) /\
            delims_of r = header_delims t.
Proof. exact raw_chunk_independent. Qed.
Print Assumptions C01_chunk_independent.

(* The same for every buffer size >= 1 and every stream state (segments that
   straddle or exceed the buffer included): the iteration is a function of the
   remaining text alone. *)
Theorem C01_any_buffer_size :
  forall bufsize T buffer st fuel,
    1 <= bufsize -> S (length buffer + length (rest st)) <= fuel ->
    raw_lines fuel bufsize T buffer st = raw_spec T (buffer ++ rest st).
Proof. exact raw_lines_spec. Qed.
Print Assumptions C01_any_buffer_size.

(* Text that does not start with a well-formed header is refused with the documented error. *)
Theorem C01_bad_header_refused :
  forall t sch, header_ok t = false -> raw_all {| rest := t; sched := sch |} = Raise X12Error.
Proof. exact raw_rejects. Qed.
Print Assumptions C01_bad_header_refused.

(* Each raw segment string becomes exactly the specified segment: split only at
   the declared separators, never inside the ISA, values character for
   character; leading blanks and trailing separators are flagged. *)
Theorem C01_segment_construction :
  forall d x line x' s es,
    reader_line d x line = Ok (x', s, es) -> ~ In (seg_term d) line ->
    s = seg_of_line d line /\
    (In (mk_err "seg" "SEG1" (Some (cur_line x + 1)%Z)) es <-> has_trailing_sep d line = true) /\
    (has_leading_blank line = true -> In (mk_err "seg" "1" (Some (cur_line x + 1)%Z)) es).
Proof. exact reader_line_spec. Qed.
Print Assumptions C01_segment_construction.

(* Format then parse: the same segment up to trailing empty elements/components... *)
Theorem C01_format_parse_canon :
  forall d s, distinct_delims d = true -> clean_seg d s = true ->
  canon (parse_seg d (format_seg d s)) = canon s.
Proof. exact parse_format_canon. Qed.
Print Assumptions C01_format_parse_canon.

(* ... exactly the same segment when there is nothing to trim ... *)
Theorem C01_format_parse_exact :
  forall d s, distinct_delims d = true -> clean_seg d s = true -> canon s = s -> els s <> [] ->
  parse_seg d (format_seg d s) = s.
Proof. exact parse_format_exact. Qed.
Print Assumptions C01_format_parse_exact.

(* ... in fact EXACTLY when the segment has the shape the parser produces: every element is either the empty
   element [[]] or ends in a non-empty component, and the last element is non-empty unless it is the only one
   (computable predicate parser_shape, Proofs/C01_exact.v).  Interior empty elements and components are covered:
   N4*CITY**12345 and SV1*HC::X*1 satisfy it although canon s <> s. *)
Theorem C01_format_parse_exact_interior :
  forall d s, distinct_delims d = true -> clean_seg d s = true ->
  (parse_seg d (format_seg d s) = s <-> parser_shape s = true).
Proof. exact parse_format_exact_iff. Qed.
Print Assumptions C01_format_parse_exact_interior.

Theorem C01_parsed_has_shape :
  forall d s, distinct_delims d = true -> clean_seg d s = true ->
  parser_shape (parse_seg d (format_seg d s)) = true.
Proof. exact parsed_has_shape. Qed.
Print Assumptions C01_parsed_has_shape.

(* ... and a fixed point after one round. *)
Theorem C01_format_parse_idempotent :
  forall d s, distinct_delims d = true -> clean_seg d s = true ->
  let s' := parse_seg d (format_seg d s) in
  clean_seg d s' = true /\ parse_seg d (format_seg d s') = s'.
Proof. exact parse_format_fix. Qed.
Print Assumptions C01_format_parse_idempotent.

(* A formatted document tokenises back into its (re-parsed) segments. *)
Theorem C01_reread :
  forall d segs, distinct_delims d = true ->
  forallb (clean_seg d) segs = true -> forallb id_starts_plain segs = true ->
  map (seg_of_line d) (raw_spec (seg_term d) (concat (map (format_seg d) segs)))
  = map (fun s => parse_seg d (format_seg d s)) segs.
Proof. exact reread. Qed.
Print Assumptions C01_reread.

(* A source named by path delivers the file's characters unchanged (under the
   open() arguments regenerated from the source): path and stream agree. *)
Theorem C01_path_stream_agree :
  forall b, forallb (fun c => nat_of_ascii c <? 128) b = true ->
  open_path b = Ok {| rest := b; sched := [] |}.
Proof. exact path_stream_agree. Qed.
Print Assumptions C01_path_stream_agree.

(* A raw string of nothing but blanks is not a segment: it is dropped with a
   leading-space error and does not advance the reader; every other raw string
   is turned into a segment as above. *)
Theorem C01_blank_line_dropped :
  forall d x line, is_segment_line line = false -> line <> [] ->
  reader_line_opt d x line = Ok (x, None, [mk_err "seg" "1" (Some (cur_line x + 1)%Z)]).
Proof. exact blank_line_dropped. Qed.
Print Assumptions C01_blank_line_dropped.
