(* Props/C19.v — property C19: the HTML report shows every segment and error, with all source data escaped.
   Statements only (proofs in Proofs/C19_html.v, C19_lemmas.v, C19_doc*.v); models: Model/Html.v, Pipeline.v.

   Two levels.  (i) ONE gen_seg call (C19_segment_text, C19_no_foreign_markup, escaping, footer, heading).
   (ii) THE DOCUMENT (the C19_doc theorems): with the HTML sink on, for ANY environment, clock and text on which the run
   completes, gen_seg is called exactly once per source segment, in source order, with that segment and its line
   number; the report is header ++ the writes of those calls ++ footer, and stripped of markup it is the plain
   report of Spec/C19_doc_spec.v with the template's tags only; every node handed to a call is a node of the error
   tree at that moment, a segment node is handed over at most once, and what a call prints stays in the final tree.
   PARTIAL: "every reported error is shown (once)" is FALSE of the code — four machine-checked counterexamples on the
   shipped maps (C19_errors_not_all_shown; recorded findings, reproduced on the implementation): a reader error
   noticed on the line AFTER a segment whose node was already shown; errors after an ST that follows an unclosed
   set; an SE element error; an ST element error printed twice.  Hypotheses kept in C19_doc_strip: the date string
   holds no markup character (header() does not escape it) and codes_plain for every call. *)
From Coq Require Import String.
From PX.Lib Require Import Base PyStr.
From PX.Lib Require Import PyInt.
From PX.Model Require Import Path Segment Raw Reader MapLoad MapTree Walker MapEnv Driver Pipeline Errh ErrIter OutW Html.
From PX.Spec Require Import C09_spec C19_spec C19_doc_spec.
From PX.Proofs Require Import C07_driver_maps C19_html C07_sink_defs C19_doc C19_doc_text C19_doc_errors C19_doc_grow C19_doc_examples.

(* Escaping: whatever the value, what is written contains no < or >, a tag stripper returns exactly the value
   (in any context), and the value adds no tag. *)
Theorem C19_escape_safe :
  forall v, forallb (fun c => negb (Ascii.eqb c "<"%char || Ascii.eqb c ">"%char)) (esc v) = true.
Proof. exact esc_no_angle. Qed.
Print Assumptions C19_escape_safe.

Theorem C19_escape_recoverable :
  forall v rest, strip false (esc v ++ rest) = v ++ strip false rest /\ tags_of None (esc v ++ rest) = tags_of None rest.
Proof. intros v rest. split; [apply strip_esc | apply tags_esc]. Qed.
Print Assumptions C19_escape_recoverable.

(* One gen_seg call that completes, for ANY segment, delimiters, line number, pending loop heading and error
   nodes with ANY messages and values: stripping the markup leaves exactly the code-3 errors, the heading,
   "<line>: <segment as in the source, every element and component>", then every other segment error and every
   element error of those nodes (minus the documented GE/GS suppression); the heading is consumed. *)
Theorem C19_segment_text :
  forall h x line nodes info st' writes,
    codes_plain h (sid (xs_s x)) nodes ->
    html_gen_seg (cfg_of (xs_d x)) h x (Some line) nodes {| loop_info := option_map esc info |} = (st', writes, Ok tt) ->
    strip_markup (concat writes) = plain_gen_seg h x line info nodes /\ loop_info st' = None.
Proof. exact gen_seg_strip. Qed.
Print Assumptions C19_segment_text.

(* ... and every tag in it is one of the report's own: input never introduces markup. *)
Theorem C19_no_foreign_markup :
  forall h x line nodes info st' writes,
    codes_plain h (sid (xs_s x)) nodes ->
    html_gen_seg (cfg_of (xs_d x)) h x (Some line) nodes {| loop_info := option_map esc info |} = (st', writes, Ok tt) ->
    forall t, In t (tags (concat writes)) -> In t report_tags.
Proof. exact gen_seg_tags. Qed.
Print Assumptions C19_no_foreign_markup.

(* The loop heading kept between calls is always an escaped string (the premise of the two theorems above). *)
Theorem C19_heading_escaped :
  forall st i n t, (exists info, loop_info st = option_map esc info) ->
                   exists info, loop_info (html_loop st i n t) = option_map esc info.
Proof. exact loop_info_escaped. Qed.
Print Assumptions C19_heading_escaped.

(* The footer: the trailing envelope errors of unclosed loops, then the fixed closing text; own tags only. *)
Theorem C19_footer_text :
  forall h writes,
    html_footer h tt = (tt, writes, Ok tt) ->
    strip_markup (concat writes) =
      plain_footer_part (c_st h) (h_st h) st_is_closed tn_errors "2" ++
      plain_footer_part (c_gs h) (h_gs h) gs_is_closed gn_errors "3" ++
      plain_footer_part (c_isa h) (h_isa h) isa_is_closed in_errors "023" ++
      NL ++ NL ++ list_ascii_of_string "pyx12 Validator" ++ NL ++ NL ++ NL ++ NL
    /\ (forall t, In t (tags (concat writes)) -> In t report_tags).
Proof. exact footer_strip. Qed.
Print Assumptions C19_footer_text.

(* ================= the document level ================= *)
(* 1. CALLS.  Any environment, clock, dtd, text, sink mask with the HTML sink on; the run completes.  Then html.gen_seg
   was called exactly once per source segment, in source order, with that segment and the reader's line number
   (Spec/C09_spec.v source_items), all with the delimiters of the source — or the ISA header was unreadable and there
   is no report at all (fd_html empty, verdict False). *)
Theorem C19_doc_calls :
  forall load idx clk htime dtd sk text b,
    want_html sk = true ->
    let r := run_pipeline_gen load idx clk htime dtd sk text in
    o_result r = Ok b ->
    (source_lines text = Raise X12Error /\ shown_segments r = [] /\ o_html r = [] /\ b = false)
    \/
    (source_lines text = Ok (shown_segments r) /\
     exists ra, raw_all {| rest := text; sched := [] |} = Ok ra /\
                Forall (fun c => Errh.xs_d (fst (fst c)) = delims_of (fst ra)) (o_html_calls r)).
Proof. exact doc_calls. Qed.
Print Assumptions C19_doc_calls.


(* 2. TEXT.  ... the report is header() ++ the writes of those calls, in order ++ footer(); the calls are those of the
   views of the SINK-LESS run (doc_views: handler snapshot, err_iter's nodes, pending heading), each completing on an
   error_html object whose pending heading is the escaped sv_info — the premise of C19_segment_text. *)
Theorem C19_doc_text :
  forall load idx clk htime dtd sk text b,
    want_html sk = true ->
    let r := run_pipeline_gen load idx clk htime dtd sk text in
    o_result r = Ok b ->
    (raw_all {| rest := text; sched := [] |} = Raise X12Error /\ r = no_output (Ok false))
    \/
    exists E lines d0 views d1 d2 b' fw,
      doc_setup load idx text = Ok (E, lines, d0) /\
      doc_views E lines d0 ErrIter.iter_init = Ok (views, d1) /\
      finish d1 = (d2, Ok b') /\
      Html.html_footer (ds_errh d2) tt = (tt, fw, Ok tt) /\
      Forall (view_ok (de_d E)) views /\
      o_html_calls r = map (view_call (de_d E)) views /\
      o_html r = concat (Html.html_header htime) ++
                 concat (map (fun v => concat (view_writes (de_d E) v)) views) ++
                 concat fw.
Proof. exact doc_structure. Qed.
Print Assumptions C19_doc_text.


(* ... and stripped of its markup it is plain_report: the header texts, per segment what C19_segment_text says, the
   footer texts; every tag is one of the template's.  Hypotheses kept: the date string holds no markup character
   (header() does not escape it), and codes_plain for every call (the side condition of C19_segment_text). *)
Theorem C19_doc_strip :
  forall load idx clk htime dtd sk text b,
    want_html sk = true ->
    let r := run_pipeline_gen load idx clk htime dtd sk text in
    o_result r = Ok b ->
    raw_all {| rest := text; sched := [] |} <> Raise X12Error ->
    markup_free htime = true ->
    exists E lines d0 views d1 d2 b',
      doc_setup load idx text = Ok (E, lines, d0) /\
      doc_views E lines d0 ErrIter.iter_init = Ok (views, d1) /\
      finish d1 = (d2, Ok b') /\
      o_html_calls r = map (view_call (de_d E)) views /\
      (Forall view_codes_plain views ->
       strip_markup (o_html r) = plain_report (de_d E) htime views (ds_errh d2) /\
       forall t, In t (tags (o_html r)) -> In t (header_tags ++ report_tags)).
Proof. exact doc_report_chunk. Qed.
Print Assumptions C19_doc_strip.


(* 3. ERRORS.  For the views of any document: every node handed to a call is, in the handler at that moment, a node of
   the error tree (so gen_seg reads its errors and elements there); a segment node is handed over at most once in the
   whole run; the handler is a forest at every call and at the end.  The converse (every error of the final tree is
   handed over / printed) is FALSE: Proofs/C19_doc_examples.v F1-F4. *)
Theorem C19_doc_nodes :
  forall load idx text E lines d0 views d1,
    doc_setup load idx text = Ok (E, lines, d0) ->
    doc_views E lines d0 ErrIter.iter_init = Ok (views, d1) ->
    Forall view_sound views /\
    NoDup (filter is_seg_ref (concat (map sv_nodes views))) /\
    H2 (ds_errh d1) /\ Forall (fun v => ext (sv_errh v) (ds_errh d1)) views.
Proof. exact doc_nodes. Qed.
Print Assumptions C19_doc_nodes.


(* ... and whatever a call can print for a node is still in the tree when the run ends, same node, same order:
   the handler only appends. *)
Theorem C19_doc_errors_kept :
  forall E lines d0 views d1 d2 b',
    doc_views E lines d0 ErrIter.iter_init = Ok (views, d1) ->
    finish d1 = (d2, Ok b') ->
    Forall (fun v => forall o r,
              pre (node_errors (sv_errh v) o r) (node_errors (ds_errh d2) o r) /\
              pre (node_elements (sv_errh v) r) (node_elements (ds_errh d2) r)) views.
Proof. exact doc_errors_kept. Qed.
Print Assumptions C19_doc_errors_kept.



(* "every reported error is shown exactly once" is false of the code: four completed runs on the shipped maps
   (each also reproduced on the implementation; recorded findings) *)
Theorem C19_errors_not_all_shown :
  (* F1: the reader's error for "SE*4*0001*" lands on the AK9 node, which was already shown: never printed *)
  count_sub (sl "SEG1") (report doc_F1) = 0 /\
  (* F3: the SE02 element error lives on the set node, handed over at the ST line only: never printed *)
  (count_sub (sl "(ST02)") (report doc_F3) = 1 /\ count_sub (sl "(SE02)") (report doc_F3) = 0) /\
  (* F4: with an error on AK9 the set node comes back at the SE line: the ST02 error is printed twice *)
  (count_sub (sl "(ST02)") (report doc_F4) = 2 /\ count_sub (sl "(SE02)") (report doc_F4) = 1) /\
  (* all four runs complete *)
  o_result (run html_only doc_F1) = Ok false /\ o_result (run html_only doc_F2) = Ok false /\
  o_result (run html_only doc_F3) = Ok false /\ o_result (run html_only doc_F4) = Ok false.
Proof.
  destruct F1_late_error_never_shown as (R1 & _ & C1).
  destruct F2_iterator_stuck as (R2 & _).
  destruct F3_SE_element_error_never_shown as (R3 & _ & C3a & C3b).
  destruct F4_ST_element_error_shown_twice as (R4 & _ & C4a & C4b).
  repeat split; assumption.
Qed.
Print Assumptions C19_errors_not_all_shown.
