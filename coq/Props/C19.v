(* Props/C19.v — property C19: the HTML report shows every segment and error, with all source data escaped.
   Statements only (proofs in Proofs/C19_html.v, Proofs/C19_lemmas.v); model: Model/Html.v. *)
From Coq Require Import String.
From PX.Lib Require Import Base PyStr.
From PX.Model Require Import Path Segment Errh ErrIter OutW Html.
From PX.Spec Require Import C19_spec.
From PX.Proofs Require Import C19_html.

(* Escaping: whatever the value, what is written contains no < or >, a tag stripper returns exactly the value
   (in any context), and the value adds no tag. *)
Theorem C19_escape_safe :
  forall v, forallb (fun c => negb (Ascii.eqb c "<"%char || Ascii.eqb c ">"%char)) (esc v) = true.
Proof. exact esc_no_angle. Qed.
Print Assumptions C19_escape_safe.

Theorem C19_escape_recoverable :
  forall v rest, strip false (esc v ++ rest) = v ++ strip false rest /\ tags_of None (esc v ++ rest) = tags_of None rest.
Proof. intros v rest. split; [apply strip_esc | apply tags_esc]. Qed.
Print Assumptions C19_escape_recoverable.

(* One gen_seg call that completes, for ANY segment, delimiters, line number, pending loop heading and error
   nodes with ANY messages and values: stripping the markup leaves exactly the code-3 errors, the heading,
   "<line>: <segment as in the source, every element and component>", then every other segment error and every
   element error of those nodes (minus the documented GE/GS suppression); the heading is consumed. *)
Theorem C19_segment_text :
  forall h x line nodes info st' writes,
    codes_plain h (sid (xs_s x)) nodes ->
    html_gen_seg (cfg_of (xs_d x)) h x (Some line) nodes {| loop_info := option_map esc info |} = (st', writes, Ok tt) ->
    strip_markup (concat writes) = plain_gen_seg h x line info nodes /\ loop_info st' = None.
Proof. exact gen_seg_strip. Qed.
Print Assumptions C19_segment_text.

(* ... and every tag in it is one of the report's own: input never introduces markup. *)
Theorem C19_no_foreign_markup :
  forall h x line nodes info st' writes,
    codes_plain h (sid (xs_s x)) nodes ->
    html_gen_seg (cfg_of (xs_d x)) h x (Some line) nodes {| loop_info := option_map esc info |} = (st', writes, Ok tt) ->
    forall t, In t (tags (concat writes)) -> In t report_tags.
Proof. exact gen_seg_tags. Qed.
Print Assumptions C19_no_foreign_markup.

(* The loop heading kept between calls is always an escaped string (the premise of the two theorems above). *)
Theorem C19_heading_escaped :
  forall st i n t, (exists info, loop_info st = option_map esc info) ->
                   exists info, loop_info (html_loop st i n t) = option_map esc info.
Proof. exact loop_info_escaped. Qed.
Print Assumptions C19_heading_escaped.

(* The footer: the trailing envelope errors of unclosed loops, then the fixed closing text; own tags only. *)
Theorem C19_footer_text :
  forall h writes,
    html_footer h tt = (tt, writes, Ok tt) ->
    strip_markup (concat writes) =
      plain_footer_part (c_st h) (h_st h) st_is_closed tn_errors "2" ++
      plain_footer_part (c_gs h) (h_gs h) gs_is_closed gn_errors "3" ++
      plain_footer_part (c_isa h) (h_isa h) isa_is_closed in_errors "023" ++
      NL ++ NL ++ list_ascii_of_string "pyx12 Validator" ++ NL ++ NL ++ NL ++ NL
    /\ (forall t, In t (tags (concat writes)) -> In t report_tags).
Proof. exact footer_strip. Qed.
Print Assumptions C19_footer_text.
