(* Props/C13.v — property C13: the data-type recognisers accept exactly the
   X12 value languages and never raise.  Statements only; the languages are
   defined in Spec/C13_spec.v, the recogniser is the model of
   pyx12/validation.py over the regexes regenerated from the source. *)
From Coq Require Import String.
From PX.Lib Require Import Base.
From PX.Model Require Import Validation.
From PX.Spec Require Import C13_spec.
From PX.Proofs Require Import C13_main.

(* For every string, every data type, both character-set settings and every
   version string: the recogniser returns (never raises), and returns true
   exactly on the language the type selects. *)
Theorem C13_exact_languages :
  forall s ty charset icvn, charset_ok charset ->
  exists b, IsValidDataType s ty charset icvn = Ok b /\ (b = true <-> In_language ty charset icvn s).
Proof. exact model_language. Qed.
Print Assumptions C13_exact_languages.

Theorem C13_never_raises :
  forall s ty charset icvn, charset_ok charset -> exists b, IsValidDataType s ty charset icvn = Ok b.
Proof. exact model_never_raises. Qed.
Print Assumptions C13_never_raises.

Theorem C13_integer : forall ty' charset icvn, charset_ok charset -> decides ("N"%char :: ty') charset icvn L_N.
Proof. exact lang_N. Qed.
Print Assumptions C13_integer.

Theorem C13_decimal : forall charset icvn, charset_ok charset -> decides (l "R") charset icvn L_R.
Proof. exact lang_R. Qed.
Print Assumptions C13_decimal.

Theorem C13_identifier : forall charset icvn, charset_ok charset -> decides (l "ID") charset icvn (L_ID charset icvn).
Proof. exact lang_ID. Qed.
Print Assumptions C13_identifier.

Theorem C13_string : forall charset icvn, charset_ok charset -> decides (l "AN") charset icvn (L_ID charset icvn).
Proof. exact lang_AN. Qed.
Print Assumptions C13_string.

Theorem C13_date : forall charset icvn, charset_ok charset ->
  decides (l "DT") charset icvn L_DT /\ decides (l "D8") charset icvn date8 /\ decides (l "D6") charset icvn date6.
Proof. intros charset icvn H. exact (conj (lang_DT charset icvn H) (conj (lang_D8 charset icvn H) (lang_D6 charset icvn H))). Qed.
Print Assumptions C13_date.

Theorem C13_date_range : forall charset icvn, charset_ok charset -> decides (l "RD8") charset icvn L_RD8.
Proof. exact lang_RD8. Qed.
Print Assumptions C13_date_range.

Theorem C13_time : forall charset icvn, charset_ok charset -> decides (l "TM") charset icvn L_TM.
Proof. exact lang_TM. Qed.
Print Assumptions C13_time.
