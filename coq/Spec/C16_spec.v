(* C16_spec.v — consistency and addressability of a loaded map, as computable
   checks (decided per shipped map by vm_compute over the regenerated XML).

   The path scheme of pyx12 cannot address some nodes by construction; those
   are described by the structural predicate `shadowed` below (they are the
   recorded findings of C16), and every check says "... for every node that is
   not shadowed". *)
From Coq Require Import String.
From PX.Lib Require Import Base PyStr PyInt Regex Xml.
From PX.Model Require Show.
From PX.Model Require Import Path Segment Syntax MapLoad MapTree.

Definition cs (x : string) : str := list_ascii_of_string x.

(* ---------- clause: references are defined ---------- *)
Definition elem_refs_ok (m : xmap) (e : elem) : bool :=
  match de_find (m_dataele m) (e_data_ele e) None with
  | Some _ => match e_data_ele e with Some (_ :: _) => true | _ => false end
  | None => false
  end &&
  match e_external e with
  | None => true
  | Some k => match cs_find (m_codes m) (Some k) None with Some _ => true | None => false end
  end.

Definition sub_elems (c : sub) : list elem := match c with SubE e => [e] | SubC c0 => c_children c0 end.

Fixpoint all_segs (fuel : nat) (n : node) : list segm :=
  match fuel with
  | 0 => []
  | S f => match n with
           | NSeg sg => [sg]
           | NLoop _ _ _ _ _ _ pm => flat_map (all_segs f) (pm_nodes pm)
           end
  end.
Definition map_segs (m : xmap) : list segm := flat_map (all_segs 40) (root_nodes m).

Definition refs_defined (m : xmap) : bool :=
  forallb (fun sg => forallb (fun c => forallb (elem_refs_ok m) (sub_elems c)) (s_children sg)) (map_segs m).

(* ---------- clause: usages, limits, positions, ids, syntax notes well formed ---------- *)
Definition usage_ok (u : option str) : bool :=
  ostr_eqb u (Some (cs "R")) || ostr_eqb u (Some (cs "S")) || ostr_eqb u (Some (cs "N")).

Definition limit_ok (v : option str) : bool :=
  match v with
  | None => true
  | Some x => str_eqb x (cs ">1") || match py_int x with Some z => (1 <=? z)%Z | None => false end
  end.

(* children are numbered 1..n in order, and ids are <segment id><two-digit position>[-<two-digit component>] *)
Definition sub_seq (c : sub) : Z := match c with SubE e => e_seq e | SubC c0 => c_seq c0 end.
Definition sub_id (c : sub) : option str := match c with SubE e => e_id e | SubC c0 => c_id c0 end.

Fixpoint seqs_from (k : Z) (zs : list Z) : bool :=
  match zs with [] => true | z :: rest => Z.eqb z k && seqs_from (k + 1) rest end.

Definition ele_id_ok (sg : segm) (c : sub) : bool :=
  match s_id sg with
  | Some sid0 =>
      (ostr_eqb (sub_id c) (Some (sid0 ++ fmt_02 (Z.to_N (sub_seq c)))) ||
       match c with SubC c0 => negb (truthy (c_id c0)) | SubE _ => false end) &&   (* older maps: composites without xid *)
      match c with
      | SubE _ => true
      | SubC c0 =>
          seqs_from 1 (map e_seq (c_children c0)) &&
          forallb (fun e => ostr_eqb (e_id e) (Some (sid0 ++ fmt_02 (Z.to_N (c_seq c0)) ++ cs "-" ++ fmt_02 (Z.to_N (e_seq e)))))
                  (c_children c0)
      end
  | None => false
  end.

Definition note_ok_b (n_children : nat) (note : ascii * list Z) : bool :=
  mem_ascii (fst note) (cs "PRECL") && (2 <=? length (snd note)) &&
  forallb (fun z => (1 <=? z)%Z && (z <=? Z.of_nat n_children)%Z) (snd note).

Definition seg_shape_ok (sg : segm) : bool :=
  usage_ok (s_usage sg) && limit_ok (s_max_use sg) && (0 <? s_pos sg)%Z &&
  seqs_from 1 (map sub_seq (s_children sg)) &&
  forallb (fun c => forallb (fun e => usage_ok (e_usage e)) (sub_elems c) &&
                    match c with SubC c0 => usage_ok (c_usage c0) | SubE _ => true end) (s_children sg) &&
  forallb (note_ok_b (length (s_children sg))) (s_syntax sg) &&
  negb (match s_children sg with [] => true | _ => false end).

Fixpoint loops_shape_ok (fuel : nat) (n : node) : bool :=
  match fuel with
  | 0 => false
  | S f =>
      match n with
      | NSeg sg => seg_shape_ok sg
      | NLoop i _ _ us ps rp pm =>
          match i with Some (_ :: _) => true | _ => false end &&
          usage_ok us && (0 <? ps)%Z &&
          (match rp with None => true | Some x => str_eqb x (cs ">1") || str_eqb x (cs "&gt;1") ||
                                                  match py_int x with Some z => (1 <=? z)%Z | None => false end end) &&
          forallb (loops_shape_ok f) (pm_nodes pm)
      end
  end.

Definition shapes_ok (m : xmap) : bool := forallb (loops_shape_ok 40) (root_nodes m).

(* ---------- clause: siblings at one position can be told apart by id and qualifier ---------- *)
(* the codes of the element that qualifies a segment (guess_unique_key_id_element), [] when none *)
Definition key_codes (m : xmap) (sg : segm) : list (option str) :=
  match guess_key_elem (m_dataele m) sg with
  | Ok (Some e) => e_codes e
  | _ => []
  end.

Definition disjoint_codes (a b : list (option str)) : bool :=
  negb (existsb (fun x => existsb (ostr_eqb x) b) a).

(* the first segment of a node (for a loop: of its first child, recursively) *)
Fixpoint first_seg (fuel : nat) (n : node) : option segm :=
  match fuel with
  | 0 => None
  | S f => match n with
           | NSeg sg => Some sg
           | NLoop _ _ _ _ _ _ pm => match pm_nodes pm with c :: _ => first_seg f c | [] => None end
           end
  end.

Definition distinguishable (m : xmap) (a b : node) : bool :=
  match first_seg 40 a, first_seg 40 b with
  | Some sa, Some sb =>
      negb (ostr_eqb (s_id sa) (s_id sb)) ||
      (negb (match key_codes m sa with [] => true | _ => false end) &&
       negb (match key_codes m sb with [] => true | _ => false end) &&
       disjoint_codes (key_codes m sa) (key_codes m sb))
  | _, _ => false
  end.

Fixpoint pairwise {A} (f : A -> A -> bool) (xs : list A) : bool :=
  match xs with
  | [] => true
  | x :: rest => forallb (f x) rest && pairwise f rest
  end.

Fixpoint siblings_ok_node (fuel : nat) (m : xmap) (n : node) : bool :=
  match fuel with
  | 0 => false
  | S f =>
      match n with
      | NSeg _ => true
      | NLoop _ _ _ _ _ _ pm =>
          forallb (fun g => pairwise (distinguishable m) (snd g)) pm &&
          forallb (siblings_ok_node f m) (pm_nodes pm)
      end
  end.

Definition siblings_distinguishable (m : xmap) : bool :=
  forallb (fun g => pairwise (distinguishable m) (snd g)) (m_pos_map m) &&
  forallb (siblings_ok_node 40 m) (root_nodes m).

(* ---------- clause: index keys unambiguous, every named file present ---------- *)
Definition entry_key_eqb (a b : map_entry) : bool :=
  ostr_eqb (mi_icvn a) (mi_icvn b) && ostr_eqb (mi_vriic a) (mi_vriic b) &&
  ostr_eqb (mi_fic a) (mi_fic b) && ostr_eqb (mi_tspc a) (mi_tspc b).

Definition index_unambiguous (idx : list map_entry) : bool :=
  pairwise (fun a b => negb (entry_key_eqb a b)) idx.

Definition index_files_present (idx : list map_entry) (files : list str) : bool :=
  forallb (fun a => match mi_file a with Some f => mem_str f files | None => false end) idx.

(* the files the index names that are not in the directory *)
Fixpoint dedup (xs : list str) : list str :=
  match xs with [] => [] | x :: r => x :: filter (fun y => negb (str_eqb x y)) (dedup r) end.
Definition index_missing_files (idx : list map_entry) (files : list str) : list str :=
  dedup (flat_map (fun a => match mi_file a with
                            | Some f => if mem_str f files then [] else [f]
                            | None => [cs "<None>"] end) idx).

(* ---------- clause: every node can be fetched again by its own path; paths are unique ---------- *)
(* Nodes the path scheme cannot address (recorded findings):
   - a segment is shadowed when an earlier sibling segment of the same loop has the same id and
     (the path carries no qualifier, or that sibling's qualifying codes contain the qualifier);
   - an element, composite or component is shadowed when its segment is not the first segment
     with that id in its loop (element paths carry no qualifier) — or that segment is shadowed;
   - a loop whose id has the shape of a segment id (e.g. AK2) cannot end a path. *)
Definition seg_qual (sg : segm) : option str :=
  match s_path sg, s_id sg with
  | Some p, Some i => if length i <? length p then Some (removelast (skipn (S (length i)) p)) else None
  | _, _ => None
  end.

Definition earlier_same_id (kids : list node) (i : nat) (sg : segm) : list segm :=
  flat_map (fun n => match n with NSeg s0 => if ostr_eqb (s_id s0) (s_id sg) then [s0] else [] | _ => [] end)
           (firstn i kids).

Definition seg_shadowed (m : xmap) (kids : list node) (i : nat) (sg : segm) : bool :=
  match seg_qual sg with
  | None => negb (match earlier_same_id kids i sg with [] => true | _ => false end)
  | Some q => existsb (fun s0 => existsb (ostr_eqb (Some q)) (key_codes m s0)) (earlier_same_id kids i sg)
  end.

Definition seglike (i : str) : bool :=
  match i with
  | a :: rest => let up c := let n := nat_of_ascii c in (65 <=? n) && (n <=? 90) in
                 let un c := up c || is_digit c in
                 up a && ((length rest =? 1) || (length rest =? 2)) && forallb un rest
  | [] => false
  end.

(* kids of the loop (or root) that directly contains the node with reference r *)
Definition parent_kids (m : xmap) (r : nref) : list node :=
  match removelast r with
  | [] => root_nodes m
  | pr => match node_at (root_nodes m) pr with Some n => node_children n | None => [] end
  end.

Definition shadowed (m : xmap) (ni : nodeinfo) : bool :=
  match ni_kind ni with
  | KLoop => match ni_id ni with Some i => seglike i | None => false end
  | KSeg =>
      match node_at (root_nodes m) (ni_ref ni) with
      | Some (NSeg sg) => seg_shadowed m (parent_kids m (ni_ref ni)) (last (ni_ref ni) 0) sg
      | _ => false
      end
  | KEle | KComp =>
      let sr := removelast (ni_ref ni) in
      match node_at (root_nodes m) sr with
      | Some (NSeg sg) => negb (match earlier_same_id (parent_kids m sr) (last sr 0) sg with [] => true | _ => false end)
      | _ => false
      end
  | KSub =>
      let sr := removelast (removelast (ni_ref ni)) in
      match node_at (root_nodes m) sr with
      | Some (NSeg sg) => negb (match earlier_same_id (parent_kids m sr) (last sr 0) sg with [] => true | _ => false end)
      | _ => false
      end
  end.

Definition nref_eqb (a b : nref) : bool := list_eqb Nat.eqb a b.

Definition addressable2 (m : xmap) (ni : nodeinfo) : bool :=
  match ni_path ni with
  | Ok p => match map_getnodebypath2 m p with
            | Ok (Some r) => nref_eqb r (ni_ref ni)
            | _ => false
            end
  | Raise _ => false
  end.

Definition addressable1 (m : xmap) (ni : nodeinfo) : bool :=
  match ni_kind ni with
  | KLoop | KSeg =>
      match ni_path ni with
      | Ok p => match map_getnodebypath m p with
                | Ok (Some r) => nref_eqb r (ni_ref ni)
                | _ => false
                end
      | Raise _ => false
      end
  | _ => true
  end.

Definition self_addressable (m : xmap) : bool :=
  forallb (fun ni => shadowed m ni || (addressable2 m ni && (addressable1 m ni || match ni_kind ni with KLoop => seglike (match ni_id ni with Some i => i | None => [] end) | _ => false end)))
          (all_infos m).

(* loop ids are unique among the loops of a parent, and the paths of the segments that are not
   shadowed are unique in their loop: hence paths are unique among addressable nodes *)
Fixpoint local_unique (fuel : nat) (m : xmap) (kids : list node) : bool :=
  match fuel with
  | 0 => false
  | S f =>
      pairwise (fun a b => negb (ostr_eqb a b))
               (flat_map (fun n => match n with NLoop i _ _ _ _ _ _ => [i] | NSeg _ => [] end) kids) &&
      pairwise (fun a b => negb (ostr_eqb a b))
               (flat_map (fun ic => match snd ic with
                                    | NSeg sg => if seg_shadowed m kids (fst ic) sg then [] else [s_path sg]
                                    | NLoop _ _ _ _ _ _ _ => []
                                    end) (combine (seq 0 (length kids)) kids)) &&
      forallb (fun n => match n with NLoop _ _ _ _ _ _ pm => local_unique f m (pm_nodes pm) | NSeg _ => true end) kids
  end.

Definition paths_unique (m : xmap) : bool := local_unique 40 m (root_nodes m).

(* everything at once *)
Definition map_consistent (m : xmap) : bool :=
  refs_defined m && shapes_ok m && siblings_distinguishable m && self_addressable m && paths_unique m.

(* ---------- the same clauses as lists of offenders (so that a recorded finding is an exact, small list) ---------- *)
Definition tag (k : string) (parts : list str) : str := join ":"%char (cs k :: parts).
Definition ostr_show (o : option str) : str := match o with Some x => x | None => cs "<None>" end.

Definition refs_off (m : xmap) : list str :=
  flat_map (fun sg => flat_map (fun c => flat_map (fun e => if elem_refs_ok m e then []
                                                             else [tag "ref" [ostr_show (e_id e); ostr_show (e_data_ele e); ostr_show (e_external e)]])
                                                  (sub_elems c)) (s_children sg)) (map_segs m).

Fixpoint shape_off_node (fuel : nat) (n : node) : list str :=
  match fuel with
  | 0 => [cs "shape:fuel"]
  | S f =>
      match n with
      | NSeg sg => if seg_shape_ok sg then [] else [tag "shape-seg" [ostr_show (s_id sg); ostr_show (s_path sg)]]
      | NLoop i t nm us ps rp pm =>
          (if loops_shape_ok 1 (NLoop i t nm us ps rp []) then [] else [tag "shape-loop" [ostr_show i; ostr_show rp]]) ++
          flat_map (shape_off_node f) (pm_nodes pm)
      end
  end.
Definition shapes_off (m : xmap) : list str := flat_map (shape_off_node 40) (root_nodes m).

Fixpoint pair_off {A} (f : A -> A -> bool) (show : A -> A -> str) (xs : list A) : list str :=
  match xs with
  | [] => []
  | x :: rest => flat_map (fun y => if f x y then [] else [show x y]) rest ++ pair_off f show rest
  end.

Definition first_seg_id (n : node) : str := match first_seg 40 n with Some sg => ostr_show (s_id sg) | None => cs "?" end.

Fixpoint siblings_off_node (fuel : nat) (m : xmap) (n : node) : list str :=
  match fuel with
  | 0 => []
  | S f =>
      match n with
      | NSeg _ => []
      | NLoop i _ _ _ _ _ pm =>
          flat_map (fun g => pair_off (distinguishable m)
                                      (fun a b => tag "siblings" [ostr_show i; Show.show_Z (fst g); first_seg_id a])
                                      (snd g)) pm ++
          flat_map (siblings_off_node f m) (pm_nodes pm)
      end
  end.
Definition siblings_off (m : xmap) : list str := flat_map (siblings_off_node 40 m) (root_nodes m).

Definition addr_off (m : xmap) : list str :=
  flat_map (fun ni => if shadowed m ni ||
                         (addressable2 m ni &&
                          (addressable1 m ni || match ni_kind ni with
                                                | KLoop => seglike (match ni_id ni with Some i => i | None => [] end)
                                                | _ => false end))
                      then [] else [tag "addr" [match ni_path ni with Ok p => p | Raise _ => cs "!" end]])
           (all_infos m).

Definition unique_off (m : xmap) : list str := if paths_unique m then [] else [cs "paths-not-unique"].

Definition map_offenders (rx : regex_table) (dataele_xml codes_xml root : xml) : list str :=
  match load_map rx dataele_xml codes_xml None (cs "B") root with
  | Raise e => [tag "load" [Show.show_exn e]]
  | Ok m => refs_off m ++ shapes_off m ++ siblings_off m ++ addr_off m ++ unique_off m
  end.
