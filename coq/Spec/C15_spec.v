(* C15_spec.v — what an element definition implies for a candidate value, as
   independent clauses (no order, no precedence): each error code is implied
   exactly when its clause holds. *)
From Coq Require Import String.
From PX.Lib Require Import Base PyStr PyInt Regex.
From PX.Model Require Import Path Segment MapLoad MapTree Validation.
From PX.Spec Require C13_dec.

Definition cs (x : string) : str := list_ascii_of_string x.

(* reference to an external code set: none, one that the parameters exclude from checking, or its codes *)
Inductive ext_ref := NoExt | ExtExcluded | ExtSet (codes : list (option str)).

(* the definition as the property names it *)
Record edef := {
  d_usage : option str;               (* R, S, N *)
  d_type : option str; d_min : Z; d_max : Z;      (* from the data element *)
  d_codes : list (option str);        (* inline code list *)
  d_external : ext_ref;               (* the referenced external code set *)
  d_regex : option re
}.

Definition is_numeric_type (t : option str) : bool :=
  match t with Some ("R"%char :: []) => true | Some ("N"%char :: _) => true | _ => false end.

(* length as X12 counts it: sign and decimal point are not counted for numbers *)
Definition x12_len (t : option str) (v : str) : Z :=
  Z.of_nat (length (if is_numeric_type t then filter (fun c => negb (Ascii.eqb c "-"%char) && negb (Ascii.eqb c "."%char)) v else v)).

Definition has_control_char (v : str) : bool :=
  match contains_control_character v with Some _ => true | None => false end.

Definition is_text_type (t : option str) : bool := match t with Some x => mem_str x [cs "AN"; cs "ID"] | None => false end.

Definition needless_trailing_blank (d : edef) (v : str) : bool :=
  is_text_type (d_type d) && match rev v with c :: _ => Ascii.eqb c " "%char | [] => false end &&
  (d_min d <=? Z.of_nat (length (rstrip_ws v)))%Z.

Definition in_code_lists (d : edef) (v : str) : bool :=
  (match d_codes d with [] => true | _ => false end && match d_external d with NoExt => true | _ => false end) ||
  existsb (ostr_eqb (Some v)) (d_codes d) ||
  match d_external d with ExtSet l => existsb (ostr_eqb (Some v)) l | ExtExcluded => true | NoExt => false end.

Definition of_type (charset icvn : str) (t : option str) (v : str) : bool :=
  match t with None => true | Some ty => C13_dec.in_language_b ty charset icvn v end.

Definition type_code (t : option str) : str :=
  match t with
  | Some x => if mem_str x [cs "RD8"; cs "DT"; cs "D8"; cs "D6"] then cs "8"
              else if str_eqb x (cs "TM") then cs "9" else cs "6"
  | None => cs "6"
  end.

Definition matches_pattern (d : edef) (v : str) : bool :=
  match d_regex d with Some r => match search r v with Some _ => true | None => false end | None => true end.

(* the qualifier-selected formats (DTP02 -> DTP03, data element 1250 -> 1251): the value must be of one of them *)
Definition qualified_code (charset : str) (formats : list (option str)) (v : str) : option str :=
  match formats with
  | [] => None
  | _ =>
      if existsb (fun t => of_type charset (cs "00401") t v) formats then None
      else if existsb (ostr_eqb (Some (cs "TM"))) formats then Some (cs "9")
      else if existsb (fun t => match t with Some x => mem_str x [cs "RD8"; cs "DT"; cs "D8"; cs "D6"] | None => false end) formats
           then Some (cs "8")
      else None
  end.

Definition usage_is (u : option str) (x : string) : bool := ostr_eqb u (Some (cs x)).

(* THE SPECIFICATION: code c is implied for value v (None = absent) *)
Definition implies (charset icvn : str) (d : edef) (formats : list (option str)) (v : option str) (c : str) : bool :=
  let s := match v with Some x => x | None => [] end in
  let absent := match s with [] => true | _ => false end in
  if absent then
    (* missing when required *)
    str_eqb c (cs "1") && usage_is (d_usage d) "R"
  else if usage_is (d_usage d) "N" then
    (* present when not used *)
    str_eqb c (cs "10")
  else
    (str_eqb c (cs "4") && (x12_len (d_type d) s <? d_min d)%Z) ||
    (str_eqb c (cs "5") && (d_max d <? x12_len (d_type d) s)%Z) ||
    (str_eqb c (cs "6") && has_control_char s) ||
    (str_eqb c (cs "6") && needless_trailing_blank d s) ||
    (str_eqb c (cs "7") && negb (in_code_lists d s)) ||
    (str_eqb c (type_code (d_type d)) && negb (of_type charset icvn (d_type d) s)) ||
    (match qualified_code charset formats s with Some q => str_eqb c q | None => false end) ||
    (str_eqb c (cs "7") && negb (matches_pattern d s)).

(* the same without the clauses a control character pre-empts in the implementation
   ("control character errors trump all"): what is reported when one is present *)
Definition implies_with_control_char (d : edef) (v : str) (c : str) : bool :=
  (str_eqb c (cs "4") && (x12_len (d_type d) v <? d_min d)%Z) ||
  (str_eqb c (cs "5") && (d_max d <? x12_len (d_type d) v)%Z) ||
  str_eqb c (cs "6").
