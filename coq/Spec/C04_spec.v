(* C04_spec.v — an independent recount of envelope discrepancies over the
   nesting tree of a document.  No stack, no running counters: every expected
   error is a direct function of the tree.

   A document is a list of interchanges; an interchange is ISA, groups, IEA;
   a group is GS, sets, GE; a set is ST, body segments, SE.  A trailer may be
   missing (None) only where the input ends. *)
From Coq Require Import String.
From PX.Lib Require Import Base PyStr PyInt.
From PX.Model Require Import Segment.

Definition cs (s : string) : str := list_ascii_of_string s.

Record tset := { t_st : seg; t_body : list seg; t_se : option seg }.
Record group := { g_gs : seg; g_sets : list tset; g_ge : option seg }.
Record inter := { i_isa : seg; i_groups : list group; i_iea : option seg }.
Definition doc := list inter.

Definition opt_list {A} (o : option A) : list A := match o with Some x => [x] | None => [] end.

Definition flatten_set (t : tset) : list seg := t_st t :: t_body t ++ opt_list (t_se t).
Definition flatten_group (g : group) : list seg := g_gs g :: flat_map flatten_set (g_sets g) ++ opt_list (g_ge g).
Definition flatten_inter (i : inter) : list seg := i_isa i :: flat_map flatten_group (i_groups i) ++ opt_list (i_iea i).
Definition flatten (d : doc) : list seg := flat_map flatten_inter d.

(* element i (1-based) of a segment as the reader sees it: None beyond the end *)
Definition el (dl : delims) (s : seg) (i : nat) : option str :=
  match i with
  | 0 => None
  | S k => if length (els s) <=? k then None else Some (format_comp (subele_term dl) (nth k (els s) []))
  end.

Definition has_id (s : seg) (id : string) : bool :=
  match sid s with Some x => str_eqb x (cs id) | None => false end.

Definition envelope_ids : list str := [cs "ISA"; cs "IEA"; cs "GS"; cs "GE"; cs "ST"; cs "SE"].
Definition is_envelope (s : seg) : bool := match sid s with Some x => mem_str x envelope_ids | None => false end.

(* shape of the tree *)
Definition wf_set (t : tset) : bool :=
  has_id (t_st t) "ST" && forallb (fun s => negb (is_envelope s)) (t_body t) &&
  match t_se t with Some s => has_id s "SE" | None => true end.
Definition wf_group (g : group) : bool :=
  has_id (g_gs g) "GS" && forallb wf_set (g_sets g) &&
  match g_ge g with Some s => has_id s "GE" | None => true end.
Definition wf_inter (i : inter) : bool :=
  has_id (i_isa i) "ISA" && (length (els (i_isa i)) =? 16) && forallb wf_group (i_groups i) &&
  match i_iea i with Some s => has_id s "IEA" | None => true end.

(* trailers may be missing only at the end of input *)
Fixpoint closed_but_last {A} (closed : A -> bool) (open_ok : A -> bool) (xs : list A) : bool :=
  match xs with
  | [] => true
  | [x] => closed x || open_ok x
  | x :: rest => closed x && closed_but_last closed open_ok rest
  end.

Definition set_closed (t : tset) : bool := match t_se t with Some _ => true | None => false end.
Definition group_closed (g : group) : bool :=
  forallb set_closed (g_sets g) && match g_ge g with Some _ => true | None => false end.
Definition group_open_ok (g : group) : bool :=
  match g_ge g with None => closed_but_last set_closed (fun _ => true) (g_sets g) | Some _ => false end.
Definition inter_closed (i : inter) : bool :=
  forallb group_closed (i_groups i) && match i_iea i with Some _ => true | None => false end.
Definition inter_open_ok (i : inter) : bool :=
  match i_iea i with None => closed_but_last group_closed group_open_ok (i_groups i) | Some _ => false end.

Definition wf_doc (d : doc) : bool :=
  forallb wf_inter d && closed_but_last inter_closed inter_open_ok d.

(* ---- the recount: expected (level, code) per segment, in document order ---- *)
Definition code := (str * str)%type.
Definition C (lvl c : string) : code := (cs lvl, cs c).

Definition ids (dl : delims) (i : nat) (hs : list seg) : list (option str) := map (fun s => el dl s i) hs.
Definition opt_str_eqb (a b : option str) : bool :=
  match a, b with Some x, Some y => str_eqb x y | None, None => true | _, _ => false end.
Definition dup (x : option str) (earlier : list (option str)) : bool := existsb (opt_str_eqb x) earlier.
Definition count_is (o : option str) (n : nat) : bool :=
  match o with Some v => match py_int v with Some z => Z.eqb z (Z.of_nat n) | None => false end | None => false end.

(* one transaction set, given the ST02 values of the earlier sets of its group *)
Definition recount_set (dl : delims) (earlier : list (option str)) (t : tset) : list (list code) :=
  [if dup (el dl (t_st t) 2) earlier then [C "st" "23"] else []] ++
  map (fun _ => []) (t_body t) ++
  match t_se t with
  | None => []
  | Some se =>
      [(if opt_str_eqb (el dl se 2) (el dl (t_st t) 2) then [] else [C "st" "3"]) ++
       (if count_is (el dl se 1) (2 + length (t_body t)) then [] else [C "st" "4"])]
  end.

Fixpoint recount_sets (dl : delims) (earlier : list (option str)) (ts : list tset) : list (list code) :=
  match ts with
  | [] => []
  | t :: rest => recount_set dl earlier t ++ recount_sets dl (earlier ++ [el dl (t_st t) 2]) rest
  end.

Definition recount_group (dl : delims) (earlier : list (option str)) (g : group) : list (list code) :=
  [if dup (el dl (g_gs g) 6) earlier then [C "gs" "6"] else []] ++
  recount_sets dl [] (g_sets g) ++
  match g_ge g with
  | None => []
  | Some ge =>
      [(if opt_str_eqb (el dl ge 2) (el dl (g_gs g) 6) then [] else [C "gs" "4"]) ++
       (if count_is (el dl ge 1) (length (g_sets g)) then [] else [C "gs" "5"])]
  end.

Fixpoint recount_groups (dl : delims) (earlier : list (option str)) (gs : list group) : list (list code) :=
  match gs with
  | [] => []
  | g :: rest => recount_group dl earlier g ++ recount_groups dl (earlier ++ [el dl (g_gs g) 6]) rest
  end.

Definition recount_inter (dl : delims) (earlier : list (option str)) (i : inter) : list (list code) :=
  [if dup (el dl (i_isa i) 13) earlier then [C "isa" "025"] else []] ++
  recount_groups dl [] (i_groups i) ++
  match i_iea i with
  | None => []
  | Some iea =>
      [(if opt_str_eqb (el dl iea 2) (el dl (i_isa i) 13) then [] else [C "isa" "001"]) ++
       (if count_is (el dl iea 1) (length (i_groups i)) then [] else [C "isa" "021"])]
  end.

Fixpoint recount (dl : delims) (earlier : list (option str)) (d : doc) : list (list code) :=
  match d with
  | [] => []
  | i :: rest => recount_inter dl earlier i ++ recount dl (earlier ++ [el dl (i_isa i) 13]) rest
  end.

(* trailers missing at end of input, outermost first *)
Definition missing_at_end (d : doc) : list code :=
  match rev d with
  | [] => []
  | i :: _ =>
      match i_iea i with
      | Some _ => []
      | None =>
          C "isa" "023" ::
          match rev (i_groups i) with
          | [] => []
          | g :: _ =>
              match g_ge g with
              | Some _ => []
              | None =>
                  C "gs" "3" ::
                  match rev (g_sets g) with
                  | [] => []
                  | t :: _ => match t_se t with Some _ => [] | None => [C "st" "2"] end
                  end
              end
          end
      end
  end.

(* a consistent envelope: the recount finds nothing and nothing is missing *)
Definition consistent (dl : delims) (d : doc) : Prop :=
  Forall (fun es => es = []) (recount dl [] d) /\ missing_at_end d = [].

(* ---- nesting of the header/trailer subsequence of an arbitrary segment list ---- *)
Inductive kind := KISA | KGS | KST.

Definition header_kind (s : seg) : option kind :=
  if has_id s "ISA" then Some KISA else if has_id s "GS" then Some KGS else if has_id s "ST" then Some KST else None.
Definition trailer_kind (s : seg) : option kind :=
  if has_id s "IEA" then Some KISA else if has_id s "GE" then Some KGS else if has_id s "SE" then Some KST else None.

Definition kind_eqb (a b : kind) : bool :=
  match a, b with KISA, KISA | KGS, KGS | KST, KST => true | _, _ => false end.

(* may a header of kind k open when `stack` (innermost first) is open? *)
Definition may_open (k : kind) (stack : list kind) : bool :=
  match k, stack with
  | KISA, [] => true
  | KGS, KISA :: _ => true
  | KST, KGS :: _ => true
  | _, _ => false
  end.

(* properly nested: every header opens directly inside its parent kind and every
   trailer closes the innermost open loop of its own kind; loops still open at the
   end are "trailer missing at end of input" (still properly nested) *)
Fixpoint nested_from (stack : list kind) (segs : list seg) : bool :=
  match segs with
  | [] => true
  | s :: rest =>
      match header_kind s, trailer_kind s with
      | Some k, _ => may_open k stack && nested_from (k :: stack) rest
      | None, Some k => match stack with
                        | top :: below => kind_eqb top k && nested_from below rest
                        | [] => false
                        end
      | None, None => nested_from stack rest
      end
  end.

Definition properly_nested (segs : list seg) : bool := nested_from [] segs.
