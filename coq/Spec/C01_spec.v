(* C01_spec.v — what tokenisation must deliver, written directly on the text:
   no buffer, no read schedule, no refill logic. *)
From Coq Require Import String.
From PX.Lib Require Import Base PyStr.
From PX.Model Require Import Segment.

Definition cs (s : string) : str := list_ascii_of_string s.

(* the pieces of the text that are followed by the terminator T (an
   unterminated tail is not a segment) *)
Fixpoint pieces_aux (T : ascii) (s : str) (cur : str) : list str :=
  match s with
  | [] => []
  | x :: s' => if Ascii.eqb x T then rev cur :: pieces_aux T s' [] else pieces_aux T s' (x :: cur)
  end.
Definition terminated_pieces (T : ascii) (s : str) : list str := pieces_aux T s [].

Definition CRLF : str := [ascii_of_nat 10; ascii_of_nat 13].
Definition nonempty (s : str) : bool := match s with [] => false | _ => true end.

(* the raw segment strings: each terminated piece with leading CR/LF dropped, empty ones skipped *)
Definition raw_spec (T : ascii) (t : str) : list str :=
  filter nonempty (map (lstrip_set CRLF) (terminated_pieces T t)).

(* a well-formed ISA header: 106 characters starting with ISA and carrying a known version *)
Definition header_ok (t : str) : bool :=
  (106 <=? length t) && str_eqb (firstn 3 t) (cs "ISA") &&
  (str_eqb (slice t 84 89) (cs "00401") || str_eqb (slice t 84 89) (cs "00501")).

(* the delimiters the header declares *)
Definition header_delims (t : str) : delims :=
  {| seg_term := nth 105 t " "%char; ele_term := nth 3 t " "%char; subele_term := nth 104 t " "%char |}.

(* one segment from its raw string: leading blanks dropped, split at the element
   separator, every element after the id split at the component separator —
   except in the ISA, whose elements are never split *)
Definition strip_blank (line : str) : str :=
  match line with c :: _ => if Ascii.eqb c " "%char then lstrip_ws line else line | [] => [] end.

Definition seg_of_line (d : delims) (line : str) : seg :=
  match strip_blank line with
  | [] => {| sid := None; els := [] |}
  | body =>
      match split (ele_term d) body with
      | id :: rest =>
          {| sid := Some id;
             els := map (fun e => if str_eqb id (cs "ISA") then [e] else split (subele_term d) e) rest |}
      | [] => {| sid := None; els := [] |}
      end
  end.

Definition has_leading_blank (line : str) : bool :=
  match line with c :: _ => Ascii.eqb c " "%char | [] => false end.
Definition has_trailing_sep (d : delims) (line : str) : bool :=
  match rev (strip_blank line) with c :: _ => Ascii.eqb c (ele_term d) | [] => false end.

(* a raw string of nothing but blanks is not a segment *)
Definition is_segment_line (line : str) : bool := nonempty (strip_blank line).

Definition segments_spec (t : str) : list seg :=
  map (seg_of_line (header_delims t)) (filter is_segment_line (raw_spec (seg_term (header_delims t)) t)).

(* ---- the documented normalisation of a segment: trailing empty components of
   every element and trailing empty elements are trimmed (the first element is
   kept even when every element is empty) ---- *)
Definition trim_comp (c : composite) : composite := firstn (S (last_nonempty_idx ele_empty c)) c.
Definition trim_seg (s : seg) : seg :=
  {| sid := sid s;
     els := map trim_comp (firstn (S (last_nonempty_idx comp_empty (els s))) (els s)) |}.

(* segments whose values can be written with the delimiters d and read back *)
Definition free_of (d : delims) (v : str) : bool :=
  negb (mem_ascii (seg_term d) v) && negb (mem_ascii (ele_term d) v) && negb (mem_ascii (subele_term d) v).

Definition distinct_delims (d : delims) : bool :=
  negb (Ascii.eqb (seg_term d) (ele_term d)) && negb (Ascii.eqb (seg_term d) (subele_term d)) &&
  negb (Ascii.eqb (ele_term d) (subele_term d)).

Definition nonempty_list {A} (l : list A) : bool := match l with [] => false | _ => true end.

(* the ISA is never split at the component separator (ISA16 IS that separator),
   so its values only need to avoid the terminator and the element separator *)
Definition free_of_TE (d : delims) (v : str) : bool :=
  negb (mem_ascii (seg_term d) v) && negb (mem_ascii (ele_term d) v).

Definition clean_seg (d : delims) (s : seg) : bool :=
  match sid s with
  | Some id =>
      nonempty id && free_of d id &&
      (if str_eqb id (cs "ISA")
       then forallb (fun c => (length c =? 1) && forallb (free_of_TE d) c) (els s)
       else forallb (fun c => nonempty_list c && forallb (free_of d) c) (els s))
  | None => false
  end.
