(* C19_doc_spec.v — the DOCUMENT level of property C19 ("the HTML report shows every segment and error,
   with all source data escaped"): what the whole report of one x12n_document run must be, stated over the
   SINK-LESS driver (Driver.read_line / step / finish — the run with fd_997 = fd_html = fd_xmldoc = None)
   and the per-call specification of Spec/C19_spec.v.

     shown_segments   what the report shows, read off the recorded gen_seg calls: (segment, line number)
     source_lines     the same reading of the SOURCE: Spec/C09_spec.v `source_items` (the X12Reader's segments
                      in source order, each with the line number the reader holds right after reading it)
     doc_views        one `seg_view` per segment of the sink-less run: the segment, src.cur_line, the error
                      handler as validation left it, the error nodes err_iter delivers for it, the loop
                      heading pending for it
     plain_report     what must remain of the whole report when the markup is stripped *)
From Coq Require Import String.
From PX.Lib Require Import Base PyStr PyInt.
From PX.Model Require Import Path Segment Raw Reader MapLoad MapTree Walker MapEnv Driver Pipeline.
From PX.Model Require Import Errh ErrIter OutW Html.
From PX.Spec Require Import C09_spec C19_spec.

Local Definition l (s : string) : str := list_ascii_of_string s.

(* ------------------------------------------------------------------ *)
(* 1. the segments                                                      *)

Definition shown_segments (r : outputs) : list (seg * option Z) :=
  map (fun c => (xs_s (fst (fst c)), snd (fst c))) (o_html_calls r).

Definition source_lines (text : str) : result (list (seg * option Z)) :=
  do its <- source_items text;
  Ok (map (fun t => (fst (fst t), Some (snd t))) its).

(* ------------------------------------------------------------------ *)
(* 2. the views of the sink-less run                                    *)

(* x12n_document.py:76-96 — the environment, the raw lines and the initial driver state of a run *)
Definition doc_setup (load : str -> result xmap) (idx : result (list map_entry)) (text : str)
  : result (denv * list str * dstate) :=
  do ra <- raw_all {| rest := text; sched := [] |};
  let map_file := control_name (r_icvn (fst ra)) in
  do cm <- load map_file; do ix <- idx; do n0 <- getnode cm "/ISA_LOOP/ISA";
  Ok ({| de_load := load; de_idx := ix; de_cm := cm; de_d := delims_of (fst ra) |},
      snd ra,
      {| ds_x := x_init; ds_pending := []; ds_errh := errh_init; ds_w := wstate_init; ds_node := (cm, n0);
         ds_sel := {| ms_file := Some map_file; ms_cur := None; ms_icvn := None; ms_fic := None; ms_vriic := None |};
         ds_valid := true; ds_trace := [] |}).

(* x12n_document.py:210-211 with error_html.loop: the heading a matched node leaves pending — the parent loop
   of a segment that is the first of its loop, unless that loop is a 'wrapper'; None = nothing new *)
Definition heading_of (node : xmap * MapTree.nref) : result (option str) :=
  if node_is_first (fst node) (snd node) then
    do ln <- node_parent (fst node) (snd node);
    match ln with
    | LNLoop i nm ty =>
        if opt_eqb str_eqb ty (Some (l "wrapper")) then Ok None
        else Ok (Some (l "Loop " ++ pct_s i ++ l ": " ++ pct_s nm))
    | LNMapRoot => Raise AttributeError
    end
  else Ok None.

Record seg_view := {
  sv_seg : seg;                   (* the segment the reader delivered *)
  sv_line : Z;                    (* src.cur_line at that moment *)
  sv_errh : errh;                 (* the error handler right after the segment has been validated *)
  sv_nodes : list node_ref;       (* what err_iter delivers: the nodes new since the previous segment *)
  sv_info : option str            (* the loop heading pending, unescaped *)
}.

(* `for seg in src` of the sink-less driver, with err_iter run after every segment *)
Fixpoint doc_views (E : denv) (lines : list str) (d : dstate) (it : iter_state) : result (list seg_view * dstate) :=
  match lines with
  | [] => Ok ([], d)
  | ln :: rest =>
      match read_line E ln d with
      | (_, Raise e) => Raise e
      | (d1, Ok None) => doc_views E rest d1 it
      | (d1, Ok (Some sg)) =>
          match step E sg d1 with
          | (_, Raise e) => Raise e
          | (d2, Ok _) =>
              do info <- heading_of (ds_node d2);
              match collect_new (ds_errh d2) it with
              | (_, Raise e) => Raise e
              | (it', Ok nodes) =>
                  do more <- doc_views E rest d2 it';
                  Ok ({| sv_seg := sg; sv_line := cur_line (ds_x d2); sv_errh := ds_errh d2;
                         sv_nodes := nodes; sv_info := info |} :: fst more, snd more)
              end
          end
      end
  end.

(* the html.gen_seg call of a view: the arguments x12n_document.py:220 passes, on an error_html object whose
   pending heading is the escaped sv_info — the shape C19_segment_text speaks about *)
Definition view_call (d : delims) (v : seg_view) : xseg * option Z * list node_ref :=
  ({| xs_d := d; xs_s := sv_seg v |}, Some (sv_line v), sv_nodes v).

Definition view_run (d : delims) (v : seg_view) : html_state * list str * result unit :=
  html_gen_seg (cfg_of d) (sv_errh v) {| xs_d := d; xs_s := sv_seg v |} (Some (sv_line v)) (sv_nodes v)
               {| loop_info := option_map esc (sv_info v) |}.

Definition view_writes (d : delims) (v : seg_view) : list str := snd (fst (view_run d v)).
Definition view_ok (d : delims) (v : seg_view) : Prop := snd (view_run d v) = Ok tt.

(* ------------------------------------------------------------------ *)
(* 3. the text that must remain                                         *)

Definition plain_view (d : delims) (v : seg_view) : str :=
  plain_gen_seg (sv_errh v) {| xs_d := d; xs_s := sv_seg v |} (sv_line v) (sv_info v) (sv_nodes v).

Definition view_codes_plain (v : seg_view) : Prop := codes_plain (sv_errh v) (sid (sv_seg v)) (sv_nodes v).

(* header(): the title and heading texts; the style block is one comment and leaves blank lines only *)
Definition plain_header (t : str) : str :=
  NL ++ NL ++ l "X12N Error Analysis" ++ NL ++ NL ++ NL ++ NL ++ l "  " ++ NL ++ NL ++ NL ++
  l "X12N Error Analysis" ++ NL ++ l "Analysis Date: " ++ t ++ NL ++ NL.

(* footer(): the envelope errors of loops still open, then the fixed closing text (Props/C19.v, C19_footer_text) *)
Definition plain_part {A} (cur : option nat) (heap : list A) (closed : A -> bool) (errors : A -> list err2) (code : string) : str :=
  match cur with
  | None => []
  | Some i => match nth_error heap i with
              | Some n => if closed n then [] else concat (map plain_seg_err (filter (fun e => str_eqb (fst e) (l code)) (errors n)))
              | None => []
              end
  end.
Definition plain_footer (h : errh) : str :=
  plain_part (c_st h) (h_st h) st_is_closed tn_errors "2" ++
  plain_part (c_gs h) (h_gs h) gs_is_closed gn_errors "3" ++
  plain_part (c_isa h) (h_isa h) isa_is_closed in_errors "023" ++
  NL ++ NL ++ l "pyx12 Validator" ++ NL ++ NL ++ NL ++ NL.

Definition plain_report (d : delims) (htime : str) (views : list seg_view) (h_end : errh) : str :=
  plain_header htime ++ concat (map (plain_view d) views) ++ plain_footer h_end.

(* the tags of header()'s fixed template (html, head, title, style + the comment holding the CSS, link, body, h1, h3,
   div), computed from the template with an empty date; the report may contain these besides report_tags *)
Definition header_tags : list str := tags (concat (html_header [])).

(* ------------------------------------------------------------------ *)
(* 4. the side condition of C19_segment_text, decidable                 *)

Definition node_codes_plainb (h : errh) (seg_id : option str) (r : node_ref) : bool :=
  forallb (fun e : err2 => markup_free (fst e)) (node_errors h seg_id r) &&
  forallb (fun k => forallb (fun e : err2 => markup_free (fst e)) (node_errors h seg_id (REle k))) (node_elements h r).
Definition view_codes_plainb (v : seg_view) : bool :=
  forallb (node_codes_plainb (sv_errh v) (sid (sv_seg v))) (sv_nodes v).

(* ------------------------------------------------------------------ *)
(* 5. "every error is shown", as a check on the views of a run           *)

(* the segment nodes of the error tree: those some transaction-set node holds *)
Definition tree_seg_nodes (h : errh) : list nat := flat_map tn_children (h_st h).

Definition seg_errors_at (h : errh) (k : nat) : list err3 :=
  match nth_error (h_seg h) k with Some n => sn_errors n | None => [] end.
Definition seg_elements_at (h : errh) (k : nat) : list nat :=
  match nth_error (h_seg h) k with Some n => sn_elements n | None => [] end.
Definition ele_errors_at (h : errh) (e : nat) : list err3 :=
  match nth_error (h_ele h) e with Some n => en_errors n | None => [] end.

Definition err3_eqb (a b : err3) : bool :=
  str_eqb (fst (fst a)) (fst (fst b)) && str_eqb (snd (fst a)) (snd (fst b)) && opt_eqb str_eqb (snd a) (snd b).

(* the calls a node is handed to *)
Definition calls_with (views : list seg_view) (r : node_ref) : list seg_view :=
  filter (fun v => existsb (node_ref_eqb r) (sv_nodes v)) views.

(* a segment error of the final tree is shown when some call that is handed its node finds it there *)
Definition seg_error_shown (views : list seg_view) (k : nat) (e : err3) : bool :=
  existsb (fun v => existsb (err3_eqb e) (seg_errors_at (sv_errh v) k)) (calls_with views (RSeg k)).
Definition ele_error_shown (views : list seg_view) (k e : nat) (er : err3) : bool :=
  existsb (fun v => existsb (Nat.eqb e) (seg_elements_at (sv_errh v) k) && existsb (err3_eqb er) (ele_errors_at (sv_errh v) e))
          (calls_with views (RSeg k)).

Definition all_seg_errors_shown (views : list seg_view) (h_end : errh) : bool :=
  forallb (fun k => forallb (seg_error_shown views k) (seg_errors_at h_end k) &&
                    forallb (fun e => forallb (ele_error_shown views k e) (ele_errors_at h_end e)) (seg_elements_at h_end k))
          (tree_seg_nodes h_end).
