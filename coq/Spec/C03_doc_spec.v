(* C03_doc_spec.v — document level of C03: what the map walker (Model/Walker.v = pyx12/map_walker.py) does
   when ONE structural fault is injected into a conformant instance (Spec/C02_doc_spec.v).  Definitions only.

   Vocabulary (on top of Spec/C02_doc_spec.v).
     report        the calls the walker makes on the error handler during one walk: add_seg(node, seg, ...)
                   followed by seg_error(code, text, None)  (Walker.wev: WAddSeg, WSegErr)
     fault         what a report is about: Missing... / Surplus... with the node concerned
     annotated item   an item with the list of faults the walker is to report when it locates it

   The four faults:
     1  unknown segment           one more segment, matched by no segment node of the map          (unknown_seg, step_unknown)
     2  missing required segment  one item of a required segment child left out                    (gap GapSeg; FB_cut)
     3  repeat beyond the limit   one more unit of a child than max_use / repeat allows             (seg_limit_faults, loop_limit_faults)
     4  missing required loop     the only instance of a required seg-first loop child left out    (gap GapLoop; FB_cut)
   and, for 2 and 4, the case in which the loop that lacks the child starts again at once (an instance cut
   short after its first segment: map_walker._note_missing_children, added to pyx12 with commit 279ef08).

   2-4 are described by ONE relation, finst / fbody: the rules of conf_inst / conf_body in which a unit may be
   beyond its limit and may be preceded by ONE missing required child of the same loop instance; every item
   carries the faults to be reported at it.  Proved (Proofs/C03_doc.v): for maps with walker_wf, keys_ok and
   first_pos_least, every item of such an instance is found at its node, the walker reports at each item
   exactly its annotation, and the counts are the predicted ones of the items present.

   Where the report of a missing child is, by the rules: at the first segment of the first unit AFTER the gap
   in the same loop instance — with the seg_count / cur_line of THAT segment — or, when the instance consists of
   its first segment only and its loop starts again at once, at the first segment of the next instance.

   What the rules leave out, because the walker does something else there (each with an Example in
   Proofs/C03_doc_examples.v, module Corners):
     - the child after the gap has the SAME POSITION as the missing child (gap_ok asks strictly smaller):
       the report is late (segment found: the entry is kept and dropped) or repeated (loop found);
     - the segment found after the gap has the same id and parent as the node the entry is filed under:
       `x[0] != child` drops the entry (x12_node.__eq__ compares id and parent id);
     - the missing child is the last one present of its instance and the instance is LEFT (its loop does not
       start again at once): reported at the first segment found after the loop if that is found by opening a
       loop or is a segment of another position; NEVER reported when it is a segment with the same position
       number in an enclosing loop (GE / IEA on every shipped map);
     - a missing required loop inside a loop that starts with a loop (gap_ok: GapLoop only in a seg-first loop). *)
From Coq Require Import String.
From PX.Lib Require Import Base PyStr PyInt Regex Xml.
From PX.Model Require Import Path Segment Syntax MapLoad MapTree Element Counter Walker.
From PX.Spec Require Import C07_walker_wf C02_doc_spec.

Local Definition l (x : string) : str := list_ascii_of_string x.

Section Spec.
Variable m : xmap.
Variable d : delims.

Notation ns := (root_nodes m).

(* ------------------------------------------------------------------ *)
(* steps that report something                                          *)

(* from the node p of the previous item the walker finds the item's node and makes exactly the calls
   `evs sc cl ls` on the error handler (step_ok of C02_doc_spec is the case evs = nothing) *)
Definition step_ev (w : wstate) (p : nref) (it : item) (evs : Z -> Z -> option str -> list wev) (w' : wstate) : Prop :=
  forall sc cl ls, exists pop push,
    walk_st m w p d (snd it) sc cl ls = (w', evs sc cl ls, Ok (Some (fst it), pop, push)).

Definition evf : Type := Z -> Z -> option str -> list wev.

(* the walker state only matters through its counter: walk forgets mandatory_segs_missing when it starts
   (map_walker.py:130) *)
Definition same_counter (w w' : wstate) : Prop := w_counter w' = w_counter w.

(* ------------------------------------------------------------------ *)
(* 1. unknown segment                                                   *)

(* the references of the segment nodes of the map *)
Definition seg_refs : list nref :=
  filter (fun r => match node_at ns r with Some (NSeg _) => true | _ => false end) (all_refs m).

(* z is matched by NO segment node of the map (segment_if.is_match answers False everywhere) *)
Definition unknown_seg (z : seg) : bool := forallb (nomatch_b m d z) seg_refs.

(* sufficient: the id of z is the id of no segment node of the map *)
Definition unknown_id (z : seg) : bool :=
  forallb (fun r => match node_at ns r with
                    | Some (NSeg sn) => negb (ostr_eqb (sid z) (s_id sn))
                    | _ => true
                    end) seg_refs.

(* 'HL*1**20*1' for an HL, 'ZZ*<first element>' otherwise (_seg_not_found_error, map_walker.py:243-246) *)
Definition seg_str (z : seg) : result str :=
  if opt_eqb str_eqb (sid z) (Some (l "HL"))
  then Ok (removelast (format_seg D0 z))
  else do v <- seg_get_value d z (l "01");
       Ok (show_sid (sid z) ++ l "*" ++ ostr0 v).

(* the report of _seg_not_found_error for a search that started at node p:
   add_seg(node p, z, ...) then seg_error('1', 'Segment ZZ*.. not found.  Started at <path of p>', None) *)
Definition not_found_report (p : nref) (z : seg) (sc cl : Z) (ls : option str) (evs : list wev) : Prop :=
  exists n path s,
    node_at ns p = Some n /\ node_path m p = Ok path /\ seg_str z = Ok s /\
    evs = [WAddSeg (Some (info_of n)) {| xg_d := d; xg_s := z |} sc cl ls;
           WSegErr (l "1") (l "Segment " ++ s ++ l " not found.  Started at " ++ path) None].

(* the walk of z from node p: nothing is found (None, no loop left or entered), the counter is unchanged, the
   report is the one above and nothing else; mandatory_segs_missing is left holding what the search met *)
Definition step_unknown (w : wstate) (p : nref) (z : seg) : Prop :=
  forall sc cl ls, exists ms evs,
    walk_st m w p d z sc cl ls = ({| w_counter := w_counter w; w_missing := ms |}, evs, Ok (None, [], [])) /\
    not_found_report p z sc cl ls evs.


(* ------------------------------------------------------------------ *)
(* 2-4. structural faults inside an instance                            *)

(* the structural faults of a unit, each with the node it is about *)
Inductive fault :=
| MissingSeg (r : nref)                     (* the required segment child at r was left out before this unit *)
| MissingLoop (r : nref)                    (* the required seg-first loop child at r was left out before this unit *)
| SurplusSeg (r : nref) (found limit : Z)   (* this unit is the found-th unit of the segment child at r, max_use = limit *)
| SurplusLoop (r : nref) (found limit : Z). (* this unit is the found-th instance of the loop child at r, repeat = limit *)

(* what the walker reports for a fault while it locates the data segment sg (the first segment of the unit):
   add_seg(node, segment, seg_count, cur_line, ls_id) then seg_error(code, text, None).
     MissingSeg   node: the missing segment node; segment: the made-up Segment('<id>'); code 3
     MissingLoop  node: the FIRST SEGMENT of the missing loop; segment: Segment('<id of that segment>'); code 3
     SurplusSeg   node: the segment node; segment: sg itself; code 5
     SurplusLoop  node: the loop node; segment: sg itself; code 4
   seg_count / cur_line / ls_id are those of sg: the position reported for a missing node is that of the
   first segment AFTER the gap. *)
Definition fault_ev (sg : seg) (f : fault) : evf := fun sc cl ls =>
  match f with
  | MissingSeg r =>
      match node_at ns r with
      | Some (NSeg sn) =>
          [WAddSeg (Some (info_of (NSeg sn))) (fake_seg (s_id sn)) sc cl ls;
           WSegErr (l "3") (l "Mandatory segment """ ++ ostr0 (s_name sn) ++ l """ (" ++ ostr0 (s_id sn) ++ l ") missing") None]
      | _ => []
      end
  | MissingLoop r =>
      match node_at ns r with
      | Some (NLoop id _ nm _ _ _ pm) =>
          match pm_nodes pm with
          | NSeg s0 :: _ =>
              [WAddSeg (Some (info_of (NSeg s0))) (fake_seg (s_id s0)) sc cl ls;
               WSegErr (l "3") (l "Mandatory loop """ ++ ostr0 nm ++ l """ (" ++ ostr0 id ++ l ") missing") None]
          | _ => []
          end
      | _ => []
      end
  | SurplusSeg r found limit =>
      match node_at ns r with
      | Some (NSeg sn) =>
          [WAddSeg (Some (info_of (NSeg sn))) {| xg_d := d; xg_s := sg |} sc cl ls;
           WSegErr (l "5") (l "Segment " ++ show_sid (sid sg) ++ l " exceeded max count.  Found " ++ fmt_i found ++
                            l ", should have " ++ fmt_i limit) None]
      | _ => []
      end
  | SurplusLoop r found limit =>
      match node_at ns r with
      | Some n =>
          [WAddSeg (Some (info_of n)) {| xg_d := d; xg_s := sg |} sc cl ls;
           WSegErr (l "4") (l "Loop " ++ ostr0 (node_id n) ++ l " exceeded max count.  Found " ++ fmt_i found ++
                            l ", should have " ++ fmt_i limit) None]
      | None => []
      end
  end.

Definition faults_ev (sg : seg) (fs : list fault) : evf :=
  fun sc cl ls => flat_map (fun f => fault_ev sg f sc cl ls) fs.

(* an item with the faults the walker is to report when it locates it *)
Definition aitem := (item * list fault)%type.

Definition items_of (U : list aitem) : list item := map fst U.
Definition faults_of (U : list aitem) : list fault := flat_map snd U.

(* every item is found at its node, the walker reports exactly the faults annotated at that item, in that
   order, and nothing else, and leaves the predicted counts (C02_doc_spec.run is the case without faults) *)
Inductive erun : wstate -> nref -> list aitem -> wstate -> Prop :=
| erun_nil w p : erun w p [] w
| erun_cons w p it fs w1 rest w' :
    step_ev w p it (faults_ev (snd it) fs) w1 -> counts_step m w it w1 -> erun w1 (fst it) rest w' ->
    erun w p ((it, fs) :: rest) w'.

(* ---- the child left out before a unit ---- *)

Inductive gap := NoGap | GapSeg (j0 : nat) | GapLoop (j0 : nat).

Definition gap_idx (g : gap) : option nat := match g with NoGap => None | GapSeg j0 | GapLoop j0 => Some j0 end.

Definition gap_faults (L : nref) (g : gap) : list fault :=
  match g with NoGap => [] | GapSeg j0 => [MissingSeg (L ++ [j0])] | GapLoop j0 => [MissingLoop (L ++ [j0])] end.

(* children i < k < j other than the gap may be left out *)
Definition between_skippable_but (L : nref) (i j : nat) (g : gap) : Prop :=
  forall k n, i < k -> k < j -> gap_idx g <> Some k -> nth_error (children_of m L) k = Some n -> skippable 40 n = true.

(* the child j0 of L left out between the last unit (child i) and the unit found (child j, node `found`):
   required, strictly between them, at or after the position of child i and STRICTLY BEFORE the position of
   child j; when the unit found is a segment, the id of the node the entry is filed under (the missing
   segment, the first segment of the missing loop) is not the id of the segment found, and for a missing loop
   its position is not the position of the segment found; a loop can only be reported missing this way in a
   loop that starts with a segment *)
Definition gap_ok (L : nref) (i j : nat) (found : node) (g : gap) : Prop :=
  match g with
  | NoGap => True
  | GapSeg j0 =>
      i < j0 /\ j0 < j /\
      exists s0, nth_error (children_of m L) j0 = Some (NSeg s0) /\ usage_is (s_usage s0) "R" = true /\
                 (pos_at m (L ++ [i]) <= s_pos s0)%Z /\ (s_pos s0 < pos_at m (L ++ [j]))%Z /\
                 match found with NSeg sn => ostr_eqb (s_id s0) (s_id sn) = false | NLoop _ _ _ _ _ _ _ => True end
  | GapLoop j0 =>
      i < j0 /\ j0 < j /\
      exists id ty nm u q rep pm s0 rest,
        nth_error (children_of m L) j0 = Some (NLoop id ty nm u q rep pm) /\ pm_nodes pm = NSeg s0 :: rest /\
        usage_is u "R" = true /\ (pos_at m (L ++ [i]) <= q)%Z /\ (q < pos_at m (L ++ [j]))%Z /\
        (forall nL, node_at ns L = Some nL -> wrapper nL = false) /\
        match found with
        | NSeg sn => ostr_eqb (s_id s0) (s_id sn) = false /\ (s_pos s0 =? s_pos sn)%Z = false
        | NLoop _ _ _ _ _ _ _ => True
        end
  end.

(* ---- the limit of a child ---- *)

Definition seg_limit_faults (r : nref) (nc mx : Z) : list fault :=
  if (nc <=? mx)%Z then [] else [SurplusSeg r nc mx].

Definition loop_limit_faults (n : node) (r : nref) (nc : Z) : list fault :=
  match n with
  | NLoop _ _ _ _ _ rep _ =>
      if seg_first n
      then match loop_max_repeat rep with
           | Ok mx => if (nc <=? mx)%Z then [] else [SurplusLoop r nc mx]
           | Raise _ => []
           end
      else []
  | NSeg _ => []
  end.

(* ---- an instance cut short ---- *)

(* what is reported missing when an instance of the seg-first loop C consists of its first segment only and
   the next instance of C follows at once: every required segment child and every required seg-first loop
   child of C after the first, in map order (_note_missing_children; a required child that is a loop starting
   with a loop is NOT reported) *)
Definition child_missing (C : nref) (ic : nat * node) : list fault :=
  if usage_is (node_usage (snd ic)) "R" then
    match snd ic with
    | NSeg _ => [MissingSeg (C ++ [fst ic])]
    | NLoop _ _ _ _ _ _ pm => match pm_nodes pm with NSeg _ :: _ => [MissingLoop (C ++ [fst ic])] | _ => [] end
    end
  else [].

Definition cut_faults (C : nref) : list fault :=
  flat_map (child_missing C) (skipn 1 (enumerate 0 (children_of m C))).

(* ---- a side condition on the map ---- *)

(* the first child of every loop has the least position among the children of the loop (true of every loaded
   map: map_if keeps the children sorted by position) *)
Definition first_least (cs : list node) : bool :=
  match cs with [] => true | n0 :: rest => forallb (fun n => (node_pos n0 <=? node_pos n)%Z) rest end.

Definition first_pos_least : bool :=
  forallb (fun r => match node_at ns r with Some n => first_least (node_children n) | None => true end) (all_refs m).

(* ---- instances with structural faults ----

   finst C U          U is an instance of loop C, each item annotated with the faults of the unit it opens
                      (the annotation of the first item of U is set by whoever enters the instance)
   fbody L p i c B    B continues an instance of loop L after the item at node p, when the last unit was the
                      c-th unit of child i

   The rules are those of conf_inst / conf_body (Spec/C02_doc_spec.v) with two changes in the rules for a
   unit: the count of the child may exceed its limit (annotation: Surplus...), and ONE required child may
   have been left out between the last unit and this one (annotation: Missing...).  A conformant instance
   is the case in which every annotation is empty. *)
Inductive finst : nref -> list aitem -> Prop :=
| FI_seg C s0 rest sg fs body :
    C <> [] -> children_of m C = NSeg s0 :: rest ->
    seg_is_match d (m_dataele m) s0 sg = Ok true ->
    fbody C (C ++ [0]) 0 1 body ->
    finst C (((C ++ [0], sg), fs) :: body)
| FI_wrap W c0 rest U0 body :
    W <> [] -> children_of m W = c0 :: rest -> node_is_loop c0 = true ->
    (seg_first c0 = true ->
       match c0 with
       | NLoop _ _ _ u _ rep _ => used u = true /\ exists mx, loop_max_repeat rep = Ok mx /\ (1 <= mx)%Z
       | NSeg _ => False
       end) ->
    finst (W ++ [0]) U0 ->
    fbody W (last_ref (items_of U0) (W ++ [0])) 0 1 body ->
    finst W (U0 ++ body)
with fbody : nref -> nref -> nat -> Z -> list aitem -> Prop :=
| FB_end L p i c :
    rest_skippable m L i ->
    fbody L p i c []
| FB_seg L p i c j sn mx sg g fs body :
    i <= j -> j <> 0 ->
    nth_error (children_of m L) j = Some (NSeg sn) ->
    (pos_at m (L ++ [i]) <= pos_at m (L ++ [j]))%Z ->
    between_skippable_but L i j g -> gap_ok L i j (NSeg sn) g ->
    (forall nL, node_at ns L = Some nL -> wrapper nL = true ->
       forall k n, j < k -> nth_error (children_of m L) k = Some n -> node_is_loop n = true -> skippable 40 n = true) ->
    used (s_usage sn) = true ->
    seg_max_repeat sn = Ok mx ->
    seg_is_match d (m_dataele m) sn sg = Ok true ->
    rival_free m d p L j sg = true ->
    fs = seg_limit_faults (L ++ [j]) (next_count i j c) mx ++ gap_faults L g ->
    fbody L (L ++ [j]) j (next_count i j c) body ->
    fbody L p i c (((L ++ [j], sg), fs) :: body)
| FB_loop L p i c j n t sg g fs fs0 U' body :
    i <= j ->
    nth_error (children_of m L) j = Some n -> node_is_loop n = true ->
    (pos_at m (L ++ [i]) <= pos_at m (L ++ [j]))%Z ->
    between_skippable_but L i j g -> gap_ok L i j n g ->
    (match n with
     | NLoop _ _ _ u _ rep _ =>
         if seg_first n then used u = true /\ exists mx, loop_max_repeat rep = Ok mx else i < j
     | NSeg _ => False
     end) ->
    finst (L ++ [j]) (((t, sg), fs0) :: U') ->
    rival_free m d p L j sg = true ->
    fs = loop_limit_faults n (L ++ [j]) (next_count i j c) ++ gap_faults L g ->
    fbody L (last_ref (items_of (((t, sg), fs0) :: U')) t) j (next_count i j c) body ->
    fbody L p i c ((((t, sg), fs) :: U') ++ body)
(* a unit of the seg-first loop child j that consists of its first segment sgA ONLY, although required children
   of that loop follow, directly followed by the next unit of the same child (first segment sgB): the second
   unit is annotated with everything the first lacks *)
| FB_cut L p i c j n s0 rest sgA sgB g fsA fsB fs0 U' body :
    i <= j ->
    nth_error (children_of m L) j = Some n -> node_is_loop n = true ->
    children_of m (L ++ [j]) = NSeg s0 :: rest ->
    (pos_at m (L ++ [i]) <= pos_at m (L ++ [j]))%Z ->
    between_skippable_but L i j g -> gap_ok L i j n g ->
    (match n with
     | NLoop _ _ _ u _ rep _ => used u = true /\ exists mx, loop_max_repeat rep = Ok mx
     | NSeg _ => False
     end) ->
    seg_is_match d (m_dataele m) s0 sgA = Ok true ->
    rival_free m d p L j sgA = true ->
    fsA = loop_limit_faults n (L ++ [j]) (next_count i j c) ++ gap_faults L g ->
    finst (L ++ [j]) ((((L ++ [j]) ++ [0], sgB), fs0) :: U') ->
    fsB = loop_limit_faults n (L ++ [j]) (next_count i j c + 1) ++ cut_faults (L ++ [j]) ->
    fbody L (last_ref (items_of ((((L ++ [j]) ++ [0], sgB), fs0) :: U')) ((L ++ [j]) ++ [0])) j (next_count i j c + 1) body ->
    fbody L p i c ((((L ++ [j]) ++ [0], sgA), fsA) :: ((((L ++ [j]) ++ [0], sgB), fsB) :: U') ++ body).

End Spec.
