(* C10_place_spec.v — specification for the placement / iteration / delete laws of property C10
   (tree editing API of pyx12/x12context.py, heap model Model/Context.v).

   Part A is list-level and independent of the model: where a new (position, item) pair goes among
   its siblings, and what removing one sibling means.
   Part B says how a heap is read as such lists (live children of a node with their map positions),
   what a well-formed heap is (`forest`), and what "the subtree of x" is. *)
From Coq Require Import String Sorted.
From PX.Lib Require Import Base PyStr.
From PX.Model Require Import Path Segment MapLoad MapTree Walker Context.
From PX.Spec Require Import C10_spec.

(* ================================================================== *)
(* Part A: lists of (map position, item)                               *)

Section ListLevel.
Context {A : Type}.

(* index of the LAST element whose position is <= p *)
Fixpoint last_le (p : Z) (xs : list (Z * A)) : option nat :=
  match xs with
  | [] => None
  | x :: r => match last_le p r with
              | Some i => Some (S i)
              | None => if (fst x <=? p)%Z then Some 0 else None
              end
  end.

(* v becomes the element with index i *)
Definition place_at (xs : list (Z * A)) (i : nat) (v : Z * A) : list (Z * A) := firstn i xs ++ v :: skipn i xs.

(* THE LAW ("map order"): the new element goes immediately after the last sibling whose position is
   not greater than its own (so: after every sibling with a smaller or the SAME position, when the
   siblings are in order); when every sibling has a greater position it goes in front of them all.
   (_get_insert_idx, x12context.py:169-182.  Before fix 599027a the code appended the element at the
   END in the second case: `return len(self.children)`.) *)
Definition insert_by_pos (xs : list (Z * A)) (v : Z * A) : list (Z * A) :=
  match last_le (fst v) xs with
  | Some i => place_at xs (S i) v
  | None => v :: xs
  end.

(* siblings in map order *)
Definition pos_sorted (xs : list (Z * A)) : Prop := StronglySorted (fun a b => (fst a <= fst b)%Z) xs.

(* remove the first element satisfying f *)
Fixpoint remove_one {B : Type} (f : B -> bool) (xs : list B) : list B :=
  match xs with
  | [] => []
  | x :: r => if f x then r else x :: remove_one f r
  end.
End ListLevel.

(* ================================================================== *)
(* Part B: reading the heap                                            *)

(* `child.x12_map_node.pos` *)
Definition obj_pos (x : dobj) : result Z :=
  match o_map x with None => Raise AttributeError | Some m => mn_pos m end.

(* the ids of [x for x in children if x.type is not None] *)
Fixpoint live_ids_of (h : heap) (cs : list oid) : result (list oid) :=
  match cs with
  | [] => Ok []
  | c :: r => do x <- h_get h c; do more <- live_ids_of h r; Ok (if o_live x then c :: more else more)
  end.

Fixpoint pos_of_ids (h : heap) (cs : list oid) : result (list (Z * oid)) :=
  match cs with
  | [] => Ok []
  | c :: r => do cx <- h_get h c; do p <- obj_pos cx; do more <- pos_of_ids h r; Ok ((p, c) :: more)
  end.

(* the live children of o (tombstones skipped), in list order *)
Definition live_ids (h : heap) (o : oid) : result (list oid) :=
  do x <- h_get h o; live_ids_of h (o_children x).

(* ... each with its map position *)
Definition live_children (h : heap) (o : oid) : result (list (Z * oid)) :=
  do ids <- live_ids h o; pos_of_ids h ids.

(* ------------------------------------------------------------------ *)
(* the well-formedness invariant: the `children` lists form a forest   *)

(* the `children` lists below o name existing objects only and nest at most d deep (so: no cycle) *)
Inductive depth_le (h : heap) : nat -> oid -> Prop :=
| depth_le_node d o x :
    nth_error h o = Some x -> (forall k, In k (o_children x) -> depth_le h d k) -> depth_le h (S d) o.

Record forest (h : heap) : Prop := {
  (* no dangling child id, no cycle through `children` *)
  f_depth : forall o, o < length h -> exists d, depth_le h d o;
  (* a parent lists a node at most once *)
  f_nodup : forall o x, nth_error h o = Some x -> NoDup (o_children x);
  (* at most one parent lists a node *)
  f_one_parent : forall o1 o2 x1 x2 k,
      nth_error h o1 = Some x1 -> nth_error h o2 = Some x2 ->
      In k (o_children x1) -> In k (o_children x2) -> o1 = o2
}.

(* k is listed by some parent *)
Definition attached (h : heap) (k : oid) : Prop :=
  exists o x, nth_error h o = Some x /\ In k (o_children x).

(* the ids in the subtree of x (x included), preorder; the fuel S (length h) is enough in a forest
   (Proofs/C10_place_del.v: in_subtree_iff) *)
Fixpoint sub_ids (fuel : nat) (h : heap) (x : oid) : list oid :=
  match fuel with
  | 0 => []
  | S f => x :: match nth_error h x with
                | Some ox => flat_map (sub_ids f h) (o_children ox)
                | None => []
                end
  end.
Definition subtree (h : heap) (x : oid) : list oid := sub_ids (S (length h)) h x.
Definition in_subtree (h : heap) (x o : oid) : bool := existsb (Nat.eqb o) (subtree h x).

(* the nodes met going up through `parent` pointers from q (q included) *)
Inductive up_chain (h : heap) (q : oid) : oid -> Prop :=
| up_refl : up_chain h q q
| up_step y oy z : up_chain h q y -> nth_error h y = Some oy -> o_parent oy = RObj z -> up_chain h q z.

(* parent pointers that agree with the `children` lists: whoever is named as a parent lists the node.
   (The API keeps "a listed live node points to its lister"; the converse fails for the root of a
   copy and for a node detached by delete_segment, which keep a parent pointer without being listed.
   Where it holds for the nodes above q, the hypothesis on up_chain of the delete laws follows from
   q not being in the subtree: Proofs/C10_place_del.v, up_chain_outside.) *)
Definition parents_agree (h : heap) : Prop :=
  forall y oy z, nth_error h y = Some oy -> o_parent oy = RObj z ->
    exists oz, nth_error h z = Some oz /\ In y (o_children oz).
