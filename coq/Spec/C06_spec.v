(* C06_spec.v — what "the acknowledgement is a complete, well-formed interchange" means for the list of
   segments the visitor writes: an independent recount over the flat list, no visitor state involved. *)
From Coq Require Import String.
From PX.Lib Require Import Base PyStr PyInt.
From PX.Model Require Import Path Segment Show.

Local Definition l (s : string) : str := list_ascii_of_string s.

Definition has_sid (s : seg) (id : string) : bool := opt_eqb str_eqb (sid s) (Some (l id)).

(* element i (1-based), as the composite it is *)
Definition elc (s : seg) (i : nat) : option composite :=
  match i with 0 => None | S k => nth_error (els s) k end.
Definition comp_eqb (a b : composite) : bool := list_eqb str_eqb a b.
Definition elc_is (s : seg) (i : nat) (v : str) : bool :=
  match elc s i with Some [x] => str_eqb x v | _ => false end.
Definition elc_same (a : seg) (i : nat) (b : seg) (j : nat) : bool :=
  match elc a i, elc b j with Some x, Some y => comp_eqb x y | _, _ => false end.

Definition is_env (s : seg) : bool :=
  existsb (has_sid s) ["ISA"; "IEA"; "GS"; "GE"; "ST"; "SE"]%string.

(* '%i' % n and '%04i' % n for n >= 0 *)
Definition dec (n : nat) : str := show_nat n.
Definition dec4 (n : nat) : str := let s := show_nat n in repeat "0"%char (4 - length s) ++ s.

(* the leading non-envelope segments *)
Fixpoint take_body (xs : list seg) : list seg * list seg :=
  match xs with
  | s :: r => if is_env s then ([], xs) else let (b, r') := take_body r in (s :: b, r')
  | [] => ([], [])
  end.

(* transaction sets numbered from `next` on: ST*..*<%04i next>, k other segments, SE*<k+2>*<%04i next>;
   returns the number after the last set and what follows the sets *)
Fixpoint sets_ok (fuel next : nat) (xs : list seg) : option (nat * list seg) :=
  match fuel with
  | 0 => None
  | S f =>
      match xs with
      | st :: r =>
          if has_sid st "ST" then
            let (body, r2) := take_body r in
            match r2 with
            | se :: r3 =>
                if has_sid se "SE" && elc_is st 2 (dec4 next) && elc_is se 2 (dec4 next) &&
                   elc_is se 1 (dec (length body + 2))
                then sets_ok f (S next) r3
                else None
            | [] => None
            end
          else Some (next, xs)
      | [] => Some (next, [])
      end
  end.

Definition iea_ok (isa iea : seg) : bool :=
  has_sid iea "IEA" && elc_is iea 1 (dec 1) && elc_same iea 2 isa 13.

(* one interchange with one functional group: ISA (16 elements), GS, the sets numbered 0001.., GE with the number
   of sets and GS06, an optional TA1, IEA with 1 and ISA13 *)
Definition envelope_ok (xs : list seg) : bool :=
  match xs with
  | isa :: gs :: r =>
      has_sid isa "ISA" && (length (els isa) =? 16) && has_sid gs "GS" &&
      match sets_ok (S (length r)) 1 r with
      | Some (next, ge :: r2) =>
          has_sid ge "GE" && elc_is ge 1 (dec (next - 1)) && elc_same ge 2 gs 6 &&
          match r2 with
          | [iea] => iea_ok isa iea
          | [ta1; iea] => has_sid ta1 "TA1" && iea_ok isa iea
          | _ => false
          end
      | _ => false
      end
  | _ => false
  end.
