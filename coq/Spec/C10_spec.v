(* C10_spec.v — auxiliary definitions for property C10: the tree editing API of the context
   reader's data nodes (Model/Context.v) obeys its read / write / copy laws. *)
From Coq Require Import String.
From PX.Lib Require Import Base PyStr.
From PX.Model Require Import Path Segment MapLoad MapTree Walker Context.

(* ------------------------------------------------------------------ *)
(* reachability through the `children` lists (raw attribute, deleted entries included):
   reflexive-transitive closure *)
Inductive reachable_children (h : heap) (r : oid) : oid -> Prop :=
| rc_refl : reachable_children h r r
| rc_step x k obj :
    reachable_children h r x -> nth_error h x = Some obj -> In k (o_children obj) ->
    reachable_children h r k.

(* h' is h with more objects allocated behind it *)
Definition heap_extends (h h' : heap) : Prop := exists ext, h' = h ++ ext.

(* every object below index n is the same in both heaps *)
Definition same_below (n : nat) (h h' : heap) : Prop :=
  forall o, o < n -> nth_error h' o = nth_error h o.

(* ------------------------------------------------------------------ *)
(* law 1: which segment object a get_value / set_value on `self` with path `p` addresses, and with
   which reference designator (the two branches of node_get_value / node_set_value) *)
Definition value_target (h : heap) (self : oid) (p : str) : result (option (oid * str)) :=
  do me <- h_get h self;
  match o_class me with
  | CLoop =>
      do cp <- get_start_node h self p;
      do sd <- ref_gfms h (fst cp) (snd cp);
      match sd with
      | None => Ok None
      | Some ow => do xp <- parse_path (snd cp); Ok (Some (ow, seg_part xp))
      end
  | CSeg =>
      do sd <- seg_gfms h self p;
      match sd with
      | None => Ok None
      | Some ow => Ok (Some (ow, p))
      end
  end.

(* the 0-based position a designator addresses in a segment, when it is an ordinary one:
   element number >= 1 and, if present, component number >= 1 *)
Definition refdes_pos (s : seg) (ref : str) (i : nat) (cj : option nat) : Prop :=
  parse_refdes s ref = Ok (Some (Z.of_nat i), option_map Z.of_nat cj).

(* the value at element i, component j (both 0-based); "" where absent — as in Proofs/C17_segment.v *)
Definition cell_of (s : seg) (i j : nat) : str := nth j (nth i (els s) []) [].

Definition isa16 (s : seg) (i : nat) : bool :=
  opt_eqb str_eqb (sid s) (Some (list_ascii_of_string "ISA")) && (i =? 15).

(* what a value must satisfy to be read back as written:
   - a whole element: free of the separator `set` splits it at (the element separator for ISA16,
     the sub-element separator otherwise);
   - a component: no condition, but the element may not be ISA16 (there `set` ignores the
     component number and replaces the whole element) *)
Definition value_ok (d : delims) (s : seg) (i : nat) (cj : option nat) (v : str) : Prop :=
  match cj with
  | None => if isa16 s i then ~ In (ele_term d) v else ~ In (subele_term d) v
  | Some _ => isa16 s i = false
  end.

(* the cell view of a segment after writing v at (i, cj) *)
Definition cell_after (s : seg) (i : nat) (cj : option nat) (v : str) (i' j' : nat) : str :=
  match cj with
  | None => if i' =? i then (if j' =? 0 then v else []) else cell_of s i' j'
  | Some j => if (i' =? i) && (j' =? j) then v else cell_of s i' j'
  end.

(* two objects that differ at most in their segment data *)
Definition same_but_seg (a b : dobj) : Prop := upd_seg a None = upd_seg b None.

(* ------------------------------------------------------------------ *)
(* law 3: what iterate_segments shows of a segment, without the identity of the node *)
Definition item_view (it : seg_item) : option str * xpath * option sdata * option Z * option Z :=
  (it_id it, it_path it, it_seg it, it_seg_count it, it_cur_line it).

(* what the copy of a segment node shows: the re-parsed data (Segment.copy), no counters *)
Definition item_view_copied (it : seg_item) : option str * xpath * option sdata * option Z * option Z :=
  (it_id it, it_path it, option_map sd_copy (it_seg it), None, None).

(* no dangling ids in `children` lists (allocation never makes one) *)
Definition heap_wf (h : heap) : Prop :=
  forall x obj k, nth_error h x = Some obj -> In k (o_children obj) -> k < length h.

(* two traces of iterate_segments show the same thing, the second being that of a copy *)
Definition iter_same_as_copy (t_copy t_orig : gtrace seg_item) : Prop :=
  map item_view (fst t_copy) = map item_view_copied (fst t_orig) /\ snd t_copy = snd t_orig.
