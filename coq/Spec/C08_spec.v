(* C08_spec.v — the XML rendering as a sequence of abstract events (a
   reference description, independent of the text writer), its serialisation,
   the tree an XML parser builds from it, and what converting back must give. *)
From Coq Require Import String.
From PX.Lib Require Import Base PyStr Xml.
From PX.Model Require Import Path Segment MapLoad MapTree OutW XmlOut XmlIn.

Local Definition l (s : string) : str := list_ascii_of_string s.

(* ---------------- events ---------------- *)
Inductive xev :=
| XOpen (name : str) (ido : option (option str))      (* None: no id attribute; Some v: id='v' (v None prints None) *)
| XClose (name : str)
| XLeaf (name : str) (id : option str) (text : str).

(* ---------------- loops ---------------- *)
Fixpoint lcp (a b : list str) : nat :=
  match a, b with
  | x :: a', y :: b' => if str_eqb x y then S (lcp a' b') else 0
  | _, _ => 0
  end.

(* from the loops open after the previous segment (`last`) to those of this one (`cur`); `first`: the segment
   is the first segment of its loop, so it starts a NEW instance of that loop even when the path is unchanged
   or is an ancestor of the previous one *)
Definition loop_events (first : bool) (last cur : list str) : list xev :=
  let m := lcp last cur in
  let m' := if first && (m =? length cur) then m - 1 else m in
  map (fun _ => XClose (l "loop")) (seq 0 (length last - m')) ++
  map (fun id => XOpen (l "loop") (Some (Some id))) (skipn m' cur).

(* the text-based shortcut of the implementation agrees with the list-based rule unless two SIBLING loops have
   ids one of which is a proper prefix of the other *)
Definition prefix_safe (last cur : list str) : bool :=
  Bool.eqb (list_eqb str_eqb (path_list (common_prefix (join "/"%char cur) (join "/"%char last))) cur)
           (lcp last cur =? length cur).

(* ---------------- one segment ---------------- *)
Definition child_for (gi : seginfo) (i : nat) : option child_info :=
  match filter (fun c => (ci_seq c =? Z.of_nat i + 1)%Z) (gi_children gi) with [c] => Some c | _ => None end.

Definition not_used (c : child_info) : bool := opt_eqb str_eqb (ci_usage c) (Some (l "N")).

Definition sub_events (c : child_info) (comp : composite) : list xev :=
  map (fun jv : nat * str => XLeaf (l "subele") (match nth_error (ci_subids c) (fst jv) with Some i => i | None => None end) (snd jv))
      (combine (seq 0 (length comp)) comp).

(* element i (0-based) of the segment: nothing for a not-used or empty element; a composite lists ALL its
   components (empty ones too); a simple element its value *)
Definition child_events (gi : seginfo) (d : delims) (i : nat) (comp : composite) : list xev :=
  match child_for gi i with
  | None => []
  | Some c =>
      if not_used c || comp_empty comp then []
      else match ci_kind c with
           | CComp => XOpen (l "comp") (Some (gi_id gi)) :: sub_events c comp ++ [XClose (l "comp")]
           | CEle => [XLeaf (l "ele") (ci_id c) (format_comp (subele_term d) comp)]
           end
  end.

Definition seg_events (gi : seginfo) (d : delims) (s : seg) : list xev :=
  XOpen (l "seg") (Some (gi_id gi)) ::
  concat (map (fun ic : nat * composite => child_events gi d (fst ic) (snd ic)) (combine (seq 0 (length (els s))) (els s))) ++
  [XClose (l "seg")].

(* ---------------- the document ---------------- *)
Record located := { lc_gi : seginfo; lc_path : list str; lc_d : delims; lc_seg : seg }.

Fixpoint body_events (last : list str) (xs : list located) : list xev * list str :=
  match xs with
  | [] => ([], last)
  | x :: r =>
      let here := loop_events (gi_first (lc_gi x)) last (lc_path x) ++ seg_events (lc_gi x) (lc_d x) (lc_seg x) in
      let (more, fin) := body_events (lc_path x) r in
      (here ++ more, fin)
  end.

Definition doc_events (xs : list located) : list xev :=
  let (body, fin) := body_events [] xs in
  XOpen (l "x12simple") None :: body ++ map (fun _ => XClose (l "loop")) fin ++ [XClose (l "x12simple")].

(* ---------------- serialisation (what XMLWriter prints for the events) ---------------- *)
Definition unopt (o : option str) : str := match o with Some v => v | None => l "None" end.
Definition indent (depth : nat) : str := repeat " "%char (2 * depth).
Definition attr_text (ido : option (option str)) : str :=
  match ido with
  | None => []
  | Some v => l " id='" ++ unopt (escape_attr (Some (unopt v))) ++ l "'"
  end.
Definition NLc : str := [ascii_of_nat 10].

Fixpoint ser (depth : nat) (evs : list xev) : str :=
  match evs with
  | [] => []
  | XOpen n ido :: r => indent depth ++ l "<" ++ n ++ attr_text ido ++ l ">" ++ NLc ++ ser (S depth) r
  | XClose n :: r => indent (pred depth) ++ l "</" ++ n ++ l ">" ++ NLc ++ ser (pred depth) r
  | XLeaf n id t :: r =>
      indent depth ++ l "<" ++ n ++ attr_text (Some id) ++ l ">" ++ unopt (escape_cont (Some t)) ++ l "</" ++ n ++ l ">" ++ NLc ++ ser depth r
  end.

Definition xml_decl : str := l "<?xml version=""1.0"" encoding=""utf-8""?>" ++ NLc.

(* ---------------- properties of event sequences ---------------- *)
(* balanced: every close matches the innermost open element *)
Fixpoint balanced (stack : list str) (evs : list xev) : bool :=
  match evs with
  | [] => match stack with [] => true | _ => false end
  | XOpen n _ :: r => balanced (n :: stack) r
  | XClose n :: r => match stack with t :: st' => str_eqb t n && balanced st' r | [] => false end
  | XLeaf _ _ _ :: r => match stack with [] => false | _ => balanced stack r end
  end.

(* the ids of the loop elements open when each segment element is opened, outermost first *)
Fixpoint seg_contexts (open_loops : list (option str)) (evs : list xev) : list (list (option str)) :=
  match evs with
  | [] => []
  | XOpen n ido :: r =>
      if str_eqb n (l "loop") then seg_contexts (open_loops ++ [match ido with Some v => v | None => None end]) r
      else if str_eqb n (l "seg") then open_loops :: seg_contexts open_loops r
      else seg_contexts open_loops r
  | XClose n :: r => if str_eqb n (l "loop") then seg_contexts (removelast open_loops) r else seg_contexts open_loops r
  | XLeaf _ _ _ :: r => seg_contexts open_loops r
  end.

(* ---------------- the element tree of one segment, and back ---------------- *)
Definition id_attrs (id : option str) : list (str * str) := [(l "id", unopt id)].

Definition leaf_tree (name : str) (id : option str) (text : str) : xml :=
  X name (id_attrs id) (match text with [] => None | _ => Some text end) [].      (* ElementTree: empty content is text None *)

Definition child_tree (gi : seginfo) (d : delims) (i : nat) (comp : composite) : list xml :=
  match child_for gi i with
  | None => []
  | Some c =>
      if not_used c || comp_empty comp then []
      else match ci_kind c with
           | CComp => [X (l "comp") (id_attrs (gi_id gi)) None
                         (map (fun jv : nat * str => leaf_tree (l "subele") (match nth_error (ci_subids c) (fst jv) with Some i => i | None => None end) (snd jv))
                              (combine (seq 0 (length comp)) comp))]
           | CEle => [leaf_tree (l "ele") (ci_id c) (format_comp (subele_term d) comp)]
           end
  end.

Definition seg_tree (gi : seginfo) (d : delims) (s : seg) : xml :=
  X (l "seg") (id_attrs (gi_id gi)) None
    (concat (map (fun ic : nat * composite => child_tree gi d (fst ic) (snd ic)) (combine (seq 0 (length (els s))) (els s)))).

(* the segment with its not-used elements emptied: what the XML can carry *)
Definition blank_unused (gi : seginfo) (s : seg) : seg :=
  {| sid := sid s;
     els := map (fun ic : nat * composite =>
                   match child_for gi (fst ic) with
                   | Some c => if not_used c then [[]] else snd ic
                   | None => snd ic
                   end) (combine (seq 0 (length (els s))) (els s)) |}.

(* the segment is described by its node: ids are the reference designators of the positions *)
Definition refdes_of (sid0 : str) (i : nat) : str := sid0 ++ fmt_02 (N.of_nat (i + 1)).
Definition subrefdes_of (sid0 : str) (i j : nat) : str := refdes_of sid0 i ++ l "-" ++ fmt_d (N.of_nat (j + 1)).

Definition node_fits (gi : seginfo) (s : seg) : bool :=
  match sid s, gi_id gi with
  | Some sid0, Some gid =>
      str_eqb sid0 gid &&
      forallb (fun ic : nat * composite =>
                 match child_for gi (fst ic) with
                 | None => false
                 | Some c =>
                     opt_eqb str_eqb (ci_id c) (Some (refdes_of sid0 (fst ic))) &&
                     match ci_kind c with
                     | CEle => length (snd ic) =? 1
                     | CComp => (length (snd ic) <=? length (ci_subids c)) && negb (length (snd ic) =? 0) &&
                                forallb (fun jo : nat * option str => opt_eqb str_eqb (snd jo) (Some (subrefdes_of sid0 (fst ic) (fst jo))))
                                        (combine (seq 0 (length (ci_subids c))) (ci_subids c))
                     end
                 end) (combine (seq 0 (length (els s))) (els s))
  | _, _ => false
  end.

(* ---------------- per-map premise of the refinement theorem ---------------- *)
(* all loop paths of a loaded map (a segment's enclosing-loop path is one of them) *)
Fixpoint loop_paths (fuel : nat) (ns : list node) (pre : list str) : list (list str) :=
  match fuel with
  | 0 => []
  | S f => flat_map (fun n => match n with
                              | NLoop (Some id) _ _ _ _ _ pm => let p := pre ++ [id] in p :: loop_paths f (pm_nodes pm) p
                              | _ => []
                              end) ns
  end.

(* the text-based prefix test of x12xml_simple agrees with the list-based rule for EVERY ordered pair of loop
   paths of the map (and for the empty path before the first segment) *)
Definition map_paths_safe (m : xmap) : bool :=
  let ps := [] :: loop_paths 40 (root_nodes m) [] in
  forallb (fun a => forallb (prefix_safe a) ps) ps.

Definition map_c08_ok (rx : regex_table) (dataele_xml codes_xml root : xml) : bool :=
  match load_map rx dataele_xml codes_xml None (l "B") root with
  | Ok m => map_paths_safe m
  | Raise _ => false
  end.
