(* C17_spec.v — the documented path grammar of pyx12/path.py, written as a
   syntax tree with a printer; no regular expression, no reference to the model.

     /LOOP_1/LOOP_2            /LOOP_1/LOOP_2/SEG         /LOOP_1/LOOP_2/SEG02
     /LOOP_1/LOOP_2/SEG[424]02-1     SEG[434]02-1     02-1     02

   Numerals are kept as digit strings so that "printing reproduces the text"
   is a statement about characters. *)
From Coq Require Import String.
From PX.Lib Require Import Base PyStr.

Definition cs (s : string) : str := list_ascii_of_string s.

Definition is_upper (c : ascii) : bool := let n := nat_of_ascii c in (65 <=? n) && (n <=? 90).
Definition is_upnum (c : ascii) : bool := is_upper c || is_digit c.

(* a segment identifier: one upper-case letter followed by one or two letters/digits *)
Definition wf_segid (s : str) : bool :=
  match s with
  | a :: rest => is_upper a && ((length rest =? 1) || (length rest =? 2)) && forallb is_upnum rest
  | [] => false
  end.

(* a qualifier value: one or more letters/digits *)
Definition wf_qual (q : str) : bool := negb (length q =? 0) && forallb is_upnum q.

(* element position: exactly two digits, from 01 *)
Definition wf_ele (e : str) : bool :=
  (length e =? 2) && all_digits e && negb (str_eqb e (cs "00")).

(* component position: canonical decimal numeral from 1 (no leading zero) *)
Definition wf_sub (u : str) : bool :=
  match u with
  | a :: _ => all_digits u && negb (Ascii.eqb a "0"%char)
  | [] => false
  end.

(* the reference-designator part: SEG[QUAL]NN-M with the documented options *)
Record refdes := {
  r_seg : option str;          (* segment id *)
  r_qual : option str;         (* bracketed qualifier: only with a segment id *)
  r_ele : option str;          (* two-digit element position *)
  r_sub : option str           (* component position: only with an element position *)
}.

Definition opt_ok {A} (f : A -> bool) (o : option A) : bool := match o with Some x => f x | None => true end.
Definition is_some {A} (o : option A) : bool := match o with Some _ => true | None => false end.

Definition wf_refdes (r : refdes) : bool :=
  opt_ok wf_segid (r_seg r) && opt_ok wf_qual (r_qual r) && opt_ok wf_ele (r_ele r) && opt_ok wf_sub (r_sub r) &&
  implb (is_some (r_qual r)) (is_some (r_seg r)) &&
  implb (is_some (r_sub r)) (is_some (r_ele r)) &&
  (is_some (r_seg r) || is_some (r_ele r)).          (* not empty *)

Definition opt_str (o : option str) : str := match o with Some s => s | None => [] end.

Definition print_refdes (r : refdes) : str :=
  opt_str (r_seg r) ++
  match r_qual r with Some q => cs "[" ++ q ++ cs "]" | None => [] end ++
  opt_str (r_ele r) ++
  match r_sub r with Some u => "-"%char :: u | None => [] end.

(* does a string have the shape of a reference designator?  (used to say which
   final loop ids are NOT mistaken for one) *)
Definition refdes_shaped (s : str) : Prop :=
  exists r, opt_ok wf_segid (r_seg r) = true /\ opt_ok wf_qual (r_qual r) = true /\
            opt_ok (fun e => (length e =? 2) && all_digits e) (r_ele r) = true /\
            opt_ok (fun u => negb (length u =? 0) && all_digits u) (r_sub r) = true /\
            (s = print_refdes r \/ s = print_refdes r ++ [ascii_of_nat 10]).

(* a loop id: non-empty, no '/' *)
Definition wf_loop (s : str) : bool := negb (length s =? 0) && negb (mem_ascii "/"%char s).

(* a whole path *)
Record path_ast := {
  p_rel : bool;                 (* relative (no leading '/') *)
  p_loops : list str;
  p_ref : option refdes         (* trailing reference designator *)
}.

Definition wf_path (p : path_ast) : Prop :=
  forallb wf_loop (p_loops p) = true /\
  match p_ref p with
  | Some r =>
      wf_refdes r = true /\
      (* a bare designator without segment id stands alone (no loop ids) *)
      (r_seg r = None -> p_loops p = [] /\ p_rel p = true)
  | None =>
      (* no designator: the last loop id must not look like one; an absolute
         path may be just "/" but a relative path without anything is the empty path *)
      match rev (p_loops p) with
      | last :: _ => ~ refdes_shaped last
      | [] => True
      end
  end /\
  (* a relative path does not begin with '/' by construction; its first loop id
     must not be empty, which wf_loop already says *)
  True.

Definition print_path (p : path_ast) : str :=
  let loops := join "/"%char (p_loops p) in
  let head := (if p_rel p then [] else ["/"%char]) ++ loops in
  match p_ref p with
  | Some r => (match p_loops p with [] => head | _ => head ++ ["/"%char] end) ++ print_refdes r
  | None => head
  end.

(* the parts a parse must yield *)
Definition expected_loops (p : path_ast) : list str := p_loops p.
Definition expected_seg (p : path_ast) : option str := match p_ref p with Some r => r_seg r | None => None end.
Definition expected_qual (p : path_ast) : option str := match p_ref p with Some r => r_qual r | None => None end.
Definition expected_ele (p : path_ast) : option N :=
  match p_ref p with Some r => option_map dec_val (r_ele r) | None => None end.
Definition expected_sub (p : path_ast) : option N :=
  match p_ref p with Some r => option_map dec_val (r_sub r) | None => None end.
