(* C09_order_spec.v — a MAP-LEVEL sufficient condition for the premise of C09
   (Spec/C09_spec.v: children_in_allocation_order): computable predicates on a loaded map.

   Where a child can be put anywhere but at the end.  The only insertion that is not an append is
   X12LoopDataNode._add_loop_node -> _get_insert_idx (x12context.py:169-182, Model/Context.v:get_insert_idx):
   the new loop node goes right AFTER THE LAST child whose map position (`x12_map_node.pos`) is <= the
   position of the new node's map node, and to the FRONT when there is no such child.  It lands at the end
   exactly when the LAST child has position <= the new position (or there is no child).  _add_segment calls it
     (a) for the first loop of push_loops, on the data node reached by following `parent` once per entry
         of pop_loops: its last child is the node of the loop popped last (or the previous segment node
         when nothing was popped);
     (b) for the "same loop again" case (equal x12 paths, first segment of the loop), on the parent of the
         current loop node: its last child is the current loop node.
   The walker delivers the first pushed loop at a map position >= that of the loop popped last (>= that of
   the start segment when nothing was popped): walk scans `pos_map` from node_pos on.  So (a) appends as
   long as the data nodes along the open branch carry exactly the map nodes that the walker pops, and (b)
   appends as long as equal paths mean equal map nodes.  Both are what the predicates below secure:

     paths_distinct m   no two loops of the map (the map root included) have the same x12 path.  (Two
                        sibling loops with one id — the counterexample of Proofs/C09_ctx.v — are excluded
                        here.)  This makes `last_path == new_path` in _add_segment decide node identity.
     shape_ok m         for every loop L and every SEGMENT child c of L that the walker can reach while
                        _is_loop_match(L) may be asked with a list of popped loops that does not contain L
                        or with a loop-first L  — c lies at or after some child loop of L, or L starts with
                        a loop —: the id of c is not one of the ids that can make _is_loop_match(L) answer
                        True (start_ids).  Otherwise map_walker.walk (142-154) answers
                        (node, pop_node_list, [L, ...]) or (deeper node, [L], [L]): push_loops names a loop
                        that was never popped / not all loops entered, and the data tree and the map node go
                        out of step.
     depth_ok           loop nesting below the fuel of the model (completeness of all_refs).

   The condition on the loop id.  X12ContextReader changes maps in the middle of a run (GS: the map of
   the functional group; BHT of a 278: the map of the transaction purpose; ISA/GS are looked up by fixed
   path without walking).  A data tree that is open across such a change mixes nodes of two maps, and
   _get_insert_idx then compares positions of DIFFERENT maps.  Two conditions are offered:
     lid_inner lid m    none of the three fixed paths of m lies inside a loop `lid`: every tree is closed when
                        the map changes, and is built from one map only (ctx_allocation_order);
     lid_ok lid m  +  bht_compat   (second part of this file) the ISA and GS nodes lie outside the loop or start
                        it, and the maps of the 278 guides agree along the path to BHT
                        (ctx_allocation_order_x): everything but ISA_LOOP on the shipped maps.
   For ISA_LOOP a condition relating the positions of different maps is unavoidable
   (Proofs/C09_order_maps.v: isa_loop_needs_cross_map_condition).

   (Model/Context.v:get_insert_idx answers index 0 when no child has a position <= the new one: the new node
   goes FIRST.  The proofs never meet that case with a non-empty children list: they show that the last
   child has a position <= the new one.) *)
From Coq Require Import String List ZArith.
From PX.Lib Require Import Base PyStr.
From PX.Model Require Import Path Segment MapLoad MapTree Walker Driver.
From PX.Spec Require Import C07_walker_wf.
Import ListNotations.

(* the ids of the segments on which _is_loop_match can answer True for a loop (same fuel as the model) *)
Fixpoint start_ids (fuel : nat) (n : node) : list (option str) :=
  match fuel with
  | 0 => []
  | S f =>
      match n with
      | NSeg _ => []
      | NLoop _ _ _ _ _ _ pm =>
          match pm_nodes pm with
          | [] => []
          | NSeg s0 :: _ => [s_id s0]
          | NLoop _ _ _ _ _ _ _ :: _ =>
              flat_map (fun c => if node_is_loop c then start_ids f c else []) (pm_nodes pm)
          end
      end
  end.

Definition first_is_loop (kids : list node) : bool :=
  match kids with NLoop _ _ _ _ _ _ _ :: _ => true | _ => false end.

(* a segment child that lies at or after a child loop (by position), or any segment child of a loop
   that starts with a loop *)
Definition exposed (kids : list node) (c : node) : bool :=
  first_is_loop kids || existsb (fun k => node_is_loop k && (node_pos k <=? node_pos c)%Z) kids.

Definition node_shape_ok (n : node) : bool :=
  match n with
  | NSeg _ => true
  | NLoop _ _ _ _ _ _ pm =>
      forallb (fun c => match c with
                        | NSeg s => negb (exposed (pm_nodes pm) c) || negb (existsb (ostr_eqb (s_id s)) (start_ids 40 n))
                        | NLoop _ _ _ _ _ _ _ => true
                        end) (pm_nodes pm)
  end.

Definition shape_ok (m : xmap) : bool :=
  forallb (fun r => match node_at (root_nodes m) r with Some n => node_shape_ok n | None => false end) (all_refs m).

(* the references of the loops, and the map root *)
Definition loop_refs (m : xmap) : list nref :=
  [] :: filter (fun r => match node_at (root_nodes m) r with Some n => node_is_loop n | None => false end) (all_refs m).

Fixpoint pairwise_ne (ps : list (result xpath)) : bool :=
  match ps with
  | [] => true
  | p :: rest =>
      forallb (fun q => match p, q with Ok a, Ok b => negb (path_eqb a b) | _, _ => true end) rest && pairwise_ne rest
  end.

Definition paths_distinct (m : xmap) : bool := pairwise_ne (map (node_x12path m) (loop_refs m)).

Definition ctx_order_ok (m : xmap) : bool :=
  forallb (depth_ok 40) (root_nodes m) && paths_distinct m && shape_ok m.

(* the loop id does not occur on the x12 path of the node a fixed path resolves to *)
Definition off_path (m : xmap) (p : string) (lid : str) : bool :=
  match getnode m p with
  | Ok r => match node_x12path m r with Ok xp => negb (mem_str lid (loop_list xp)) | Raise _ => true end
  | Raise _ => true
  end.

Definition lid_inner (lid : option str) (m : xmap) : bool :=
  match lid with
  | None => true
  | Some i =>
      off_path m "/ISA_LOOP/ISA" i && off_path m "/ISA_LOOP/GS_LOOP/GS" i
      && off_path m "/ISA_LOOP/GS_LOOP/ST_LOOP/HEADER/BHT" i
  end.

(* ------------------------------------------------------------------ *)
(* The weaker condition on the loop id (Proofs/C09_order_run.v: ctx_allocation_order_x).

   ISA and GS (looked up by fixed path, the map may change): the node must lie outside the loop asked for,
   OR start a new tree there (it is the first segment of a loop with that id: `yield cur_tree` and a fresh
   root).  That admits GS_LOOP (the GS segment starts every GS_LOOP tree) but not ISA_LOOP (the GS node lies
   inside ISA_LOOP without starting it).
   BHT of a 278 (the map of the transaction purpose replaces the current one while the tree of a loop id
   ISA_LOOP / GS_LOOP / ST_LOOP is open): no condition on the loop id; instead the two maps must agree along
   the path to BHT (bht_compat): the BHT segment of the old map and the fixed-path BHT node of the new one
   have, level by level, enclosing loops with the same position and the same x12 path. *)
From PX.Model Require Import Context.

Definition off_or_start (m : xmap) (p : string) (lid : str) : bool :=
  match getnode m p with
  | Ok r =>
      match node_x12path m r with
      | Ok xp =>
          negb (mem_str lid (loop_list xp))
          || match rev (loop_list xp), mn_is_first_seg {| mn_map := m; mn_ref := r |} with
             | lst :: _, Ok first => str_eqb lst lid && first
             | _, _ => false
             end
      | Raise _ => true
      end
  | Raise _ => true
  end.

Definition lid_ok (lid : option str) (m : xmap) : bool :=
  match lid with
  | None => true
  | Some i => off_or_start m "/ISA_LOOP/ISA" i && off_or_start m "/ISA_LOOP/GS_LOOP/GS" i
  end.

(* two map nodes that _get_insert_idx and the path comparison of _add_segment cannot tell apart *)
Definition xrel_b (a b : mnode) : bool :=
  match mn_ref a, mn_ref b with
  | [], [] => true
  | _, _ =>
      match mn_pos a, mn_pos b, mn_x12path a, mn_x12path b with
      | Ok pa, Ok pb, Ok xa, Ok xb => (pa =? pb)%Z && path_eqb xa xb
      | _, _, _, _ => false
      end
  end.

Fixpoint all2 {A} (f : A -> A -> bool) (xs ys : list A) : bool :=
  match xs, ys with
  | [], [] => true
  | x :: xs', y :: ys' => f x y && all2 f xs' ys'
  | _, _ => false
  end.

(* the references of the enclosing loops of a node, innermost first, the map root ([]) last *)
Fixpoint prefixes_f (k : nat) (r : nref) : list nref :=
  match k with 0 => [] | S k' => removelast r :: prefixes_f k' (removelast r) end.
Definition enclosing (a : mnode) : list mnode :=
  map (fun r => {| mn_map := mn_map a; mn_ref := r |}) (prefixes_f (length (mn_ref a)) (mn_ref a)).

Definition is_vriic_278 (v : option str) : bool :=
  ostr_eqb v (Some (list_ascii_of_string "004010X094")) || ostr_eqb v (Some (list_ascii_of_string "004010X094A1")).

(* every BHT segment node of m1 against the node of m2 at path p (vacuous when p does not resolve) *)
Definition bht_compat_at (p : string) (m1 m2 : xmap) : bool :=
  match getnode m2 p with
  | Raise _ => true
  | Ok r2 =>
      forallb (fun r1 => match node_at (root_nodes m1) r1 with
                         | Some (NSeg s) =>
                             negb (ostr_eqb (Some (list_ascii_of_string "BHT")) (s_id s))
                             || all2 xrel_b (enclosing {| mn_map := m2; mn_ref := r2 |}) (enclosing {| mn_map := m1; mn_ref := r1 |})
                         | _ => true
                         end) (all_refs m1)
  end.

Definition bht_compat (m1 m2 : xmap) : bool := bht_compat_at "/ISA_LOOP/GS_LOOP/ST_LOOP/HEADER/BHT" m1 m2.

(* the files the index can answer for the two 278 implementation guides (the only ones for which
   iter_segments looks at BHT02) *)
Definition files_278 (ix : list map_entry) : list str :=
  flat_map (fun e => if is_vriic_278 (mi_vriic e) then match mi_file e with Some f => [f] | None => [] end else []) ix.
