(* C15_link.v — the definition (Spec/C15_spec.v: edef) of an element node of a
   loaded map in a validation context.  Definitions only. *)
From Coq Require Import String.
From PX.Lib Require Import Base PyStr PyInt Regex.
From PX.Model Require Import Path Segment Syntax Validation MapLoad MapTree Element.
From PX.Spec Require Import C15_spec.

Definition ext_of (c : ectx) (e : elem) : ext_ref :=
  match e_external e with
  | None => NoExt
  | Some k => if mem_str k (x_exclude c) then ExtExcluded
              else match cs_find (x_codes c) (Some k) None with
                   | Some st => ExtSet (cs_codes st)
                   | None => NoExt
                   end
  end.

Definition def_of (c : ectx) (e : elem) (de : dataele) (parent_comp : option (option str * Z)) : edef :=
  {| d_usage := e_usage e; d_type := de_type de; d_min := de_min de; d_max := de_max de;
     d_codes := e_codes e; d_external := ext_of c e; d_regex := e_rec e |}.

Definition icvn_of (c : ectx) : str := match x_icvn c with Some i => i | None => cs "None" end.

Definition all_codes : list str := [cs "1"; cs "4"; cs "5"; cs "6"; cs "7"; cs "8"; cs "9"; cs "10"].

(* the set of codes the definition implies for a value, as a list in the order of all_codes *)
Definition implied_codes (c : ectx) (e : elem) (parent_comp : option (option str * Z)) (formats : list (option str))
                         (v : option str) : result (list str) :=
  do de <- get_by_elem_num (x_de c) (e_data_ele e);
  Ok (filter (implies (x_charset c) (icvn_of c) (def_of c e de parent_comp) formats v) all_codes).
