(* C09_spec.v — the context reader (X12ContextReader.iter_segments) neither loses, duplicates nor
   reorders segments.

   Two independent readings of one run are compared:
     source_items  what the X12Reader delivers: the segments in source order, each with the
                   position-in-set counter and the line number the reader holds right after reading it;
     yield_items   for one yielded node (with the store as it was at that yield): the items of
                   node.iterate_segments(), i.e. the segment, seg_count and cur_line_number of every
                   live segment node under it, in `children` order.
   Nothing here mentions how the trees are built. *)
From Coq Require Import String List ZArith Sorted.
From PX.Lib Require Import Base PyStr.
From PX.Model Require Import Path Segment Raw Reader Walker Context CtxReader.
Import ListNotations.

(* fold of reader_line_opt over the raw lines: one triple per line that is a segment.
   (check_837_lx, which the context reader switches on for an 837, influences neither the segments nor
   these two counters: Proofs/C09_reader.v, rlo_proj.) *)
Fixpoint source_fold (d : delims) (x : xstate) (lines : list str) : result (list (seg * Z * Z)) :=
  match lines with
  | [] => Ok []
  | ln :: rest =>
      do r <- reader_line_opt d x ln;
      match r with
      | (x', os, _) =>
          do more <- source_fold d x' rest;
          Ok (match os with Some s => (s, seg_count x', cur_line x') :: more | None => more end)
      end
  end.

Definition source_items (text : str) : result (list (seg * Z * Z)) :=
  do ra <- raw_all {| rest := text; sched := [] |};
  source_fold (delims_of (fst ra)) x_init (snd ra).

(* one dict of iterate_segments: its Segment object, seg_count and cur_line_number must all be there *)
Definition item_triple (it : seg_item) : result (seg * Z * Z) :=
  match it_seg it, it_seg_count it, it_cur_line it with
  | Some sd, Some c, Some n => Ok (xg_s (sd_x sd), c, n)
  | _, _, _ => Raise AttributeError
  end.

Fixpoint all_ok {A B} (f : A -> result B) (xs : list A) : result (list B) :=
  match xs with
  | [] => Ok []
  | x :: r => do y <- f x; do ys <- all_ok f r; Ok (y :: ys)
  end.

Definition yield_items (y : heap * oid) : result (list (seg * Z * Z)) :=
  do its <- g_all (node_iterate_segments (fst y) (snd y));
  all_ok item_triple its.

(* The premise of the partial theorem.  Object ids are allocation indices, so "every `children` list
   of the store is strictly increasing" says: whenever a node was put into a `children` list
   (_add_loop_node -> _get_insert_idx, _add_segment's append) it went AFTER everything already there.
   _get_insert_idx places a new loop node by the `pos` attributes of the map nodes; with maps whose
   sibling loops share an id (or whose positions disagree between the maps of one run) it can land in
   the middle: see the counterexample in Proofs/C09_ctx.v. *)
Definition children_in_allocation_order (h : heap) : Prop :=
  Forall (fun x => StronglySorted lt (o_children x)) h.
