(* C12_spec.v — re-encoding a document: the same segments written with other
   delimiters and another line-break convention. *)
From Coq Require Import String.
From PX.Lib Require Import Base PyStr.
From PX.Model Require Import Path Segment Raw Reader.
From PX.Spec Require Import C01_spec.

Local Definition l (s : string) : str := list_ascii_of_string s.

(* what may follow a segment terminator: any run of CR / LF *)
Definition is_break (conv : str) : bool := forallb (fun c => mem_ascii c CRLF) conv.

(* the delimiters are not line-break characters *)
Definition delims_not_break (d : delims) : bool :=
  negb (mem_ascii (seg_term d) CRLF) && negb (mem_ascii (ele_term d) CRLF) && negb (mem_ascii (subele_term d) CRLF).

Definition encode (d : delims) (conv : str) (segs : list seg) : str :=
  concat (map (fun s => format_seg d s ++ conv) segs).

(* the interchange header written for delimiters d: the fifteen fixed-width fields, and ISA16 = the component separator *)
Definition isa_widths : list nat := [2; 10; 2; 10; 2; 15; 2; 15; 6; 4; 1; 5; 9; 1; 1].
Definition isa_fields_ok (f : list str) : bool :=
  (length f =? 15) && forallb (fun p => length (fst p) =? snd p) (combine f isa_widths) &&
  (str_eqb (nth 11 f []) (l "00401") || str_eqb (nth 11 f []) (l "00501")).
Definition isa_for (d : delims) (f : list str) : seg :=
  {| sid := Some (l "ISA"); els := map (fun v => [v]) f ++ [[[subele_term d]]] |}.

(* the segments whose values the reader interprets (control numbers, counts, HL and LX numbers)
   carry plain one-component elements *)
Definition is_ctl (s : seg) : bool :=
  existsb (fun id => opt_eqb str_eqb (sid s) (Some (l id))) ["GS"; "ST"; "SE"; "GE"; "IEA"; "HL"; "LX"]%string.
Definition ctl_simple (s : seg) : bool :=
  if is_ctl s then forallb (fun c => length c =? 1) (els s) else true.

(* a document body that can be written with d *)
Definition body_ok (d : delims) (body : list seg) : bool :=
  forallb (clean_seg d) body && forallb (fun s => negb (opt_eqb str_eqb (sid s) (Some (l "ISA")))) body.

(* what is compared: everything but ISA16, which IS one of the delimiters *)
Definition mask_isa16 (s : seg) : seg :=
  if opt_eqb str_eqb (sid s) (Some (l "ISA")) then {| sid := sid s; els := firstn 15 (els s) |} else s.
Definition masked (out : list (seg * list err)) : list (seg * list err) :=
  map (fun p => (mask_isa16 (fst p), snd p)) out.

(* what the reader makes of a text: segments with their errors, the errors at the end, the version *)
Definition reading (lx : bool) (text : str) (sch : list nat)
  : result (str * list (seg * list err) * result (list err)) :=
  match read_all lx {| rest := text; sched := sch |} with
  | Ok (r, out, fin) => Ok (r_icvn r, masked out, fin)
  | Raise e => Raise e
  end.
