(* C12_doc_spec.v — C12 end to end for the validation driver (Model/Driver.v): what "the same trace / the same
   error tree up to the delimiters they carry" means, and the hypotheses of the document-level theorem.

   Two runs of the driver on the same document written with two delimiter triples differ, at best, in
     - the delimiters stored in the Segment objects handed to the error handler (xg_d / xs_d), and
     - ISA16 of the interchange header, which IS the component separator.
   strip_dev / strip_errh erase exactly these two things: the delimiters everywhere, ISA16 in the one place an
   ISA segment is stored (add_isa_loop). *)
From Coq Require Import String.
From PX.Lib Require Import Base PyStr PyInt.
From PX.Model Require Import Path Segment Raw Reader MapLoad MapTree Element Walker MapEnv Driver.
From PX.Model Require Errh.
From PX.Spec Require Import C01_spec C12_spec C12b_spec.

Local Definition l (s : string) : str := list_ascii_of_string s.

(* ------------------------------------------------------------------ *)
(* 1. driver events up to the delimiters they carry                    *)

(* the Segment object of an event: delimiters erased, content kept *)
Definition strip_x (x : xsg) : xsg := {| xg_d := D0; xg_s := xg_s x |}.
(* the ISA segment: ISA16 erased as well *)
Definition strip_isa_x (x : xsg) : xsg := {| xg_d := D0; xg_s := mask_isa16 (xg_s x) |}.

Definition strip_dev (e : dev) : dev :=
  match e with
  | DAddIsa x src => DAddIsa (strip_isa_x x) src
  | DAddGs x src => DAddGs (strip_x x) src
  | DAddSt x src => DAddSt (strip_x x) src
  | DAddSeg mn x sc cl ls => DAddSeg mn (strip_x x) sc cl ls
  | DCloseIsa mn x src => DCloseIsa mn (strip_x x) src
  | DCloseGs mn x src => DCloseGs mn (strip_x x) src
  | DCloseSt mn x src => DCloseSt mn (strip_x x) src
  | DAddEle _ | DIsaErr _ _ | DGsErr _ _ | DStErr _ _ | DSegErr _ _ _ _ | DEleErr _ _ _ _ => e
  end.

(* the version that erases the delimiters only: too fine, ISA16 still tells the two runs apart
   (Proofs/C12_doc_cex.v: delims_only_is_false) *)
Definition strip_dev_delims (e : dev) : dev :=
  match e with
  | DAddIsa x src => DAddIsa (strip_x x) src
  | _ => strip_dev e
  end.

(* ------------------------------------------------------------------ *)
(* 2. the error tree up to the delimiters it carries                   *)

Definition map_isa (f : Errh.xseg -> Errh.xseg) (n : Errh.isa_node) : Errh.isa_node :=
  {| Errh.in_seg := f (Errh.in_seg n); Errh.in_isa_id := Errh.in_isa_id n; Errh.in_line_isa := Errh.in_line_isa n;
     Errh.in_line_iea := Errh.in_line_iea n; Errh.in_trn := Errh.in_trn n; Errh.in_ta1 := Errh.in_ta1 n;
     Errh.in_date := Errh.in_date n; Errh.in_time := Errh.in_time n;
     Errh.in_children := Errh.in_children n; Errh.in_errors := Errh.in_errors n; Errh.in_elements := Errh.in_elements n |}.
Definition map_gs (f : Errh.xseg -> Errh.xseg) (n : Errh.gs_node) : Errh.gs_node :=
  {| Errh.gn_seg := f (Errh.gn_seg n); Errh.gn_isa_id := Errh.gn_isa_id n; Errh.gn_line_gs := Errh.gn_line_gs n;
     Errh.gn_line_ge := Errh.gn_line_ge n; Errh.gn_ctl := Errh.gn_ctl n; Errh.gn_fic := Errh.gn_fic n;
     Errh.gn_vriic := Errh.gn_vriic n; Errh.gn_ack := Errh.gn_ack n; Errh.gn_orig := Errh.gn_orig n;
     Errh.gn_recv := Errh.gn_recv n; Errh.gn_children := Errh.gn_children n; Errh.gn_errors := Errh.gn_errors n;
     Errh.gn_elements := Errh.gn_elements n |}.
Definition map_st (f : Errh.xseg -> Errh.xseg) (n : Errh.st_node) : Errh.st_node :=
  {| Errh.tn_seg := f (Errh.tn_seg n); Errh.tn_ctl := Errh.tn_ctl n; Errh.tn_line_st := Errh.tn_line_st n;
     Errh.tn_line_se := Errh.tn_line_se n; Errh.tn_id := Errh.tn_id n; Errh.tn_vriic := Errh.tn_vriic n;
     Errh.tn_ack := Errh.tn_ack n; Errh.tn_children := Errh.tn_children n; Errh.tn_errors := Errh.tn_errors n;
     Errh.tn_elements := Errh.tn_elements n |}.

(* the Segment objects stored in the ISA / GS / ST nodes rewritten; everything else as it is *)
Definition map_errh (fi fg ft : Errh.xseg -> Errh.xseg) (h : Errh.errh) : Errh.errh :=
  {| Errh.h_isa := map (map_isa fi) (Errh.h_isa h); Errh.h_gs := map (map_gs fg) (Errh.h_gs h);
     Errh.h_st := map (map_st ft) (Errh.h_st h); Errh.h_seg := Errh.h_seg h; Errh.h_ele := Errh.h_ele h;
     Errh.c_isa := Errh.c_isa h; Errh.c_gs := Errh.c_gs h; Errh.c_st := Errh.c_st h; Errh.c_seg := Errh.c_seg h;
     Errh.seg_added := Errh.seg_added h; Errh.c_ele := Errh.c_ele h; Errh.ele_added := Errh.ele_added h |}.

Definition strip_xseg (x : Errh.xseg) : Errh.xseg := {| Errh.xs_d := D0; Errh.xs_s := Errh.xs_s x |}.
Definition strip_isa_xseg (x : Errh.xseg) : Errh.xseg := {| Errh.xs_d := D0; Errh.xs_s := mask_isa16 (Errh.xs_s x) |}.

Definition strip_errh (h : Errh.errh) : Errh.errh := map_errh strip_isa_xseg strip_xseg strip_xseg h.

(* ------------------------------------------------------------------ *)
(* 3. the hypotheses on the layers, along the run                      *)

(* what the reader hands to the driver for a segment written as s: trailing empty elements and components are
   not written (Proofs/C12_doc_run.v: as_read_P; it is the segment C12_lemmas.reader_line_opt_body yields).  The
   hypotheses below are asked of these segments: they are evaluated along the run of the driver itself. *)
Definition as_read (s : seg) : seg :=
  {| sid := sid s; els := match els s with [] => [[[]]] | _ => els (trim_seg s) end |}.

(* the driver itself reads one value of a data segment: BHT02, to choose the map of a 278 *)
Definition seg_values_ok (sg : seg) : bool := implb (sid_is sg "BHT") (ele_free sg 1).

(* for the segment sg about to be handled in state st:
   - no composite is read where a map node of the CURRENT map expects a simple element (matching; not asked for
     ISA and GS, which are not looked up by the walker),
   - and none at the node sg is validated against (the node the driver holds after find_node and the branch on
     the segment id, which may change the map).  Not asked for the ISA: see isa_valid_same. *)
Definition match_layer_ok (st : dstate) (sg : seg) : bool :=
  sid_is sg "ISA" || sid_is sg "GS" || match_ok_everywhere (fst (ds_node st)) sg.

Definition valid_layer_ok (E : denv) (st : dstate) (sg : seg) : bool :=
  sid_is sg "ISA" ||
  match find_node E sg st with
  | (st1, Ok true) =>
      match dispatch_seg E sg st1 with
      | (st2, Ok _) =>
          match get_node (fst (ds_node st2)) (snd (ds_node st2)) with
          | Ok (NSeg sn) => simple_positions_ok sn sg && overflow_ok sn sg
          | _ => true
          end
      | (_, Raise _) => true
      end
  | _ => true
  end.

Definition step_layers_ok (E : denv) (st : dstate) (sg : seg) : bool :=
  seg_values_ok sg && match_layer_ok st sg && valid_layer_ok E st sg.

(* the same loop as Driver.run_lines, asking `chk` before every step *)
Fixpoint run_checked (chk : denv -> dstate -> seg -> bool) (E : denv) (lines : list str) (st : dstate) : bool :=
  match lines with
  | [] => true
  | ln :: rest =>
      match reader_line_opt (de_d E) (ds_x st) ln with
      | Raise _ => true
      | Ok (x', os, es) =>
          let st1 := with_pending (with_x st x') (ds_pending st ++ es) in
          match os with
          | None => run_checked chk E rest st1
          | Some sg =>
              chk E st1 sg &&
              match step E sg st1 with
              | (st2, Ok _) => run_checked chk E rest st2
              | (_, Raise _) => true
              end
          end
      end
  end.

Definition run_layers_ok : denv -> list str -> dstate -> bool := run_checked step_layers_ok.

(* the start of x12n_document (x12n_document.py:69-83): the environment, the raw lines, the initial state *)
Definition doc_start (load : str -> result xmap) (idx : result (list map_entry)) (text : str)
  : result (denv * list str * dstate) :=
  do ra <- raw_all {| rest := text; sched := [] |};
  let map_file := control_name (r_icvn (fst ra)) in
  do cm <- load map_file; do ix <- idx; do n0 <- getnode cm "/ISA_LOOP/ISA";
  Ok ({| de_load := load; de_idx := ix; de_cm := cm; de_d := delims_of (fst ra) |},
      snd ra,
      {| ds_x := x_init; ds_pending := []; ds_errh := Errh.errh_init; ds_w := wstate_init; ds_node := (cm, n0);
         ds_sel := {| ms_file := Some map_file; ms_cur := None; ms_icvn := None; ms_fic := None; ms_vriic := None |};
         ds_valid := true; ds_trace := [] |}).

(* ONE computable predicate over (environment, text): the layer hypotheses hold at every step of the run *)
Definition doc_layers_ok (load : str -> result xmap) (idx : result (list map_entry)) (text : str) : bool :=
  match doc_start load idx text with
  | Ok (E, lines, s0) => run_layers_ok E lines s0
  | Raise _ => true
  end.

(* a condition on the data alone that gives it for every environment: no element of the body, as the reader
   hands it over, needs a component separator *)
Definition body_plain (body : list seg) : bool := forallb (fun s => forallb single_valued (els s)) body.

(* ISA16 is validated like any other element (type, length, character set): the separator must not itself be
   an invalid value, or be so for both documents.  Needed: Proofs/C12_doc_cex.v, isa16_validation_needed / isa_valid_same_needed *)
Definition isa_valid_same (load : str -> result xmap) (d1 d2 : delims) (f : list str) : Prop :=
  forall cm r sn,
    load (control_name (nth 11 f [])) = Ok cm -> getnode cm "/ISA_LOOP/ISA" = Ok r -> get_node cm r = Ok (NSeg sn) ->
    seg_is_valid d1 (ctx_of cm) sn (isa_for d1 f) = seg_is_valid d2 (ctx_of cm) sn (isa_for d2 f).

(* the final state of the run: what run_document_gen computes, with the state kept *)
Definition run_state (load : str -> result xmap) (idx : result (list map_entry)) (text : str) : option dstate :=
  match doc_start load idx text with
  | Ok (E, lines, s0) => Some (fst ((dod_ run_lines E lines; finish) s0))
  | Raise _ => None
  end.
