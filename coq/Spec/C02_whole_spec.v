(* C02_whole_spec.v — C02 composed: what a CONFORMANT DOCUMENT is for the validation driver
   (Model/Driver.v: run_document_gen = x12n_document with every sink off).  Definitions only.

   One interchange  ISA, functional groups, IEA.  A group is its GS segment and the list of the segments that
   follow it up to and including GE, each paired with the node of the group's map it instantiates (an `item` of
   Spec/C02_doc_spec.v).  The sets ST .. SE are not a separate level of the description: the whole group
   GS :: items is ONE conformant instance (conf_inst) of the loop GS_LOOP of the group's map, so every set is an
   instance of ST_LOOP inside it (rule CB_loop of conf_body), followed by the GE segment (rule CB_seg).
   `group_of_sets` (Proofs/C02_whole_sets.v) builds such a group from sets given one by one as conformant instances
   of ST_LOOP.

   The map of a group is the one the driver selects: the file the index gives for (ISA12, GS08, GS01), loaded by
   `load`.  Groups of one interchange may use different maps.

   What is asked of a map (all computable): walker_wf, keys_ok (C02 document level), valid_wf, fmt_wf (C02 segment
   level) and top_okb: the loop ISA_LOOP (reference isal) starts with the segment ISA followed by the loop GS_LOOP,
   GS_LOOP starts with the segment GS, these four nodes carry the counter keys /ISA_LOOP, /ISA_LOOP/ISA,
   /ISA_LOOP/GS_LOOP, /ISA_LOOP/GS_LOOP/GS, and the fixed path /ISA_LOOP/GS_LOOP/GS resolves to that GS node.

   EXCLUDED (the driver special-cases them):
     - the BHT map switch of the 278: a group whose GS08 is 004010X094 or 004010X094A1 must not contain a BHT
       segment (group_ok: go_278);
     - an interchange without any functional group (the IEA would be looked up in the control map);
     - segments with the ids ISA, GS, IEA inside a group (go_ids): the driver dispatches on the segment id;
     - more than one interchange in the text.
   Segments are given in the form the reader hands them over (as_read s = s: no trailing empty element or
   component) and carry at least one non-empty element.

   The reader (Model/Reader.v) must report nothing: reader_silent runs X12Reader._parse_segment over the
   segments (the 837 service-line flag is the one the driver sets when it selects the group's map) and asks for an
   empty error list each time and an empty cleanup.  For an interchange without HL segments none of whose groups
   selects an 837 map, this FOLLOWS from C04's independent recount: a well-formed, consistent envelope tree whose
   flattening is the document (wf_doc, consistent of Spec/C04_spec.v) and segments that are non-empty with
   well-formed ids (Proofs/C02_whole_c04.v: reader_silent_of_consistent).  The HL numbering / parent checks and the
   837 LX numbering are the reader's own and are not described independently here.

   Two maps used in one interchange must agree on the counter keys of what follows GS_LOOP under ISA_LOOP (TA1,
   IEA): top_compat, reflexive, decided by evaluation (Proofs/C02_whole_compat.v: top_compat_dec).

   Theorems: Proofs/C02_whole.v (C02_whole_accepted, C02_whole_acknowledged); layers: Proofs/C02_whole_step.v
   (item_step), C02_whole_head.v (isa_step, gs_step), C02_whole_walk.v (group_walk, iea_walk),
   C02_whole_run.v (items_run, set_run, group_run, groups_run); non-vacuity on the shipped maps:
   Proofs/C02_whole_examples.v. *)
From Coq Require Import String.
From PX.Lib Require Import Base PyStr PyInt Regex Xml.
From PX.Model Require Import Path Segment Raw Reader Syntax MapLoad MapTree Element Counter Walker MapEnv Driver.
From PX.Model Require Errh.
From PX.Spec Require Import C01_spec C12_spec C12_doc_spec C07_walker_wf C07_valid_wf C0203_spec C02_doc_spec.

Local Definition l (x : string) : str := list_ascii_of_string x.

(* ------------------------------------------------------------------ *)
(* the handler calls that report an error                               *)

Definition err_dev (e : dev) : bool :=
  match e with
  | DIsaErr _ _ | DGsErr _ _ | DStErr _ _ | DSegErr _ _ _ _ | DEleErr _ _ _ _ => true
  | _ => false
  end.

Definition no_error_call (tr : list dev) : Prop := forallb (fun e => negb (err_dev e)) tr = true.

(* ------------------------------------------------------------------ *)
(* the top of a map                                                     *)

Definition dummy_xpath : xpath :=
  {| relative := true; loop_list := []; seg_id := None; id_val := None; ele_idx := None; subele_idx := None |}.
Definition pp (s : string) : xpath := match parse_path (l s) with Ok x => x | Raise _ => dummy_xpath end.

Definition path_is (m : xmap) (r : nref) (s : string) : bool :=
  match node_x12path m r with Ok a => path_eqb a (pp s) | Raise _ => false end.

Definition top_okb (m : xmap) (isal : nref) : bool :=
  negb (nref_eqb isal []) &&
  match children_of m isal with
  | NSeg _ :: NLoop _ _ _ _ _ _ pm :: _ => match pm_nodes pm with NSeg _ :: _ => true | _ => false end
  | _ => false
  end &&
  path_is m isal "/ISA_LOOP" && path_is m (isal ++ [0]) "/ISA_LOOP/ISA" &&
  path_is m (isal ++ [1]) "/ISA_LOOP/GS_LOOP" && path_is m ((isal ++ [1]) ++ [0]) "/ISA_LOOP/GS_LOOP/GS" &&
  match getnode m "/ISA_LOOP/GS_LOOP/GS" with Ok r => nref_eqb r ((isal ++ [1]) ++ [0]) | Raise _ => false end.

(* every node of m2 under ISA_LOOP that comes after GS_LOOP (TA1, IEA ...) has a node of m1 with the same counter
   key, outside m1's GS_LOOP: what two maps used in one interchange must share.  Reflexive. *)
Definition top_compat (isal : nref) (m1 m2 : xmap) : Prop :=
  forall k x nx, 1 < k -> node_at (root_nodes m2) ((isal ++ [k]) ++ x) = Some nx ->
  exists r1 n1, node_at (root_nodes m1) r1 = Some n1 /\ strict_prefix_b (isal ++ [1]) r1 = false /\
                node_x12path m1 r1 = node_x12path m2 ((isal ++ [k]) ++ x).

(* ------------------------------------------------------------------ *)
(* segments                                                             *)

(* the data segment paired with a segment node conforms to it (C02 segment level: seg_conforms, notes_wf) *)
Definition item_conf (m : xmap) (d : delims) (it : item) : bool :=
  match node_at (root_nodes m) (fst it) with
  | Some (NSeg sn) => notes_wf sn && seg_conforms (ctx_of m) sn d (snd it)
  | _ => false
  end.

(* seg_data.get_value(ref) of a segment with the right id *)
Definition gval (d : delims) (s : seg) (ref : string) : option str :=
  match seg_get_value d s (l ref) with Ok v => v | Raise _ => None end.

(* the form in which the reader hands a segment over, with something in it *)
Definition has_data (s : seg) : bool := negb (forallb comp_empty (els s)).
Definition canonical (s : seg) : Prop := as_read s = s /\ has_data s = true.

(* the segment id does not begin with a blank or a line-break character (the raw reader strips these) *)
Definition id_plain (s : seg) : bool :=
  match sid s with
  | Some (c :: _) => negb (mem_ascii c CRLF) && negb (Ascii.eqb c " "%char)
  | _ => false
  end.

(* not one of the ids the driver treats outside the walker *)
Definition body_id (s : seg) : bool := negb (sid_is s "ISA") && negb (sid_is s "GS") && negb (sid_is s "IEA").

Definition is_278_switch (vriic : option str) : bool :=
  ostr_eqb vriic (Some (l "004010X094")) || ostr_eqb vriic (Some (l "004010X094A1")).

(* ------------------------------------------------------------------ *)
(* one functional group                                                 *)

Record cgroup := {
  cg_file : str;            (* the map file the index selects *)
  cg_map : xmap;            (* ... loaded *)
  cg_gs : seg;
  cg_items : list item      (* the segments after GS up to and including GE, with their nodes *)
}.

Definition group_segs (g : cgroup) : list seg := cg_gs g :: map snd (cg_items g).

Definition gsl_of (isal : nref) : nref := isal ++ [1].

Record group_ok (load : str -> result xmap) (ix : list map_entry) (d : delims) (icvn : str) (isal : nref)
                (g : cgroup) : Prop := {
  go_gs : sid_is (cg_gs g) "GS" = true;
  go_sel : index_filename ix (Some icvn) (gval d (cg_gs g) "GS08") (gval d (cg_gs g) "GS01") None = Some (cg_file g);
  go_load : load (cg_file g) = Ok (cg_map g);
  go_wf : walker_wf (cg_map g) = true;
  go_keys : keys_ok (cg_map g) = true;
  go_valid : valid_wf (cg_map g) = true;
  go_fmt : fmt_wf (cg_map g) = true;
  go_top : top_okb (cg_map g) isal = true;
  (* GS, the sets and GE: one conformant instance of GS_LOOP *)
  go_inst : conf_inst (cg_map g) d (gsl_of isal) ((gsl_of isal ++ [0], cg_gs g) :: cg_items g);
  (* every segment conforms to the node it is paired with *)
  go_conf : forallb (item_conf (cg_map g) d) ((gsl_of isal ++ [0], cg_gs g) :: cg_items g) = true;
  go_ids : forallb (fun it => body_id (snd it)) (cg_items g) = true;
  go_278 : is_278_switch (gval d (cg_gs g) "GS08") = false \/
           forallb (fun it => negb (sid_is (snd it) "BHT")) (cg_items g) = true
}.

(* ------------------------------------------------------------------ *)
(* the reader reports nothing                                           *)

Definition is837 (m : xmap) : bool := ostr_eqb (m_id m) (Some (l "837")).

Fixpoint quiet_segs (d : delims) (x : xstate) (segs : list seg) : option xstate :=
  match segs with
  | [] => Some x
  | s :: r => match reader_step d x s with Ok (x', []) => quiet_segs d x' r | _ => None end
  end.

Fixpoint quiet_groups (d : delims) (x : xstate) (gs : list cgroup) : option xstate :=
  match gs with
  | [] => Some x
  | g :: r =>
      match reader_step d x (cg_gs g) with
      | Ok (x1, []) =>
          match quiet_segs d (with_lx x1 (is837 (cg_map g))) (map snd (cg_items g)) with
          | Some x2 => quiet_groups d x2 r
          | None => None
          end
      | _ => None
      end
  end.

Definition reader_silent (d : delims) (isa : seg) (gs : list cgroup) (iea : seg) : Prop :=
  exists x1 x2 x3,
    reader_step d x_init isa = Ok (x1, []) /\ quiet_groups d x1 gs = Some x2 /\
    reader_step d x2 iea = Ok (x3, []) /\ cleanup x3 = [].

(* ------------------------------------------------------------------ *)
(* the document                                                         *)

Definition doc_body (gs : list cgroup) (iea : seg) : list seg := flat_map group_segs gs ++ [iea].

(* the node of the last segment of a group (its GE) *)
Definition last_node (isal : nref) (g : cgroup) : nref := last_ref (cg_items g) (gsl_of isal ++ [0]).

Record conformant_document (load : str -> result xmap) (idx : result (list map_entry))
       (d : delims) (f : list str) (isal : nref) (gs : list cgroup) (gL : cgroup) (r_iea : nref) (iea : seg) : Prop := {
  (* the text can be written and read back *)
  cd_distinct : distinct_delims d = true;
  cd_nobreak : delims_not_break d = true;
  cd_fields : isa_fields_ok f = true;
  cd_isa_clean : clean_seg d (isa_for d f) = true;
  cd_clean : body_ok d (doc_body gs iea) = true;
  cd_plain : forallb id_plain (doc_body gs iea) = true;
  cd_canon : Forall canonical (doc_body gs iea);
  (* the environment: index, control map *)
  cd_idx : exists ix, idx = Ok ix /\ Forall (group_ok load ix d (nth 11 f []) isal) gs;
  cd_cm : exists cm r_isa r_gs,
      load (control_name (nth 11 f [])) = Ok cm /\ valid_wf cm = true /\ fmt_wf cm = true /\
      getnode cm "/ISA_LOOP/ISA" = Ok r_isa /\ getnode cm "/ISA_LOOP/GS_LOOP/GS" = Ok r_gs /\
      item_conf cm d (r_isa, isa_for d f) = true;
  (* groups: at least one, gL the last; the first one leaves the control map *)
  cd_last : exists pre, gs = pre ++ [gL];
  cd_first : match gs with g :: _ => cg_file g <> control_name (nth 11 f []) | [] => True end;
  cd_compat : Forall (fun g => top_compat isal (cg_map g) (cg_map gL)) gs;
  (* IEA: continues the instance of ISA_LOOP in the last group's map *)
  cd_iea_id : sid_is iea "IEA" = true;
  cd_iea : conf_body (cg_map gL) d isal (last_node isal gL) 1 (Z.of_nat (length gs)) [(r_iea, iea)];
  cd_iea_conf : item_conf (cg_map gL) d (r_iea, iea) = true;
  cd_reader : reader_silent d (isa_for d f) gs iea
}.
