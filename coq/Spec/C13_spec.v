(* C13_spec.v — the X12 value languages of property C13, written without any
   regular expression and without reference to the model.  A reviewer should
   be able to read this file in a few minutes.

   Text is `list ascii`; `dec_val` is the value of a digit string. *)
From Coq Require Import String.
From PX.Lib Require Import Base PyStr.

Definition cs (s : string) : str := list_ascii_of_string s.

Definition digits (s : str) : Prop := Forall (fun c => is_digit c = true) s.

(* N (integer / implied decimal): optional minus, then one or more digits *)
Definition L_N (s : str) : Prop :=
  exists d, d <> [] /\ digits d /\ (s = d \/ s = "-"%char :: d).

(* R (decimal): optional minus, digits, optionally one point followed by one
   or more digits; at least one digit overall *)
Definition L_R (s : str) : Prop :=
  exists sign ip fp,
    s = sign ++ ip ++ fp /\
    (sign = [] \/ sign = ["-"%char]) /\
    digits ip /\
    (fp = [] \/ exists f, fp = "."%char :: f /\ f <> [] /\ digits f) /\
    (exists c, In c s /\ is_digit c = true).

(* calendar *)
Definition leap (y : N) : Prop := (y mod 4 = 0 /\ (y mod 100 <> 0 \/ y mod 400 = 0))%N.
Definition leap_b (y : N) : bool :=
  (N.eqb (y mod 4) 0 && (negb (N.eqb (y mod 100) 0) || N.eqb (y mod 400) 0))%N.

Definition days_in (y m : N) : N :=
  if existsb (N.eqb m) [1;3;5;7;8;10;12]%N then 31
  else if existsb (N.eqb m) [4;6;9;11]%N then 30
  else if leap_b y then 29 else 28.

Definition real_date (y m d : N) : Prop :=
  (1800 <= y /\ 1 <= m <= 12 /\ 1 <= d <= days_in y m)%N.

(* CCYYMMDD *)
Definition date8 (s : str) : Prop :=
  length s = 8 /\ digits s /\
  real_date (dec_val (slice s 0 4)) (dec_val (slice s 4 6)) (dec_val (slice s 6 8)).

(* YYMMDD with the century window: YY < 50 is 20YY, otherwise 19YY *)
Definition window (yy : N) : N := (if yy <? 50 then 2000 + yy else 1900 + yy)%N.
Definition date6 (s : str) : Prop :=
  length s = 6 /\ digits s /\
  real_date (window (dec_val (slice s 0 2))) (dec_val (slice s 2 4)) (dec_val (slice s 4 6)).

(* HHMM[SS[d[d]]] *)
Definition L_TM (s : str) : Prop :=
  digits s /\ In (length s) [4; 6; 7; 8] /\
  (dec_val (slice s 0 2) <= 23)%N /\ (dec_val (slice s 2 4) <= 59)%N /\
  (6 <= length s -> (dec_val (slice s 4 6) <= 59)%N).

Definition hhmm (s : str) : Prop := length s = 4 /\ L_TM s.

(* DT: a date of 6 or 8 digits, or an 8-digit date followed by HHMM *)
Definition L_DT (s : str) : Prop :=
  date6 s \/ date8 s \/ (length s = 12 /\ date8 (slice s 0 8) /\ hhmm (slice s 8 12)).

(* RD8: two 8-digit dates joined by exactly one hyphen *)
Definition L_RD8 (s : str) : Prop :=
  exists a b, s = a ++ "-"%char :: b /\ date8 a /\ date8 b.

(* character sets (X12.6 basic and extended; 5010 adds ^ and `) *)
Definition upper_digits : str := cs "ABCDEFGHIJKLMNOPQRSTUVWXYZ0123456789".
Definition basic_special : str := cs "!""&'()*+,-./:;?= ".
Definition lower : str := cs "abcdefghijklmnopqrstuvwxyz".
Definition extended_special : str := cs "%~@[]_{}\|<>#$".
Definition extended_5010 : str := cs "^`".

Definition charset_B : str := upper_digits ++ basic_special.
Definition charset_E : str := charset_B ++ lower ++ extended_special.
Definition charset_E5 : str := charset_E ++ extended_5010.

Definition charset_of (charset icvn : str) : str :=
  if str_eqb charset (cs "E") then
    if str_eqb icvn (cs "00501") then charset_E5 else charset_E
  else charset_B.

Definition L_ID (charset icvn : str) (s : str) : Prop :=
  Forall (fun c => In c (charset_of charset icvn)) s.

(* The language selected by a data type, as IsValidDataType dispatches:
   any type whose first letter is N is numeric. *)
Definition In_language (ty charset icvn : str) (s : str) : Prop :=
  match ty with
  | [] => True
  | c0 :: _ =>
    if Ascii.eqb c0 "N"%char then L_N s
    else if str_eqb ty (cs "R") then L_R s
    else if str_eqb ty (cs "ID") || str_eqb ty (cs "AN") then L_ID charset icvn s
    else if str_eqb ty (cs "RD8") then L_RD8 s
    else if str_eqb ty (cs "DT") then L_DT s
    else if str_eqb ty (cs "D8") then date8 s
    else if str_eqb ty (cs "D6") then date6 s
    else if str_eqb ty (cs "TM") then L_TM s
    else if str_eqb ty (cs "B") then True
    else False
  end.
