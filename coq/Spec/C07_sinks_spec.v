(* C07_sinks_spec.v — what the three output sinks of x12n_document (Model/Pipeline.v) need from a
   loaded map, as COMPUTABLE per-map booleans, and the environment condition of the totality theorem
   of the whole pipeline (Proofs/C07_pipeline.v).

   xml_ok m   for every segment node of the map (every reference r whose XmlOut.target_of is TSeg gi):
                - pop_to_parent_loop(seg_node).get_path() succeeds (gi_parent_path gi = Ok pp: every
                  enclosing loop has an id) and names at least one loop (path_list pp <> []):
                  x12xml_simple.seg reads cur_path[-1] (IndexError on an empty path: a segment directly
                  under the map root)
                - the segment has at most 99 children: seg() builds the reference designator
                  '%02i' % (i+1) and Segment.get parses it; '100' is not a designator (the path parser
                  reads it as a loop id, ele_idx None, and Segment.get raises IndexError)
   html_ok m  no segment lies directly under the map root: x12n_document hands node.get_parent() of a
              first segment to error_html.loop(), which reads `.type`; map_if has no such attribute.

   sinks_ok m = unusable m || (xml_ok m && html_ok m): a map none of whose fixed paths resolves gives the
   driver no node, so no sink ever sees one of its nodes (as in C07_spec.map_ok). *)
From Coq Require Import String.
From PX.Lib Require Import Base PyStr PyInt Regex Xml.
From PX.Model Require Import Path Segment Raw Reader Syntax MapLoad MapTree Element Counter Walker MapEnv Driver.
From PX.Model Require XmlOut.
From PX.Spec Require Import C07_walker_wf C07_valid_wf C07_spec.

Definition xml_ref_ok (m : xmap) (r : nref) : bool :=
  match XmlOut.target_of m r with
  | Some (XmlOut.TSeg gi) =>
      match XmlOut.gi_parent_path gi with
      | Ok pp => match XmlOut.path_list pp with [] => false | _ :: _ => true end
      | Raise _ => false
      end
      && (length (XmlOut.gi_children gi) <=? 99)
  | _ => true
  end.

Definition xml_ok (m : xmap) : bool := forallb (xml_ref_ok m) (all_refs m).

Definition html_ok (m : xmap) : bool :=
  forallb (fun n => match n with NSeg _ => false | NLoop _ _ _ _ _ _ _ => true end) (root_nodes m).

Definition sinks_ok (m : xmap) : bool := unusable m || (xml_ok m && html_ok m).

Definition env_ok_sinks (load : str -> result xmap) (idx : result (list map_entry)) : Prop :=
  env_ok load idx /\ (forall name m, load name = Ok m -> sinks_ok m = true).
