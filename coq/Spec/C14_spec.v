(* C14_spec.v — the X12 definition of the five syntax-note (relational
   condition) types over a presence pattern.  No reference to the model. *)
From Coq Require Import String.
From PX.Lib Require Import Base.

Definition id_b (b : bool) : bool := b.

(* `pres` lists, for the element positions the note mentions in order, whether
   the element is present (within the segment and non-empty). *)
Definition violated (code : ascii) (pres : list bool) : bool :=
  if Ascii.eqb code "P"%char then
    (* paired: if any is present, all are required *)
    existsb id_b pres && negb (forallb id_b pres)
  else if Ascii.eqb code "R"%char then
    (* required: at least one *)
    negb (existsb id_b pres)
  else if Ascii.eqb code "E"%char then
    (* exclusion: at most one *)
    1 <? length (filter id_b pres)
  else if Ascii.eqb code "C"%char then
    (* conditional: if the first is present, all others are required *)
    match pres with h :: t => h && negb (forallb id_b t) | [] => false end
  else if Ascii.eqb code "L"%char then
    (* list conditional: if the first is present, at least one other is required *)
    match pres with h :: t => h && negb (existsb id_b t) | [] => false end
  else false.

Definition note_letter (c : ascii) : bool :=
  Ascii.eqb c "P"%char || Ascii.eqb c "R"%char || Ascii.eqb c "E"%char ||
  Ascii.eqb c "C"%char || Ascii.eqb c "L"%char.

(* the standard element-level error code a violated note raises:
   10 = exclusion condition violated, 2 = conditional required element missing *)
Definition note_code (c : ascii) : str :=
  if Ascii.eqb c "E"%char then list_ascii_of_string "10" else list_ascii_of_string "2".
