(* C0203_spec.v — segment-level statements of C02 (a map-conformant document
   is accepted with zero errors) and C03 (a single injected fault is rejected
   and localised).

   What it means for a data segment to CONFORM to a segment node of a loaded
   map, written without reference to the validation code (Model/Element.v:
   seg_is_valid / comp_is_valid / elem_is_valid): only the clause predicate of
   C15 (`implies`), the note semantics of C14 (`violated`), the data accessors
   of Model/Segment.v and list functions.  Definitions only. *)
From Coq Require Import String.
From PX.Lib Require Import Base PyStr PyInt Regex.
From PX.Model Require Import Path Segment Syntax Validation MapLoad MapTree Element.
From PX.Spec Require Import C14_spec C15_spec C15_link C07_valid_wf.
From PX.Spec Require C16_spec.

(* ------------------------------------------------------------------ *)
(* one element definition, one value                                    *)

(* the dictionary entry of an element node.  A not-used element need not have
   one (its type and lengths are never consulted: `implies` only looks at the
   usage then); the placeholder is irrelevant in that case. *)
Definition dict_entry (c : ectx) (e : elem) : dataele :=
  match get_by_elem_num (x_de c) (e_data_ele e) with
  | Ok de => de
  | Raise _ => {| de_num := None; de_type := None; de_min := 0; de_max := 0; de_name := None |}
  end.

(* code `code` is implied (Spec/C15_spec.v) by the definition of element node e
   (below a composite of usage/seq pc, or directly in the segment when None)
   for value v (None = absent) with the qualifier-selected formats fs *)
Definition draws (c : ectx) (e : elem) (pc : option (option str * Z)) (fs : list (option str))
                 (v : option str) (code : str) : bool :=
  implies (x_charset c) (icvn_of c) (def_of c e (dict_entry c e) pc) fs v code.

(* no code at all is implied.  (`implies` can only hold of the eight codes of
   all_codes: Proofs/C0203_segment.v, draws_nothing_iff.) *)
Definition draws_nothing (c : ectx) (e : elem) (pc : option (option str * Z)) (fs : list (option str))
                         (v : option str) : bool :=
  forallb (fun code => negb (draws c e pc fs v code)) all_codes.

(* ------------------------------------------------------------------ *)
(* the node and the datum at a position (0-based)                       *)

(* the child of the segment node for element position i: the one whose seq is i+1 *)
Definition child_at (sn : segm) (i : nat) : option sub :=
  List.find (fun ch => Z.eqb (sub_seq ch) (Z.of_nat i + 1)) (s_children sn).

(* the data element at position i, absent beyond the end of the segment *)
Definition datum_at (sg : seg) (i : nat) : option composite := nth_error (els sg) i.

(* its printed value (Composite.format) *)
Definition ele_text (d : delims) (sg : seg) (i : nat) : option str :=
  option_map (format_comp (subele_term d)) (datum_at sg i).

(* ------------------------------------------------------------------ *)
(* the formats a preceding qualifier allows                             *)

Definition is_dtp (sg : seg) : bool := ostr_eqb (sid sg) (Some (cs "DTP")).

Definition date_time_formats : list str := [cs "RD8"; cs "D8"; cs "D6"; cs "DT"; cs "TM"].

(* DTP03: the format DTP02 names, when DTP02 is a simple element whose value is one of the five *)
Definition dtp_format (d : delims) (sn : segm) (sg : seg) : list (option str) :=
  match child_at sn 1, ele_text d sg 1 with
  | Some (SubE _), Some x => if mem_str x date_time_formats then [Some x] else []
  | _, _ => []
  end.

Definition is_de (e : elem) (num : string) : bool := ostr_eqb (e_data_ele e) (Some (cs num)).

(* a 1251 element: the code lists of all the 1250 (format qualifier) element nodes that precede position i *)
Definition qualifier_formats (sn : segm) (i : nat) : list (option str) :=
  flat_map (fun j => match child_at sn j with
                     | Some (SubE q) => if is_de q "1250" then e_codes q else []
                     | _ => []
                     end) (seq 0 i).

Definition formats_for (d : delims) (sn : segm) (sg : seg) (i : nat) (e : elem) : list (option str) :=
  if (i =? 2) && is_dtp sg then dtp_format d sn sg
  else if is_de e "1251" then qualifier_formats sn i
  else [].

(* ------------------------------------------------------------------ *)
(* conformance of one position                                          *)

(* a simple element: at most one component, and that value draws no code *)
Definition elem_conforms (c : ectx) (e : elem) (fs : list (option str)) (ov : option composite) : bool :=
  match ov with
  | None => draws_nothing c e None fs None
  | Some [] => draws_nothing c e None fs (Some [])
  | Some [x] => draws_nothing c e None fs (Some x)
  | Some (_ :: _ :: _) => false
  end.

(* component j against child j of the composite, absent beyond the last component *)
Fixpoint subs_conform (c : ectx) (pc : option (option str * Z)) (kids : list elem) (vals : list str) : bool :=
  match kids with
  | [] => true
  | k :: kids' => draws_nothing c k pc [] (hd_error vals) && subs_conform c pc kids' (tl vals)
  end.

(* a composite: absent or all components empty — then it must not be required (and, when
   situational, must not carry more components than the node has children); otherwise it must be
   used, fit, and each component must conform to its child *)
Definition comp_conforms (c : ectx) (cn : comp) (ov : option composite) : bool :=
  match ov with
  | None => usage_is (c_usage cn) "N" || usage_is (c_usage cn) "S"
  | Some v =>
      let fits := length v <=? length (c_children cn) in
      if comp_empty v then usage_is (c_usage cn) "N" || (usage_is (c_usage cn) "S" && fits)
      else (usage_is (c_usage cn) "R" || usage_is (c_usage cn) "S") && fits &&
           subs_conform c (Some (c_usage cn, c_seq cn)) (c_children cn) v
  end.

Definition pos_conforms (c : ectx) (sn : segm) (d : delims) (sg : seg) (i : nat) : bool :=
  match child_at sn i with
  | Some (SubE e) => elem_conforms c e (formats_for d sn sg i e) (datum_at sg i)
  | Some (SubC cn) => comp_conforms c cn (datum_at sg i)
  | None => false
  end.

(* ------------------------------------------------------------------ *)
(* syntax notes (C14)                                                   *)

(* element position i (1-based) is present: within the segment and not empty *)
Definition is_present (sg : seg) (i : N) : bool :=
  (i <=? N.of_nat (length (els sg)))%N && negb (comp_empty (nth (N.to_nat i - 1) (els sg) [])).

Definition note_holds (sg : seg) (nt : ascii * list Z) : bool :=
  negb (violated (fst nt) (map (fun z => is_present sg (Z.to_N z)) (snd nt))).

Definition notes_hold (sn : segm) (sg : seg) : bool := forallb (note_holds sg) (s_syntax sn).

(* ------------------------------------------------------------------ *)
(* THE DEFINITION: a data segment conforms to a segment node            *)

Definition seg_conforms (c : ectx) (sn : segm) (d : delims) (sg : seg) : bool :=
  (length (els sg) <=? length (s_children sn)) &&
  forallb (pos_conforms c sn d sg) (seq 0 (length (s_children sn))) &&
  notes_hold sn sg.

(* static side condition on the node (a clause of C16: Spec/C16_spec.v, seg_shape_ok): every
   syntax note has a letter of PRECL, at least two positions, all within the node's children.
   (A note with fewer than two positions, or another letter, is reported as violated by every
   segment: is_syntax_valid answers False for it.) *)
Definition notes_wf (sn : segm) : bool :=
  forallb (C16_spec.note_ok_b (length (s_children sn))) (s_syntax sn).

(* ------------------------------------------------------------------ *)
(* reading the reported events                                          *)

Definition err_code (h : hev) : str := match h with HEleErr code _ _ _ => code | HAddEle _ => [] end.
Definition err_refdes (h : hev) : option str := match h with HEleErr _ _ _ r => r | HAddEle _ => None end.

(* The error handler attaches an ele_error to the element node opened by the latest add_ele; the
   position of that node is the seq of the map node, or of its parent for a component of a
   composite (Model/Errh.v: mk_ele, en_pos) — 1-based.  `located cur evs` lists the error events of
   evs, each with the position the handler files it under (None: no add_ele yet). *)
Definition add_pos (i : ele_info) : Z := if ei_parent_is_composite i then ei_parent_seq i else ei_seq i.

Fixpoint located (cur : option Z) (evs : list hev) : list (option Z * hev) :=
  match evs with
  | [] => []
  | HAddEle i :: rest => located (Some (add_pos i)) rest
  | (HEleErr _ _ _ _ as h) :: rest => (cur, h) :: located cur rest
  end.

(* ------------------------------------------------------------------ *)
(* one injected fault                                                   *)

(* sg' is sg with the element at position i (0-based, within the segment) replaced by the single value x *)
Definition replaced_at (sg sg' : seg) (i : nat) (x : str) : Prop :=
  sid sg' = sid sg /\ i < length (els sg) /\ els sg' = set_nth (els sg) i [x].

(* position i (0-based) is mentioned by no syntax note *)
Definition unmentioned (sn : segm) (i : nat) : Prop :=
  forall nt, In nt (s_syntax sn) -> ~ In (Z.of_nat i + 1)%Z (snd nt).

(* position i is the qualifier of a following element: DTP02 selects the format of DTP03.
   (A 1250 qualifier selects by its NODE's code list, not by its value, so changing its value does
   not change what the 1251 element is checked against.) *)
Definition is_qualifier_pos (sg : seg) (i : nat) : bool := is_dtp sg && (i =? 1).

(* sg' is sg with one extra trailing element *)
Definition extended_by (sg sg' : seg) (v : composite) : Prop :=
  sid sg' = sid sg /\ els sg' = els sg ++ [v].
