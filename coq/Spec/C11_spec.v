(* C11_spec.v — write histories the property quantifies over, and the side
   conditions under which the written text can be read back. *)
From Coq Require Import String.
From PX.Lib Require Import Base PyStr.
From PX.Model Require Import Segment.
From PX.Spec Require Import C01_spec C04_spec.

(* A history is well nested when every header opens directly inside its parent
   kind and every trailer names a kind that is open (closing it and everything
   inside it); what is still open at the end is closed by Close. *)
Fixpoint drop_through (k : kind) (stack : list kind) : option (list kind) :=
  match stack with
  | [] => None
  | top :: below => if kind_eqb top k then Some below else drop_through k below
  end.

Fixpoint well_nested_w (stack : list kind) (h : list seg) : bool :=
  match h with
  | [] => true
  | s :: rest =>
      match header_kind s, trailer_kind s with
      | Some k, _ => may_open k stack && well_nested_w (k :: stack) rest
      | None, Some k => match drop_through k stack with
                        | Some below => well_nested_w below rest
                        | None => false
                        end
      | None, None => well_nested_w stack rest
      end
  end.

(* control numbers of headers: present, non-empty, and not reused within their
   scope (ISA13 in the file, GS06 in the interchange, ST02 in the group) *)
Definition ctl (dl : delims) (s : seg) : option str :=
  if has_id s "ISA" then el dl s 13 else if has_id s "GS" then el dl s 6 else if has_id s "ST" then el dl s 2 else None.

Definition ctl_ok (dl : delims) (s : seg) : bool :=
  match header_kind s with
  | Some _ => match ctl dl s with Some (_ :: _) => true | _ => false end
  | None => true
  end.

Fixpoint ids_unique (dl : delims) (isa_ids gs_ids st_ids : list (option str)) (h : list seg) : bool :=
  match h with
  | [] => true
  | s :: rest =>
      if has_id s "ISA" then negb (dup (el dl s 13) isa_ids) && ids_unique dl (isa_ids ++ [el dl s 13]) [] st_ids rest
      else if has_id s "GS" then negb (dup (el dl s 6) gs_ids) && ids_unique dl isa_ids (gs_ids ++ [el dl s 6]) [] rest
      else if has_id s "ST" then negb (dup (el dl s 2) st_ids) && ids_unique dl isa_ids gs_ids (st_ids ++ [el dl s 2]) rest
      else ids_unique dl isa_ids gs_ids st_ids rest
  end.

(* every written segment can be formatted with the writer's delimiters and read
   back (values free of the delimiters, an id), an ISA has its 16 elements *)
Definition writable (dl : delims) (s : seg) : bool :=
  clean_seg dl s && ctl_ok dl s && (if has_id s "ISA" then length (els s) =? 16 else true).

Definition history_ok (dl : delims) (h : list seg) : bool :=
  well_nested_w [] h && forallb (writable dl) h && ids_unique dl [] [] [] h.

Definition is_trailer (s : seg) : bool := match trailer_kind s with Some _ => true | None => false end.
