(* C12b_spec.v — the layers that consume parsed segments (segment matching,
   the map walker, segment validation) carry the delimiters `d` of the document
   only to FORMAT element values (Composite.format: the components joined with
   the component separator, trailing empty components dropped).

   `single_valued c`: formatting c writes no separator — at most one component
   is left once the trailing empty ones are dropped.  It is exactly the condition
   under which the formatted text does not depend on the separator
   (Proofs/C12_layers.v: format_single_valued / format_depends_on_separator). *)
From Coq Require Import String.
From PX.Lib Require Import Base PyStr PyInt Regex Xml.
From PX.Model Require Import Path Segment Syntax MapLoad MapTree Element Counter Walker.

Local Definition l (x : string) : str := list_ascii_of_string x.

Definition single_valued (c : composite) : bool := last_nonempty_idx ele_empty c =? 0.

(* the element at (0-based) index k of the data segment, when there is one *)
Definition ele_free (sg : seg) (k : nat) : bool :=
  match nth_error (els sg) k with Some c => single_valued c | None => true end.

Fixpoint forall_pos (p : nat -> composite -> bool) (i : nat) (vs : list composite) : bool :=
  match vs with [] => true | v :: r => p i v && forall_pos p (S i) r end.

(* ------------------------------------------------------------------ *)
(* 1. validation                                                        *)

(* where the node expects a SIMPLE element the data is single valued (a composite given for a simple
   element is itself an error whose reported value is the source text, separators included) *)
Definition simple_positions_ok (sn : segm) (sg : seg) : bool :=
  forall_pos (fun i v => if length (s_children sn) <=? i then true           (* beyond the node: skipped *)
                         else match child_by_idx sn i with
                              | Ok (SubE _) => single_valued v
                              | _ => true
                              end) 0 (els sg).

(* found by probing: the two `too many` errors report the source text of the offending element
   - "Too many elements in segment": the value of the first element beyond the node's children
   - "Too many sub-elements in composite" (composite not marked N): the value of that composite *)
Definition overflow_ok (sn : segm) (sg : seg) : bool :=
  ele_free sg (length (s_children sn)) &&
  forall_pos (fun i v => if length (s_children sn) <=? i then true
                         else match child_by_idx sn i with
                              | Ok (SubC cn) =>
                                  if (length (c_children cn) <? length v) && negb (usage_is (c_usage cn) "N")
                                  then single_valued v else true
                              | _ => true
                              end) 0 (els sg).

(* ------------------------------------------------------------------ *)
(* 2. matching: the elements segment_if.is_match formats                *)

Definition expects_simple (n : segm) (k : nat) : bool :=
  match nth_error (s_children n) k with Some (SubE _) => true | _ => false end.

Definition match_positions_ok (n : segm) (sg : seg) : bool :=
  negb (ostr_eqb (sid sg) (s_id n))                                   (* another segment id: nothing is read *)
  || (implb (expects_simple n 0) (ele_free sg 0)
      && implb (ostr_eqb (sid sg) (Some (l "ENT")) && expects_simple n 1) (ele_free sg 1)
      && implb (ostr_eqb (sid sg) (Some (l "HL")) && expects_simple n 2) (ele_free sg 2)).

(* a condition on the data alone that gives it on every node *)
Definition match_elements_plain (sg : seg) : bool :=
  ele_free sg 0
  && implb (ostr_eqb (sid sg) (Some (l "ENT"))) (ele_free sg 1)
  && implb (ostr_eqb (sid sg) (Some (l "HL"))) (ele_free sg 2).

(* ------------------------------------------------------------------ *)
(* 3. the walker                                                        *)

Fixpoint node_match_ok (sg : seg) (n : node) : bool :=
  match n with
  | NSeg sn => match_positions_ok sn sg
  | NLoop _ _ _ _ _ _ pm => forallb (fun p => forallb (node_match_ok sg) (snd p)) pm
  end.

(* _seg_not_found_error writes seg_data.get_value('01') into its message (HL: the whole segment, with
   fixed delimiters) *)
Definition not_found_text_ok (sg : seg) : bool :=
  opt_eqb str_eqb (sid sg) (Some (l "HL")) || ele_free sg 0.

Definition match_ok_everywhere (m : xmap) (sg : seg) : bool :=
  forallb (node_match_ok sg) (root_nodes m) && not_found_text_ok sg.

(* the Segment object handed to add_seg carries the delimiters it was built with: erased *)
Definition strip_delims (e : wev) : wev :=
  match e with
  | WAddSeg mn x sc cl ls => WAddSeg mn {| xg_d := D0; xg_s := xg_s x |} sc cl ls
  | WSegErr c msg v => WSegErr c msg v
  end.
