(* C04_nest.v — rebuilding the nesting tree from a flat segment list (used by
   the check's oracle to apply the recount of C04_spec.v to implementation
   runs; not used by the theorems). *)
From Coq Require Import String.
From PX.Lib Require Import Base PyStr.
From PX.Model Require Import Segment.
From PX.Spec Require Import C04_spec.

Fixpoint take_body (l : list seg) : list seg * list seg :=
  match l with
  | s :: r => if is_envelope s then ([], l) else let (b, r') := take_body r in (s :: b, r')
  | [] => ([], [])
  end.

Fixpoint p_sets (fuel : nat) (l : list seg) : option (list tset * list seg) :=
  match fuel with
  | 0 => None
  | S f =>
    match l with
    | s :: r =>
        if has_id s "ST" then
          let (body, r2) := take_body r in
          match r2 with
          | se :: r3 =>
              if has_id se "SE" then
                match p_sets f r3 with
                | Some (ts, r4) => Some ({| t_st := s; t_body := body; t_se := Some se |} :: ts, r4)
                | None => None
                end
              else None
          | [] => Some ([{| t_st := s; t_body := body; t_se := None |}], [])
          end
        else Some ([], l)
    | [] => Some ([], [])
    end
  end.

Fixpoint p_groups (fuel : nat) (l : list seg) : option (list group * list seg) :=
  match fuel with
  | 0 => None
  | S f =>
    match l with
    | s :: r =>
        if has_id s "GS" then
          match p_sets (S (length r)) r with
          | Some (ts, r2) =>
              match r2 with
              | ge :: r3 =>
                  if has_id ge "GE" then
                    match p_groups f r3 with
                    | Some (gs, r4) => Some ({| g_gs := s; g_sets := ts; g_ge := Some ge |} :: gs, r4)
                    | None => None
                    end
                  else None
              | [] => Some ([{| g_gs := s; g_sets := ts; g_ge := None |}], [])
              end
          | None => None
          end
        else Some ([], l)
    | [] => Some ([], [])
    end
  end.

Fixpoint p_inters (fuel : nat) (l : list seg) : option (doc * list seg) :=
  match fuel with
  | 0 => None
  | S f =>
    match l with
    | s :: r =>
        if has_id s "ISA" then
          match p_groups (S (length r)) r with
          | Some (gs, r2) =>
              match r2 with
              | iea :: r3 =>
                  if has_id iea "IEA" then
                    match p_inters f r3 with
                    | Some (d, r4) => Some ({| i_isa := s; i_groups := gs; i_iea := Some iea |} :: d, r4)
                    | None => None
                    end
                  else None
              | [] => Some ([{| i_isa := s; i_groups := gs; i_iea := None |}], [])
              end
          | None => None
          end
        else Some ([], l)
    | [] => Some ([], [])
    end
  end.

Definition nest (l : list seg) : option doc :=
  match p_inters (S (length l)) l with
  | Some (d, []) => if wf_doc d then Some d else None
  | _ => None
  end.
