(* C07_valid_wf.v — the static well-formedness of a loaded map under which
   segment validation (Model/Element.v: seg_is_valid) cannot raise, whatever
   the data segment.  A computable boolean; definitions only. *)
From Coq Require Import String.
From PX.Lib Require Import Base PyStr PyInt Regex Xml.
From PX.Model Require Import Path Segment Syntax Validation MapLoad MapTree Element.

Local Definition l (x : string) : str := list_ascii_of_string x.

(* the referenced data element is defined, and its data type is not the empty string
   (`data_type[0]` raises IndexError on '') *)
Definition de_ok (c : ectx) (e : elem) : bool :=
  match get_by_elem_num (x_de c) (e_data_ele e) with
  | Ok de => match de_type de with Some [] => false | _ => true end
  | Raise _ => false
  end.

(* an external code set, if referenced, has a non-empty name and is either excluded by the
   parameters or defined in the code table *)
Definition ext_ok (c : ectx) (e : elem) : bool :=
  match e_external e with
  | None => true
  | Some [] => false
  | Some k => mem_str k (x_exclude c) ||
              match cs_find (x_codes c) (Some k) None with Some _ => true | None => false end
  end.

(* a not-used element is only tested for emptiness; a used one must be R or S,
   with its data element and code set resolvable *)
Definition elem_ok (c : ectx) (e : elem) : bool :=
  usage_is (e_usage e) "N" ||
  ((usage_is (e_usage e) "R" || usage_is (e_usage e) "S") && de_ok c e && ext_ok c e).

(* the components of a not-used composite are never visited *)
Definition comp_ok (c : ectx) (cn : comp) : bool :=
  usage_is (c_usage cn) "N" ||
  ((usage_is (c_usage cn) "R" || usage_is (c_usage cn) "S") && forallb (elem_ok c) (c_children cn)).

Definition sub_ok (c : ectx) (ch : sub) : bool :=
  match ch with SubE e => elem_ok c e | SubC cn => comp_ok c cn end.

Definition sub_seq (ch : sub) : Z := match ch with SubE e => e_seq e | SubC c0 => c_seq c0 end.

(* the seq numbers of the n children are exactly 1..n: every index below n selects exactly one child *)
Definition seq_ok (sn : segm) : bool :=
  forallb (fun i => match filter (fun ch => Z.eqb (sub_seq ch) (Z.of_nat i + 1)) (s_children sn) with
                    | [_] => true
                    | _ => false
                    end)
          (seq 0 (length (s_children sn))).

(* a syntax note is evaluated only when it lists at least two positions; the positions must then be
   two-digit designators 01..99 ('00' indexes element -1, three digits do not parse as a position) *)
Definition syn_note_ok (nt : ascii * list Z) : bool :=
  (length (snd nt) <? 2) || forallb (fun z => (1 <=? z)%Z && (z <=? 99)%Z) (snd nt).

Definition seg_ok (c : ectx) (sn : segm) : bool :=
  seq_ok sn && forallb (sub_ok c) (s_children sn) && forallb syn_note_ok (s_syntax sn).

(* every segment node below a node *)
Fixpoint node_ok (c : ectx) (n : node) : bool :=
  match n with
  | NSeg sn => seg_ok c sn
  | NLoop _ _ _ _ _ _ pm => forallb (fun p => forallb (node_ok c) (snd p)) pm
  end.

Definition charset_ok_b (cs : str) : bool := str_eqb cs (l "B") || str_eqb cs (l "E").

Definition valid_wf (m : xmap) : bool :=
  charset_ok_b (m_charset m) && forallb (node_ok (ctx_of m)) (root_nodes m).

(* ---- additional static fact for the consistency of the boolean with the reported events ----
   The formats selected by a data-element-1250 qualifier for the following 1251 element are the
   qualifier's code list.  When the value is of none of them, is_valid returns False but reports an
   error only if the list names TM or a date type; so the list must be empty or name one. *)
Definition fmt_list_ok (ts : list (option str)) : bool :=
  match ts with [] => true | _ => existsb (ostr_eqb (Some (l "TM"))) ts || existsb is_date_type ts end.

Definition seg_fmt_ok (sn : segm) : bool :=
  forallb (fun ch => match ch with
                     | SubE e => if ostr_eqb (e_data_ele e) (Some (l "1250")) then fmt_list_ok (e_codes e) else true
                     | SubC _ => true
                     end) (s_children sn).

Fixpoint node_fmt_ok (n : node) : bool :=
  match n with
  | NSeg sn => seg_fmt_ok sn
  | NLoop _ _ _ _ _ _ pm => forallb (fun p => forallb node_fmt_ok (snd p)) pm
  end.

Definition fmt_wf (m : xmap) : bool := forallb node_fmt_ok (root_nodes m).

(* the loaded shipped map (pattern of Spec/C08_spec.v: map_c08_ok) *)
Definition map_valid_wf (rx : regex_table) (dataele_xml codes_xml root : xml) : bool :=
  match load_map rx dataele_xml codes_xml None (l "B") root with
  | Ok m => valid_wf m
  | Raise _ => false
  end.

Definition map_fmt_wf (rx : regex_table) (dataele_xml codes_xml root : xml) : bool :=
  match load_map rx dataele_xml codes_xml None (l "B") root with
  | Ok m => fmt_wf m
  | Raise _ => false
  end.
