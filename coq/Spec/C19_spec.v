(* C19_spec.v — what "the HTML report shows every segment and error, with all
   source data escaped" means, independently of how error_html builds its text.

   `strip` is a tag stripper: what remains of a text when everything between
   < and > is removed and the four entities the report uses are decoded.
   The plain functions say what must remain. *)
From Coq Require Import String.
From PX.Lib Require Import Base PyStr.
From PX.Model Require Import Path Segment Errh ErrIter OutW Html.

Local Definition l (s : string) : str := list_ascii_of_string s.
Local Open Scope char_scope.

Fixpoint strip (in_tag : bool) (s : str) : str :=
  match s with
  | [] => []
  | c :: r =>
      if in_tag then (if Ascii.eqb c ">" then strip false r else strip true r)
      else
        match s with
        | "<" :: r' => strip true r'
        | "&" :: "a" :: "m" :: "p" :: ";" :: r' => "&" :: strip false r'
        | "&" :: "n" :: "b" :: "s" :: "p" :: ";" :: r' => " " :: strip false r'
        | "&" :: "g" :: "t" :: ";" :: r' => ">" :: strip false r'
        | "&" :: "l" :: "t" :: ";" :: r' => "<" :: strip false r'
        | c' :: r' => c' :: strip false r'
        | [] => []
        end
  end.
Definition strip_markup (s : str) : str := strip false s.

(* the tags of a text: the substrings from a < (outside a tag) up to the next > *)
Fixpoint tags_of (cur : option str) (s : str) : list str :=
  match s with
  | [] => match cur with Some t => [rev t] | None => [] end
  | c :: r =>
      match cur with
      | Some t => if Ascii.eqb c ">" then rev (c :: t) :: tags_of None r else tags_of (Some (c :: t)) r
      | None => if Ascii.eqb c "<" then tags_of (Some [c]) r else tags_of None r
      end
  end.
Definition tags (s : str) : list str := tags_of None s.

(* the only tags gen_seg / footer may write *)
Definition report_tags : list str :=
  [l "<span class=""error"">"; l "<span class=""seg"">"; l "<span class=""info"">"; l "<span class=""ele_err"">";
   l "</span>"; l "<br />"; l "</div>"; l "<p>"; l "</p>"; l "</a>"; l "</body>"; l "</html>";
   l "<a href=""http://sourceforge.net/projects/pyx12/"">"].

(* a string that needs no escaping (the error CODES, which the report writes as they are) *)
Definition markup_free (s : str) : bool :=
  forallb (fun c => negb (Ascii.eqb c "<" || Ascii.eqb c ">" || Ascii.eqb c "&")) s.

Definition NL : str := [ascii_of_nat 10].

(* ---- what must remain of one gen_seg call ---- *)

(* the segment as the source has it, every element and component shown *)
Definition plain_seg (d : delims) (s : seg) : str :=
  show_sid (sid s) ++ ele_term d :: join (ele_term d) (map (join (subele_term d)) (els s)) ++ [seg_term d].

Definition plain_seg_err (e : err2) : str := l " " ++ snd e ++ l " (Segment Error Code: " ++ fst e ++ l ")" ++ NL.
Definition plain_ele_err (e : err2) : str := l " " ++ snd e ++ l " (Element Error Code: " ++ fst e ++ l ")" ++ NL.

Definition is3 (e : err2) : bool := str_eqb (fst e) (l "3").

(* the error lists of a node, as the handler holds them (Errh accessors; a node that has none: []) *)
Definition node_errors (h : errh) (seg_id : option str) (r : node_ref) : list err2 :=
  match error_list_of h r seg_id with Ok es => es | Raise _ => [] end.
Definition node_elements (h : errh) (r : node_ref) : list nat :=
  match elements_of h r with Ok es => es | Raise _ => [] end.

(* the report drops, on a GE line, element messages that mention GS (error_html.py "ugly hack") *)
Definition ge_gs_hidden (seg_id : option str) (e : err2) : bool :=
  opt_eqb str_eqb seg_id (Some (l "GE")) && contains (l "GS") (snd e).

Definition plain_pre (h : errh) (seg_id : option str) (nodes : list node_ref) : str :=
  concat (map (fun r => concat (map plain_seg_err (filter is3 (node_errors h seg_id r)))) nodes).

Definition plain_post_node (h : errh) (seg_id : option str) (r : node_ref) : str :=
  concat (map plain_seg_err (filter (fun e => negb (is3 e)) (node_errors h seg_id r))) ++
  concat (map (fun e => concat (map plain_ele_err
                                   (filter (fun er => negb (ge_gs_hidden seg_id er)) (node_errors h seg_id (REle e)))))
              (node_elements h r)).
Definition plain_post (h : errh) (seg_id : option str) (nodes : list node_ref) : str :=
  concat (map (plain_post_node h seg_id) nodes).

Definition plain_info (info : option str) : str :=
  match info with Some (c :: r) => l "  " ++ (c :: r) ++ NL | _ => [] end.

(* one gen_seg call: errors with code 3 first, the loop heading if one is pending, the line number and
   the segment, then every other segment error and every element error of the nodes handed in *)
Definition plain_gen_seg (h : errh) (x : xseg) (line : Z) (info : option str) (nodes : list node_ref) : str :=
  let seg_id := sid (xs_s x) in
  plain_pre h seg_id nodes ++ plain_info info ++
  fmt_Zi line ++ l ": " ++ plain_seg (xs_d x) (xs_s x) ++ NL ++
  plain_post h seg_id nodes.

(* all error codes that the call can print need no escaping *)
Definition codes_plain (h : errh) (seg_id : option str) (nodes : list node_ref) : Prop :=
  forall r, In r nodes ->
    (forall e, In e (node_errors h seg_id r) -> markup_free (fst e) = true) /\
    (forall k e, In k (node_elements h r) -> In e (node_errors h seg_id (REle k)) -> markup_free (fst e) = true).

(* the configuration x12n_document builds from the delimiters of the source *)
Definition cfg_of (d : delims) : html_cfg :=
  {| hc_seg_term := [seg_term d]; hc_ele_term := [ele_term d]; hc_subele_term := [subele_term d] |}.
