(* C05_spec.v — what the BODY of the 997 acknowledgement says, computed from the error tree alone.

   Nothing of the visitor appears here: no counters, no output buffer, no monad.  What is used of the model:
     - the node records of Errh and the pure counting functions (st_child_err_count, seg_child_err_count,
       gs_count_failed_st);
     - the pure code-list helpers of Ack997 (get_st_errors, get_gs_errors, seg_error_codes, sorted_set,
       valid_AK3_codes, valid_AK4_codes) — functions of the heap and a node;
     - pyx12.segment (Segment.v): parse_seg / format_seg / seg_set, because error_997.py builds its AK3 / AK4
       segments by re-parsing the text of a first segment and then setting one more element.

   The visitor WRITES to the handler: visit_gs_post stores ack code "R" into a GS node whose ack_code is falsy
   (a group that was never closed) before it prints the AK9.  That field is read nowhere else during the run,
   so instead of a normalised heap the spec uses `gs_ack_written n` where the AK9 is described; the heap the
   run leaves behind is `normalise_997 h` below (all VISITED groups normalised). *)
From Coq Require Import String.
From PX.Lib Require Import Base PyStr PyInt.
From PX.Model Require Import Path Segment Errh Ack997.
From PX.Spec Require Import C06_spec.

Local Definition l (s : string) : str := list_ascii_of_string s.

(* ------------------------------------------------------------------ *)
(* segments from values                                                *)
(* ------------------------------------------------------------------ *)
(* the segment  ID*v1*v2*...  (each value split at the component separator, as Segment.append does) *)
Definition mkseg (id : string) (vals : list str) : seg :=
  {| sid := Some (l id); els := map (split ":"%char) vals |}.

(* values that the visitor can only print when they are there.  The defaults only make the functions total:
     - val / valZ: when the run COMPLETES every attribute they are applied to is there
       (Proofs/C05_printable.v: render_997_printable; otherwise the visitor raises);
     - okl / the_seg: the code-list helpers and Segment.set never raise where they are used
       (Proofs/C05_forms.v: get_st_errors_total, get_gs_errors_total, ak3_997_form, ak4_997_form) *)
Definition val (o : option str) : str := match o with Some s => s | None => [] end.
Definition valZ (o : option Z) : Z := match o with Some z => z | None => 0%Z end.
Definition okl {A} (r : result (list A)) : list A := match r with Ok x => x | Raise _ => [] end.
Definition the_seg (r : result seg) : seg := match r with Ok s => s | Raise _ => {| sid := None; els := [] |} end.

(* ------------------------------------------------------------------ *)
(* one segment per line of the body                                    *)
(* ------------------------------------------------------------------ *)
(* AK1*<functional id code>*<group control number>   (Segment('AK1*%s*%s' % ...): None prints as "None") *)
Definition ak1_997 (g : gs_node) : seg :=
  parse_seg D (l "AK1*" ++ show_s (gn_fic g) ++ l "*" ++ show_s (gn_ctl g)).

(* AK2*<transaction set id>*<control number, stripped> *)
Definition ak2_997 (t : st_node) : seg := mkseg "AK2" [val (tn_id t); strip_ws (val (tn_ctl t))].

(* AK3*<segment id>*<segment position in the set>*<loop id or empty>  — then re-parsed, and AK304 set *)
Definition ak3_base (n : seg_node) : seg :=
  mkseg "AK3" [val (sn_seg_id n); fmt_Zi (valZ (sn_seg_count n)); if truthy_s (sn_ls_id n) then val (sn_ls_id n) else []].
Definition ak3_997 (n : seg_node) (cde : str) : seg :=
  the_seg (seg_set D (parse_seg D (format_seg D (ak3_base n))) (l "AK304") cde).

(* the AK3 lines of a segment node: one per DISTINCT valid code in sorted order ("SEG1" counts as "8"), and
   one more with "8" when an element of the segment has an error and "8" is not among the codes yet *)
Definition ak3s_997 (h : errh) (n : seg_node) : list seg :=
  flat_map (fun cde => if mem_str cde valid_AK3_codes then [ak3_997 n cde] else []) (sorted_set (seg_error_codes n))
  ++ (if (0 <? seg_child_err_count h n) && negb (mem_str (l "8") (seg_error_codes n)) then [ak3_997 n (l "8")] else []).

(* AK4*<position[:component position]>[*<data element number>] — re-parsed, AK403 := code, AK404 := bad value *)
Definition ak4_base (e : ele_node) : seg :=
  mkseg "AK4" ((if truthy_Z (en_subpos e) then fmt_Zi (en_pos e) ++ l ":" ++ fmt_Zi (valZ (en_subpos e)) else fmt_Zi (en_pos e))
               :: (if truthy_s (en_ref_num e) then [val (en_ref_num e)] else [])).
Definition ak4_997 (e : ele_node) (er : err3) : seg :=
  the_seg (do s <- seg_set D (parse_seg D (format_seg D (ak4_base e))) (l "AK403") (fst (fst er));
           if truthy_s (snd er) then seg_set D s (l "AK404") (val (snd er)) else Ok s).

(* the AK4 lines of an element node: one per error with a valid code, in the order the errors were reported *)
Definition ak4s_997 (e : ele_node) : list seg :=
  flat_map (fun er : err3 => if mem_str (fst (fst er)) valid_AK4_codes then [ak4_997 e er] else []) (en_errors e).

(* AK5*<ack code of the set>*<up to five set-level codes> *)
Definition ak5_997 (h : errh) (t : st_node) : seg :=
  mkseg "AK5" (val (tn_ack t) :: firstn 5 (okl (get_st_errors h t))).

(* the ack code printed for a group: its own, or "R" when it has none (group never closed) *)
Definition gs_ack_written (g : gs_node) : option str :=
  if truthy_s (gn_ack g) then gn_ack g else Some (l "R").

(* AK9*<ack code>*<declared GE01>*<sets received>*<sets accepted>*<group-level codes> *)
Definition gs_accepted (h : errh) (g : gs_node) : Z :=
  Z.max (gn_recv g - Z.of_nat (gs_count_failed_st h g)) 0.
Definition ak9_997 (h : errh) (g : gs_node) : seg :=
  mkseg "AK9" ([val (gs_ack_written g); fmt_Zi (gn_orig g); fmt_Zi (gn_recv g); fmt_Zi (gs_accepted h g)]
               ++ okl (get_gs_errors h g)).

(* ------------------------------------------------------------------ *)
(* the tree                                                            *)
(* ------------------------------------------------------------------ *)
(* the nodes a list of indices refers to *)
Definition nodes_at {A} (heap : list A) (ids : list nat) : list A :=
  flat_map (fun i => match nth_error heap i with Some n => [n] | None => [] end) ids.

Definition seg_body_997 (h : errh) (n : seg_node) : list seg :=
  ak3s_997 h n ++ flat_map ak4s_997 (nodes_at (h_ele h) (sn_elements n)).

Definition st_body_997 (h : errh) (t : st_node) : list seg :=
  ak2_997 t :: flat_map (seg_body_997 h) (nodes_at (h_seg h) (tn_children t)) ++ [ak5_997 h t].

Definition gs_body_997 (h : errh) (g : gs_node) : list seg :=
  ak1_997 g :: flat_map (st_body_997 h) (nodes_at (h_st h) (gn_children g)) ++ [ak9_997 h g].

(* the GS nodes in the order the visitor reaches them: ISA nodes in heap order, their children in order *)
Definition visited_gs (h : errh) : list gs_node :=
  flat_map (fun i => nodes_at (h_gs h) (in_children i)) (h_isa h).

(* one list of body segments per GS node: what stands between the ST and the SE of its 997 *)
Definition expected_sets_997 (h : errh) : list (list seg) := map (gs_body_997 h) (visited_gs h).

(* ------------------------------------------------------------------ *)
(* the sets around the bodies                                          *)
(* ------------------------------------------------------------------ *)
Definition st_997 (k : nat) : seg := {| sid := Some (l "ST"); els := [[l "997"]; [dec4 k]] |}.
Definition se_997 (k len : nat) : seg := {| sid := Some (l "SE"); els := [[dec (len + 2)]; [dec4 k]] |}.
Definition set_997 (k : nat) (body : list seg) : list seg := st_997 k :: body ++ [se_997 k (length body)].

(* bodies numbered k, k+1, ... *)
Fixpoint number_sets (k : nat) (bodies : list (list seg)) : list seg :=
  match bodies with
  | [] => []
  | b :: r => set_997 k b ++ number_sets (S k) r
  end.

(* ------------------------------------------------------------------ *)
(* the heap after the run                                              *)
(* ------------------------------------------------------------------ *)
Definition norm_gs (g : gs_node) : gs_node := if truthy_s (gn_ack g) then g else gs_set_ack g (Some (l "R")).

(* every GS node that is a child of some ISA node gets its ack code normalised; nothing else changes *)
Definition is_visited (h : errh) (g : nat) : bool :=
  existsb (fun i => existsb (Nat.eqb g) (in_children i)) (h_isa h).
Fixpoint mapi_from {A B} (f : nat -> A -> B) (k : nat) (xs : list A) : list B :=
  match xs with [] => [] | x :: r => f k x :: mapi_from f (S k) r end.
Definition normalise_997 (h : errh) : errh :=
  set_h_gs h (mapi_from (fun g n => if is_visited h g then norm_gs n else n) 0 (h_gs h)).

(* ------------------------------------------------------------------ *)
(* corollaries: vocabulary                                             *)
(* ------------------------------------------------------------------ *)
(* the handler after the run: only GS nodes differ, and only by norm_gs *)
Definition heap_after (h h' : errh) : Prop :=
  exists gl, h' = set_h_gs h gl /\ Forall2 (fun a b => b = a \/ b = norm_gs a) (h_gs h) gl.

(* the AK1 / AK2 segments of a list *)
Definition is_ak12 (s : seg) : bool := has_sid s "AK1" || has_sid s "AK2".

(* what they must be: per visited group its AK1, then the AK2 of each of its sets, in order *)
Definition names_997 (h : errh) : list seg :=
  flat_map (fun g => ak1_997 g :: map ak2_997 (nodes_at (h_st h) (gn_children g))) (visited_gs h).

(* a set counts as accepted in AK904 when its ack code is "A" or "E" (err_gs.count_failed_st) *)
Definition st_passed (t : st_node) : bool :=
  match tn_ack t with Some a => str_eqb a (l "A") || str_eqb a (l "E") | None => false end.

(* ------------------------------------------------------------------ *)
(* what get_error_count = 0 means, node by node                        *)
(* ------------------------------------------------------------------ *)
Definition eles_clean (h : errh) (ids : list nat) : Prop := Forall (fun e => en_errors e = []) (nodes_at (h_ele h) ids).
Definition seg_clean (h : errh) (n : seg_node) : Prop := sn_errors n = [] /\ eles_clean h (sn_elements n).
(* NB: the element errors of the ST / SE segment itself (tn_elements) are NOT counted by err_st.err_count *)
Definition st_clean (h : errh) (t : st_node) : Prop :=
  tn_errors t = [] /\ Forall (seg_clean h) (nodes_at (h_seg h) (tn_children t)).
Definition gs_clean (h : errh) (g : gs_node) : Prop :=
  gn_errors g = [] /\ eles_clean h (gn_elements g) /\ Forall (st_clean h) (nodes_at (h_st h) (gn_children g)).
Definition isa_clean (h : errh) (i : isa_node) : Prop :=
  in_errors i = [] /\ eles_clean h (in_elements i) /\ Forall (gs_clean h) (nodes_at (h_gs h) (in_children i)).
Definition heap_clean (h : errh) : Prop := Forall (isa_clean h) (h_isa h).

(* ------------------------------------------------------------------ *)
(* what the visitor needs in order to complete                         *)
(* ------------------------------------------------------------------ *)
(* index i refers to a node of the heap, and the node satisfies P *)
Definition idx_ok {A} (heap : list A) (P : A -> Prop) (i : nat) : Prop :=
  exists n, nth_error heap i = Some n /\ P n.

Definition seg_printable (h : errh) (n : seg_node) : Prop :=
  sn_seg_id n <> None /\ sn_seg_count n <> None /\ Forall (idx_ok (h_ele h) (fun _ => True)) (sn_elements n).
Definition st_printable (h : errh) (t : st_node) : Prop :=
  tn_id t <> None /\ tn_ack t <> None /\ Forall (idx_ok (h_seg h) (seg_printable h)) (tn_children t).
Definition gs_printable (h : errh) (g : gs_node) : Prop :=
  Forall (idx_ok (h_st h) (st_printable h)) (gn_children g).
(* no dangling index below an ISA node, and every attribute the 997 prints without a default is there: then
   val / valZ in the definitions above are never applied to None *)
Definition printable_997 (h : errh) : Prop :=
  Forall (fun i => Forall (idx_ok (h_gs h) (gs_printable h)) (in_children i)) (h_isa h).
