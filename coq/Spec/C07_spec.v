(* C07_spec.v — totality of the validator's main loop (Model/Driver.v) up to the two documented
   refusals (X12Error: not an X12 interchange / broken ISA; EngineError: no map for the document).

   Everything the statement needs from the environment is a COMPUTABLE per-map boolean `map_ok`,
   so that `env_ok` can be checked on the shipped configuration by evaluation
   (Proofs/C07_driver_maps.v).

   map_ok m = unusable m || full_ok m

   unusable m: the three fixed paths the driver resolves (/ISA_LOOP/ISA, /ISA_LOOP/GS_LOOP/GS,
     /ISA_LOOP/GS_LOOP/ST_LOOP/HEADER/BHT) all fail with an allowed exception: the driver can load
     such a map but never gets a node of it (every use ends in EngineError).

   full_ok m =
     walker_wf m          the walker cannot raise            (Spec/C07_walker_wf.v)
     walker_first_wf m    a loop that starts with a loop has no other child loop: the walker
                          enters loops through FIRST children only (Proofs/C07_walker.v: walker_entry')
     valid_wf m           segment validation cannot raise   (Spec/C07_valid_wf.v)
     envelope_shape m     what the driver's protocol with the error handler relies on:
                            - the first child of every loop GS_LOOP is the segment GS
                            - the first child of every loop ST_LOOP is the segment ST
                            - a segment GE or ST lies inside a GS_LOOP
                            - a segment SE lies inside an ST_LOOP
                            - a segment BHT lies inside an ST_LOOP and inside a GS_LOOP
     each of the three fixed paths either fails with an allowed exception or resolves to a segment
     node in the expected place:
       /ISA_LOOP/ISA                          outside GS_LOOP / ST_LOOP, at least 16 children, the first
                                              (seq 1) a simple element
       /ISA_LOOP/GS_LOOP/GS                   outside ST_LOOP
       /ISA_LOOP/GS_LOOP/ST_LOOP/HEADER/BHT   a segment node *)
From Coq Require Import String.
From PX.Lib Require Import Base PyStr PyInt Regex Xml.
From PX.Model Require Import Path Segment Raw Reader Syntax MapLoad MapTree Element Counter Walker MapEnv Driver.
From PX.Spec Require Import C07_walker_wf C07_valid_wf.

Local Definition l (x : string) : str := list_ascii_of_string x.

Definition allowed (e : exn) : bool := match e with X12Error | EngineError => true | _ => false end.

(* ---- where a node lies ---- *)
(* the id of the loop at reference p (None: no node there, a segment, or a loop without id) *)
Definition loop_id_at (m : xmap) (p : nref) : option str :=
  match node_at (root_nodes m) p with Some (NLoop i _ _ _ _ _ _) => i | _ => None end.

Definition seg_id_at (m : xmap) (r : nref) : option str :=
  match node_at (root_nodes m) r with Some (NSeg sn) => s_id sn | _ => None end.

(* some enclosing loop (a proper, non-empty prefix of r) has id X *)
Definition anc_has (m : xmap) (r : nref) (X : string) : bool :=
  existsb (fun k => ostr_eqb (loop_id_at m (firstn k r)) (Some (l X))) (seq 1 (length r - 1)).

Definition is_id (o : option str) (X : string) : bool := ostr_eqb o (Some (l X)).

(* ---- the envelope, node by node ---- *)
Definition shape_ref (m : xmap) (r : nref) (n : node) : bool :=
  match n with
  | NLoop i _ _ _ _ _ _ =>
      (negb (is_id i "GS_LOOP") || is_id (seg_id_at m (r ++ [0])) "GS")
      && (negb (is_id i "ST_LOOP") || is_id (seg_id_at m (r ++ [0])) "ST")
  | NSeg sn =>
      (negb (is_id (s_id sn) "GE" || is_id (s_id sn) "ST") || anc_has m r "GS_LOOP")
      && (negb (is_id (s_id sn) "SE") || anc_has m r "ST_LOOP")
      && (negb (is_id (s_id sn) "BHT") || (anc_has m r "ST_LOOP" && anc_has m r "GS_LOOP"))
  end.

Definition envelope_shape (m : xmap) : bool :=
  forallb (fun r => match node_at (root_nodes m) r with Some n => shape_ref m r n | None => false end)
          (all_refs m).

(* ---- the fixed paths ---- *)
Definition path_ok (m : xmap) (p : string) (good : nref -> bool) : bool :=
  match getnode m p with Ok r => good r | Raise e => allowed e end.

Definition isa_good (m : xmap) (r : nref) : bool :=
  match node_at (root_nodes m) r with
  | Some (NSeg sn) =>
      negb (anc_has m r "GS_LOOP") && negb (anc_has m r "ST_LOOP")
      && (16 <=? length (s_children sn))
      && match child_by_idx sn 0 with Ok (SubE _) => true | _ => false end
  | _ => false
  end.

Definition gs_good (m : xmap) (r : nref) : bool :=
  match node_at (root_nodes m) r with
  | Some (NSeg _) => negb (anc_has m r "ST_LOOP")
  | _ => false
  end.

Definition bht_good (m : xmap) (r : nref) : bool :=
  match node_at (root_nodes m) r with Some (NSeg _) => true | _ => false end.

Definition full_ok (m : xmap) : bool :=
  walker_wf m && walker_first_wf m && valid_wf m && envelope_shape m
  && path_ok m "/ISA_LOOP/ISA" (isa_good m)
  && path_ok m "/ISA_LOOP/GS_LOOP/GS" (gs_good m)
  && path_ok m "/ISA_LOOP/GS_LOOP/ST_LOOP/HEADER/BHT" (bht_good m).

(* none of the fixed paths resolves: the map gives the driver no node *)
Definition unusable (m : xmap) : bool :=
  path_ok m "/ISA_LOOP/ISA" (fun _ => false)
  && path_ok m "/ISA_LOOP/GS_LOOP/GS" (fun _ => false)
  && path_ok m "/ISA_LOOP/GS_LOOP/ST_LOOP/HEADER/BHT" (fun _ => false).

Definition map_ok (m : xmap) : bool := unusable m || full_ok m.

(* ---- the environment of a run ---- *)
Definition env_ok (load : str -> result xmap) (idx : result (list map_entry)) : Prop :=
  (forall name m, load name = Ok m -> map_ok m = true) /\
  (forall name e, load name = Raise e -> allowed e = true) /\
  (forall e, idx = Raise e -> allowed e = true).

(* ---- the text ---- *)
(* The first segment the reader delivers is an ISA.  The header check of the raw reader
   (C01_spec.header_ok) only looks at characters 1-3 and at the version; the segment terminator
   is whatever character 106 is, and when it is one of `I`, `S`, `A` or the element separator
   (or the element separator is one of `I`, `S`, `A`), the text no longer starts with an ISA
   segment and the driver does raise AttributeError (finding C07-no-isa, Proofs/C07_driver_maps.v). *)
Definition first_is_isa (text : str) : Prop :=
  forall r lines, raw_all {| rest := text; sched := [] |} = Ok (r, lines) ->
    match lines with
    | [] => True
    | ln :: _ => forall x x' os es, reader_line_opt (delims_of r) x ln = Ok (x', os, es) ->
                   exists s, os = Some s /\ sid_is s "ISA" = true
    end.

(* a computable sufficient condition: the text starts with ISA, and neither the segment terminator
   (character 106) nor the element separator (character 4) is one of I, S, A, nor are they equal *)
Definition plain_delims (text : str) : bool :=
  let T := nth 105 text " "%char in
  let e := nth 3 text " "%char in
  negb (mem_ascii T (l "ISA")) && negb (mem_ascii e (l "ISA")) && negb (Ascii.eqb T e).

(* ---- the statement ---- *)
Definition driver_total_stmt : Prop :=
  forall load idx text,
    env_ok load idx -> first_is_isa text ->
    match snd (run_document_gen load idx text) with Ok _ => True | Raise e => allowed e = true end.
