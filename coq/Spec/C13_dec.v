(* C13_dec.v — boolean deciders for the languages of C13_spec.v (definitions
   only; their equivalence with the Prop-level languages is Proofs/C13_lang.v).
   `in_language_b` is the oracle the check applies to the implementation. *)
From Coq Require Import String.
From PX.Lib Require Import Base PyStr.
From PX.Spec Require Import C13_spec.

Definition LN_dec (s : str) : bool :=
  match s with
  | x :: t => if Ascii.eqb x "-"%char then negb (length t =? 0) && all_digits t else all_digits s
  | [] => false
  end.

Definition date_ok_b (y m d : N) : bool :=
  ((1800 <=? y) && ((1 <=? m) && (m <=? 12)) && ((1 <=? d) && (d <=? days_in y m)))%N.

Definition date8_b (s : str) : bool :=
  (length s =? 8) && all_digits s &&
  date_ok_b (dec_val (slice s 0 4)) (dec_val (slice s 4 6)) (dec_val (slice s 6 8)).

Definition date6_b (s : str) : bool :=
  (length s =? 6) && all_digits s &&
  date_ok_b (window (dec_val (slice s 0 2))) (dec_val (slice s 2 4)) (dec_val (slice s 4 6)).

Definition TM_b (s : str) : bool :=
  all_digits s &&
  ((length s =? 4) || (length s =? 6) || (length s =? 7) || (length s =? 8)) &&
  (dec_val (slice s 0 2) <=? 23)%N && (dec_val (slice s 2 4) <=? 59)%N &&
  (if 6 <=? length s then (dec_val (slice s 4 6) <=? 59)%N else true).

Definition hhmm_b (s : str) : bool := (length s =? 4) && TM_b s.

Definition DT_b (s : str) : bool :=
  date6_b s || date8_b s || ((length s =? 12) && date8_b (slice s 0 8) && hhmm_b (slice s 8 12)).

Definition RD8_b (s : str) : bool :=
  match split1 "-"%char s with
  | Some (a, b) => date8_b a && date8_b b
  | None => false
  end.

Definition ID_b (charset icvn : str) (s : str) : bool :=
  forallb (fun a => mem_ascii a (charset_of charset icvn)) s.

Fixpoint dspan (s : str) : nat :=
  match s with x :: s' => if is_digit x then S (dspan s') else 0 | [] => 0 end.

Definition frac_ok (u : str) : bool :=
  match u with
  | c :: f => Ascii.eqb c "."%char && negb (length f =? 0) && all_digits f
  | [] => false
  end.

Definition LR_body (t : str) : bool :=
  let n := dspan t in
  if n =? 0 then frac_ok t
  else match skipn n t with [] => true | rest => frac_ok rest end.

Definition LR_dec (s : str) : bool :=
  match s with
  | x :: t => if Ascii.eqb x "-"%char then LR_body t else LR_body s
  | [] => false
  end.

Definition in_language_b (ty charset icvn : str) (s : str) : bool :=
  match ty with
  | [] => true
  | c0 :: _ =>
    if Ascii.eqb c0 "N"%char then LN_dec s
    else if str_eqb ty (cs "R") then LR_dec s
    else if str_eqb ty (cs "ID") || str_eqb ty (cs "AN") then ID_b charset icvn s
    else if str_eqb ty (cs "RD8") then RD8_b s
    else if str_eqb ty (cs "DT") then DT_b s
    else if str_eqb ty (cs "D8") then date8_b s
    else if str_eqb ty (cs "D6") then date6_b s
    else if str_eqb ty (cs "TM") then TM_b s
    else if str_eqb ty (cs "B") then true
    else false
  end.
