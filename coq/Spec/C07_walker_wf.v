(* C07_walker_wf.v — the static facts about a loaded map under which the map
   walker (Model/Walker.v) cannot raise: a computable predicate `walker_wf`.

   Every conjunct is tied to one raise site of the walker:

     depth_ok 40                 loop nesting below the fuel (40) of _is_loop_match in the model, and
                                 completeness of `all_refs` (the per-reference check then covers every
                                 loop and segment of the map)
   for every segment node (reference r):
     usage_ok                    the assert of _check_seg_usage (map_walker.py:219)
     is_ok (node_x12path m r)    `child.x12path` in walk (156, 167): TypeError on a None path,
                                 X12PathError; also get_path in _seg_not_found_error
     seg_max_repeat              int(max_use) in _check_seg_usage (ValueError); only read when usage <> 'N'
     seg_match_safe              segment_if.is_match: children[0] (IndexError), children[1] for ENT,
                                 children[2] for HL, first sub-element of a leading composite, and the
                                 data element look-up of the element whose data type is read (EngineError)
   for every loop node, by what its first child is:
     no child                    nothing: _is_loop_match answers False, the loop is never entered
     a segment                   usage_ok (assert of _check_loop_usage, 371) and, unless usage = 'N',
                                 x12path (_is_loop_match 301, _check_loop_usage) and int(repeat)
     a loop                      _goto_seg_match then searches ALL the loops below depth first and calls
                                 get_first_seg().is_segment() on each: an EMPTY loop there is
                                 None.is_segment() (AttributeError).  Required: no empty loop below
                                 (deep_ne 39, which also bounds the recursion by the fuel), unless
                                 _is_loop_match can never answer True on this loop (can_hit), in which
                                 case _goto_seg_match is never called on it (277.5010.X212: TABLE2AREA3 =
                                 [FOOTER []; SE]).  Empty loops elsewhere (997: DETAIL, FOOTER under
                                 ST_LOOP, whose first child is the segment ST) are harmless.

   NOT needed (the walker tolerates them): ids that are None; segments directly under the map root
   (`cur == orig_loop` with orig_loop the map is only evaluated for cur a loop, and cur never leaves
   the root when the start segment is under the root: comp_test.xml passes). *)
From Coq Require Import String.
From PX.Lib Require Import Base PyStr PyInt Regex Xml.
From PX.Model Require Import Path Segment Syntax MapLoad MapTree Element Counter Walker.

Local Definition l (x : string) : str := list_ascii_of_string x.

(* ---- every reference of the map ---- *)
Fixpoint refs_under (fuel : nat) (r : nref) (n : node) : list nref :=
  r :: match fuel with
       | 0 => []
       | S f => flat_map (fun ic => refs_under f (r ++ [fst ic]) (snd ic)) (enumerate 0 (node_children n))
       end.

Definition all_refs (m : xmap) : list nref :=
  flat_map (fun ic => refs_under 40 [fst ic] (snd ic)) (enumerate 0 (root_nodes m)).

(* loop nesting below the fuel: `all_refs` misses nothing *)
Fixpoint depth_ok (fuel : nat) (n : node) : bool :=
  match fuel with
  | 0 => false
  | S f => forallb (depth_ok f) (node_children n)
  end.

(* ---- segment_if.is_match cannot raise, whatever the data segment ---- *)
Definition seg_match_safe (de : list dataele) (n : segm) : bool :=
  match s_children n with
  | [] => false
  | c0 :: _ =>
      (match c0 with
       | SubE e => is_ok (elem_type de e)
       | SubC c => match c_children c with [] => false | e0 :: _ => is_ok (elem_type de e0) end
       end)
      && (if ostr_eqb (s_id n) (Some (l "ENT"))
          then match nth_error (s_children n) 1 with
               | Some (SubE e) => is_ok (elem_type de e)
               | Some (SubC _) => true
               | None => false
               end
          else true)
      && (if ostr_eqb (s_id n) (Some (l "HL"))
          then match nth_error (s_children n) 2 with Some _ => true | None => false end
          else true)
  end.

(* ---- no empty loop below a loop that is searched depth first ---- *)
Fixpoint deep_ne (fuel : nat) (n : node) : bool :=
  match fuel with
  | 0 => false
  | S f =>
      match n with
      | NSeg _ => true
      | NLoop _ _ _ _ _ _ pm =>
          match pm_nodes pm with [] => false | cs => forallb (deep_ne f) cs end
      end
  end.

(* can _is_loop_match ever answer True on this loop?  (static over-approximation: not for an empty
   loop, nor for a loop that starts with a loop when none of its child loops can) *)
Fixpoint can_hit (fuel : nat) (n : node) : bool :=
  match fuel with
  | 0 => true
  | S f =>
      match n with
      | NSeg _ => false
      | NLoop _ _ _ _ _ _ pm =>
          match pm_nodes pm with
          | [] => false
          | NSeg _ :: _ => true
          | NLoop _ _ _ _ _ _ _ :: _ => existsb (fun c => node_is_loop c && can_hit f c) (pm_nodes pm)
          end
      end
  end.

(* ---- the check of one node ---- *)
Definition ref_ok (m : xmap) (r : nref) (n : node) : bool :=
  match n with
  | NSeg sn =>
      usage_ok (s_usage sn)
      && is_ok (node_x12path m r)
      && (usage_is (s_usage sn) "N" || is_ok (seg_max_repeat sn))
      && seg_match_safe (m_dataele m) sn
  | NLoop _ _ _ usage _ repeat pm =>
      match pm_nodes pm with
      | [] => true                                   (* never matched, never entered *)
      | NSeg _ :: _ =>                               (* entered through its first segment *)
          usage_ok usage
          && (usage_is usage "N" || (is_ok (node_x12path m r) && is_ok (loop_max_repeat repeat)))
      | NLoop _ _ _ _ _ _ _ :: _ =>                  (* entered through a child loop: depth-first search *)
          negb (can_hit 40 n) || forallb (deep_ne 39) (pm_nodes pm)
      end
  end.

Definition walker_wf (m : xmap) : bool :=
  forallb (depth_ok 40) (root_nodes m)
  && forallb (fun r => match node_at (root_nodes m) r with Some n => ref_ok m r n | None => false end)
             (all_refs m).

(* ---- optional: the shape needed for the exact `first child only` form of the entry lemma:
        a loop whose first child is a loop has no other child loop ---- *)
Definition first_single (n : node) : bool :=
  match node_children n with
  | NLoop _ _ _ _ _ _ _ :: rest => forallb (fun c => negb (node_is_loop c)) rest
  | _ => true
  end.

Definition walker_first_wf (m : xmap) : bool :=
  forallb (fun r => match node_at (root_nodes m) r with Some n => first_single n | None => false end)
          (all_refs m).

(* ---- on a map file ---- *)
Definition walker_wf_tree (rx : regex_table) (dataele_xml codes_xml root : xml) : bool :=
  match load_map rx dataele_xml codes_xml None (l "B") root with
  | Ok m => walker_wf m
  | Raise _ => false
  end.

Definition walker_first_wf_tree (rx : regex_table) (dataele_xml codes_xml root : xml) : bool :=
  match load_map rx dataele_xml codes_xml None (l "B") root with
  | Ok m => walker_first_wf m
  | Raise _ => false
  end.
