(* C02_doc_spec.v — document level of C02: what a CONFORMANT INSTANCE of a loop of
   an implementation-guide map is, what the counters of the walker should be after
   it, and what "the walker accepts it" means.  Definitions only.

   The description is that of a generator that walks the map in order: it is
   phrased with the map tree (Model/MapLoad.v, MapTree.v: child lists, positions,
   usage, repeat/max_use) and with segment_if.is_match (MapTree.seg_is_match), and
   does not mention the walker (Model/Walker.v) except in the last section, which
   says what is proved about it.

   Vocabulary.
     item            a data segment paired with the segment node it instantiates
     children_of L   the children of loop L (of the root for []) in iteration order
     unit            one instance of one child of a loop: one data segment for a
                     segment child, one loop instance for a loop child
     seg-first loop  a loop whose first child is a segment (ST_LOOP, HEADER, 2000A ...)
     wrapper         a loop whose first child is a loop (DETAIL = [2000A])

   A loop instance is a sequence of units whose child indices never decrease and
   whose positions (`pos`) never decrease; it starts with one unit of the first
   child.  The generator keeps two numbers while it emits the units of one loop
   instance: the index i of the child it instantiated last and how many units c of
   that child it has emitted so far.

   Side conditions (each with its reason in Proofs/C02_doc_examples.v):
     on the map   walker_wf (C07: the walker cannot raise) and keys_ok (below: two nodes never share a
                  counter key; false on the shipped 999.5010 maps, where a conformant 999 is rejected);
     on the document, inside the rules:
       rival_free          the data segment matches none of the segment nodes the search tries before the
                           intended one (sibling with an overlapping qualifier, head of a skipped loop,
                           first segment of the loop itself);
       pos_at i <= pos_at j   implied by i <= j on a loaded map (children are kept sorted by position);
       the wrapper clause of CB_seg   in a loop that starts with a loop, no REQUIRED loop follows a
                           segment child (the walker reports it missing when the segment is found).
   Not covered: units of children that share a position emitted out of index order; a wrapper entered
   through a loop that is not its first child; segments directly under the map root. *)
From Coq Require Import String.
From PX.Lib Require Import Base PyStr PyInt Regex Xml.
From PX.Model Require Import Path Segment Syntax MapLoad MapTree Element Counter Walker.
From PX.Spec Require Import C07_walker_wf.

Definition item := (nref * seg)%type.

(* ------------------------------------------------------------------ *)
(* node references                                                      *)

Definition nref_eqb (a b : nref) : bool := list_eqb Nat.eqb a b.

(* a is a proper prefix of b: b lies strictly below a *)
Fixpoint strict_prefix_b (a b : nref) : bool :=
  match a, b with
  | [], _ :: _ => true
  | x :: a', y :: b' => Nat.eqb x y && strict_prefix_b a' b'
  | _, [] => false
  end.

Section Spec.
Variable m : xmap.
Variable d : delims.

Definition children_of (r : nref) : list node :=
  match r with
  | [] => root_nodes m
  | _ => match node_at (root_nodes m) r with Some n => node_children n | None => [] end
  end.

(* the position of the node at r *)
Definition pos_at (r : nref) : Z :=
  match node_at (root_nodes m) r with Some n => node_pos n | None => 0%Z end.

Definition seg_first (n : node) : bool :=
  match node_children n with NSeg _ :: _ => true | _ => false end.
Definition wrapper (n : node) : bool :=
  match node_children n with NLoop _ _ _ _ _ _ _ :: _ => true | _ => false end.

(* ------------------------------------------------------------------ *)
(* matching                                                             *)

(* the data segment does NOT match the segment node at r (is_match answers False) *)
Definition nomatch_b (sg : seg) (r : nref) : bool :=
  match node_at (root_nodes m) r with
  | Some (NSeg sn) => match seg_is_match d (m_dataele m) sn sg with Ok false => true | _ => false end
  | _ => false
  end.

(* ------------------------------------------------------------------ *)
(* what may be left out                                                 *)

(* a child that a conformant instance may leave out: a segment or seg-first loop that is
   not required; a wrapper none of whose loops is required; a loop without children *)
Fixpoint skippable (fuel : nat) (n : node) : bool :=
  match fuel with
  | 0 => false
  | S f =>
      match n with
      | NSeg sn => negb (usage_is (s_usage sn) "R")
      | NLoop _ _ _ u _ _ pm =>
          match pm_nodes pm with
          | [] => true
          | NSeg _ :: _ => negb (usage_is u "R")
          | NLoop _ _ _ _ _ _ _ :: _ => forallb (fun c => negb (node_is_loop c) || skippable f c) (pm_nodes pm)
          end
      end
  end.

Definition used (u : option str) : bool := usage_is u "R" || usage_is u "S".

(* ------------------------------------------------------------------ *)
(* the nodes a data segment must not be mistaken for                    *)

(* the segment nodes through which the child (node n at reference r) of a loop can be
   recognised: a segment child by itself, a seg-first loop by its first segment, a wrapper
   by the heads of its child loops *)
Fixpoint heads (fuel : nat) (r : nref) (n : node) : list nref :=
  match fuel with
  | 0 => []
  | S f =>
      match n with
      | NSeg _ => [r]
      | NLoop _ _ _ _ _ _ pm =>
          match pm_nodes pm with
          | [] => []
          | NSeg _ :: _ => [r ++ [0]]
          | NLoop _ _ _ _ _ _ _ :: _ =>
              flat_map (fun ic => if node_is_loop (snd ic) then heads f (r ++ [fst ic]) (snd ic) else [])
                       (enumerate 0 (pm_nodes pm))
          end
      end
  end.

(* the children of loop `cur` that are looked at again after a node of position npos:
   those whose position is not smaller, in iteration order, with their indices *)
Definition cands (cur : nref) (npos : Z) : list (nat * node) :=
  filter (fun ic => (npos <=? node_pos (snd ic))%Z) (enumerate 0 (children_of cur)).

Definition heads_of (cur : nref) (cs : list (nat * node)) : list nref :=
  flat_map (fun ic => heads 40 (cur ++ [fst ic]) (snd ic)) cs.

(* The search for child j of loop L after the item at node p: the loop holding p, then its
   parent ... up to L; in every loop that is left, all the children at or after the position
   just left; in L those of index < j.  One exception (the repeat of a seg-first loop found
   from inside it): when the target is the loop `cur` itself (cur = L ++ [j], `lp`) and its
   first segment is among the children looked at again, the search ends there. *)
Fixpoint rivals_up (fuel : nat) (cur : nref) (npos : Z) (L : nref) (j : nat) (lp : bool) : list nref :=
  match fuel with
  | 0 => []
  | S f =>
      if nref_eqb cur L then heads_of cur (filter (fun ic => fst ic <? j) (cands cur npos))
      else if lp && nref_eqb cur (L ++ [j]) &&
              match cands cur npos with (0, NSeg _) :: _ => true | _ => false end then []
      else heads_of cur (cands cur npos) ++ rivals_up f (removelast cur) (pos_at cur) L j lp
  end.

(* ... and, for a segment child j, the heads of L itself: a later segment of a loop must not look like
   the segment that opens the loop *)
Definition rivals (p L : nref) (j : nat) : list nref :=
  match nth_error (children_of L) j with
  | Some (NSeg _) =>
      (match node_at (root_nodes m) L with Some n => heads 40 L n | None => [] end)
      ++ rivals_up (S (length p)) (removelast p) (pos_at p) L j false
  | Some (NLoop _ _ _ _ _ _ _) => rivals_up (S (length p)) (removelast p) (pos_at p) L j true
  | None => []
  end.

Definition rival_free (p L : nref) (j : nat) (sg : seg) : bool := forallb (nomatch_b sg) (rivals p L j).

(* ------------------------------------------------------------------ *)
(* conformant instances                                                 *)

Definition last_ref (U : list item) (dflt : nref) : nref := last (map fst U) dflt.

(* children i < k < j may be left out *)
Definition between_skippable (L : nref) (i j : nat) : Prop :=
  forall k n, i < k -> k < j -> nth_error (children_of L) k = Some n -> skippable 40 n = true.
Definition rest_skippable (L : nref) (i : nat) : Prop :=
  forall k n, i < k -> nth_error (children_of L) k = Some n -> skippable 40 n = true.

(* the count after one more unit of child j *)
Definition next_count (i j : nat) (c : Z) : Z := if Nat.eqb j i then (c + 1)%Z else 1%Z.

(* conf_inst C U          U is an instance of loop C
   conf_body L p i c B    B continues an instance of loop L after the item at node p, when the last unit
                          was the c-th unit of child i *)
Inductive conf_inst : nref -> list item -> Prop :=
| CI_seg C s0 rest sg body :
    C <> [] -> children_of C = NSeg s0 :: rest ->
    seg_is_match d (m_dataele m) s0 sg = Ok true ->
    conf_body C (C ++ [0]) 0 1 body ->
    conf_inst C ((C ++ [0], sg) :: body)
| CI_wrap W c0 rest U0 body :
    W <> [] -> children_of W = c0 :: rest -> node_is_loop c0 = true ->
    (* a seg-first first child is entered for the first time: it must be used and allow one instance *)
    (seg_first c0 = true ->
       match c0 with
       | NLoop _ _ _ u _ rep _ => used u = true /\ exists mx, loop_max_repeat rep = Ok mx /\ (1 <= mx)%Z
       | NSeg _ => False
       end) ->
    conf_inst (W ++ [0]) U0 ->
    conf_body W (last_ref U0 (W ++ [0])) 0 1 body ->
    conf_inst W (U0 ++ body)
with conf_body : nref -> nref -> nat -> Z -> list item -> Prop :=
| CB_end L p i c :
    rest_skippable L i ->
    conf_body L p i c []
| CB_seg L p i c j sn mx sg body :
    i <= j -> j <> 0 ->
    nth_error (children_of L) j = Some (NSeg sn) ->
    (pos_at (L ++ [i]) <= pos_at (L ++ [j]))%Z ->
    between_skippable L i j ->
    (* in a wrapper, no required loop may follow a segment child (the walker reports it missing too early) *)
    (forall nL, node_at (root_nodes m) L = Some nL -> wrapper nL = true ->
       forall k n, j < k -> nth_error (children_of L) k = Some n -> node_is_loop n = true -> skippable 40 n = true) ->
    used (s_usage sn) = true ->
    seg_max_repeat sn = Ok mx -> (next_count i j c <= mx)%Z ->
    seg_is_match d (m_dataele m) sn sg = Ok true ->
    rival_free p L j sg = true ->
    conf_body L (L ++ [j]) j (next_count i j c) body ->
    conf_body L p i c ((L ++ [j], sg) :: body)
| CB_loop L p i c j n t sg U' body :
    i <= j ->
    nth_error (children_of L) j = Some n -> node_is_loop n = true ->
    (pos_at (L ++ [i]) <= pos_at (L ++ [j]))%Z ->
    between_skippable L i j ->
    (* a seg-first loop is used and within its repeat limit; a wrapper is entered once *)
    (match n with
     | NLoop _ _ _ u _ rep _ =>
         if seg_first n
         then used u = true /\ exists mx, loop_max_repeat rep = Ok mx /\ (next_count i j c <= mx)%Z
         else i < j
     | NSeg _ => False
     end) ->
    conf_inst (L ++ [j]) ((t, sg) :: U') ->
    rival_free p L j sg = true ->
    conf_body L (last_ref ((t, sg) :: U') t) j (next_count i j c) body ->
    conf_body L p i c (((t, sg) :: U') ++ body).

(* ------------------------------------------------------------------ *)
(* the counters a conformant document leaves                            *)

(* the count the walker keeps for the node at r (its key is the node's x12path) *)
Definition cnt (c : counter) (r : nref) : Z :=
  match node_x12path m r with Ok xp => get_count c xp | Raise _ => 0%Z end.

(* an item at the first segment of a loop opens an instance of that loop *)
Definition is_head (t : nref) : bool := match rev t with 0 :: _ :: _ => true | _ => false end.

(* one item: a loop opening counts the loop and its first segment and forgets everything below the
   loop; any other item counts its segment *)
Definition upd (t : nref) (f : nref -> Z) : nref -> Z :=
  if is_head t then
    let C := removelast t in
    fun r => if nref_eqb r C then (f C + 1)%Z else if nref_eqb r t then 1%Z
             else if strict_prefix_b C r then 0%Z else f r
  else fun r => if nref_eqb r t then (f t + 1)%Z else f r.

Definition predicted (items : list item) (f : nref -> Z) : nref -> Z :=
  fold_left (fun g it => upd (fst it) g) items f.

(* ------------------------------------------------------------------ *)
(* what is proved about the walker                                      *)

(* from the node p of the previous item, the walker finds the item's node, reports nothing at all to
   the error handler (no error, no add_seg), whatever seg_count / cur_line / ls_id it is given ... *)
Definition step_ok (w : wstate) (p : nref) (it : item) (w' : wstate) : Prop :=
  forall sc cl ls, exists pop push,
    walk_st m w p d (snd it) sc cl ls = (w', [], Ok (Some (fst it), pop, push)).

(* ... and leaves the predicted counts on every node of the map *)
Definition counts_step (w : wstate) (it : item) (w' : wstate) : Prop :=
  forall r n, node_at (root_nodes m) r = Some n ->
    cnt (w_counter w') r = upd (fst it) (cnt (w_counter w)) r.

Inductive run : wstate -> nref -> list item -> wstate -> Prop :=
| run_nil w p : run w p [] w
| run_cons w p it w1 rest w' :
    step_ok w p it w1 -> counts_step w it w1 -> run w1 (fst it) rest w' -> run w p (it :: rest) w'.

(* the state in which an instance of the seg-first loop C has just been opened: C counted at least
   once, its first segment once, nothing else below C (this is what _goto_seg_match and
   forceWalkCounterToLoopStart leave) *)
Definition opened (w : wstate) (C : nref) : Prop :=
  (1 <= cnt (w_counter w) C)%Z /\ cnt (w_counter w) (C ++ [0]) = 1%Z /\
  forall r n, node_at (root_nodes m) r = Some n -> strict_prefix_b C r = true -> r <> C ++ [0] ->
              cnt (w_counter w) r = 0%Z.

End Spec.

(* ------------------------------------------------------------------ *)
(* the counter keys are faithful (computable, on the map)               *)

(* NodeCounter is keyed by x12path.  Two different nodes must not share a key, and
   reset_to_node(loop) (is_child_path on the printed keys) must forget exactly the nodes
   below the loop. *)
Definition keyed_refs (m : xmap) : list (nref * xpath) :=
  flat_map (fun r => match node_x12path m r with Ok xp => [(r, xp)] | Raise _ => [] end) (all_refs m).

Definition keys_ok (m : xmap) : bool :=
  let ks := keyed_refs m in
  forallb (fun a => forallb (fun b =>
     Bool.eqb (path_eqb (snd a) (snd b)) (nref_eqb (fst a) (fst b)) &&
     Bool.eqb (is_child_path (snd a) (format_path (snd b))) (strict_prefix_b (fst a) (fst b))) ks) ks.
