(* C05_spec999.v — the body of the 999 acknowledgement, computed from the error tree alone (the 999 analogue of
   C05_spec.v; same conventions, same defaults).  error_999.py differs from error_997.py in the segments it builds
   (AK1 / AK2 carry the implementation convention reference, IK3 / IK4 / IK5 replace AK3 / AK4 / AK5, IK4 has a
   composite position, AK9 carries at most five codes) and in the code tables; the tree walk is the same, and so is
   the write of "R" into a GS node that has no ack code. *)
From Coq Require Import String.
From PX.Lib Require Import Base PyStr PyInt.
From PX.Model Require Import Path Segment Errh Ack997 Ack999.
From PX.Spec Require Import C06_spec C05_spec.

Local Definition l (s : string) : str := list_ascii_of_string s.

(* AK1*<functional id>*<group control number>*<version>: all three must be there *)
Definition ak1_999 (g : gs_node) : seg := mkseg "AK1" [val (gn_fic g); val (gn_ctl g); val (gn_vriic g)].

(* AK2*<set id>*<control number, stripped>[*<implementation convention reference (ST03)>] *)
Definition ak2_999 (t : st_node) : seg :=
  mkseg "AK2" ([val (tn_id t); strip_ws (val (tn_ctl t))] ++ match tn_vriic t with Some v => [v] | None => [] end).

(* IK3*<segment id>*<position>[*<loop id>] — re-parsed, IK304 := code *)
Definition ik3_base (n : seg_node) : seg :=
  mkseg "IK3" ([val (sn_seg_id n); fmt_Zi (valZ (sn_seg_count n))] ++ if truthy_s (sn_ls_id n) then [val (sn_ls_id n)] else []).
Definition ik3_999 (n : seg_node) (cde : str) : seg :=
  the_seg (seg_set D (parse_seg D (format_seg D (ik3_base n))) (l "IK304") cde).
Definition ik3s_999 (h : errh) (n : seg_node) : list seg :=
  flat_map (fun cde => if mem_str cde valid_IK3_codes then [ik3_999 n cde] else []) (sorted_set (seg_error_codes n))
  ++ (if (0 <? seg_child_err_count h n) && negb (mem_str (l "8") (seg_error_codes n)) then [ik3_999 n (l "8")] else []).

(* IK4*<position>[:<component position>][*<data element number>] — the position is a composite; re-parsed,
   IK403 := code, IK404 := bad value *)
Definition ik4_base (e : ele_node) : seg :=
  {| sid := Some (l "IK4");
     els := (fmt_Zi (en_pos e) :: (if truthy_Z (en_subpos e) then [fmt_Zi (valZ (en_subpos e))] else []))
            :: (if truthy_s (en_ref_num e) then [split ":"%char (val (en_ref_num e))] else []) |}.
Definition ik4_999 (e : ele_node) (er : err3) : seg :=
  the_seg (do s <- seg_set D (parse_seg D (format_seg D (ik4_base e))) (l "IK403") (fst (fst er));
           if truthy_s (snd er) then seg_set D s (l "IK404") (val (snd er)) else Ok s).
Definition ik4s_999 (e : ele_node) : list seg :=
  flat_map (fun er : err3 => if mem_str (fst (fst er)) valid_IK4_codes then [ik4_999 e er] else []) (en_errors e).

(* IK5*<ack code of the set>*<up to five set-level codes> *)
Definition ik5_999 (h : errh) (t : st_node) : seg :=
  mkseg "IK5" (val (tn_ack t) :: firstn 5 (okl (get_st_errors9 h t))).

(* AK9*<ack code>*<declared>*<received>*<accepted>*<up to five group-level codes> *)
Definition ak9_999 (h : errh) (g : gs_node) : seg :=
  mkseg "AK9" ([val (gs_ack_written g); fmt_Zi (gn_orig g); fmt_Zi (gn_recv g); fmt_Zi (gs_accepted h g)]
               ++ firstn 5 (okl (get_gs_errors9 h g))).

Definition seg_body_999 (h : errh) (n : seg_node) : list seg :=
  ik3s_999 h n ++ flat_map ik4s_999 (nodes_at (h_ele h) (sn_elements n)).
Definition st_body_999 (h : errh) (t : st_node) : list seg :=
  ak2_999 t :: flat_map (seg_body_999 h) (nodes_at (h_seg h) (tn_children t)) ++ [ik5_999 h t].
Definition gs_body_999 (h : errh) (g : gs_node) : list seg :=
  ak1_999 g :: flat_map (st_body_999 h) (nodes_at (h_st h) (gn_children g)) ++ [ak9_999 h g].
Definition expected_sets_999 (h : errh) : list (list seg) := map (gs_body_999 h) (visited_gs h).

(* ST*999*<%04i k>*005010X231 ... SE*<len + 2>*<%04i k> *)
Definition st_999 (k : nat) : seg := {| sid := Some (l "ST"); els := [[l "999"]; [dec4 k]; split ":"%char vriic] |}.
Definition set_999 (k : nat) (body : list seg) : list seg := st_999 k :: body ++ [se_997 k (length body)].
Fixpoint number_sets_999 (k : nat) (bodies : list (list seg)) : list seg :=
  match bodies with
  | [] => []
  | b :: r => set_999 k b ++ number_sets_999 (S k) r
  end.

(* the AK1 / AK2 segments that must appear *)
Definition names_999 (h : errh) : list seg :=
  flat_map (fun g => ak1_999 g :: map ak2_999 (nodes_at (h_st h) (gn_children g))) (visited_gs h).
