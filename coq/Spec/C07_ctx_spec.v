(* C07_ctx_spec.v — totality of the context reader (Model/CtxReader.v: X12ContextReader.iter_segments)
   up to the documented refusals X12Error / EngineError.

   The statement over `env_ok` alone is FALSE (Proofs/C07_ctx_maps.v: ctx_detail_raises): with a
   loop id whose loop starts with a LOOP (DETAIL in the 837 maps), the first segment inside it is
   `in the requested tree` but not `at its start`, and _add_segment is called on the plain segment node
   built outside the tree, whose `parent` is the LIST of pushed map loops: AttributeError.

   What the context reader needs from a map beyond `map_ok`, as computable booleans:

   ctx_wf m  (independent of the loop id)
     - every loop has a non-empty id and an x12path;
     - for every segment node, the loop_list of its x12path is the list of the ids of the loops that
       enclose it (the reader decides `in the tree` / `at the start of the tree` on that list);
     - /ISA_LOOP/ISA resolves (if at all) to a segment whose id is ISA (assert at x12context.py:901).

   lid_good lid m  (the requested loop)
     every loop whose id is `lid` is empty or starts with a SEGMENT, and is not nested in a loop with
     the same id.

   jump_ok k lid m  (k = 0, 1, 2, 3: one of four alternatives, the same for every map of the environment)
     the reader also moves to a node WITHOUT the walker: /ISA_LOOP/ISA of the control map,
     /ISA_LOOP/GS_LOOP/GS of the current map, and /ISA_LOOP/GS_LOOP/ST_LOOP/HEADER/BHT of a map selected
     at BHT (278), the walker having found the BHT of the map used until then.  Such a target must not be
     `inside` the requested loop (in it, not at its start) while the node before it was outside, and the
     BHT of the old map and the BHT target of the new one must lie alike (the loops pushed by the walker
     in the OLD map are handed to _add_segment / to the asserts together with the NEW node):
       k = 0   every segment node of the map lies in the requested loop, and every BHT inside it
               (ISA_LOOP in the shipped maps);
       k = 1   the ISA and GS targets are not inside the requested loop; every BHT is outside it;
       k = 2   the ISA and GS targets are not inside it; every BHT is inside it (GS_LOOP, ST_LOOP);
       k = 3   the ISA and GS targets are not inside it; every BHT is at its start (HEADER). *)
From Coq Require Import String.
From PX.Lib Require Import Base PyStr PyInt Regex Xml.
From PX.Model Require Import Path Segment Raw Reader Syntax MapLoad MapTree Element Counter Walker MapEnv Driver Context CtxReader.
From PX.Spec Require Import C07_walker_wf C07_valid_wf C07_spec.

Local Definition l (x : string) : str := list_ascii_of_string x.

(* the ids of the loops that enclose r, outermost first *)
Definition anc_ids (m : xmap) (r : nref) : list (option str) :=
  map (fun k => loop_id_at m (firstn k r)) (seq 1 (length r - 1)).

(* ---- ctx_wf ---- *)
Definition ctx_ref_ok (m : xmap) (r : nref) (n : node) : bool :=
  match n with
  | NSeg _ =>
      match node_x12path m r with
      | Ok xp => list_eqb ostr_eqb (anc_ids m r) (map Some (loop_list xp))
      | Raise _ => false
      end
  | NLoop i _ _ _ _ _ _ =>
      match i with Some (_ :: _) => true | _ => false end && is_ok (node_x12path m r)
  end.

Definition ctx_wf (m : xmap) : bool :=
  forallb (fun r => match node_at (root_nodes m) r with Some n => ctx_ref_ok m r n | None => false end) (all_refs m)
  && path_ok m "/ISA_LOOP/ISA" (fun r => is_id (seg_id_at m r) "ISA").

(* ---- the requested loop ---- *)
Definition in_tree_ref (lid : option str) (m : xmap) (r : nref) : bool :=
  match lid with None => false | Some x => existsb (ostr_eqb (Some x)) (anc_ids m r) end.

Definition at_start_ref (lid : option str) (m : xmap) (r : nref) : bool :=
  match lid with
  | None => false
  | Some x => ostr_eqb (last (anc_ids m r) None) (Some x) && (last r 1 =? 0)
  end.

Definition inside_ref (lid : option str) (m : xmap) (r : nref) : bool :=
  in_tree_ref lid m r && negb (at_start_ref lid m r).

Definition lid_good (lid : option str) (m : xmap) : bool :=
  match lid with
  | None => true
  | Some x =>
      forallb (fun r => match node_at (root_nodes m) r with
                        | Some (NLoop i _ _ _ _ _ pm) =>
                            negb (ostr_eqb i (Some x))
                            || (match pm_nodes pm with [] => true | NSeg _ :: _ => true | NLoop _ _ _ _ _ _ _ :: _ => false end
                                && negb (existsb (ostr_eqb (Some x)) (anc_ids m r)))
                        | _ => true
                        end) (all_refs m)
  end.

(* ---- the moves without the walker ---- *)
Definition tgt_not_inside (lid : option str) (m : xmap) (p : string) : bool :=
  match getnode m p with Ok r => negb (inside_ref lid m r) | Raise _ => true end.

(* where the BHT segments lie with respect to the requested loop: 0 outside, 1 at its start, 2 inside *)
Definition prof_is (pr : nat) (lid : option str) (m : xmap) (r : nref) : bool :=
  match pr with
  | 0 => negb (in_tree_ref lid m r)
  | 1 => in_tree_ref lid m r && at_start_ref lid m r
  | _ => inside_ref lid m r
  end.

(* every segment BHT of the map, and the target of /ISA_LOOP/GS_LOOP/ST_LOOP/HEADER/BHT, has the profile pr *)
Definition bht_all (pr : nat) (lid : option str) (m : xmap) : bool :=
  forallb (fun r => match node_at (root_nodes m) r with
                    | Some (NSeg sn) => negb (is_id (s_id sn) "BHT") || prof_is pr lid m r
                    | _ => true
                    end) (all_refs m)
  && match getnode m "/ISA_LOOP/GS_LOOP/ST_LOOP/HEADER/BHT" with Ok r => prof_is pr lid m r | Raise _ => true end.

Definition all_in_tree (lid : option str) (m : xmap) : bool :=
  forallb (fun r => match node_at (root_nodes m) r with
                    | Some (NSeg _) => in_tree_ref lid m r
                    | _ => true
                    end) (all_refs m).

Definition jump_ok (k : nat) (lid : option str) (m : xmap) : bool :=
  match k with
  | 0 => all_in_tree lid m && bht_all 2 lid m
  | 1 => tgt_not_inside lid m "/ISA_LOOP/ISA" && tgt_not_inside lid m "/ISA_LOOP/GS_LOOP/GS" && bht_all 0 lid m
  | 2 => tgt_not_inside lid m "/ISA_LOOP/ISA" && tgt_not_inside lid m "/ISA_LOOP/GS_LOOP/GS" && bht_all 2 lid m
  | _ => tgt_not_inside lid m "/ISA_LOOP/ISA" && tgt_not_inside lid m "/ISA_LOOP/GS_LOOP/GS" && bht_all 1 lid m
  end.

(* what the context reader needs beyond map_ok *)
Definition ctx_ok (k : nat) (lid : option str) (m : xmap) : bool :=
  unusable m || (ctx_wf m && lid_good lid m && jump_ok k lid m).

Definition cmap_ok (k : nat) (lid : option str) (m : xmap) : bool :=
  unusable m || (full_ok m && ctx_wf m && lid_good lid m && jump_ok k lid m).

(* the environment of a run of the context reader *)
Definition cenv_ok (lid : option str) (load : str -> result xmap) (idx : result (list map_entry)) : Prop :=
  exists k,
    (forall name m, load name = Ok m -> cmap_ok k lid m = true) /\
    (forall name e, load name = Raise e -> allowed e = true) /\
    (forall e, idx = Raise e -> allowed e = true).

(* ---- the statements ---- *)
Definition ctx_reader_total_stmt : Prop :=
  forall load idx loop_id text,
    cenv_ok loop_id load idx -> plain_delims text = true ->
    match ir_res (iter_segments_gen load idx loop_id text) with Ok _ => True | Raise e => allowed e = true end.

(* the statement as first asked for: FALSE (Proofs/C07_ctx_maps.v) *)
Definition ctx_reader_total_env_ok_stmt : Prop :=
  forall load idx loop_id text,
    env_ok load idx -> plain_delims text = true ->
    match ir_res (iter_segments_gen load idx loop_id text) with Ok _ => True | Raise e => allowed e = true end.
