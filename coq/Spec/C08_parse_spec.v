(* C08_parse_spec.v — a small, total, executable XML reader for the subset of XML 1.0 that pyx12's XMLWriter
   emits, the tree of an event sequence ("the corresponding tree"), and the vocabulary of the document-level
   round trip X12 -> XML text -> element tree -> X12.

   THE READER  xml_read : str -> option xml  works on code points (0..255, as everywhere in the model; the
   byte encoding of the file is outside the model) and follows XML 1.0 / expat / xml.etree.ElementTree on:
     - end-of-line normalisation (2.11): CR LF and a lone CR become LF before anything else (norm_eol);
     - the character range (2.2): a code point below 32 other than TAB / LF (/ CR) makes the document
       not well-formed (None) — expat: "not well-formed (invalid token)";
     - prolog: an optional XML declaration `<?xml ...?>` at the very start, white space, an optional
       `<!DOCTYPE ...>` without internal subset, white space;
     - start tags `<name a='v' b="w">`, empty-element tags `<name a='v'/>`, end tags `</name>`; names are ASCII
       names (a letter, _ or : followed by letters, digits, _ : . -); a duplicated attribute name is an error;
     - attribute-value normalisation (3.3.3): a literal TAB / LF (/ CR) in an attribute value becomes a SPACE;
       a raw `<` in an attribute value is an error;
     - the five predefined entities &amp; &lt; &gt; &apos; &quot; in character data and attribute values
       (xml_decode); any other `&` is an error (character references &#..; are OUTSIDE the subset: None);
     - `]]>` in character data is an error (2.4);
     - exactly one root element; only white space may follow it.
   Outside the subset, hence None: comments, processing instructions and CDATA sections in the body, an internal
   DTD subset, character references, non-ASCII names, white space around `=`.

   WHITE SPACE / .text / .tail (the decision asked for).  The result is the tree AS ElementTree PRESENTS IT through
   the type Lib/Xml.xml, which has `text` but no `tail`:
     - text of an element = the character data between its start tag and its first child element (or its end
       tag when it has no child), entity-decoded, None when there is none (ElementTree: .text is None).  White
       space is NOT trimmed: a leaf <ele id='ISA02'>          </ele> keeps its ten blanks, and a container
       element written by XMLWriter.push gets the line feed + indentation that follows its start tag as text
       (exactly what ElementTree gives);
     - character data AFTER a child element (ElementTree: the child's .tail) is dropped: the type has no
       place for it and xmlx12_simple never reads .tail.
   Model/XmlIn.v (get_segment / convert) reads .text only of `ele` and `subele` elements; drop_ctext below erases
   the text of every other element, and Proofs/C08_doc.v shows that the conversion cannot tell the difference. *)
From Coq Require Import String.
From PX.Lib Require Import Base PyStr Xml.
From PX.Model Require Import Path Segment MapLoad MapTree OutW XmlOut XmlIn.
From PX.Spec Require Import C08_spec.

Local Definition l (s : string) : str := list_ascii_of_string s.

(* ================================================================== *)
(* 1. characters                                                       *)

Definition cLT : ascii := "<"%char.
Definition cGT : ascii := ">"%char.
Definition cAMP : ascii := "&"%char.
Definition cSL : ascii := "/"%char.
Definition cEQ : ascii := "="%char.
Definition cSQ : ascii := "'"%char.
Definition cDQ : ascii := """"%char.
Definition cSP : ascii := " "%char.
Definition cLF : ascii := ascii_of_nat 10.

(* S ::= (#x20 | #x9 | #xD | #xA)+ *)
Definition is_xws (c : ascii) : bool :=
  let n := nat_of_ascii c in (n =? 32) || (n =? 9) || (n =? 10) || (n =? 13).

(* Char ::= #x9 | #xA | #xD | [#x20-...]   (on 0..255) *)
Definition xml_char_ok (c : ascii) : bool :=
  let n := nat_of_ascii c in (n =? 9) || (n =? 10) || (n =? 13) || (32 <=? n).

Definition is_name_start (c : ascii) : bool :=
  let n := nat_of_ascii c in
  ((65 <=? n) && (n <=? 90)) || ((97 <=? n) && (n <=? 122)) || (n =? 95) || (n =? 58).
Definition is_name_char (c : ascii) : bool :=
  let n := nat_of_ascii c in is_name_start c || ((48 <=? n) && (n <=? 57)) || (n =? 45) || (n =? 46).
Definition name_ok (n : str) : bool :=
  match n with c :: _ => is_name_start c && forallb is_name_char n | [] => false end.

(* 2.11 end-of-line handling *)
Fixpoint norm_eol (s : str) : str :=
  match s with
  | [] => []
  | c :: r =>
      if nat_of_ascii c =? 13 then
        match r with
        | c2 :: r2 => if nat_of_ascii c2 =? 10 then cLF :: norm_eol r2 else cLF :: norm_eol r
        | [] => [cLF]
        end
      else c :: norm_eol r
  end.

(* 3.3.3 attribute-value normalisation of literal white space *)
Definition attr_norm (v : str) : str :=
  map (fun c => let n := nat_of_ascii c in if (n =? 9) || (n =? 10) || (n =? 13) then cSP else c) v.

(* the five predefined entities; STRICT: any other `&` is an error *)
Fixpoint xml_decode (s : str) : option str :=
  match s with
  | "&"%char :: "a"%char :: "m"%char :: "p"%char :: ";"%char :: r => option_map (cons "&"%char) (xml_decode r)
  | "&"%char :: "l"%char :: "t"%char :: ";"%char :: r => option_map (cons "<"%char) (xml_decode r)
  | "&"%char :: "g"%char :: "t"%char :: ";"%char :: r => option_map (cons ">"%char) (xml_decode r)
  | "&"%char :: "a"%char :: "p"%char :: "o"%char :: "s"%char :: ";"%char :: r => option_map (cons "'"%char) (xml_decode r)
  | "&"%char :: "q"%char :: "u"%char :: "o"%char :: "t"%char :: ";"%char :: r => option_map (cons """"%char) (xml_decode r)
  | "&"%char :: _ => None
  | c :: r => option_map (cons c) (xml_decode r)
  | [] => Some []
  end.

(* `]]>` occurs in s *)
Fixpoint has_cdata_end (s : str) : bool :=
  match s with
  | [] => false
  | c :: r => starts_with (l "]]>") s || has_cdata_end r
  end.

(* ================================================================== *)
(* 2. small scanners                                                   *)

(* the longest prefix whose characters satisfy p, and the rest *)
Fixpoint span (p : ascii -> bool) (s : str) : str * str :=
  match s with
  | c :: r => if p c then let (a, b) := span p r in (c :: a, b) else ([], s)
  | [] => ([], [])
  end.

Fixpoint drop_ws (s : str) : str :=
  match s with
  | c :: r => if is_xws c then drop_ws r else s
  | [] => []
  end.

Definition starts_ws (s : str) : bool := match s with c :: _ => is_xws c | [] => false end.

(* what follows the first occurrence of pat *)
Fixpoint find_after (pat : str) (s : str) : option str :=
  match s with
  | [] => None
  | c :: r => if starts_with pat s then Some (skipn (length pat) s) else find_after pat r
  end.

(* ================================================================== *)
(* 3. tokens                                                           *)

Inductive tok :=
| TOpen (name : str) (attrs : list (str * str))
| TEmpty (name : str) (attrs : list (str * str))
| TClose (name : str)
| TText (t : str).                    (* decoded character data, never empty *)

Definition is_quote (c : ascii) : bool := Ascii.eqb c cSQ || Ascii.eqb c cDQ.

(* the rest of a start tag after the element name: attributes, then `>` or `/>`;
   result: attributes, is-empty-element-tag, remaining input *)
Fixpoint lex_attrs (fuel : nat) (s : str) (acc : list (str * str)) : option (list (str * str) * bool * str) :=
  match fuel with
  | 0 => None
  | S f =>
      let s1 := drop_ws s in
      match s1 with
      | [] => None
      | c :: r =>
          if Ascii.eqb c cGT then Some (rev acc, false, r)
          else if Ascii.eqb c cSL then
            match r with
            | c2 :: r2 => if Ascii.eqb c2 cGT then Some (rev acc, true, r2) else None
            | [] => None
            end
          else if starts_ws s then               (* white space is required before an attribute *)
            let (n, s2) := span is_name_char s1 in
            if name_ok n && negb (existsb (fun p => str_eqb (fst p) n) acc) then
              match s2 with
              | e :: q :: s3 =>
                  if Ascii.eqb e cEQ && is_quote q then
                    match split1 q s3 with
                    | Some (v, s4) =>
                        if mem_ascii cLT v then None
                        else match xml_decode (attr_norm v) with
                             | Some v' => lex_attrs f s4 ((n, v') :: acc)
                             | None => None
                             end
                    | None => None
                    end
                  else None
              | _ => None
              end
            else None
          else None
      end
  end.

(* the body of the document as tokens; one unit of fuel per token *)
Fixpoint lex (fuel : nat) (s : str) : option (list tok) :=
  match fuel with
  | 0 => match s with [] => Some [] | _ => None end
  | S f =>
      match s with
      | [] => Some []
      | c :: r =>
          if Ascii.eqb c cLT then
            match r with
            | [] => None
            | c2 :: r' =>
                if Ascii.eqb c2 cSL then
                  (* end tag: </name S? > *)
                  let (n, r1) := span is_name_char r' in
                  match drop_ws r1 with
                  | c3 :: r3 => if Ascii.eqb c3 cGT && name_ok n then option_map (cons (TClose n)) (lex f r3) else None
                  | [] => None
                  end
                else
                  (* start tag or empty-element tag; `<?`, `<!`: name_ok [] fails *)
                  let (n, r1) := span is_name_char r in
                  if name_ok n then
                    match lex_attrs (S (length r1)) r1 [] with
                    | Some (attrs, emp, r2) =>
                        option_map (cons (if emp then TEmpty n attrs else TOpen n attrs)) (lex f r2)
                    | None => None
                    end
                  else None
            end
          else
            (* character data up to the next `<` *)
            let (t, r1) := span (fun x => negb (Ascii.eqb x cLT)) s in
            if has_cdata_end t then None
            else match xml_decode t with
                 | Some t' => option_map (cons (TText t')) (lex f r1)
                 | None => None
                 end
      end
  end.

(* ================================================================== *)
(* 4. the tree builder (what ElementTree's TreeBuilder does, without tails) *)

(* an open element: name, attributes, text before the first child, children so far (last first) *)
Record frame := { f_name : str; f_attrs : list (str * str); f_text : option str; f_kids : list xml }.

Definition close_frame (f : frame) : xml := X (f_name f) (f_attrs f) (f_text f) (rev (f_kids f)).
Definition add_kid (f : frame) (e : xml) : frame :=
  {| f_name := f_name f; f_attrs := f_attrs f; f_text := f_text f; f_kids := e :: f_kids f |}.
(* character data: text of the element while it has no child yet; otherwise some child's tail: dropped *)
Definition add_text (f : frame) (t : str) : frame :=
  match f_kids f with
  | [] => {| f_name := f_name f; f_attrs := f_attrs f;
             f_text := Some (match f_text f with Some t0 => t0 ++ t | None => t end); f_kids := [] |}
  | _ => f
  end.

Fixpoint build (st : list frame) (root : option xml) (ts : list tok) : option xml :=
  match ts with
  | [] => match st with [] => root | _ => None end
  | TText t :: r =>
      match st with
      | [] => if forallb is_xws t then build [] root r else None          (* only white space outside the root *)
      | f :: st' => build (add_text f t :: st') root r
      end
  | TOpen n a :: r =>
      match st, root with
      | [], Some _ => None                                                  (* a second root element *)
      | _, _ => build ({| f_name := n; f_attrs := a; f_text := None; f_kids := [] |} :: st) root r
      end
  | TEmpty n a :: r =>
      match st with
      | [] => match root with Some _ => None | None => build [] (Some (X n a None [])) r end
      | f :: st' => build (add_kid f (X n a None []) :: st') root r
      end
  | TClose n :: r =>
      match st with
      | [] => None
      | f :: st' =>
          if str_eqb (f_name f) n then
            match st' with
            | [] => match root with Some _ => None | None => build [] (Some (close_frame f)) r end
            | p :: st'' => build (add_kid p (close_frame f) :: st'') root r
            end
          else None
      end
  end.

(* ================================================================== *)
(* 5. prolog and the reader                                            *)

(* `<?xml` S ... `?>` at the very start (the pseudo-attributes are not examined) *)
Definition skip_decl (s : str) : option str :=
  if starts_with (l "<?xml") s && starts_ws (skipn 5 s) then find_after (l "?>") (skipn 5 s) else Some s.

(* white space, then optionally `<!DOCTYPE ... >` without internal subset (no `[`), quotes paired *)
Definition skip_doctype (s : str) : option str :=
  let s1 := drop_ws s in
  if starts_with (l "<!DOCTYPE") s1 then
    match split1 cGT (skipn 9 s1) with
    | Some (d, r) =>
        if mem_ascii "["%char d || mem_ascii cLT d || Nat.odd (count_char cSQ d) || Nat.odd (count_char cDQ d) then None
        else Some r
    | None => None
    end
  else Some s1.

Definition xml_read (s : str) : option xml :=
  let s0 := norm_eol s in
  if forallb xml_char_ok s0 then
    match skip_decl s0 with
    | None => None
    | Some s1 =>
        match skip_doctype s1 with
        | None => None
        | Some s2 =>
            match lex (S (length s2)) s2 with
            | None => None
            | Some ts => build [] None ts
            end
        end
    end
  else None.

(* ================================================================== *)
(* 6. the tree of an event sequence                                    *)

Definition ev_attrs (ido : option (option str)) : list (str * str) :=
  match ido with None => [] | Some v => id_attrs v end.

(* an open element while the events are folded: name, attributes, children so far (last first) *)
Definition tframe : Type := str * list (str * str) * list xml.

(* the element of a closed XOpen ... XClose pair at nesting depth `depth` (number of open ancestors): its text is
   what XMLWriter.push leaves between the start tag and the first child / the end tag: a line feed and the
   indentation of the next line — one level deeper when a child follows, its own level before its own end tag *)
Definition close_tframe (depth : nat) (f : tframe) : xml :=
  match f with
  | (n, a, kids) =>
      X n a (Some (NLc ++ indent (match kids with [] => depth | _ => S depth end))) (rev kids)
  end.

Fixpoint tree_of_aux (st : list tframe) (evs : list xev) : option xml :=
  match evs with
  | [] => None
  | XOpen n ido :: r => tree_of_aux ((n, ev_attrs ido, []) :: st) r
  | XLeaf n id t :: r =>
      match st with
      | [] => None
      | (pn, pa, pk) :: st' => tree_of_aux ((pn, pa, leaf_tree n id t :: pk) :: st') r
      end
  | XClose n :: r =>
      match st with
      | [] => None
      | (pn, pa, pk) :: st' =>
          if str_eqb pn n then
            let e := close_tframe (length st') (pn, pa, pk) in
            match st' with
            | [] => match r with [] => Some e | _ => None end
            | (qn, qa, qk) :: st'' => tree_of_aux ((qn, qa, e :: qk) :: st'') r
            end
          else None
      end
  end.

(* "the corresponding tree" of a serialised event sequence: defined when the events are balanced and form
   exactly one element (tree_of_defined in Proofs/C08_parse.v) *)
Definition tree_of (evs : list xev) : option xml := tree_of_aux [] evs.

(* exactly one root element: the first event opens it and it is closed by the last one *)
Fixpoint one_root_aux (d : nat) (evs : list xev) : bool :=
  match evs with
  | [] => false
  | XOpen _ _ :: r => one_root_aux (S d) r
  | XLeaf _ _ _ :: r => one_root_aux d r
  | XClose _ :: r => match d with
                     | 0 => false
                     | 1 => match r with [] => true | _ => false end
                     | S d' => one_root_aux d' r
                     end
  end.
Definition one_root (evs : list xev) : bool :=
  match evs with XOpen _ _ :: r => one_root_aux 1 r | _ => false end.

(* ---- what the serialiser needs of names, attribute values and text so that XML can carry them ---- *)
(* an attribute value: no code point below 32 (TAB and LF would come back as SPACE, the others are not XML) *)
Definition attr_val_ok (v : str) : bool := forallb (fun c => 32 <=? nat_of_ascii c) v.
(* character data: TAB, LF or a code point >= 32 (CR would come back as LF, the others are not XML) *)
Definition text_char_ok (c : ascii) : bool := let n := nat_of_ascii c in (n =? 9) || (n =? 10) || (32 <=? n).
Definition text_ok (t : str) : bool := forallb text_char_ok t.

Definition ev_ok (e : xev) : bool :=
  match e with
  | XOpen n ido => name_ok n && match ido with Some v => attr_val_ok (unopt v) | None => true end
  | XClose n => name_ok n
  | XLeaf n id t => name_ok n && attr_val_ok (unopt id) && text_ok t
  end.
Definition evs_ok (evs : list xev) : bool := forallb ev_ok evs.

(* ================================================================== *)
(* 7. what xmlx12_simple can see of a tree                             *)

(* the text of every element other than `ele` / `subele` erased *)
Fixpoint drop_ctext (e : xml) : xml :=
  match e with
  | X tag attrs text kids =>
      X tag attrs (if str_eqb tag (l "ele") || str_eqb tag (l "subele") then text else None) (map drop_ctext kids)
  end.

(* ================================================================== *)
(* 8. the document round trip                                          *)

(* the located segments of a document can be carried by XML: ids and loop ids as attribute values, element
   values as character data *)
Definition seg_xml_ok (x : located) : bool :=
  attr_val_ok (unopt (gi_id (lc_gi x))) &&
  forallb attr_val_ok (lc_path x) &&
  forallb (fun c => attr_val_ok (unopt (ci_id c)) && forallb (fun o => attr_val_ok (unopt o)) (ci_subids c))
          (gi_children (lc_gi x)) &&
  forallb (fun comp => forallb text_ok comp) (els (lc_seg x)) &&
  text_char_ok (subele_term (lc_d x)).
Definition doc_xml_ok (xs : list located) : bool := forallb seg_xml_ok xs.

(* Model/XmlIn.v walks the tree with a bounded recursion (70 levels): x12simple, the loops, seg, comp, subele *)
Definition doc_shallow (xs : list located) : bool := forallb (fun x => length (lc_path x) <=? 60) xs.

(* what convert does with the k-th `seg` element: read the segment, hand it to X12Writer.Write *)
Definition write_back (node : xml) : W Writer.wstate unit :=
  dow sg <- w_lift (get_segment node); do_write sg.
