(* C02_whole_reader.v — what a SILENT turn of X12Reader._parse_segment (no error at all) says about the
   reader's loop stack, for each kind of segment; the 837 flag is never touched by the reader. *)
From Coq Require Import String Lia.
From PX.Lib Require Import Base PyStr PyInt.
From PX.Model Require Import Path Segment Raw Reader.
From PX.Spec Require Import C04_spec.
From PX.Proofs Require Import C04_reader.

Local Definition l (x : string) : str := list_ascii_of_string x.

Definition has_kind (x : xstate) (k : string) : bool := existsb (fun lp => str_eqb (fst lp) (l k)) (loops x).

(* ---- the flag ---- *)
Lemma base_step_lx d x s x1 e : base_step d x s = Ok (x1, e) -> check_837_lx x1 = check_837_lx x.
Proof.
  unfold base_step. cbv zeta.
  repeat match goal with
         | |- context [if ?b then _ else _] => destruct b
         end; intros H; inversion H; reflexivity.
Qed.

Lemma reader_step_lx d x s x' es : reader_step d x s = Ok (x', es) -> check_837_lx x' = check_837_lx x.
Proof.
  unfold reader_step. destruct (base_step d x s) as [[x1 e]|ex] eqn:B; [|discriminate]. cbn [bind].
  apply base_step_lx in B. cbv zeta.
  destruct (sid_is s "IEA").
  { destruct (loops x1) as [|[k i] r]; [intros H; inversion H; subst; exact B|].
    destruct (str_eqb k _); [intros H; inversion H; subst; exact B|].
    destruct r as [|[k2 i2] r2]; intros H; inversion H; subst; exact B. }
  destruct (sid_is s "GE").
  { destruct (loops x1) as [|[k i] r]; [intros H; inversion H; subst; exact B|].
    destruct (str_eqb k _); [intros H; inversion H; subst; exact B|].
    destruct r as [|[k2 i2] r2]; intros H; inversion H; subst; exact B. }
  destruct (sid_is s "SE").
  { destruct (loops x1) as [|[k i] r]; intros H; inversion H; subst; exact B. }
  intros H; inversion H; subst. exact B.
Qed.

(* ---- silent turns ---- *)
Lemma app_nil_l2 {A} (a b : list A) : a ++ b = [] -> a = [] /\ b = [].
Proof. destruct a; cbn [app]; [intros ->; auto | discriminate]. Qed.

Lemma sid_is_id s k : sid_is s k = true -> has_id s k = true.
Proof. rewrite sid_is_has_id. auto. Qed.

Lemma silent_ST d x s x' : sid_is s "ST" = true -> reader_step d x s = Ok (x', []) ->
  top_kind_is (loops x) "GS" = true /\ exists i, loops x' = (l "ST", i) :: loops x.
Proof.
  intros H R. destruct (reader_ST d x s (sid_is_id _ _ H)) as (x1 & e & R1 & _ & F).
  rewrite R in R1. injection R1 as <- E. symmetry in E. apply app_nil_l2 in E as [E1 _].
  split; [destruct (top_kind_is (loops x) "GS"); [reflexivity | discriminate]|].
  destruct F as (F & _). eexists. exact F.
Qed.

Lemma silent_GS d x s x' : sid_is s "GS" = true -> reader_step d x s = Ok (x', []) ->
  top_kind_is (loops x) "ISA" = true /\ exists i, loops x' = (l "GS", i) :: loops x.
Proof.
  intros H R. destruct (reader_GS d x s (sid_is_id _ _ H)) as (x1 & e & R1 & _ & F).
  rewrite R in R1. injection R1 as <- E. symmetry in E. apply app_nil_l2 in E as [E1 _].
  split; [destruct (top_kind_is (loops x) "ISA"); [reflexivity | discriminate]|].
  destruct F as (F & _). eexists. exact F.
Qed.

Lemma silent_SE d x s x' : sid_is s "SE" = true -> reader_step d x s = Ok (x', []) ->
  exists i rest, loops x = (l "ST", i) :: rest /\ loops x' = rest.
Proof.
  intros H R. destruct (reader_SE d x s (sid_is_id _ _ H)) as (x1 & e0 & _ & F & R1).
  rewrite R in R1. destruct (loops x) as [|[k i] rest] eqn:L.
  - injection R1 as _ E. symmetry in E. apply app_nil_l2 in E as [_ E]. discriminate.
  - injection R1 as -> E. symmetry in E. apply app_nil_l2 in E as [_ E]. apply app_nil_l2 in E as [E _].
    destruct (str_eqb k _) eqn:K; [|discriminate]. apply str_eqb_eq in K. subst k.
    exists i, rest. split; reflexivity.
Qed.

Lemma silent_GE d x s x' : sid_is s "GE" = true -> reader_step d x s = Ok (x', []) ->
  exists i rest, loops x = (l "GS", i) :: rest /\ loops x' = rest.
Proof.
  intros H R. destruct (reader_GE d x s (sid_is_id _ _ H)) as (x1 & e0 & _ & F & R1).
  rewrite R in R1. destruct (loops x) as [|[k i] rest] eqn:L.
  - injection R1 as _ E. symmetry in E. apply app_nil_l2 in E as [_ E]. discriminate.
  - destruct (str_eqb k (cs "GS")) eqn:K.
    + apply str_eqb_eq in K. subst k. injection R1 as -> _. exists i, rest. split; reflexivity.
    + destruct rest as [|[k2 i2] r2].
      * injection R1 as _ E. symmetry in E. apply app_nil_l2 in E as [_ E]. discriminate.
      * injection R1 as _ E. symmetry in E. apply app_nil_l2 in E as [_ E]. discriminate.
Qed.

(* any segment that is not a header leaves a suffix of the stack *)
Lemma has_kind_tail x x' k a : loops x = a :: loops x' -> has_kind x' k = true -> has_kind x k = true.
Proof. unfold has_kind. intros -> H. cbn [existsb]. rewrite H. apply orb_true_r. Qed.

Lemma has_kind_eq x x' k : loops x' = loops x -> has_kind x' k = has_kind x k.
Proof. unfold has_kind. intros ->. reflexivity. Qed.

Lemma has_kind_incl x x' : (forall a, In a (loops x') -> In a (loops x)) -> forall k, has_kind x' k = true -> has_kind x k = true.
Proof.
  intros I k H. unfold has_kind in *. apply existsb_exists in H as [a [Ha Hk]]. apply existsb_exists. exists a. auto.
Qed.

Lemma envelope_cases s : is_envelope s = true ->
  sid_is s "ISA" = true \/ sid_is s "IEA" = true \/ sid_is s "GS" = true \/
  sid_is s "GE" = true \/ sid_is s "ST" = true \/ sid_is s "SE" = true.
Proof.
  unfold is_envelope, sid_is, opt_eqb. destruct (sid s) as [i|]; [|discriminate].
  unfold envelope_ids. cbn [mem_str]. intros H.
  change Reader.l with cs.
  repeat (apply orb_true_iff in H; destruct H as [H|H]); try discriminate; tauto.
Qed.

Lemma reader_trailer_incl d x s x' es :
  sid_is s "ISA" = false -> sid_is s "GS" = false -> sid_is s "ST" = false ->
  reader_step d x s = Ok (x', es) -> forall a, In a (loops x') -> In a (loops x).
Proof.
  intros N1 N2 N3 R. destruct (is_envelope s) eqn:En.
  - destruct (envelope_cases s En) as [H|[H|[H|[H|[H|H]]]]]; try congruence.
    + destruct (reader_IEA d x s (sid_is_id _ _ H)) as (x1 & e0 & _ & F & R1). rewrite R in R1.
      destruct (loops x) as [|[k i] rest] eqn:L.
      * injection R1 as -> _. intros a [].
      * destruct (str_eqb k (cs "ISA")).
        { injection R1 as -> _. intros a Ha. right. exact Ha. }
        destruct rest as [|[k2 i2] r2]; injection R1 as -> _; intros a Ha; [destruct Ha|]. right. right. exact Ha.
    + destruct (reader_GE d x s (sid_is_id _ _ H)) as (x1 & e0 & _ & F & R1). rewrite R in R1.
      destruct (loops x) as [|[k i] rest] eqn:L.
      * injection R1 as -> _. intros a [].
      * destruct (str_eqb k (cs "GS")).
        { injection R1 as -> _. intros a Ha. right. exact Ha. }
        destruct rest as [|[k2 i2] r2]; injection R1 as -> _; intros a Ha; [destruct Ha|]. right. right. exact Ha.
    + destruct (reader_SE d x s (sid_is_id _ _ H)) as (x1 & e0 & _ & F & R1). rewrite R in R1.
      destruct (loops x) as [|[k i] rest] eqn:L.
      * injection R1 as <- _. destruct F as (-> & _). intros a [].
      * injection R1 as -> _. intros a Ha. right. exact Ha.
  - destruct (reader_body d x s En) as (x1 & e & R1 & _ & F). rewrite R in R1. injection R1 as <- _.
    destruct F as (-> & _). auto.
Qed.

Print Assumptions reader_trailer_incl.
Print Assumptions reader_step_lx.
