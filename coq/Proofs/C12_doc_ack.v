(* C12_doc_ack.v — layer (c): the 997 written from the final error tree does not depend on the delimiters of the
   source.

   1. The 997 visitor (Model/Ack997.v) reads the Segment objects stored in the tree only through
      get_value('ISA05'..'ISA08', 'ISA11', 'ISA12', 'ISA15') of the ISA node and get_value('GS02', 'GS03', 'GS06',
      'GS07') of the GS node: it commutes with any rewriting of the stored objects that keeps these values
      (render_997_commutes).
   2. Along a run of the driver the stored objects are the ISA, GS and ST segments of the source: every element is
      written without a component separator (stored_plain), so erasing the delimiters (and ISA16) keeps the values.
   3. Hence two trees equal up to strip_errh whose stored segments are plain give the same lines and the same
      exception, if any (ack_997_same); with layer (b): the two runs of one document written with two delimiter
      triples yield identical 997 texts (ack_997_delims_layout_independent). *)
From Coq Require Import String Lia.
From PX.Lib Require Import Base PyStr PyInt.
From PX.Model Require Import Path Segment Raw Reader MapLoad MapTree Element Walker MapEnv Driver.
From PX.Model Require Import Errh Ack997.
From PX.Spec Require Import C01_spec C12_spec C12b_spec C12_doc_spec.
From PX.Proofs Require Import C01_roundtrip C12_lemmas C12_layers C12_doc_errh C12_doc_step C12_doc_run.

Local Definition l (s : string) : str := list_ascii_of_string s.

(* ================================================================== *)
(* 1. the visitor commutes with rewriting the stored segments          *)

Definition isa_refs : list string := ["ISA05"; "ISA06"; "ISA07"; "ISA08"; "ISA11"; "ISA12"; "ISA15"]%string.
Definition gs_refs : list string := ["GS02"; "GS03"; "GS06"; "GS07"]%string.

Section Visitor.
  Variables fi fg ft : xseg -> xseg.
  Hypothesis Hi : forall x r, In r isa_refs -> xget (fi x) r = xget x r.
  Hypothesis Hg : forall x r, In r gs_refs -> xget (fg x) r = xget x r.
  Notation Phi := (map_errh fi fg ft).
  Notation relH := (relR fi fg ft).

  Definition PhiV (v : v997) : v997 := set_v_h v (Phi (v_h v)).

  Definition relV {A} (g : A -> A) (m' m : SE v997 A) : Prop :=
    forall v, m' (PhiV v) = (PhiV (fst (m v)), rmap g (snd (m v))).

  Lemma relV_ret {A} (a : A) : relV same (se_ret a) (se_ret a).
  Proof. intros v. reflexivity. Qed.
  Lemma relV_raise {A} (g : A -> A) e : relV g (se_raise e) (se_raise e).
  Proof. intros v. reflexivity. Qed.
  Lemma relV_lift {A} (r : result A) : relV same (se_lift r) (se_lift r).
  Proof. intros v. unfold se_lift. cbn [fst snd]. destruct r; reflexivity. Qed.
  Lemma relV_deref {A} (o : option A) : relV same (deref o) (deref o).
  Proof. apply relV_lift. Qed.
  Lemma relV_get : relV PhiV se_get se_get.
  Proof. intros v. reflexivity. Qed.
  Lemma relV_mod f' f : (forall v, f' (PhiV v) = PhiV (f v)) -> relV same (se_mod f') (se_mod f).
  Proof. intros H v. unfold se_mod. cbn [fst snd rmap]. rewrite H. reflexivity. Qed.
  Lemma relV_bind {A B} (g : A -> A) (g2 : B -> B) (m' m : SE v997 A) (f' f : A -> SE v997 B) :
    relV g m' m -> (forall a, relV g2 (f' (g a)) (f a)) -> relV g2 (se_bind m' f') (se_bind m f).
  Proof.
    intros Hm Hf v. unfold se_bind. rewrite (Hm v). destruct (m v) as [v1 [a|e]]; cbn [fst snd rmap]; [apply Hf | reflexivity].
  Qed.
  Lemma relV_iter {A} (f' f : A -> SE v997 unit) xs : (forall x, relV same (f' x) (f x)) -> relV same (se_iter f' xs) (se_iter f xs).
  Proof.
    intros H. induction xs as [|x r IH]; cbn [se_iter]; [apply relV_ret|].
    apply (relV_bind same); [apply H | intros _; exact IH].
  Qed.
  Lemma relV_in_h {A} (g : A -> A) (m' m : SE errh A) : relH g m' m -> relV g (in_h m') (in_h m).
  Proof.
    intros H v. unfold in_h. cbn [PhiV set_v_h v_upd v_h]. rewrite (H (v_h v)).
    destruct (m (v_h v)) as [h1 r1]. reflexivity.
  Qed.
  Lemma relV_write s : relV same (write s) (write s).
  Proof. unfold write. apply relV_mod. intros v. reflexivity. Qed.

  (* ---- what the visitor computes from the heap does not see the rewriting ---- *)
  Lemma gs_count_failed_Phi h n : gs_count_failed_st (Phi h) (map_gs fg n) = gs_count_failed_st h n.
  Proof.
    unfold gs_count_failed_st. cbn [map_gs gn_children map_errh h_st]. f_equal.
    apply filter_ext. intros i. rewrite nth_error_map'. destruct (nth_error (h_st h) i); reflexivity.
  Qed.

  Ltac vstep :=
    lazymatch goal with
    | |- relV _ (se_ret _) (se_ret _) => apply relV_ret
    | |- relV _ (se_raise _) (se_raise _) => apply relV_raise
    | |- relV _ (se_lift _) (se_lift _) => apply relV_lift
    | |- relV _ (deref _) (deref _) => apply relV_deref
    | |- relV _ (write _) (write _) => apply relV_write
    | |- relV _ (se_bind se_get _) (se_bind se_get _) => apply (relV_bind PhiV); [apply relV_get | intros ?]
    | |- relV _ (se_bind (in_h (get_isa _)) _) (se_bind (in_h (get_isa _)) _) =>
        apply (relV_bind (map_isa fi)); [apply relV_in_h, relR_get_isa | intros ?]
    | |- relV _ (se_bind (in_h (get_gs _)) _) (se_bind (in_h (get_gs _)) _) =>
        apply (relV_bind (map_gs fg)); [apply relV_in_h, relR_get_gs | intros ?]
    | |- relV _ (se_bind (in_h (get_st _)) _) (se_bind (in_h (get_st _)) _) =>
        apply (relV_bind (map_st ft)); [apply relV_in_h, relR_get_st | intros ?]
    | |- relV _ (se_bind (in_h (get_seg _)) _) (se_bind (in_h (get_seg _)) _) =>
        apply (relV_bind same); [apply relV_in_h, relR_get_seg | intros ?]
    | |- relV _ (se_bind (in_h (get_ele _)) _) (se_bind (in_h (get_ele _)) _) =>
        apply (relV_bind same); [apply relV_in_h, relR_get_ele | intros ?]
    | |- relV _ (se_bind _ _) (se_bind _ _) => apply (relV_bind same); [| intros ?]
    | |- relV _ (se_iter _ ?xs) (se_iter _ ?xs) => apply relV_iter; intros ?
    | |- relV _ (se_mod _) (se_mod _) => apply relV_mod; intros ?; reflexivity
    | |- relV _ (if ?b then _ else _) (if ?b then _ else _) => destruct b
    | |- relV _ (match ?x with _ => _ end) (match ?x with _ => _ end) => destruct x
    end.

  Ltac vnorm :=
    unfold same;
    cbn [PhiV set_v_h v_upd v_h v_out v_seg_count v_isa_ctl v_gs_loop_count v_gs_id v_gs_seg v_st_ctl v_st_loop_count
         map_errh c_isa c_gs c_st c_seg seg_added c_ele ele_added h_seg h_ele
         map_isa map_gs map_st in_seg gn_seg in_ta1 in_trn in_date in_time gn_fic gn_ctl gn_ack gn_orig gn_recv
         tn_id tn_ctl tn_ack tn_children gn_children in_children] in *.

  Lemma visit_root_pre_comm ck : relV same (visit_root_pre ck) (visit_root_pre ck).
  Proof.
    unfold visit_root_pre. vstep. vnorm. vstep; [vstep|]. vstep. vnorm.
    rewrite !Hi by (cbn; tauto).
    vstep; [vstep|]. vstep; [vstep|]. vstep; [vstep|]. vstep; [vstep|]. vstep; [vstep|].
    vstep; [vstep|]. vstep. vnorm. rewrite !Hg by (cbn; tauto).
    repeat vstep.
  Qed.

  Lemma get_isa_errors_Phi h n : get_isa_errors (Phi h) (map_isa fi n) = get_isa_errors h n.
  Proof. reflexivity. Qed.
  Lemma get_gs_errors_Phi h n : get_gs_errors (Phi h) (map_gs fg n) = get_gs_errors h n.
  Proof. reflexivity. Qed.
  Lemma get_st_errors_Phi h n : get_st_errors (Phi h) (map_st ft n) = get_st_errors h n.
  Proof. reflexivity. Qed.

  Lemma visit_root_post_comm : relV same visit_root_post visit_root_post.
  Proof.
    unfold visit_root_post. vstep. vnorm. vstep; [vstep|]. vstep; [vstep|]. vstep; [vstep|]. vstep; [vstep|].
    vstep; [vstep|]. vstep. vnorm. rewrite get_isa_errors_Phi.
    vstep.
    - destruct (opt_eqb _ _ _); repeat vstep.
    - repeat vstep.
  Qed.

  Lemma visit_gs_pre_comm n : relV same (visit_gs_pre (map_gs fg n)) (visit_gs_pre n).
  Proof. unfold visit_gs_pre. vnorm. repeat vstep. Qed.

  Lemma visit_gs_post_comm g : relV same (visit_gs_post g) (visit_gs_post g).
  Proof.
    unfold visit_gs_post. vstep. vnorm. vstep.
    { destruct (negb _); [|vstep]. destruct (negb _); [|vstep].
      apply relV_in_h, relR_mod_gs. intros n. reflexivity. }
    vstep. vnorm. vstep. vnorm. rewrite gs_count_failed_Phi, get_gs_errors_Phi. repeat vstep.
  Qed.

  Lemma visit_st_pre_comm n : relV same (visit_st_pre (map_st ft n)) (visit_st_pre n).
  Proof. unfold visit_st_pre. vnorm. repeat vstep. Qed.

  Lemma visit_st_post_comm t : relV same (visit_st_post t) (visit_st_post t).
  Proof.
    unfold visit_st_post. vstep. vnorm. vstep. vnorm. rewrite get_st_errors_Phi.
    destruct (tn_ack a); repeat vstep.
  Qed.

  Lemma visit_seg_comm n : relV same (visit_seg n) (visit_seg n).
  Proof.
    unfold visit_seg. vstep. vnorm. vstep; [vstep|]. cbv zeta. vstep.
    - vstep. repeat vstep.
    - change (seg_child_err_count (Phi (v_h a)) n) with (seg_child_err_count (v_h a) n). repeat vstep.
  Qed.

  Lemma visit_ele_comm e : relV same (visit_ele e) (visit_ele e).
  Proof. unfold visit_ele. vstep; [vstep|]. vstep. cbv zeta. repeat vstep. Qed.

  Lemma accept_seg_comm k : relV same (accept_seg k) (accept_seg k).
  Proof.
    unfold accept_seg. vstep. vnorm. vstep; [apply visit_seg_comm|]. vstep. vstep. apply visit_ele_comm.
  Qed.

  Lemma accept_st_comm t : relV same (accept_st t) (accept_st t).
  Proof.
    unfold accept_st. vstep. vstep; [apply visit_st_pre_comm|]. vnorm.
    vstep; [vstep; apply accept_seg_comm|]. apply visit_st_post_comm.
  Qed.

  Lemma accept_gs_comm g : relV same (accept_gs g) (accept_gs g).
  Proof.
    unfold accept_gs. vstep. vstep; [apply visit_gs_pre_comm|]. vnorm.
    vstep; [vstep; apply accept_st_comm|]. apply visit_gs_post_comm.
  Qed.

  Lemma accept_isa_comm i : relV same (accept_isa i) (accept_isa i).
  Proof. unfold accept_isa. vstep. vnorm. vstep. apply accept_gs_comm. Qed.

  Lemma accept_root_comm ck : relV same (accept_root ck) (accept_root ck).
  Proof.
    unfold accept_root. vstep; [apply visit_root_pre_comm|]. vstep. vnorm. cbn [h_isa map_errh]. rewrite map_length.
    vstep; [vstep; apply accept_isa_comm|]. apply visit_root_post_comm.
  Qed.

  Theorem render_997_commutes ck h :
    render_997 ck (Phi h) =
    (Phi (fst (fst (render_997 ck h))), snd (fst (render_997 ck h)), snd (render_997 ck h)).
  Proof.
    unfold render_997. change (v997_init (Phi h)) with (PhiV (v997_init h)).
    rewrite (accept_root_comm ck (v997_init h)).
    destruct (accept_root ck (v997_init h)) as [v [u|e]]; reflexivity.
  Qed.
End Visitor.


(* ================================================================== *)
(* 2. the segments stored in the tree are plain                        *)

(* readable form *)
Definition stored_plain (h : errh) : Prop :=
  Forall (fun n => seg_plain (xs_s (in_seg n)) = true) (h_isa h) /\
  Forall (fun n => seg_plain (xs_s (gn_seg n)) = true) (h_gs h) /\
  Forall (fun n => seg_plain (xs_s (tn_seg n)) = true) (h_st h).

(* the form that every call of the handler API preserves for free: a fixed point of a rewriting (section 1 of
   Proofs/C12_doc_errh.v) that makes every stored segment plain and leaves the plain ones alone *)
Definition mk1 (c : composite) : composite := if single_valued c then c else firstn 1 c.
Definition pl (x : xseg) : xseg :=
  {| xs_d := xs_d x; xs_s := {| sid := sid (xs_s x); els := map mk1 (els (xs_s x)) |} |}.
Definition SPfix (h : errh) : Prop := map_errh pl pl pl h = h.

Lemma mk1_single c : single_valued (mk1 c) = true.
Proof. unfold mk1. destruct (single_valued c) eqn:E; [exact E|]. destruct c as [|x r]; reflexivity. Qed.

Lemma pl_plain x : seg_plain (xs_s (pl x)) = true.
Proof. unfold seg_plain, pl. cbn [xs_s els]. apply forallb_forall. intros c Hc. apply in_map_iff in Hc as (c0 & <- & _). apply mk1_single. Qed.

Lemma pl_fix x : seg_plain (xs_s x) = true -> pl x = x.
Proof.
  destruct x as [d [i e]]. unfold seg_plain, pl. cbn [xs_s xs_d sid els]. intros H. do 2 f_equal.
  induction e as [|c e IH]; [reflexivity|]. cbn [forallb map] in *. apply andb_true_iff in H as [H1 H2].
  unfold mk1 at 1. rewrite H1, (IH H2). reflexivity.
Qed.

Lemma map_fix_Forall {A} (f : A -> A) xs : map f xs = xs -> Forall (fun x => f x = x) xs.
Proof. induction xs as [|x r IH]; intros H; [constructor|]. cbn [map] in H. injection H as H1 H2. constructor; [exact H1 | apply IH; exact H2]. Qed.

Lemma SPfix_stored_plain h : SPfix h -> stored_plain h.
Proof.
  unfold SPfix. intros H.
  pose proof (f_equal h_isa H) as H1. pose proof (f_equal h_gs H) as H2. pose proof (f_equal h_st H) as H3.
  cbn [map_errh h_isa h_gs h_st] in H1, H2, H3.
  apply map_fix_Forall in H1, H2, H3. unfold stored_plain.
  split; [|split]; (eapply Forall_impl; [|eassumption]); intros n E; cbn beta in E; rewrite <- E.
  - cbn [map_isa in_seg]. apply pl_plain.
  - cbn [map_gs gn_seg]. apply pl_plain.
  - cbn [map_st tn_seg]. apply pl_plain.
Qed.

Lemma SPfix_init : SPfix errh_init.
Proof. reflexivity. Qed.

Lemma SP_keep (m : SE errh unit) : relR pl pl pl same m m -> forall h, SPfix h -> SPfix (fst (m h)).
Proof.
  intros C h H. unfold SPfix in *. pose proof (C h) as E. rewrite H in E.
  rewrite E at 2. reflexivity.
Qed.

Lemma mk_isa_fix x src : pl x = x -> rmap (map_isa pl) (mk_isa x src) = mk_isa x src.
Proof.
  intros H. unfold mk_isa. repeat (destruct (xget x _); cbn [bind rmap]; [|reflexivity]).
  unfold map_isa. cbn. rewrite H. reflexivity.
Qed.
Lemma mk_gs_fix x src : pl x = x -> rmap (map_gs pl) (mk_gs x src) = mk_gs x src.
Proof.
  intros H. unfold mk_gs. repeat (destruct (xget x _); cbn [bind rmap]; [|reflexivity]).
  unfold map_gs. cbn. rewrite H. reflexivity.
Qed.
Lemma mk_st_fix x src : pl x = x -> rmap (map_st pl) (mk_st x src) = mk_st x src.
Proof.
  intros H. unfold mk_st. repeat (destruct (xget x _); cbn [bind rmap]; [|reflexivity]).
  unfold map_st. cbn. rewrite H. reflexivity.
Qed.

(* the calls that store a segment store a plain one *)
Definition ev_plain (ev : dev) : Prop :=
  match ev with
  | DAddIsa x _ | DAddGs x _ | DAddSt x _ => seg_plain (xg_s x) = true
  | _ => True
  end.

Lemma apply_dev_SP ev h : ev_plain ev -> SPfix h -> SPfix (fst (apply_dev ev h)).
Proof.
  intros P. apply SP_keep. destruct ev; cbn [apply_dev ev_plain] in *.
  - apply add_isa_loop_comm, mk_isa_fix, pl_fix, P.
  - apply add_gs_loop_comm, mk_gs_fix, pl_fix, P.
  - apply add_st_loop_comm, mk_st_fix, pl_fix, P.
  - apply add_seg_comm.
  - apply add_ele_comm.
  - apply isa_error_comm.
  - apply gs_error_comm.
  - apply st_error_comm.
  - apply seg_error_comm.
  - apply ele_error_comm.
  - apply close_isa_loop_comm.
  - apply close_gs_loop_comm.
  - apply close_st_loop_comm.
Qed.

(* ---- along the driver ---- *)
Definition keepsSP {A} (m : Driver.D A) : Prop := forall s, SPfix (ds_errh s) -> SPfix (ds_errh (fst (m s))).

Lemma kret {A} (a : A) : keepsSP (d_ret a).
Proof. intros s H. exact H. Qed.
Lemma klift {A} (r : result A) : keepsSP (d_lift r).
Proof. intros s H. exact H. Qed.
Lemma kraise {A} e : keepsSP (@d_raise A e).
Proof. intros s H. exact H. Qed.
Lemma kget : keepsSP d_get.
Proof. intros s H. exact H. Qed.
Lemma kmod f : (forall s, ds_errh (f s) = ds_errh s) -> keepsSP (d_mod f).
Proof. intros E s H. cbn [d_mod fst]. rewrite E. exact H. Qed.
Lemma kbind {A B} (m : Driver.D A) (f : A -> Driver.D B) : keepsSP m -> (forall a, keepsSP (f a)) -> keepsSP (d_bind m f).
Proof.
  intros Hm Hf s H. unfold d_bind. specialize (Hm s H). destruct (m s) as [s' [a|e]]; cbn [fst] in *; [apply Hf, Hm | exact Hm].
Qed.
Lemma kiter {A} (f : A -> Driver.D unit) xs : (forall x, keepsSP (f x)) -> keepsSP (d_iter f xs).
Proof. intros H. induction xs as [|x r IH]; cbn [d_iter]; [apply kret|]. apply kbind; [apply H | intros _; exact IH]. Qed.
Lemma kcall ev : ev_plain ev -> keepsSP (call_errh ev).
Proof.
  intros P s H. unfold call_errh. cbn [with_trace ds_errh].
  pose proof (apply_dev_SP ev (ds_errh s) P H) as K.
  destruct (apply_dev ev (ds_errh s)) as [h' r]. exact K.
Qed.

Ltac kstep :=
  lazymatch goal with
  | |- keepsSP (d_ret _) => apply kret
  | |- keepsSP (d_lift _) => apply klift
  | |- keepsSP (d_raise _) => apply kraise
  | |- keepsSP d_get => apply kget
  | |- keepsSP (d_bind _ _) => apply kbind; [| intros ?]
  | |- keepsSP (d_iter _ _) => apply kiter; intros ?
  | |- keepsSP (d_mod _) => apply kmod; intros ?; reflexivity
  | |- keepsSP (set_node _ _) => apply kmod; intros ?; reflexivity
  | |- keepsSP (sel_upd _) => apply kmod; intros ?; reflexivity
  | |- keepsSP (call_errh _) => apply kcall; cbn [ev_plain]; try exact I
  | |- keepsSP (let x := _ in _) => cbv zeta
  | |- keepsSP (if ?b then _ else _) => destruct b
  | |- keepsSP (match ?x with _ => _ end) => destruct x
  end.

Lemma k_handle_popped : keepsSP handle_popped.
Proof.
  unfold handle_popped. kstep; [kstep|]. kstep; [kstep|]. apply kiter. intros e.
  destruct (err_call e) as [ev|] eqn:E; [|apply kret]. apply kcall.
  unfold err_call in E. repeat (destruct (str_eqb _ _) in E; [inversion E; exact I|]). discriminate E.
Qed.

Lemma k_cur_info : keepsSP cur_info.
Proof. unfold cur_info. repeat kstep. Qed.

Lemma k_add_cur_seg x : keepsSP (Driver.add_cur_seg x).
Proof. unfold Driver.add_cur_seg. kstep; [apply k_cur_info|]. repeat kstep. Qed.

Lemma k_switch_map E new : keepsSP (switch_map E new).
Proof. unfold switch_map. repeat kstep. Qed.

Lemma k_find_node E sg : keepsSP (find_node E sg).
Proof.
  unfold find_node. repeat kstep.
  match goal with e : wev |- _ => destruct e; exact I end.
Qed.

Lemma k_validate E sg : keepsSP (validate E sg).
Proof.
  unfold validate. repeat kstep.
  match goal with h : hev |- _ => destruct h; exact I end.
Qed.

Definition envelope_plain (sg : seg) : Prop :=
  sid_is sg "ISA" || sid_is sg "GS" || sid_is sg "ST" = true -> seg_plain sg = true.

Lemma k_dispatch E sg : envelope_plain sg -> keepsSP (dispatch_seg E sg).
Proof.
  intros EP. unfold envelope_plain in EP. unfold dispatch_seg. cbv zeta.
  destruct (sid_is sg "ISA") eqn:H0.
  { specialize (EP eq_refl). repeat first [apply k_handle_popped | kstep]. exact EP. }
  destruct (sid_is sg "IEA").
  { repeat first [apply k_handle_popped | apply k_cur_info | kstep]. }
  destruct (sid_is sg "GS") eqn:H2.
  { specialize (EP eq_refl). repeat first [apply k_handle_popped | apply k_switch_map | kstep]. exact EP. }
  destruct (sid_is sg "BHT").
  { repeat first [apply k_handle_popped | apply k_switch_map | apply k_add_cur_seg | kstep]. }
  destruct (sid_is sg "GE").
  { repeat first [apply k_handle_popped | apply k_cur_info | kstep]. }
  destruct (sid_is sg "ST") eqn:H5.
  { specialize (EP eq_refl). repeat first [apply k_handle_popped | kstep]. exact EP. }
  destruct (sid_is sg "SE").
  { repeat first [apply k_handle_popped | apply k_cur_info | kstep]. }
  repeat first [apply k_handle_popped | apply k_add_cur_seg | kstep].
Qed.

Lemma k_step E sg : envelope_plain sg -> keepsSP (step E sg).
Proof.
  intros EP. unfold step. kstep; [apply k_find_node|]. destruct a.
  - kstep; [apply k_dispatch, EP | apply k_validate].
  - apply k_handle_popped.
Qed.

Lemma k_finish : keepsSP finish.
Proof. unfold finish. repeat first [apply k_handle_popped | kstep]. Qed.

Lemma envelope_plain_body s : sid_is s "ISA" = false -> ctl_simple s = true -> envelope_plain (P s).
Proof.
  intros HI HC EP. rewrite !sid_is_P, HI in EP. cbn [orb] in EP.
  apply (ctl_plain (P s) (ctl_simple_P s HC)). rewrite is_ctl_P.
  apply orb_true_iff in EP as [E|E]; [apply (is_ctl_of s "GS") | apply (is_ctl_of s "ST")]; first [exact E | cbn; tauto].
Qed.

Lemma k_run_lines E d segs : de_d E = d -> distinct_delims d = true ->
  forallb (clean_seg d) segs = true -> forallb id_starts_plain segs = true ->
  (forall s, In s segs -> envelope_plain (P s)) ->
  keepsSP (run_lines E (map (seg_body d) segs)).
Proof.
  intros Ed Dd. induction segs as [|s segs IH]; intros Hc Hp He st H; [exact H|].
  cbn [forallb] in *. apply andb_true_iff in Hc as [Hc Hc']. apply andb_true_iff in Hp as [Hp Hp'].
  cbn [map]. rewrite run_lines_cons, Ed, (reader_line_opt_body d _ s Dd Hc Hp).
  destruct (reader_step d (ds_x st) (P s)) as [[x' e3]|e]; [|exact H].
  set (st1 := with_pending _ _).
  assert (H1 : SPfix (ds_errh st1)) by exact H.
  revert H1. generalize st1. change (keepsSP (dod_ step E (P s); run_lines E (map (seg_body d) segs))).
  kstep; [apply k_step, He; left; reflexivity|].
  apply IH; [assumption | assumption | intros s0 H0; apply He; right; exact H0].
Qed.

(* the stored segments of the final tree of a run on an encoded document are plain *)
Theorem run_stored_plain load idx d conv f body :
  distinct_delims d = true -> delims_not_break d = true -> is_break conv = true ->
  isa_fields_ok f = true -> clean_seg d (isa_for d f) = true ->
  body_ok d body = true -> forallb id_starts_plain body = true -> forallb ctl_simple body = true ->
  match run_state load idx (encode d conv (isa_for d f :: body)) with
  | Some s => SPfix (ds_errh s)
  | None => True
  end.
Proof.
  intros Dd Nd Kc Hf Ci Bd Hp Hc.
  assert (Cb : forallb (clean_seg d) body = true) by (unfold body_ok in Bd; apply andb_true_iff in Bd as [H _]; exact H).
  assert (Nb : forallb (fun s => negb (opt_eqb str_eqb (sid s) (Some (C12_spec.l "ISA")))) body = true)
    by (unfold body_ok in Bd; apply andb_true_iff in Bd as [_ H]; exact H).
  destruct (raw_all_encode d conv f body Dd Nd Kc Hf Ci Cb Hp) as (r & R & Dl & V).
  unfold run_state. rewrite (doc_start_raw load idx _ r _ R).
  destruct (load _) as [cm|e]; cbn [bind]; [|exact I].
  destruct idx as [ix|e]; cbn [bind]; [|exact I].
  destruct (getnode cm _) as [n0|e]; cbn [bind]; [|exact I].
  assert (K : keepsSP (dod_ run_lines (mkE load ix cm (delims_of r)) (map (seg_body d) (isa_for d f :: body)); finish)).
  { kstep; [|apply k_finish]. apply (k_run_lines _ d); [exact Dl | exact Dd | | |].
    - cbn [forallb]. rewrite Ci, Cb. reflexivity.
    - cbn [forallb]. rewrite isa_id_plain, Hp. reflexivity.
    - intros s [<-|Hs].
      + rewrite isa_P. intros _. apply isa_plain.
      + rewrite forallb_forall in Nb, Hc. apply envelope_plain_body; [apply negb_true_iff, Nb, Hs | apply Hc, Hs]. }
  apply K. exact SPfix_init.
Qed.

(* ================================================================== *)
(* 3. the acknowledgement of two related trees                         *)

(* erase the delimiters (and ISA16) of the plain stored segments, leave the others alone: keeps every value the
   visitor reads, whatever the segment *)
Definition strip_if_plain (x : xseg) : xseg := if seg_plain (xs_s x) then strip_xseg x else x.
Definition strip_isa_if_plain (x : xseg) : xseg := if seg_plain (xs_s x) then strip_isa_xseg x else x.

Lemma xget_strip_if_plain x r : xget (strip_if_plain x) r = xget x r.
Proof.
  unfold strip_if_plain. destruct (seg_plain (xs_s x)) eqn:E; [|reflexivity].
  unfold xget, strip_xseg. cbn [xs_d xs_s]. apply get_value_plain, E.
Qed.

Lemma nth_res_firstn {A} (xs : list A) : forall n k, k < n -> nth_res (firstn n xs) k = nth_res xs k.
Proof.
  induction xs as [|x r IH]; intros [|n] [|k] H; cbn [firstn nth_res]; try lia; try reflexivity. apply IH. lia.
Qed.

Lemma get_ix_firstn i e k : (0 <= k < 15)%Z ->
  get_ix {| sid := i; els := firstn 15 e |} (Some k, None) = get_ix {| sid := i; els := e |} (Some k, None).
Proof.
  intros Hk. unfold get_ix. cbn [fst snd els]. rewrite firstn_length.
  destruct (Z.leb_spec (Z.of_nat (Nat.min 15 (length e))) k), (Z.leb_spec (Z.of_nat (length e)) k); try lia; [reflexivity|].
  unfold py_nth. destruct (Z.ltb_spec k 0); [lia|]. rewrite nth_res_firstn by lia. reflexivity.
Qed.

Definition ref_ok (r : string) : bool :=
  match parse_path (l r) with
  | Ok xp => match seg_id xp with Some _ => true | None => false end &&
             match ele_idx xp with Some k => (1 <=? k)%N && (k <=? 15)%N | None => false end &&
             match subele_idx xp with None => true | Some _ => false end
  | Raise _ => false
  end.
Lemma isa_refs_ok : forallb ref_ok isa_refs = true.
Proof. vm_compute. reflexivity. Qed.

Lemma get_value_mask d s r : In r isa_refs -> seg_get_value d (mask_isa16 s) (l r) = seg_get_value d s (l r).
Proof.
  intros H. unfold mask_isa16. destruct (opt_eqb str_eqb (sid s) _); [|reflexivity].
  pose proof isa_refs_ok as T. rewrite forallb_forall in T. specialize (T r H). unfold ref_ok in T.
  unfold seg_get_value, seg_get, parse_refdes. cbn [sid].
  destruct (parse_path (l r)) as [xp|e]; [|discriminate T]. cbn [bind].
  destruct (seg_id xp) as [x|]; [|discriminate T].
  destruct (opt_eqb str_eqb (Some x) (sid s)); [|reflexivity]. cbn [bind].
  destruct (ele_idx xp) as [k|]; [|discriminate T]. destruct (subele_idx xp); [rewrite andb_false_r in T; discriminate T|].
  cbn [andb] in T. rewrite andb_true_r in T. apply andb_true_iff in T as [T1 T2]. apply N.leb_le in T1, T2.
  cbn [option_map]. rewrite get_ix_firstn by lia. reflexivity.
Qed.

Lemma seg_plain_mask s : seg_plain s = true -> seg_plain (mask_isa16 s) = true.
Proof.
  unfold mask_isa16, seg_plain. destruct (opt_eqb _ _ _); [|auto]. cbn [els]. intros H.
  rewrite forallb_forall in *. intros c Hc. apply H. rewrite <- (firstn_skipn 15 (els s)). apply in_or_app. left. exact Hc.
Qed.

Lemma xget_strip_isa_if_plain x r : In r isa_refs -> xget (strip_isa_if_plain x) r = xget x r.
Proof.
  intros H. unfold strip_isa_if_plain. destruct (seg_plain (xs_s x)) eqn:E; [|reflexivity].
  unfold xget, strip_isa_xseg. cbn [xs_d xs_s].
  change (Errh.l r) with (l r).
  rewrite <- (get_value_mask (xs_d x) (xs_s x) r H).
  apply get_value_plain, seg_plain_mask, E.
Qed.

Notation PhiP := (map_errh strip_isa_if_plain strip_if_plain strip_if_plain).

Lemma strip_if_plain_stored h : stored_plain h -> PhiP h = strip_errh h.
Proof.
  intros (A & B & C). rewrite Forall_forall in A, B, C. unfold strip_errh, map_errh. f_equal; apply map_ext_in; intros n Hn.
  - unfold map_isa, strip_isa_if_plain. rewrite (A n Hn). reflexivity.
  - unfold map_gs, strip_if_plain. rewrite (B n Hn). reflexivity.
  - unfold map_st, strip_if_plain. rewrite (C n Hn). reflexivity.
Qed.

(* two trees equal up to the delimiters they carry, whose stored segments are plain: the same 997, line by line, the
   same exception if the visitor raises, and the trees afterwards are again equal up to the delimiters *)
Theorem ack_997_same ck h1 h2 :
  strip_errh h1 = strip_errh h2 -> stored_plain h1 -> stored_plain h2 ->
  snd (fst (render_997 ck h1)) = snd (fst (render_997 ck h2)) /\
  snd (render_997 ck h1) = snd (render_997 ck h2) /\
  PhiP (fst (fst (render_997 ck h1))) = PhiP (fst (fst (render_997 ck h2))).
Proof.
  intros H P1 P2.
  pose proof (render_997_commutes strip_isa_if_plain strip_if_plain strip_if_plain
                xget_strip_isa_if_plain (fun x r _ => xget_strip_if_plain x r) ck h1) as E1.
  pose proof (render_997_commutes strip_isa_if_plain strip_if_plain strip_if_plain
                xget_strip_isa_if_plain (fun x r _ => xget_strip_if_plain x r) ck h2) as E2.
  rewrite (strip_if_plain_stored h1 P1) in E1. rewrite (strip_if_plain_stored h2 P2) in E2.
  rewrite H in E1. rewrite E1 in E2.
  assert (T : forall (a b : errh * list str * option exn), a = b ->
                snd (fst a) = snd (fst b) /\ snd a = snd b /\ fst (fst a) = fst (fst b)) by (intros a b ->; auto).
  apply T in E2. cbn [fst snd] in E2. exact E2.
Qed.

(* LAYER (c): the document written with two delimiter triples and two line-break conventions *)
Theorem ack_997_delims_layout_independent :
  forall load idx d1 d2 conv1 conv2 f body ck,
    distinct_delims d1 = true -> distinct_delims d2 = true ->
    delims_not_break d1 = true -> delims_not_break d2 = true ->
    is_break conv1 = true -> is_break conv2 = true ->
    isa_fields_ok f = true ->
    clean_seg d1 (isa_for d1 f) = true -> clean_seg d2 (isa_for d2 f) = true ->
    body_ok d1 body = true -> body_ok d2 body = true ->
    forallb id_starts_plain body = true -> forallb ctl_simple body = true ->
    isa_valid_same load d1 d2 f ->
    doc_layers_ok load idx (encode d1 conv1 (isa_for d1 f :: body)) = true ->
    match run_state load idx (encode d1 conv1 (isa_for d1 f :: body)),
          run_state load idx (encode d2 conv2 (isa_for d2 f :: body)) with
    | Some s1, Some s2 =>
        strip_errh (ds_errh s1) = strip_errh (ds_errh s2) /\
        stored_plain (ds_errh s1) /\ stored_plain (ds_errh s2) /\
        snd (fst (render_997 ck (ds_errh s1))) = snd (fst (render_997 ck (ds_errh s2))) /\
        snd (render_997 ck (ds_errh s1)) = snd (render_997 ck (ds_errh s2))
    | None, None => True
    | _, _ => False
    end.
Proof.
  intros load idx d1 d2 conv1 conv2 f body ck D1 D2 N1 N2 K1 K2 Hf C1 C2 B1 B2 Hp Hc HI HL.
  pose proof (driver_final_states_related load idx d1 d2 conv1 conv2 f body D1 D2 N1 N2 K1 K2 Hf C1 C2 B1 B2 Hp Hc HI HL) as R.
  pose proof (run_stored_plain load idx d1 conv1 f body D1 N1 K1 Hf C1 B1 Hp Hc) as P1.
  pose proof (run_stored_plain load idx d2 conv2 f body D2 N2 K2 Hf C2 B2 Hp Hc) as P2.
  destruct (run_state load idx (encode d1 conv1 _)) as [s1|], (run_state load idx (encode d2 conv2 _)) as [s2|]; try exact R.
  apply SPfix_stored_plain in P1, P2.
  destruct (ack_997_same ck (ds_errh s1) (ds_errh s2) (sr_errh _ _ R) P1 P2) as (A & B & _).
  split; [exact (sr_errh _ _ R)|]. split; [exact P1|]. split; [exact P2|]. split; [exact A | exact B].
Qed.

Print Assumptions render_997_commutes.
Print Assumptions run_stored_plain.
Print Assumptions ack_997_same.
Print Assumptions ack_997_delims_layout_independent.
