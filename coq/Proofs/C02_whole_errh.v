(* C02_whole_errh.v — the error handler on a run that reports no error: every call the driver makes on an
   error-free document (add_isa_loop, add_gs_loop, add_st_loop, add_seg, add_ele, close_*_loop) returns, keeps
   the heap invariant of C07 and keeps EVERY error list of EVERY node empty; such a tree counts no error. *)
From Coq Require Import String Lia.
From PX.Lib Require Import Base PyStr PyInt.
From PX.Model Require Import Path Segment Errh.
From PX.Spec Require Import C07_spec C05_spec.
From PX.Proofs Require Import C07_errh C05_verdict.

Local Definition l (s : string) : str := list_ascii_of_string s.

(* ------------------------------------------------------------------ *)
(* get_value on a segment with the right id never raises                *)

Lemma get_value_ok ref xp n id :
  parse_path ref = Ok xp -> seg_id xp = Some id -> ele_idx xp = Some n -> (0 < n)%N -> subele_idx xp = None ->
  forall d s, sid s = Some id -> exists v, seg_get_value d s ref = Ok v.
Proof.
  intros P Hid E N S d s Hs. unfold seg_get_value, seg_get, parse_refdes. rewrite P. cbn [bind].
  rewrite E, S, Hid, Hs. cbn [option_map opt_eqb]. rewrite str_eqb_refl. cbn [bind].
  assert (G : exists g, get_ix s (Some (Z.of_N n - 1)%Z, None) = Ok g).
  { unfold get_ix. cbn [fst snd].
    destruct (Z.of_nat (length (els s)) <=? Z.of_N n - 1)%Z eqn:L; [eauto|].
    apply Z.leb_gt in L. unfold py_nth.
    destruct (Z.of_N n - 1 <? 0)%Z eqn:L0; [apply Z.ltb_lt in L0; lia|].
    destruct (nth_res_lt (els s) (Z.to_nat (Z.of_N n - 1))) as [a Ha]; [lia|].
    rewrite Ha. cbn [bind]. eauto. }
  destruct G as [g G]. rewrite G. cbn [bind]. eauto.
Qed.

Ltac gv_ok := intros; eapply get_value_ok; [vm_compute; reflexivity | reflexivity | reflexivity | reflexivity | reflexivity | assumption].

Lemma gvo_ISA09 d s : sid s = Some (l "ISA") -> exists v, seg_get_value d s (l "ISA09") = Ok v. Proof. gv_ok. Qed.
Lemma gvo_ISA10 d s : sid s = Some (l "ISA") -> exists v, seg_get_value d s (l "ISA10") = Ok v. Proof. gv_ok. Qed.
Lemma gvo_ISA12 d s : sid s = Some (l "ISA") -> exists v, seg_get_value d s (l "ISA12") = Ok v. Proof. gv_ok. Qed.
Lemma gvo_ISA13 d s : sid s = Some (l "ISA") -> exists v, seg_get_value d s (l "ISA13") = Ok v. Proof. gv_ok. Qed.
Lemma gvo_ISA14 d s : sid s = Some (l "ISA") -> exists v, seg_get_value d s (l "ISA14") = Ok v. Proof. gv_ok. Qed.
Lemma gvo_GS01 d s : sid s = Some (l "GS") -> exists v, seg_get_value d s (l "GS01") = Ok v. Proof. gv_ok. Qed.
Lemma gvo_GS08 d s : sid s = Some (l "GS") -> exists v, seg_get_value d s (l "GS08") = Ok v. Proof. gv_ok. Qed.
Lemma gvo_ST01 d s : sid s = Some (l "ST") -> exists v, seg_get_value d s (l "ST01") = Ok v. Proof. gv_ok. Qed.
Lemma gvo_ST03 d s : sid s = Some (l "ST") -> exists v, seg_get_value d s (l "ST03") = Ok v. Proof. gv_ok. Qed.
Lemma gvo_GE01 d s : sid s = Some (l "GE") -> exists v, seg_get_value d s (l "GE01") = Ok v. Proof. gv_ok. Qed.

Ltac xgo H Hs :=
  unfold xget;
  match goal with |- context [bind (seg_get_value ?d ?s ?r) _] =>
    let v := fresh "v" in let E := fresh "E" in
    destruct (H d s Hs) as [v E]; change (seg_get_value d s r = Ok v) in E; rewrite E; cbn [bind]
  end.

Lemma mk_isa_ok x src : sid (xs_s x) = Some (l "ISA") -> exists n, mk_isa x src = Ok n /\ in_errors n = [].
Proof. intros Hs. unfold mk_isa. xgo gvo_ISA13 Hs. xgo gvo_ISA14 Hs. xgo gvo_ISA09 Hs. xgo gvo_ISA10 Hs. eexists. split; reflexivity. Qed.

Lemma mk_gs_ok x src : sid (xs_s x) = Some (l "GS") -> exists n, mk_gs x src = Ok n /\ gn_errors n = [].
Proof. intros Hs. unfold mk_gs. xgo gvo_GS01 Hs. xgo gvo_GS08 Hs. eexists. split; reflexivity. Qed.

Lemma mk_st_ok x src : sid (xs_s x) = Some (l "ST") -> exists n, mk_st x src = Ok n /\ tn_errors n = [].
Proof. intros Hs. unfold mk_st. xgo gvo_ST01 Hs. xgo gvo_ST03 Hs. eexists. split; reflexivity. Qed.

Lemma ge01_ok x : sid (xs_s x) = Some (l "GE") -> exists z, ge01_count x = Ok z.
Proof.
  intros Hs. unfold ge01_count. xgo gvo_GE01 Hs.
  match goal with |- context [match ?o with Some _ => _ | None => _ end] => destruct o as [s|] end;
    [destruct (py_int s)|]; eauto.
Qed.

(* ------------------------------------------------------------------ *)
(* every error list is empty                                            *)

Record AllEmpty (h : errh) : Prop := {
  ae_isa : Forall (fun n => in_errors n = []) (h_isa h);
  ae_gs : Forall (fun n => gn_errors n = []) (h_gs h);
  ae_st : Forall (fun n => tn_errors n = []) (h_st h);
  ae_seg : Forall (fun n => sn_errors n = []) (h_seg h);
  ae_ele : Forall (fun n => en_errors n = []) (h_ele h)
}.

Lemma AllEmpty_init : AllEmpty errh_init.
Proof. constructor; constructor. Qed.

Lemma Forall_nodes_at {A} (P : A -> Prop) heap ids : Forall P heap -> Forall P (nodes_at heap ids).
Proof.
  intros H. unfold nodes_at. apply Forall_forall. intros x Hx. apply in_flat_map in Hx as [i [_ Hi]].
  destruct (nth_error heap i) eqn:E; [|destruct Hi]. destruct Hi as [<-|[]].
  rewrite Forall_forall in H. apply H. eapply nth_error_In, E.
Qed.

Lemma Forall_impl_nodes {A} (P Q : A -> Prop) heap ids : (forall x, P x -> Q x) -> Forall P heap -> Forall Q (nodes_at heap ids).
Proof. intros PQ H. apply Forall_nodes_at. eapply Forall_impl; eauto. Qed.

Theorem all_empty_clean h : AllEmpty h -> heap_clean h.
Proof.
  intros [A B C D E].
  assert (Ele : forall ids, eles_clean h ids) by (intros ids; apply Forall_nodes_at, E).
  assert (Sg : Forall (seg_clean h) (h_seg h)).
  { eapply Forall_impl; [|exact D]. intros n Hn. split; [exact Hn | apply Ele]. }
  assert (St : Forall (st_clean h) (h_st h)).
  { eapply Forall_impl; [|exact C]. intros n Hn. split; [exact Hn | apply Forall_nodes_at, Sg]. }
  assert (Gs : Forall (gs_clean h) (h_gs h)).
  { eapply Forall_impl; [|exact B]. intros n Hn. split; [exact Hn|]. split; [apply Ele | apply Forall_nodes_at, St]. }
  unfold heap_clean. eapply Forall_impl; [|exact A]. intros n Hn. split; [exact Hn|].
  split; [apply Ele | apply Forall_nodes_at, Gs].
Qed.

Corollary all_empty_count h : AllEmpty h -> get_error_count h = 0.
Proof. intros H. apply error_count_zero, all_empty_clean, H. Qed.

(* ------------------------------------------------------------------ *)
(* the calls                                                            *)

Definition Hok (h : errh) : Prop := HInv h /\ AllEmpty h.

Lemma Hok_init : Hok errh_init.
Proof. split; [apply HInv_init | apply AllEmpty_init]. Qed.

(* from the C07 safety lemma: once the call is known to return, invariant and monotonicity come for free *)
Lemma hsafe_ret c h Q h' : hsafe c h Q -> c h = (h', Ok tt) -> HInv h' /\ mono h h' /\ Q h'.
Proof. unfold hsafe. intros H E. rewrite E in H. exact H. Qed.

Ltac ae_solve :=
  repeat match goal with
         | |- Forall _ (_ ++ [_]) => apply Forall_snoc; [|try reflexivity; try assumption]
         | |- Forall _ (upd_nth _ _ _) => apply Forall_upd_nth; [intros ? HH; exact HH|]
         | |- _ => assumption
         end.

Lemma add_isa_loop_ok x src h :
  Hok h -> src_line src <> None -> sid (xs_s x) = Some (l "ISA") ->
  exists h', add_isa_loop x src h = (h', Ok tt) /\ Hok h' /\ mono h h' /\ c_isa h' <> None /\ c_seg h' <> None.
Proof.
  intros [I A] L Hs. destruct (mk_isa_ok x src Hs) as [n [En Ee]].
  assert (R : exists h', add_isa_loop x src h = (h', Ok tt) /\ AllEmpty h').
  { unfold add_isa_loop, se_bind, se_lift, se_mod. rewrite En. eexists. split; [reflexivity|].
    destruct A as [A1 A2 A3 A4 A5]. constructor; cbn; ae_solve. }
  destruct R as [h' [R A']]. exists h'. split; [exact R|].
  destruct (hsafe_ret _ _ _ _ (add_isa_loop_safe x src h I L) R) as (I' & M & Q).
  split; [split; assumption|]. split; [exact M | exact Q].
Qed.

Lemma add_gs_loop_ok x src h :
  Hok h -> src_line src <> None -> c_isa h <> None -> sid (xs_s x) = Some (l "GS") ->
  exists h', add_gs_loop x src h = (h', Ok tt) /\ Hok h' /\ mono h h' /\ c_gs h' <> None /\ c_seg h' <> None.
Proof.
  intros [I A] L C Hs. destruct (mk_gs_ok x src Hs) as [n [En Ee]].
  assert (R : exists h', add_gs_loop x src h = (h', Ok tt) /\ AllEmpty h').
  { unfold add_gs_loop, se_bind, se_get, deref, se_lift, se_mod, mod_isa.
    destruct (c_isa h) as [p|] eqn:Ep; [|congruence]. rewrite En. eexists. split; [reflexivity|].
    destruct A as [A1 A2 A3 A4 A5]. constructor; cbn; ae_solve. }
  destruct R as [h' [R A']]. exists h'. split; [exact R|].
  destruct (hsafe_ret _ _ _ _ (add_gs_loop_safe x src h I L C) R) as (I' & M & Q).
  split; [split; assumption|]. split; [exact M | exact Q].
Qed.

Lemma add_st_loop_ok x src h :
  Hok h -> src_line src <> None -> c_gs h <> None -> sid (xs_s x) = Some (l "ST") ->
  exists h', add_st_loop x src h = (h', Ok tt) /\ Hok h' /\ mono h h' /\ c_st h' <> None /\ c_seg h' <> None.
Proof.
  intros [I A] L C Hs. destruct (mk_st_ok x src Hs) as [n [En Ee]].
  assert (R : exists h', add_st_loop x src h = (h', Ok tt) /\ AllEmpty h').
  { unfold add_st_loop, se_bind, se_get, deref, se_lift, se_mod, mod_gs.
    destruct (c_gs h) as [p|] eqn:Ep; [|congruence]. rewrite En. eexists. split; [reflexivity|].
    destruct A as [A1 A2 A3 A4 A5]. constructor; cbn; ae_solve. }
  destruct R as [h' [R A']]. exists h'. split; [exact R|].
  destruct (hsafe_ret _ _ _ _ (add_st_loop_safe x src h I L C) R) as (I' & M & Q).
  split; [split; assumption|]. split; [exact M | exact Q].
Qed.

Lemma add_seg_ok mn x sc cl ls h :
  Hok h -> exists h', add_seg mn x (Some sc) (Some cl) ls h = (h', Ok tt) /\ Hok h' /\ mono h h' /\ c_seg h' <> None.
Proof.
  intros [I A].
  assert (R : exists h', add_seg mn x (Some sc) (Some cl) ls h = (h', Ok tt) /\ AllEmpty h').
  { unfold add_seg, se_mod. eexists. split; [reflexivity|].
    destruct A as [A1 A2 A3 A4 A5]. constructor; cbn; ae_solve. }
  destruct R as [h' [R A']]. exists h'. split; [exact R|].
  destruct (hsafe_ret _ _ _ _ (add_seg_safe mn x sc cl ls h I) R) as (I' & M & Q).
  split; [split; assumption|]. split; [exact M | exact Q].
Qed.

Lemma add_ele_ok mn h :
  Hok h -> c_seg h <> None ->
  exists h', add_ele mn h = (h', Ok tt) /\ Hok h' /\ mono h h' /\ ele_added h' <> None.
Proof.
  intros [I A] C.
  assert (R : exists h', add_ele mn h = (h', Ok tt) /\ AllEmpty h').
  { unfold add_ele, se_bind, se_get, deref, se_lift, se_mod.
    destruct (c_seg h) as [p|] eqn:Ep; [|congruence]. eexists. split; [reflexivity|].
    destruct A as [A1 A2 A3 A4 A5]. constructor; cbn; ae_solve. }
  destruct R as [h' [R A']]. exists h'. split; [exact R|].
  destruct (hsafe_ret _ _ _ _ (add_ele_safe mn h I C) R) as (I' & M & Q).
  split; [split; assumption|]. split; [exact M | exact Q].
Qed.

Lemma close_isa_loop_ok src h :
  Hok h -> c_isa h <> None ->
  exists h', close_isa_loop src h = (h', Ok tt) /\ Hok h' /\ mono h h' /\ c_seg h' <> None.
Proof.
  intros [I A] C.
  assert (R : exists h', close_isa_loop src h = (h', Ok tt) /\ AllEmpty h').
  { cbv [close_isa_loop se_bind se_get deref se_lift mod_isa se_mod].
    destruct (c_isa h) as [i|] eqn:Ei; [|congruence]. eexists. split; [reflexivity|].
    destruct A as [A1 A2 A3 A4 A5]. constructor; cbn; ae_solve. }
  destruct R as [h' [R A']]. exists h'. split; [exact R|].
  destruct (hsafe_ret _ _ _ _ (close_isa_loop_safe src h I C) R) as (I' & M & Q).
  split; [split; assumption|]. split; [exact M | exact Q].
Qed.

Lemma close_gs_loop_ok x src h :
  Hok h -> c_gs h <> None -> sid (xs_s x) = Some (l "GE") ->
  exists h', close_gs_loop (Some x) src h = (h', Ok tt) /\ Hok h' /\ mono h h' /\ c_seg h' <> None.
Proof.
  intros [I A] C Hs. destruct (ge01_ok x Hs) as [z Ez].
  assert (R : exists h', close_gs_loop (Some x) src h = (h', Ok tt) /\ AllEmpty h').
  { cbv [close_gs_loop se_bind se_get deref se_lift get_gs heap_get mod_gs se_mod].
    destruct (c_gs h) as [i|] eqn:Ei; [|congruence].
    destruct (nth_error_lt _ _ (hv_gs h I i Ei)) as [n En]. rewrite En, Ez. eexists. split; [reflexivity|].
    destruct A as [A1 A2 A3 A4 A5]. constructor; cbn; ae_solve. }
  destruct R as [h' [R A']]. exists h'. split; [exact R|].
  destruct (hsafe_ret _ _ _ _ (close_gs_loop_safe x src h I C) R) as (I' & M & Q).
  split; [split; assumption|]. split; [exact M | exact Q].
Qed.

Lemma close_st_loop_ok src h :
  Hok h -> c_st h <> None ->
  exists h', close_st_loop src h = (h', Ok tt) /\ Hok h' /\ mono h h' /\ c_seg h' <> None.
Proof.
  intros [I A] C.
  assert (R : exists h', close_st_loop src h = (h', Ok tt) /\ AllEmpty h').
  { cbv [close_st_loop se_bind se_get deref se_lift get_st heap_get mod_st se_mod].
    destruct (c_st h) as [i|] eqn:Ei; [|congruence].
    destruct (nth_error_lt _ _ (hv_st h I i Ei)) as [n En]. rewrite En. eexists. split; [reflexivity|].
    destruct A as [A1 A2 A3 A4 A5]. constructor; cbn; ae_solve. }
  destruct R as [h' [R A']]. exists h'. split; [exact R|].
  destruct (hsafe_ret _ _ _ _ (close_st_loop_safe src h I C) R) as (I' & M & Q).
  split; [split; assumption|]. split; [exact M | exact Q].
Qed.

Print Assumptions all_empty_count.
Print Assumptions close_gs_loop_ok.
