(* C19_doc_errors.v — the error nodes handed to the gen_seg calls of a run (Spec/C19_doc_spec.v doc_views), for ANY
   environment; no map fact is used: the handler starts empty and every change goes through its API.

     views_sound     every node handed to a call is, in the error handler at that moment, a node of the error
                     tree (attached below the root, a valid reference): gen_seg finds its error lists and elements
                     there; the handler is a forest (H2) at every call and only grows (ext) up to the end
     views_seg_once  a segment node is handed over AT MOST ONCE in the whole run (in at most one call, once)

   What is FALSE (counterexamples on the shipped maps: Proofs/C19_doc_examples.v): that every error of the final
   tree is handed over at least once / printed. *)
From Coq Require Import String Lia.
From PX.Lib Require Import Base PyStr PyInt.
From PX.Model Require Import Path Segment Raw Reader MapLoad MapTree Walker MapEnv Driver Pipeline.
From PX.Model Require Import Errh ErrIter.
From PX.Spec Require Import C19_spec C19_doc_spec.
From PX.Proofs Require Import C07_errh C07_sink_defs C07_sink_errh C07_sink_iter C19_doc_frame C19_doc_run.

(* ------------------------------------------------------------------ *)
(* A. the nodes of every call are nodes of the tree                     *)

Definition view_sound (v : seg_view) : Prop := H2 (sv_errh v) /\ Forall (vis (sv_errh v)) (sv_nodes v).

Lemma read_line_errh E ln d d' os : read_line E ln d = (d', Ok os) -> ds_errh d' = ds_errh d.
Proof. intros H. apply read_line_inv in H as (x' & es & _ & ->). reflexivity. Qed.

Theorem views_sound E : forall lines d it views d',
  H2 (ds_errh d) -> ItInv (ds_errh d) it ->
  doc_views E lines d it = Ok (views, d') ->
  Forall view_sound views /\ H2 (ds_errh d') /\ ext (ds_errh d) (ds_errh d') /\
  Forall (fun v => ext (sv_errh v) (ds_errh d')) views.
Proof.
  induction lines as [|ln rest IH]; intros d it views d' I V H; cbn [doc_views] in H.
  - injection H as <- <-. split; [constructor|]. split; [exact I|]. split; [apply ext_refl | constructor].
  - destruct (read_line E ln d) as [d1 [os|e]] eqn:ER; [|discriminate H].
    pose proof (read_line_errh _ _ _ _ _ ER) as EH1.
    destruct os as [sg|].
    + destruct (step E sg d1) as [d2 [[]|e]] eqn:ES; [|discriminate H].
      destruct (heading_of (ds_node d2)) as [info|e]; cbn [bind] in H; [|discriminate H].
      destruct (collect_new (ds_errh d2) it) as [it' [nodes|e]] eqn:EC; [|discriminate H].
      destruct (doc_views E rest d2 it') as [[more d3]|e] eqn:EV; cbn [bind fst snd] in H; [|discriminate H].
      injection H as <- <-.
      rewrite <- EH1 in I, V.
      destruct (step_H2 _ _ _ _ ES I) as [I2 X2].
      pose proof (ItInv_ext _ _ _ I I2 X2 V) as V2.
      destruct (collect_new_ok _ _ I2 V2) as (it'' & nodes' & EC' & V3 & F3).
      rewrite EC in EC'. injection EC' as <- <-.
      destruct (IH d2 it' more d3 I2 V3 EV) as (S4 & I4 & X4 & XS).
      split; [constructor; [split; assumption | exact S4]|]. split; [exact I4|].
      split; [rewrite <- EH1; eapply ext_trans; eauto|].
      constructor; [exact X4 | exact XS].
    + rewrite <- EH1 in I, V. destruct (IH d1 it views d' I V H) as (S4 & I4 & X4 & XS).
      split; [exact S4|]. split; [exact I4|]. split; [rewrite <- EH1; exact X4 | exact XS].
Qed.

(* ------------------------------------------------------------------ *)
(* B. a segment node is handed over at most once                        *)

(* a node whose whole chain of ancestors is in the tree *)
Definition deep_att (h : errh) (r : node_ref) : Prop :=
  match r with
  | RRoot => True
  | RIsa i => i < length (h_isa h)
  | RGs g => exists q, gs_parent h g = Some q
  | RSt t => exists p q, st_parent h t = Some p /\ gs_parent h p = Some q
  | RSeg k => exists t p q, seg_holder h k = Some t /\ st_parent h t = Some p /\ gs_parent h p = Some q
  | REle _ => False
  end.

Lemma att_gs h g : attached h (RGs g) -> exists q, gs_parent h g = Some q.
Proof. cbn [attached par]. destruct (gs_parent h g) as [q|]; [eauto | cbn; congruence]. Qed.
Lemma att_st h t : attached h (RSt t) -> exists p, st_parent h t = Some p.
Proof. cbn [attached par]. destruct (st_parent h t) as [q|]; [eauto | cbn; congruence]. Qed.
Lemma att_seg h k : attached h (RSeg k) -> exists t, seg_holder h k = Some t.
Proof. cbn [attached par]. destruct (seg_holder h k) as [q|]; [eauto | cbn; congruence]. Qed.

Lemma ItInv_deep h it : ItInv h it -> deep_att h (it_cur it).
Proof.
  intros (A & S & P).
  assert (F1 : forall x p, In x (it_stack it) -> par h x = Some p -> In p (it_stack it)).
  { intros x p Hx Hp. apply in_rev. apply (SInv_closed h _ S x p); [apply in_rev in Hx; exact Hx | exact Hp]. }
  assert (F2 : forall x, In x (it_stack it) -> attached h x).
  { intros x Hx. apply (SInv_attached h _ S). apply in_rev in Hx. exact Hx. }
  destruct (it_cur it) as [|i|g|t|k|e]; cbn [deep_att].
  - exact I.
  - exact A.
  - exact (att_gs h g A).
  - destruct (att_st h t A) as [p Ep].
    assert (Ip : In (RGs p) (it_stack it)) by (apply P; cbn [par]; rewrite Ep; reflexivity).
    destruct (att_gs h p (F2 _ Ip)) as [q Eq]. eauto.
  - destruct (att_seg h k A) as [t Et].
    assert (It : In (RSt t) (it_stack it)) by (apply P; cbn [par]; rewrite Et; reflexivity).
    destruct (att_st h t (F2 _ It)) as [p Ep].
    assert (Ip : In (RGs p) (it_stack it)) by (apply (F1 (RSt t)); [exact It | cbn [par]; rewrite Ep; reflexivity]).
    destruct (att_gs h p (F2 _ Ip)) as [q Eq]. eauto 6.
  - contradiction.
Qed.

Lemma gsp_ext h h' g q : H2 h -> H2 h' -> ext h h' -> gs_parent h g = Some q -> gs_parent h' g = Some q.
Proof.
  intros I I' X E. pose proof (par_ext h h' (RGs g) (RIsa q) I I' X) as P. cbn [par] in P. rewrite E in P.
  specialize (P eq_refl). destruct (gs_parent h' g); cbn in P; congruence.
Qed.
Lemma stp_ext h h' t p : H2 h -> H2 h' -> ext h h' -> st_parent h t = Some p -> st_parent h' t = Some p.
Proof.
  intros I I' X E. pose proof (par_ext h h' (RSt t) (RGs p) I I' X) as P. cbn [par] in P. rewrite E in P.
  specialize (P eq_refl). destruct (st_parent h' t); cbn in P; congruence.
Qed.
Lemma segh_ext h h' k t : H2 h -> H2 h' -> ext h h' -> seg_holder h k = Some t -> seg_holder h' k = Some t.
Proof.
  intros I I' X E. pose proof (par_ext h h' (RSeg k) (RSt t) I I' X) as P. cbn [par] in P. rewrite E in P.
  specialize (P eq_refl). destruct (seg_holder h' k); cbn in P; congruence.
Qed.

Lemma key_ext h h' r b : H2 h -> H2 h' -> ext h h' -> deep_att h r -> key h' r b = key h r b.
Proof.
  intros I I' X D. destruct r as [|i|g|t|k|e]; cbn [deep_att] in D; try reflexivity.
  - destruct D as (q & Eq). cbn [key]. unfold pgs. rewrite Eq, (gsp_ext h h' g q I I' X Eq). reflexivity.
  - destruct D as (p & q & Ep & Eq). cbn [key]. unfold pst. rewrite Ep, (stp_ext h h' t p I I' X Ep).
    unfold pgs. rewrite Eq, (gsp_ext h h' p q I I' X Eq). reflexivity.
  - destruct D as (t & p & q & Et & Ep & Eq). cbn [key]. unfold pseg. rewrite Et, (segh_ext h h' k t I I' X Et).
    unfold pst. rewrite Ep, (stp_ext h h' t p I I' X Ep).
    unfold pgs. rewrite Eq, (gsp_ext h h' p q I I' X Eq). reflexivity.
Qed.

Lemma deep_ext h h' r : H2 h -> H2 h' -> ext h h' -> deep_att h r -> deep_att h' r.
Proof.
  intros I I' X D. destruct r as [|i|g|t|k|e]; cbn [deep_att] in *; try exact D.
  - exact (attached_ext h h' (RIsa i) I I' X D).
  - destruct D as (q & Eq). exists q. exact (gsp_ext h h' g q I I' X Eq).
  - destruct D as (p & q & Ep & Eq). exists p, q.
    split; [exact (stp_ext h h' t p I I' X Ep) | exact (gsp_ext h h' p q I I' X Eq)].
  - destruct D as (t & p & q & Et & Ep & Eq). exists t, p, q.
    split; [exact (segh_ext h h' k t I I' X Et)|].
    split; [exact (stp_ext h h' t p I I' X Ep) | exact (gsp_ext h h' p q I I' X Eq)].
Qed.

(* the positions of the nodes handed over, in depth-first order: strictly increasing from k0, ending at k1 *)
Fixpoint chain (h : errh) (k0 : key4) (ns : list node_ref) (k1 : key4) : Prop :=
  match ns with
  | [] => k1 = k0
  | r :: rest => exists b, klt k0 (key h r b) /\ chain h (key h r b) rest k1
  end.

Lemma chain_app h a : forall k0 k1 b k2, chain h k0 a k1 -> chain h k1 b k2 -> chain h k0 (a ++ b) k2.
Proof.
  induction a as [|r a IH]; intros k0 k1 b k2 Ha Hb; cbn [chain app] in *.
  - subst k1. exact Hb.
  - destruct Ha as (c & L & Ha). exists c. split; [exact L | eapply IH; eauto].
Qed.

Lemma chain_ext h h' ns : H2 h -> H2 h' -> ext h h' -> Forall (deep_att h) ns ->
  forall k0 k1, chain h k0 ns k1 -> chain h' k0 ns k1.
Proof.
  intros I I' X. induction ns as [|r ns IH]; intros F k0 k1 C; cbn [chain] in *; [exact C|].
  inversion F as [|? ? Dr Fr]; subst. destruct C as (b & L & C).
  exists b. rewrite (key_ext h h' r b I I' X Dr). split; [exact L | apply IH; assumption].
Qed.

Lemma chain_after h ns : forall k0 k1 r, chain h k0 ns k1 -> In r ns -> exists b, klt k0 (key h r b).
Proof.
  induction ns as [|x ns IH]; intros k0 k1 r C Hr; [destruct Hr|].
  cbn [chain] in C. destruct C as (b & L & C). destruct Hr as [<-|Hr]; [eauto|].
  destruct (IH _ _ r C Hr) as (b' & L'). exists b'. eapply klt_trans; eauto.
Qed.

Definition is_seg_ref (r : node_ref) : bool := match r with RSeg _ => true | _ => false end.

Lemma chain_seg_once h ns : forall k0 k1, chain h k0 ns k1 -> NoDup (filter is_seg_ref ns).
Proof.
  induction ns as [|x ns IH]; intros k0 k1 C; cbn [filter]; [constructor|].
  cbn [chain] in C. destruct C as (b & L & C).
  destruct (is_seg_ref x) eqn:S; [|eapply IH; eauto].
  constructor; [|eapply IH; eauto].
  intros Hin. apply filter_In in Hin as [Hin _].
  destruct (chain_after h ns _ _ x C Hin) as (b' & L').
  destruct x as [| | | |k|]; try discriminate S. cbn [key] in L'. exact (klt_irrefl _ L').
Qed.

Lemma collect_fuel_chain h : H2 h -> forall fuel it acc it' nodes,
  ItInv h it -> collect_fuel fuel h it acc = (it', Ok nodes) ->
  exists new, nodes = acc ++ new /\ chain h (st_key h it) new (st_key h it') /\ Forall (deep_att h) new.
Proof.
  intros I. induction fuel as [|f IH]; intros it acc it' nodes V H; cbn [collect_fuel] in H; [discriminate H|].
  pose proof (iter_next_ok h it I V) as N.
  destruct (iter_next h it) as [it1 [| |e]]; cbn [step_post] in N; [| |contradiction].
  - destruct N as (V1 & Vc & K).
    destruct (IH it1 _ it' nodes V1 H) as (new & -> & C & F).
    exists (it_cur it1 :: new). split; [rewrite <- app_assoc; reflexivity|]. split.
    + cbn [chain]. exists (in_stack it1). split; [exact K | exact C].
    + constructor; [apply ItInv_deep; exact V1 | exact F].
  - subst it1. injection H as <- <-. exists []. split; [rewrite app_nil_r; reflexivity|]. split; [reflexivity | constructor].
Qed.

Theorem views_chain E : forall lines d it views d',
  H2 (ds_errh d) -> ItInv (ds_errh d) it ->
  doc_views E lines d it = Ok (views, d') ->
  exists k1, chain (ds_errh d') (st_key (ds_errh d) it) (concat (map sv_nodes views)) k1.
Proof.
  induction lines as [|ln rest IH]; intros d it views d' I V H; cbn [doc_views] in H.
  - injection H as <- <-. eexists. reflexivity.
  - destruct (read_line E ln d) as [d1 [os|e]] eqn:ER; [|discriminate H].
    pose proof (read_line_errh _ _ _ _ _ ER) as EH1.
    destruct os as [sg|].
    + destruct (step E sg d1) as [d2 [[]|e]] eqn:ES; [|discriminate H].
      destruct (heading_of (ds_node d2)) as [info|e]; cbn [bind] in H; [|discriminate H].
      destruct (collect_new (ds_errh d2) it) as [it' [nodes|e]] eqn:EC; [|discriminate H].
      destruct (doc_views E rest d2 it') as [[more d3]|e] eqn:EV; cbn [bind fst snd] in H; [|discriminate H].
      injection H as <- <-.
      rewrite <- EH1 in I, V.
      destruct (step_H2 _ _ _ _ ES I) as [I2 X2].
      pose proof (ItInv_ext _ _ _ I I2 X2 V) as V2.
      destruct (collect_new_ok _ _ I2 V2) as (it'' & nodes' & EC' & V3 & F3).
      rewrite EC in EC'. injection EC' as <- <-.
      unfold collect_new in EC.
      destruct (collect_fuel_chain _ I2 _ _ _ _ _ V2 EC) as (new & EN & C & FD). cbn [app] in EN. subst new.
      destruct (views_sound E rest d2 it' more d3 I2 V3 EV) as (_ & I3 & X3 & _).
      destruct (IH d2 it' more d3 I2 V3 EV) as (k1 & C3).
      exists k1. cbn [map concat sv_nodes].
      apply (chain_app _ _ _ (st_key (ds_errh d2) it')); [|exact C3].
      apply (chain_ext (ds_errh d2) (ds_errh d3) nodes I2 I3 X3 FD).
      assert (EK : st_key (ds_errh d1) it = st_key (ds_errh d2) it).
      { unfold st_key. symmetry. apply key_ext; try assumption. apply ItInv_deep. exact V. }
      rewrite <- EH1, EK. exact C.
    + rewrite <- EH1 in I, V. destruct (IH d1 it views d' I V H) as (k1 & C). exists k1. rewrite <- EH1. exact C.
Qed.

Theorem views_seg_once E lines d it views d' :
  H2 (ds_errh d) -> ItInv (ds_errh d) it ->
  doc_views E lines d it = Ok (views, d') ->
  NoDup (filter is_seg_ref (concat (map sv_nodes views))).
Proof.
  intros I V H. destruct (views_chain E lines d it views d' I V H) as (k1 & C).
  exact (chain_seg_once _ _ _ _ C).
Qed.

(* ------------------------------------------------------------------ *)
(* the run of a document                                                *)

Lemma doc_setup_init load idx text E lines d0 :
  doc_setup load idx text = Ok (E, lines, d0) -> ds_errh d0 = errh_init.
Proof.
  unfold doc_setup. destruct (raw_all _) as [ra|e]; cbn [bind]; [|discriminate].
  destruct (load _) as [cm|e]; cbn [bind]; [|discriminate].
  destruct idx as [ix|e]; cbn [bind]; [|discriminate].
  destruct (getnode cm _) as [n0|e]; cbn [bind]; [|discriminate].
  intros [= _ _ <-]. reflexivity.
Qed.

Theorem doc_nodes :
  forall load idx text E lines d0 views d1,
    doc_setup load idx text = Ok (E, lines, d0) ->
    doc_views E lines d0 iter_init = Ok (views, d1) ->
    Forall view_sound views /\
    NoDup (filter is_seg_ref (concat (map sv_nodes views))) /\
    H2 (ds_errh d1) /\ Forall (fun v => ext (sv_errh v) (ds_errh d1)) views.
Proof.
  intros load idx text E lines d0 views d1 SU EV.
  pose proof (doc_setup_init _ _ _ _ _ _ SU) as E0.
  assert (I0 : H2 (ds_errh d0)) by (rewrite E0; exact H2_init).
  assert (V0 : ItInv (ds_errh d0) iter_init) by apply ItInv_init.
  destruct (views_sound E lines d0 iter_init views d1 I0 V0 EV) as (S & I1 & _ & XS).
  split; [exact S|]. split; [exact (views_seg_once E lines d0 iter_init views d1 I0 V0 EV)|].
  split; assumption.
Qed.

Print Assumptions views_sound.
Print Assumptions views_seg_once.
Print Assumptions doc_nodes.
