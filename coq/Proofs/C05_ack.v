(* C05_ack.v — the CONTENT of the 997 agrees with the error tree (Spec/C05_spec.v). *)
From Coq Require Import String Lia.
From PX.Lib Require Import Base PyStr PyInt.
From PX.Model Require Import Show Path Segment Errh Ack997.
From PX.Spec Require Import C06_spec C05_spec.
From PX.Proofs Require Import C01_roundtrip C11_writer C06_lemmas C06_ack997.
From PX.Proofs Require C06_ack999.

Local Notation l := list_ascii_of_string.
Ltac unl5 := unl; change C05_spec.l with list_ascii_of_string in *.

(* ------------------------------------------------------------------ *)
(* "m writes F(heap) and leaves the heap alone"                        *)
(* ------------------------------------------------------------------ *)
Definition yields {A} (m : SE v997 A) (F : errh -> list seg) : Prop :=
  forall v v' a, m v = (v', Ok a) -> wrote v v' (F (v_h v)) /\ v_h v' = v_h v.

Lemma in_h_get {A} (heap : errh -> list A) i v v' n :
  in_h (dos h <- se_get; heap_get (heap h) i) v = (v', Ok n) ->
  wrote v v' [] /\ v_h v' = v_h v /\ nth_error (heap (v_h v)) i = Some n.
Proof.
  intros H. pose proof (wrote_in_h _ _ _ _ H) as [W _]. split; [exact W|].
  unfold in_h, heap_get, se_bind, se_get, se_lift in H.
  destruct (nth_error (heap (v_h v)) i); [|discriminate]. injection H as <- <-. split; reflexivity.
Qed.

Lemma yields_iter {A} (f : A -> SE v997 unit) (F : A -> errh -> list seg) xs :
  (forall x, yields (f x) (F x)) -> yields (se_iter f xs) (fun h => flat_map (fun x => F x h) xs).
Proof.
  intros Hf. induction xs as [|x r IH]; intros v v' a H; cbn [se_iter] in H.
  - se_inv H. split; [apply wrote_refl|reflexivity].
  - apply bind_ok in H as (v1 & u & H1 & H2). apply Hf in H1 as [W1 E1]. apply IH in H2 as [W2 E2].
    cbn [flat_map]. rewrite E1 in W2. split; [eapply wrote_trans; eauto|congruence].
Qed.

Lemma parse_AK2 : parse_seg D (l "AK2") = {| sid := Some (l "AK2"); els := [] |}. Proof. vm_compute. reflexivity. Qed.
Lemma parse_AK3 : parse_seg D (l "AK3") = {| sid := Some (l "AK3"); els := [] |}. Proof. vm_compute. reflexivity. Qed.
Lemma parse_AK4 : parse_seg D (l "AK4") = {| sid := Some (l "AK4"); els := [] |}. Proof. vm_compute. reflexivity. Qed.
Lemma parse_AK5 : parse_seg D (l "AK5") = {| sid := Some (l "AK5"); els := [] |}. Proof. vm_compute. reflexivity. Qed.
Lemma parse_AK9 : parse_seg D (l "AK9") = {| sid := Some (l "AK9"); els := [] |}. Proof. vm_compute. reflexivity. Qed.
Lemma parse_SE : parse_seg D (l "SE") = {| sid := Some (l "SE"); els := [] |}. Proof. vm_compute. reflexivity. Qed.

Lemma fold_append codes : forall s,
  fold_left (fun acc c => do s <- acc; seg_append s (Some c)) codes (Ok s) =
  Ok {| sid := sid s; els := els s ++ map (split ":"%char) codes |}.
Proof.
  induction codes as [|c r IH]; intros s; cbn [fold_left map].
  - rewrite app_nil_r. destruct s; reflexivity.
  - cbn [bind seg_append]. rewrite IH. cbn [sid els subele_term D]. rewrite <- app_assoc. reflexivity.
Qed.

Lemma visit_st_pre_yields n : yields (visit_st_pre n) (fun _ => [ak2_997 n]).
Proof.
  intros v v' a H. unfold visit_st_pre in H. se_inv H.
  match goal with H : write _ _ = _ |- _ => pose proof (write_h _ _ _ _ H) as EH; apply wrote_write in H end.
  split; [|exact EH].
  r_inv E.
  apply seg_append_ok in Hr as (x & Ex & ->). apply seg_append_ok in Hq0 as (y & Ey & ->). injection Ey as <-.
  unfold ak2_997. rewrite Ex. destruct (tn_ctl n) as [c|]; injection Hr0 as <-;
  unl; rewrite parse_AK2 in Hk; exact Hk.
Qed.

Definition at_ {A B} (heap : list A) (i : nat) (F : A -> list B) : list B :=
  match nth_error heap i with Some n => F n | None => [] end.

Lemma flat_nodes_at {A B} (heap : list A) (F : A -> list B) ids :
  flat_map F (nodes_at heap ids) = flat_map (fun i => at_ heap i F) ids.
Proof.
  unfold nodes_at, at_. induction ids as [|i r IH]; cbn [flat_map]; [reflexivity|].
  rewrite flat_map_app, IH. destruct (nth_error heap i); cbn [flat_map app]; [rewrite app_nil_r|]; reflexivity.
Qed.

Lemma visit_st_post_yields t : yields (visit_st_post t) (fun h => at_ (h_st h) t (fun n => [ak5_997 h n])).
Proof.
  intros v v' a H. unfold visit_st_post in H. apply bind_ok in H as (v1 & n & H1 & H).
  apply (in_h_get h_st) in H1 as (W1 & E1 & N1). apply bind_ok in H as (v2 & vv & H2 & H). se_inv H2.
  unfold at_. rewrite N1. destruct (tn_ack n) as [ack|] eqn:EA; [|se_inv H]. se_inv H.
  match goal with H : write _ _ = _ |- _ => pose proof (write_h _ _ _ _ H) as EH; apply wrote_write in H; rename H into W2 end.
  split; [|congruence].
  r_inv E. cbn [seg_append] in Hr. injection Hr as <-. rewrite fold_append in Hq0. injection Hq0 as <-.
  unfold ak5_997. rewrite EA, <- E1, Hr0. cbn [val okl]. 
  apply (wrote_trans _ _ _ _ _ W1) in W2. exact W2.
Qed.

Ltac ok_inj :=
  repeat match goal with
         | H : fmt_i (Some _) = Ok _ |- _ => cbn [fmt_i] in H; injection H as <-
         | H : seg_append _ (Some _) = Ok _ |- _ => cbn [seg_append] in H; injection H as <-
         | H : Ok _ = Ok _ |- _ => injection H as <-
         end.

Lemma yields_ret {A} (x : A) : yields (se_ret x) (fun _ => []).
Proof. intros v v' a H. se_inv H. split; [apply wrote_refl|reflexivity]. Qed.

Lemma yields_lift_write (r : result seg) : yields (dos s <- se_lift r; write s) (fun _ => [the_seg r]).
Proof.
  intros v v' a H. se_inv H. rewrite E. cbn [the_seg].
  split; [eapply wrote_write; eauto|eapply write_h; eauto].
Qed.

Lemma yields_bind {A B} (m : SE v997 A) (f : A -> SE v997 B) F G :
  yields m F -> (forall a, yields (f a) G) -> yields (se_bind m f) (fun h => F h ++ G h).
Proof.
  intros Hm Hf v v' b H. apply bind_ok in H as (v1 & a & H1 & H2).
  apply Hm in H1 as [W1 E1]. apply Hf in H2 as [W2 E2]. rewrite E1 in W2.
  split; [eapply wrote_trans; eauto|congruence].
Qed.

Lemma yields_ext {A} (m : SE v997 A) F G : (forall h, F h = G h) -> yields m F -> yields m G.
Proof. intros E H v v' a R. rewrite <- E. eapply H; eauto. Qed.

Lemma visit_seg_yields n : yields (visit_seg n) (fun h => ak3s_997 h n).
Proof.
  intros v v' a H. unfold visit_seg in H. apply bind_ok in H as (v0 & vv & H0 & H). se_inv H0.
  apply bind_ok in H as (v1 & seg_str & H1 & H). se_inv H1.
  assert (ES : seg_str = format_seg D (ak3_base n)).
  { r_inv E.
    match goal with H : seg_append _ (sn_seg_id n) = Ok _ |- _ => apply seg_append_ok in H as (x & Ex & ->) end.
    destruct (sn_seg_count n) as [c|] eqn:EC; [|discriminate]. ok_inj.
    unfold ak3_base. rewrite Ex, EC. cbn [val valZ sid els app map mkseg].
    destruct (truthy_s (sn_ls_id n)) eqn:T; [|reflexivity].
    destruct (sn_ls_id n); [reflexivity|discriminate]. }
  subst seg_str. clear E. unfold ak3s_997. apply bind_ok in H as (v1 & u & H1 & H2).
  apply (yields_iter _ (fun cde _ => if mem_str cde valid_AK3_codes then [ak3_997 n cde] else [])) in H1.
  2:{ intros cde. destruct (mem_str cde valid_AK3_codes); [apply yields_lift_write|apply yields_ret]. }
  destruct H1 as [W1 E1].
  assert (Y : wrote v1 v' (if (0 <? seg_child_err_count (v_h v) n) && negb (mem_str (l "8") (seg_error_codes n))
                           then [ak3_997 n (l "8")] else []) /\ v_h v' = v_h v1).
  { destruct (_ && _); [apply yields_lift_write in H2|apply yields_ret in H2]; exact H2. }
  destruct Y as [W2 E2]. split; [eapply wrote_trans; eauto|congruence].
Qed.

Lemma visit_ele_yields e : yields (visit_ele e) (fun _ => ak4s_997 e).
Proof.
  intros v v' a H. unfold visit_ele in H. apply bind_ok in H as (v1 & seg_str & H1 & H). se_inv H1.
  assert (ES : seg_str = format_seg D (ak4_base e)).
  { r_inv E.
    match goal with H : seg_append (parse_seg D _) (Some _) = Ok _ |- _ => cbn [seg_append] in H; injection H as <- end.
    unfold ak4_base.
    destruct (truthy_s (en_ref_num e)) eqn:T.
    - destruct (en_ref_num e) as [r|]; [|discriminate]. ok_inj. reflexivity.
    - ok_inj. reflexivity. }
  subst seg_str. clear E. revert H. unfold ak4s_997.
  apply (yields_iter _ (fun (er : err3) _ => if mem_str (fst (fst er)) valid_AK4_codes then [ak4_997 e er] else [])).
  intros er. destruct (mem_str _ valid_AK4_codes); [|apply yields_ret].
  unfold ak4_997. 
  match goal with |- yields (se_bind (se_lift ?r) _) (fun _ => [the_seg ?r']) => replace r' with r; [apply yields_lift_write|] end.
  unl5. destruct (truthy_s (snd er)) eqn:T; [|reflexivity]. destruct (snd er); [reflexivity|discriminate].
Qed.

Lemma yields_get {A B} (heap : errh -> list A) i (f : A -> SE v997 B) (F : A -> errh -> list seg) :
  (forall n, yields (f n) (F n)) ->
  yields (se_bind (in_h (dos h <- se_get; heap_get (heap h) i)) f) (fun h => at_ (heap h) i (fun n => F n h)).
Proof.
  intros Hf v v' b H. apply bind_ok in H as (v1 & n & H1 & H2).
  apply in_h_get in H1 as (W1 & E1 & N1). apply Hf in H2 as [W2 E2]. unfold at_. rewrite N1, <- E1.
  split; [apply (wrote_trans _ _ _ _ _ W1 W2)|congruence].
Qed.

Lemma accept_seg_yields k : yields (accept_seg k) (fun h => at_ (h_seg h) k (seg_body_997 h)).
Proof.
  unfold accept_seg. apply (yields_get h_seg k _ (fun n h => seg_body_997 h n)). intros n.
  unfold seg_body_997. apply yields_bind; [apply visit_seg_yields|]. intros _.
  eapply yields_ext; [|apply (yields_iter _ (fun e h => at_ (h_ele h) e ak4s_997))].
  - intros h. cbv beta. rewrite flat_nodes_at. reflexivity.
  - intros e. apply (yields_get h_ele e _ (fun en _ => ak4s_997 en)). intros en. apply visit_ele_yields.
Qed.

Lemma accept_st_yields t : yields (accept_st t) (fun h => at_ (h_st h) t (st_body_997 h)).
Proof.
  intros v v' b H. unfold accept_st in H. apply bind_ok in H as (v1 & n & H1 & H2).
  apply (in_h_get h_st) in H1 as (W1 & E1 & N1).
  assert (Y : yields (dos_ visit_st_pre n; dos_ se_iter accept_seg (tn_children n); visit_st_post t)
                     (fun h => [ak2_997 n] ++ flat_map (fun k => at_ (h_seg h) k (seg_body_997 h)) (tn_children n)
                               ++ at_ (h_st h) t (fun n => [ak5_997 h n]))).
  { apply yields_bind; [apply visit_st_pre_yields|intros _; apply yields_bind;
      [apply (yields_iter _ (fun k h => at_ (h_seg h) k (seg_body_997 h))); intros k; apply accept_seg_yields
      |intros _; apply visit_st_post_yields]]. }
  apply Y in H2 as [W2 E2]. rewrite E1 in W2. unfold at_ at 2 in W2. rewrite N1 in W2.
  unfold at_ at 1. rewrite N1. unfold st_body_997. rewrite flat_nodes_at.
  split; [apply (wrote_trans _ _ _ _ _ W1 W2)|congruence].
Qed.

(* ------------------------------------------------------------------ *)
(* the end of a group: AK9 and SE; the ack code is stored               *)
(* ------------------------------------------------------------------ *)
Lemma nth_upd_nth_eq {A} (f : A -> A) : forall xs g x, nth_error xs g = Some x -> nth_error (upd_nth xs g f) g = Some (f x).
Proof.
  induction xs as [|y xs IH]; intros [|g] x H; try discriminate; cbn [upd_nth nth_error] in *.
  - injection H as ->. reflexivity.
  - apply IH. exact H.
Qed.
Lemma upd_nth_same {A} (f : A -> A) : forall xs g x, nth_error xs g = Some x -> f x = x -> upd_nth xs g f = xs.
Proof.
  induction xs as [|y xs IH]; intros [|g] x H E; try discriminate; cbn [upd_nth nth_error] in *.
  - injection H as ->. rewrite E. reflexivity.
  - f_equal. eapply IH; eauto.
Qed.
Lemma set_h_gs_same h : set_h_gs h (h_gs h) = h.
Proof. destruct h; reflexivity. Qed.

Lemma in_h_mod_gs g f v v' u : in_h (mod_gs g f) v = (v', Ok u) ->
  wrote v v' [] /\ v_h v' = set_h_gs (v_h v) (upd_nth (h_gs (v_h v)) g f).
Proof.
  intros H. pose proof (wrote_in_h _ _ _ _ H) as [W _]. split; [exact W|].
  unfold in_h, mod_gs, se_mod in H. injection H as <-. reflexivity.
Qed.

Lemma norm_gs_ack n : gn_ack (norm_gs n) = gs_ack_written n.
Proof. unfold norm_gs, gs_ack_written. destruct (truthy_s (gn_ack n)); reflexivity. Qed.

Lemma norm_gs_fields n :
  gn_orig (norm_gs n) = gn_orig n /\ gn_recv (norm_gs n) = gn_recv n /\ gn_children (norm_gs n) = gn_children n /\
  gn_errors (norm_gs n) = gn_errors n /\ gn_elements (norm_gs n) = gn_elements n /\
  gn_fic (norm_gs n) = gn_fic n /\ gn_ctl (norm_gs n) = gn_ctl n.
Proof. unfold norm_gs. destruct (truthy_s (gn_ack n)); repeat split. Qed.

Lemma get_gs_errors_norm h x n : get_gs_errors (set_h_gs h x) (norm_gs n) = get_gs_errors h n.
Proof.
  destruct (norm_gs_fields n) as (_ & _ & _ & E1 & E2 & _). unfold get_gs_errors. rewrite E1, E2. reflexivity.
Qed.
Lemma failed_st_norm h x n : gs_count_failed_st (set_h_gs h x) (norm_gs n) = gs_count_failed_st h n.
Proof.
  destruct (norm_gs_fields n) as (_ & _ & E1 & _). unfold gs_count_failed_st. rewrite E1. reflexivity.
Qed.

Lemma visit_gs_post_content g v v' u n : nth_error (h_gs (v_h v)) g = Some n -> visit_gs_post g v = (v', Ok u) ->
  wrote v v' [ak9_997 (v_h v) n;
              {| sid := Some (l "SE"); els := [split ":"%char (fmt_Zi (v_seg_count v + 2)); split ":"%char (fmt_04 (v_st_ctl v))] |}]
  /\ v_h v' = set_h_gs (v_h v) (upd_nth (h_gs (v_h v)) g norm_gs).
Proof.
  intros N H. unfold visit_gs_post in H.
  apply bind_ok in H as (v1 & n1 & H1 & H). apply in_h_get_gs in H1 as (W1 & E1 & N1). rewrite N in N1. injection N1 as <-.
  apply bind_ok in H as (v2 & u2 & H2 & H).
  assert (S2 : wrote v1 v2 [] /\ v_h v2 = set_h_gs (v_h v) (upd_nth (h_gs (v_h v)) g norm_gs)).
  { destruct (truthy_s (gn_ack n)) eqn:T.
    - assert (v2 = v1) as -> by (cbn [negb andb] in H2; destruct (negb _); se_inv H2; reflexivity).
      split; [apply wrote_refl|]. rewrite (upd_nth_same norm_gs _ _ _ N), set_h_gs_same; [exact E1|].
      unfold norm_gs. rewrite T. reflexivity.
    - cbn [negb andb] in H2. apply in_h_mod_gs in H2 as [W2 E2]. split; [exact W2|]. rewrite E2, E1.
      f_equal. clear - N T. revert g N. induction (h_gs (v_h v)) as [|y xs IH]; intros [|g] N; try discriminate; cbn [upd_nth nth_error] in *.
      + injection N as ->. unfold norm_gs. rewrite T. reflexivity.
      + f_equal. apply IH. exact N. }
  destruct S2 as [W2 E2]. clear H2.
  apply bind_ok in H as (v3 & n3 & H3 & H). apply in_h_get_gs in H3 as (W3 & E3 & N3).
  rewrite E2 in N3. cbn [h_gs set_h_gs set_heaps] in N3. rewrite (nth_upd_nth_eq norm_gs _ _ _ N) in N3. injection N3 as <-.
  apply bind_ok in H as (v4 & vv & H4 & H). se_inv H4.
  apply bind_ok in H as (v4 & ak9 & H4 & H). se_inv H4.
  apply bind_ok in H as (v5 & u5 & H5 & H). pose proof (write_h _ _ _ _ H5) as E5. apply wrote_write in H5. rename H5 into W5.
  apply bind_ok in H as (v6 & vv & H6 & H). se_inv H6.
  apply bind_ok in H as (v6 & se & H6 & H). se_inv H6.
  pose proof (write_h _ _ _ _ H) as E7. apply wrote_write in H. rename H into W7.
  pose proof (wrote_trans _ _ _ _ _ (wrote_trans _ _ _ _ _ W1 W2) W3) as W. cbn [app] in W.
  assert (A9 : ak9 = ak9_997 (v_h v) n).
  { r_inv E.
    match goal with H : seg_append _ (gn_ack _) = Ok _ |- _ => rewrite norm_gs_ack in H; apply seg_append_ok in H as (x & Ex & ->) end.
    ok_inj.
    match goal with H : get_gs_errors _ _ = Ok ?c |- _ => rename H into G; rename c into codes end.
    match goal with H : fold_left _ _ _ = Ok _ |- _ => rewrite fold_append in H; injection H as <- end.
    unfold ak9_997, gs_accepted. rewrite Ex.
    rewrite E3, E2, get_gs_errors_norm in G. rewrite G. cbn [okl val].
    rewrite E3, E2, failed_st_norm. destruct (norm_gs_fields n) as (-> & -> & _). reflexivity. }
  assert (ASE : se = {| sid := Some (l "SE"); els := [split ":"%char (fmt_Zi (v_seg_count v + 2)); split ":"%char (fmt_04 (v_st_ctl v))] |}).
  { r_inv E0. ok_inj. rewrite (w_cnt _ _ _ W5), (w_cnt _ _ _ W), (w_stc _ _ _ W5), (w_stc _ _ _ W). cbn [length].
    replace (v_seg_count v + Z.of_nat 0 + Z.of_nat 1 + 1)%Z with (v_seg_count v + 2)%Z by lia. reflexivity. }
  subst ak9 se. split.
  - apply (wrote_trans _ _ _ _ _ W) in W5. cbn [app] in W5. apply (wrote_trans _ _ _ _ _ W5) in W7. exact W7.
  - rewrite E7, E5, E3, E2. reflexivity.
Qed.

(* ------------------------------------------------------------------ *)
(* the body never contains an envelope segment                         *)
(* ------------------------------------------------------------------ *)
Lemma body_none els0 : body_seg {| sid := None; els := els0 |}.
Proof. reflexivity. Qed.

Lemma ak3_body n cde : body_seg (ak3_997 n cde).
Proof.
  unfold ak3_997. destruct (seg_set D _ _ cde) as [s|e] eqn:E; cbn [the_seg]; [|apply body_none].
  body_by "AK3"%string. rewrite (seg_set_sid _ _ _ _ _ E). apply reparse_sid; [reflexivity|apply nostar; reflexivity].
Qed.
Lemma ak4_body e er : body_seg (ak4_997 e er).
Proof.
  unfold ak4_997. destruct (seg_set D _ (C05_spec.l "AK403") _) as [s|x] eqn:E; cbn [bind the_seg]; [|apply body_none].
  assert (S : sid s = Some (l "AK4")).
  { rewrite (seg_set_sid _ _ _ _ _ E). apply reparse_sid; [reflexivity|apply nostar; reflexivity]. }
  destruct (truthy_s (snd er)); cbn [the_seg]; [|body_by "AK4"%string; exact S].
  destruct (seg_set D s _ _) as [s'|x] eqn:E'; cbn [the_seg]; [|apply body_none].
  body_by "AK4"%string. rewrite (seg_set_sid _ _ _ _ _ E'). exact S.
Qed.

Lemma Forall_flat_map {A B} (P : B -> Prop) (f : A -> list B) xs : (forall x, Forall P (f x)) -> Forall P (flat_map f xs).
Proof. intros H. induction xs as [|x r IH]; cbn [flat_map]; [constructor|apply Forall_app; auto]. Qed.

Lemma seg_body_is_body h n : Forall body_seg (seg_body_997 h n).
Proof.
  unfold seg_body_997, ak3s_997. apply Forall_app. split; [apply Forall_app; split|].
  - apply Forall_flat_map. intros cde. destruct (mem_str _ _); repeat constructor. apply ak3_body.
  - destruct (_ && _); repeat constructor. apply ak3_body.
  - apply Forall_flat_map. intros e. unfold ak4s_997. apply Forall_flat_map. intros er.
    destruct (mem_str _ _); repeat constructor. apply ak4_body.
Qed.

Lemma st_body_is_body h t : Forall body_seg (st_body_997 h t).
Proof.
  unfold st_body_997. constructor; [body_by "AK2"%string; reflexivity|]. apply Forall_app. split.
  - apply Forall_flat_map. intros n. apply seg_body_is_body.
  - repeat constructor.
Qed.

Lemma gs_body_is_body h g : Forall body_seg (gs_body_997 h g).
Proof.
  unfold gs_body_997. constructor.
  - body_by "AK1"%string. apply (parse_lit_sid (l "AK1")). apply nostar. reflexivity.
  - apply Forall_app. split.
    + apply Forall_flat_map. intros n. apply st_body_is_body.
    + repeat constructor.
Qed.

(* ------------------------------------------------------------------ *)
(* the handler during the run: the original one, some groups normalised *)
(* ------------------------------------------------------------------ *)
Definition grel (a b : gs_node) : Prop := b = a \/ b = norm_gs a.

(* the GS heap with the nodes at the indices `vis` normalised *)
Definition norm_at (vis : list nat) (xs : list gs_node) : list gs_node :=
  mapi_from (fun g n => if existsb (Nat.eqb g) vis then norm_gs n else n) 0 xs.
Definition Good (h : errh) (vis : list nat) (v : v997) : Prop := v_h v = set_h_gs h (norm_at vis (h_gs h)).

Lemma norm_gs_idem n : norm_gs (norm_gs n) = norm_gs n.
Proof.
  unfold norm_gs at 1. rewrite norm_gs_ack. unfold gs_ack_written.
  destruct (truthy_s (gn_ack n)) eqn:T; [rewrite T|]; reflexivity.
Qed.

Lemma grel_upd xs ys g : Forall2 grel xs ys -> Forall2 grel xs (upd_nth ys g norm_gs).
Proof.
  intros F. revert g. induction F as [|a b xs ys R F IH]; intros g; [destruct g; constructor|].
  destruct g as [|g]; cbn [upd_nth]; constructor; auto.
  right. destruct R as [->| ->]; [reflexivity|apply norm_gs_idem].
Qed.

Lemma mapi_from_ext {A B} (f f' : nat -> A -> B) : forall xs k,
  (forall j x, k <= j -> f j x = f' j x) -> mapi_from f k xs = mapi_from f' k xs.
Proof.
  induction xs as [|x r IH]; intros k H; cbn [mapi_from]; [reflexivity|]. rewrite (H k x (le_n k)). f_equal.
  apply IH. intros j y L. apply H. lia.
Qed.

Lemma norm_at_grel vis xs : Forall2 grel xs (norm_at vis xs).
Proof.
  unfold norm_at. generalize 0. induction xs as [|x r IH]; intros k; cbn [mapi_from]; constructor; [|apply IH].
  destruct (existsb _ vis); [right|left]; reflexivity.
Qed.

Lemma existsb_snoc (p : nat -> bool) xs y : existsb p (xs ++ [y]) = existsb p xs || p y.
Proof. rewrite existsb_app. cbn [existsb]. rewrite orb_false_r. reflexivity. Qed.

Lemma upd_norm_at vis g xs : upd_nth (norm_at vis xs) g norm_gs = norm_at (vis ++ [g]) xs.
Proof.
  unfold norm_at. change g with (0 + g) at 2. generalize 0. revert g.
  induction xs as [|x r IH]; intros g k; [destruct g; reflexivity|]. destruct g as [|g]; cbn [upd_nth mapi_from].
  - rewrite existsb_snoc, Nat.add_0_r, Nat.eqb_refl, orb_true_r. f_equal.
    + destruct (existsb _ vis); [apply norm_gs_idem|reflexivity].
    + apply mapi_from_ext. intros j y L. rewrite existsb_snoc. replace (j =? k) with false by (symmetry; apply Nat.eqb_neq; lia).
      rewrite orb_false_r. reflexivity.
  - rewrite existsb_snoc. replace (k =? k + S g) with false by (symmetry; apply Nat.eqb_neq; lia). rewrite orb_false_r. f_equal.
    rewrite IH. replace (S k + g) with (k + S g) by lia. reflexivity.
Qed.

Lemma Forall2_nth {A B} (R : A -> B -> Prop) xs ys : Forall2 R xs ys ->
  forall i b, nth_error ys i = Some b -> exists a, nth_error xs i = Some a /\ R a b.
Proof.
  induction 1 as [|a b xs ys Rab F IH]; intros [|i] b' H; try discriminate; cbn [nth_error] in *.
  - injection H as <-. eauto.
  - eauto.
Qed.

Lemma gs_body_set h x n : gs_body_997 (set_h_gs h x) n = gs_body_997 h n.
Proof. reflexivity. Qed.

Lemma gs_body_norm h n : gs_body_997 h (norm_gs n) = gs_body_997 h n.
Proof.
  destruct (norm_gs_fields n) as (E1 & E2 & E3 & E4 & E5 & E6 & E7).
  unfold gs_body_997, ak1_997, ak9_997, gs_accepted, gs_count_failed_st, get_gs_errors.
  assert (EA : gs_ack_written (norm_gs n) = gs_ack_written n).
  { unfold gs_ack_written at 1. rewrite norm_gs_ack. unfold gs_ack_written.
    destruct (truthy_s (gn_ack n)) eqn:T; [rewrite T|]; reflexivity. }
  rewrite E1, E2, E3, E4, E5, E6, E7, EA. reflexivity.
Qed.

Lemma gs_body_rel h x a b : grel a b -> gs_body_997 (set_h_gs h x) b = gs_body_997 h a.
Proof. rewrite gs_body_set. intros [->| ->]; [reflexivity|apply gs_body_norm]. Qed.

Lemma number_sets_snoc b : forall done k, number_sets k (done ++ [b]) = number_sets k done ++ set_997 (k + length done) b.
Proof.
  induction done as [|x r IH]; intros k; cbn [app number_sets length].
  - rewrite app_nil_r, Nat.add_0_r. reflexivity.
  - rewrite IH, <- app_assoc. replace (S k + length r) with (k + S (length r)) by lia. reflexivity.
Qed.

(* ------------------------------------------------------------------ *)
(* one group node = one set whose body is gs_body_997                  *)
(* ------------------------------------------------------------------ *)
Lemma accept_gs_content h isa gs ctl done vis g v v' u :
  Inv isa gs ctl (length done) (number_sets 1 done) v -> Good h vis v -> accept_gs g v = (v', Ok u) ->
  exists n, nth_error (h_gs h) g = Some n /\
    Inv isa gs ctl (S (length done)) (number_sets 1 (done ++ [gs_body_997 h n])) v' /\ Good h (vis ++ [g]) v'.
Proof.
  intros [I1 I2 I3 I4 I5 I6] HG H. unfold Good in HG. set (gl := norm_at vis (h_gs h)) in *.
  pose proof (norm_at_grel vis (h_gs h)) as FG. fold gl in FG.
  set (k := length done) in *. unfold accept_gs in H.
  apply bind_ok in H as (v1 & n' & H1 & H). apply in_h_get_gs in H1 as (W1 & E1 & N1).
  apply bind_ok in H as (v2 & u2 & H2 & H). rewrite visit_gs_pre_eq in H2. injection H2 as E2.
  apply bind_ok in H as (v3 & u3 & H3 & H).
  apply (yields_iter _ (fun t h => at_ (h_st h) t (st_body_997 h)) _ accept_st_yields) in H3 as [W3 E3].
  assert (HV2 : v_h v2 = v_h v) by (rewrite <- E2; cbn [v_h v_upd]; exact E1).
  assert (N3 : nth_error (h_gs (v_h v3)) g = Some n') by (rewrite E3, HV2; exact N1).
  apply (visit_gs_post_content _ _ _ _ _ N3) in H as [W4 E4].
  pose proof N1 as N0. rewrite HG in N0. cbn [h_gs set_h_gs set_heaps] in N0.
  destruct (Forall2_nth _ _ _ FG _ _ N0) as (n & Nn & R).
  exists n. split; [exact Nn|].
  (* the body *)
  set (ss := flat_map (fun t => at_ (h_st (v_h v2)) t (st_body_997 (v_h v2))) (gn_children n')) in *.
  assert (EB : ak1_seg n' :: ss ++ [ak9_997 (v_h v3) n'] = gs_body_997 h n).
  { rewrite <- (gs_body_rel h gl n n' R). subst ss. rewrite E3, HV2, HG. unfold gs_body_997. rewrite flat_nodes_at. reflexivity. }
  assert (C3 : v_seg_count v3 = Z.of_nat (length ss + 2)).
  { rewrite (w_cnt _ _ _ W3), <- E2. cbn [v_seg_count v_upd]. lia. }
  assert (T3 : v_st_ctl v3 = Z.of_nat (S k)).
  { rewrite (w_stc _ _ _ W3), <- E2. cbn [v_st_ctl v_upd]. rewrite (w_stc _ _ _ W1), I3. lia. }
  rewrite C3, T3 in W4.
  replace (Z.of_nat (length ss + 2) + 2)%Z with (Z.of_nat (length (ak1_seg n' :: ss ++ [ak9_997 (v_h v3) n']) + 2)) in W4
    by (cbn [length]; rewrite app_length; cbn [length]; lia).
  rewrite fmt_Zi_nat, fmt_04_nat, split_dec, split_dec4 in W4.
  assert (ST : st_seg (v_st_ctl v1 + 1) = st_997 (S k)).
  { rewrite (w_stc _ _ _ W1), I3. replace (Z.of_nat k + 1)%Z with (Z.of_nat (S k)) by lia.
    unfold st_seg. rewrite fmt_04_nat. apply parse_ST. }
  rewrite ST in E2. rewrite EB in W4.
  set (body := gs_body_997 h n) in *.
  change {| sid := Some (l "SE"); els := [[dec (length body + 2)]; [dec4 (S k)]] |} with (se_997 (S k) (length body)) in W4.
  rewrite number_sets_snoc. fold k. replace (1 + k) with (S k) by lia.
  split; [constructor|].
  - rewrite (w_out _ _ _ W4), (w_out _ _ _ W3), <- E2. cbn [v_out v_upd]. rewrite (w_out _ _ _ W1), I1.
    unfold set_997. rewrite <- EB.
    cbn [map app]. rewrite !map_app. cbn [map app]. rewrite app_nil_r, <- !app_assoc. cbn [app]. rewrite map_app.
    reflexivity.
  - apply sets_snoc; [exact I2|]. unfold one_set. repeat split; try reflexivity.
    + apply gs_body_is_body.
    + apply (elc_is_intro (st_997 (S k)) 2 _ [dec4 (S k)]); reflexivity.
    + apply (elc_is_intro (se_997 (S k) (length body)) 2 _ [dec4 (S k)]); reflexivity.
    + apply (elc_is_intro (se_997 (S k) (length body)) 1 _ [dec (length body + 2)]); reflexivity.
  - rewrite (w_stc _ _ _ W4). exact T3.
  - rewrite (w_slc _ _ _ W4), (w_slc _ _ _ W3), <- E2. cbn [v_st_loop_count v_upd]. rewrite (w_slc _ _ _ W1), I4. lia.
  - rewrite (w_gseg _ _ _ W4), (w_gseg _ _ _ W3), <- E2. cbn [v_gs_seg v_upd]. rewrite (w_gseg _ _ _ W1). exact I5.
  - rewrite (w_isa _ _ _ W4), (w_isa _ _ _ W3), <- E2. cbn [v_isa_ctl v_upd]. rewrite (w_isa _ _ _ W1). exact I6.
  - unfold Good. rewrite E4, E3, HV2, HG. cbn [h_gs set_h_gs set_heaps]. subst gl. rewrite upd_norm_at. reflexivity.
Qed.

(* ------------------------------------------------------------------ *)
(* all groups of all interchanges                                      *)
(* ------------------------------------------------------------------ *)
Definition InvC h isa gs ctl (done : list (list seg)) (vis : list nat) v : Prop :=
  Inv isa gs ctl (length done) (number_sets 1 done) v /\ Good h vis v.

Lemma iter_gs_content h isa gs ctl : forall ids done vis v v' u,
  InvC h isa gs ctl done vis v -> se_iter accept_gs ids v = (v', Ok u) ->
  InvC h isa gs ctl (done ++ map (gs_body_997 h) (nodes_at (h_gs h) ids)) (vis ++ ids) v'.
Proof.
  induction ids as [|g r IH]; intros done vis v v' u I H; cbn [se_iter] in H.
  - se_inv H. cbn [nodes_at flat_map map]. rewrite !app_nil_r. exact I.
  - apply bind_ok in H as (v1 & u1 & H1 & H2). destruct I as [I G].
    destruct (accept_gs_content _ _ _ _ _ _ _ _ _ _ I G H1) as (n & N & I' & G').
    assert (IC : InvC h isa gs ctl (done ++ [gs_body_997 h n]) (vis ++ [g]) v1).
    { split; [|exact G']. rewrite app_length. cbn [length]. rewrite Nat.add_1_r. exact I'. }
    apply (IH _ _ _ _ _ IC) in H2. unfold nodes_at in *. cbn [flat_map]. rewrite N. cbn [app map].
    rewrite <- !app_assoc in H2. exact H2.
Qed.

Lemma accept_isa_content h isa gs ctl i done vis v v' u :
  InvC h isa gs ctl done vis v -> accept_isa i v = (v', Ok u) ->
  InvC h isa gs ctl (done ++ map (gs_body_997 h) (at_ (h_isa h) i (fun n => nodes_at (h_gs h) (in_children n))))
       (vis ++ at_ (h_isa h) i in_children) v'.
Proof.
  intros [I G] H. unfold accept_isa in H. apply bind_ok in H as (v1 & n & H1 & H2).
  apply in_h_get_isa in H1 as (W1 & E1 & N1).
  assert (IC : InvC h isa gs ctl done vis v1).
  { split; [eapply Inv_wrote_nil; eauto|]. unfold Good in *. congruence. }
  apply (iter_gs_content _ _ _ _ _ _ _ _ _ _ IC) in H2.
  unfold Good in G. rewrite G in N1. cbn [h_isa set_h_gs set_heaps] in N1.
  unfold at_. rewrite N1. exact H2.
Qed.

Lemma iter_isa_content h isa gs ctl : forall ids done vis v v' u,
  InvC h isa gs ctl done vis v -> se_iter accept_isa ids v = (v', Ok u) ->
  InvC h isa gs ctl (done ++ map (gs_body_997 h)
                       (flat_map (fun i => at_ (h_isa h) i (fun n => nodes_at (h_gs h) (in_children n))) ids))
       (vis ++ flat_map (fun i => at_ (h_isa h) i in_children) ids) v'.
Proof.
  induction ids as [|i r IH]; intros done vis v v' u I H; cbn [se_iter] in H.
  - se_inv H. cbn [flat_map map]. rewrite !app_nil_r. exact I.
  - apply bind_ok in H as (v1 & u1 & H1 & H2).
    apply (accept_isa_content _ _ _ _ _ _ _ _ _ _ I) in H1. apply (IH _ _ _ _ _ H1) in H2.
    cbn [flat_map]. rewrite map_app, !app_assoc. exact H2.
Qed.

Lemma flat_at_seq {A B} (F : A -> list B) : forall xs pre,
  flat_map (fun i => at_ (pre ++ xs) i F) (seq (length pre) (length xs)) = flat_map F xs.
Proof.
  induction xs as [|x xs IH]; intros pre; cbn [length seq flat_map]; [reflexivity|].
  unfold at_ at 1. rewrite nth_error_app2 by lia. rewrite Nat.sub_diag. cbn [nth_error]. f_equal.
  specialize (IH (pre ++ [x])). rewrite <- app_assoc, app_length in IH. cbn [app length] in IH.
  rewrite Nat.add_1_r in IH. exact IH.
Qed.

Lemma flat_at_all {A B} (F : A -> list B) xs : flat_map (fun i => at_ xs i F) (seq 0 (length xs)) = flat_map F xs.
Proof. exact (flat_at_seq F xs []). Qed.

(* ------------------------------------------------------------------ *)
(* the header and the trailer leave the handler alone                  *)
(* ------------------------------------------------------------------ *)
Definition keeps {A} (m : SE v997 A) : Prop := forall v v' a, m v = (v', Ok a) -> v_h v' = v_h v.

Lemma keeps_bind {A B} (m : SE v997 A) (f : A -> SE v997 B) : keeps m -> (forall a, keeps (f a)) -> keeps (se_bind m f).
Proof. intros Hm Hf v v' b H. apply bind_ok in H as (v1 & a & H1 & H2). apply Hm in H1. apply Hf in H2. congruence. Qed.
Lemma keeps_get : keeps (@se_get v997).
Proof. intros v v' a H. se_inv H. reflexivity. Qed.
Lemma keeps_lift {A} (r : result A) : keeps (se_lift r).
Proof. intros v v' a H. se_inv H. reflexivity. Qed.
Lemma keeps_deref {A} (o : option A) : keeps (deref o).
Proof. intros v v' a H. se_inv H. reflexivity. Qed.
Lemma keeps_ret {A} (x : A) : keeps (se_ret x).
Proof. intros v v' a H. se_inv H. reflexivity. Qed.
Lemma keeps_write s : keeps (write s).
Proof. intros v v' a H. eapply write_h; eauto. Qed.
Lemma keeps_mod f : (forall v, v_h (f v) = v_h v) -> keeps (se_mod f).
Proof. intros Hf v v' a H. se_inv H. apply Hf. Qed.
Lemma keeps_get_isa i : keeps (in_h (get_isa i)).
Proof. intros v v' a H. apply in_h_get_isa in H as (_ & E & _). exact E. Qed.
Lemma keeps_get_gs i : keeps (in_h (get_gs i)).
Proof. intros v v' a H. apply in_h_get_gs in H as (_ & E & _). exact E. Qed.

Ltac keeps_tac :=
  repeat first [ apply keeps_bind; [|intros ?] | apply keeps_get | apply keeps_lift | apply keeps_deref | apply keeps_ret
               | apply keeps_write | apply keeps_get_isa | apply keeps_get_gs | apply keeps_mod; intros ?; reflexivity ].

Lemma visit_root_pre_keeps ck : keeps (visit_root_pre ck).
Proof. unfold visit_root_pre. keeps_tac. Qed.

Lemma visit_root_post_keeps : keeps visit_root_post.
Proof.
  unfold visit_root_post. keeps_tac.
  match goal with |- keeps (if ?c then _ else _) => destruct c end; keeps_tac.
Qed.

(* ------------------------------------------------------------------ *)
(* the whole run                                                       *)
(* ------------------------------------------------------------------ *)
Definition iea_997 (ck : clock) : seg := parse_seg D (l "IEA*" ++ dec 1 ++ l "*" ++ ctl_of ck).
Definition ge_997 (k : nat) (x6 : str) : seg := parse_seg D (l "GE*" ++ dec k ++ l "*" ++ echo x6).
Definition gs_997 e1 e2 e3 e4 e5 (x6 : str) e7 : seg :=
  {| sid := Some (l "GS"); els := [e1; e2; e3; e4; e5; split ":"%char x6; e7; [l "004010"]] |}.


Lemma norm_at_nil xs : norm_at [] xs = xs.
Proof. unfold norm_at. generalize 0. induction xs as [|x r IH]; intros k; cbn [mapi_from existsb]; [|rewrite IH]; reflexivity. Qed.

Lemma existsb_flat_map {A B} (p : B -> bool) (f : A -> list B) xs :
  existsb p (flat_map f xs) = existsb (fun x => existsb p (f x)) xs.
Proof. induction xs as [|x r IH]; cbn [flat_map existsb]; [reflexivity|]. rewrite existsb_app, IH. reflexivity. Qed.

Lemma norm_at_visited h : set_h_gs h (norm_at (flat_map in_children (h_isa h)) (h_gs h)) = normalise_997 h.
Proof.
  unfold normalise_997, norm_at. f_equal. apply mapi_from_ext. intros g n _. unfold is_visited. rewrite existsb_flat_map. reflexivity.
Qed.

Lemma normalise_997_after h : heap_after h (normalise_997 h).
Proof. rewrite <- norm_at_visited. eexists. split; [reflexivity|]. apply norm_at_grel. Qed.

Lemma run_content ck h h' lines : render_997 ck h = (h', lines, None) ->
  exists isa x6 e1 e2 e3 e4 e5 e7 tail,
    lines = map line_997 (isa :: gs_997 e1 e2 e3 e4 e5 x6 e7 :: number_sets 1 (expected_sets_997 h)
                              ++ ge_997 (length (expected_sets_997 h)) x6 :: tail) /\
    sets_from 1 (number_sets 1 (expected_sets_997 h)) (S (length (expected_sets_997 h))) /\
    has_sid isa "ISA" = true /\ length (els isa) = 16 /\ elc isa 13 = Some (split ":"%char (ctl_of ck)) /\
    gs06_of h = Some x6 /\
    (tail = [iea_997 ck] \/ exists ta1, has_sid ta1 "TA1" = true /\ tail = [ta1; iea_997 ck]) /\
    h' = normalise_997 h.
Proof.
  intros H. unfold render_997 in H. destruct (accept_root ck (v997_init h)) as [v r] eqn:E.
  destruct r as [u|e]; [|discriminate]. injection H as <- <-.
  unfold accept_root in E. apply bind_ok in E as (v1 & u1 & H1 & E).
  pose proof (visit_root_pre_keeps ck _ _ _ H1) as K1. cbn [v_h v997_init] in K1.
  apply visit_root_pre_spec in H1 as (isa & gs & x6 & e1 & e2 & e3 & e4 & e5 & e7 & I0 & A1 & A2 & A3 & EG & G6).
  apply bind_ok in E as (v1' & vv & Hg & E). se_inv Hg.
  apply bind_ok in E as (v2 & u2 & H2 & H3).
  assert (IC0 : InvC h isa gs (ctl_of ck) [] [] v1).
  { split; [exact I0|]. unfold Good. rewrite norm_at_nil, set_h_gs_same. exact K1. }
  apply (iter_isa_content _ _ _ _ _ _ _ _ _ _ IC0) in H2. rewrite K1, !flat_at_all in H2. cbn [app] in H2.
  fold (visited_gs h) in H2. fold (expected_sets_997 h) in H2. destruct H2 as [I2 G2].
  pose proof (visit_root_post_keeps _ _ _ H3) as K3.
  apply (visit_root_post_spec _ _ _ _ _ _ _ _ I2) in H3 as (g06 & tail & G & O & T).
  subst gs. rewrite get_gs06 in G. injection G as <-. fold (echo x6) in O. cbn [show_s] in O.
  exists isa, x6, e1, e2, e3, e4, e5, e7, tail. repeat split; try assumption.
  - exact (i_sets _ _ _ _ _ _ I2).
  - rewrite K3, G2. apply norm_at_visited.
Qed.

(* the content, for every handler state and clock: nothing is assumed *)
Theorem ack997_content_any ck h h' lines :
  render_997 ck h = (h', lines, None) ->
  exists isa gs trailer,
    lines = map line_997 ([isa; gs] ++ number_sets 1 (expected_sets_997 h) ++ trailer) /\
    has_sid isa "ISA" = true /\ has_sid gs "GS" = true /\
    (exists x6, gs06_of h = Some x6 /\
       (trailer = [ge_997 (length (expected_sets_997 h)) x6; iea_997 ck] \/
        exists ta1, has_sid ta1 "TA1" = true /\ trailer = [ge_997 (length (expected_sets_997 h)) x6; ta1; iea_997 ck])) /\
    h' = normalise_997 h.
Proof.
  intros H. apply run_content in H as (isa & x6 & e1 & e2 & e3 & e4 & e5 & e7 & tail & L & _ & A1 & _ & _ & G6 & T & HA).
  exists isa, (gs_997 e1 e2 e3 e4 e5 x6 e7), (ge_997 (length (expected_sets_997 h)) x6 :: tail).
  split; [exact L|]. split; [exact A1|]. split; [reflexivity|]. split; [|exact HA].
  exists x6. split; [exact G6|]. destruct T as [->|(ta1 & T1 & ->)]; [left; reflexivity|right; exists ta1; auto].
Qed.

(* with the hypotheses of C06 the same list of segments passes the envelope recount *)
Theorem ack997_content ck h h' lines :
  clock_ok ck = true -> gs06_ok h = true ->
  render_997 ck h = (h', lines, None) ->
  exists isa gs trailer,
    lines = map line_997 ([isa; gs] ++ number_sets 1 (expected_sets_997 h) ++ trailer) /\
    envelope_ok ([isa; gs] ++ number_sets 1 (expected_sets_997 h) ++ trailer) = true /\
    h' = normalise_997 h.
Proof.
  intros CK GK H. apply run_content in H as (isa & x6 & e1 & e2 & e3 & e4 & e5 & e7 & tail & O & SF & A1 & A2 & A3 & G6 & T & HA).
  set (k := length (expected_sets_997 h)) in *. set (rest := number_sets 1 (expected_sets_997 h)) in *.
  unfold gs06_ok in GK. rewrite G6 in GK. apply tail_ok_E in GK as [GK1 GK2]. apply tail_ok_E in CK as [CK1 CK2].
  unfold ge_997 in O.
  change (l "GE*" ++ dec k ++ l "*" ++ echo x6) with (l "GE" ++ "*"%char :: dec k ++ "*"%char :: echo x6) in O.
  rewrite parse_trailer in O by (try (apply nostar; reflexivity); try reflexivity; assumption).
  assert (IE : iea_997 ck = {| sid := Some (l "IEA"); els := [[dec 1]; split ":"%char (ctl_of ck)] |}).
  { unfold iea_997. change (l "IEA*" ++ dec 1 ++ l "*" ++ ctl_of ck) with (l "IEA" ++ "*"%char :: dec 1 ++ "*"%char :: ctl_of ck).
    apply parse_trailer; try (apply nostar; reflexivity); try reflexivity; assumption. }
  set (gs' := {| sid := Some (l "GS"); els := [e1; e2; e3; e4; e5; keep ele_empty (split ":"%char x6); e7; [l "004010"]] |}).
  assert (L : line_997 (gs_997 e1 e2 e3 e4 e5 x6 e7) = line_997 gs').
  { unfold line_997, gs_997. cbn [sid gs']. f_equal. apply format_seg_like.
    repeat (apply Forall2_cons; [first [apply comp_like_refl|apply comp_like_trim]|]). constructor. }
  set (ge := {| sid := Some (l "GE"); els := [[dec k]; split ":"%char (echo x6)] |}) in *.
  exists isa, gs', (ge :: tail). cbn [app]. split; [|split; [|exact HA]].
  - rewrite O. cbn [map]. rewrite L. reflexivity.
  - apply (envelope_intro isa gs' rest k ge tail).
    + exact A1.
    + exact A2.
    + reflexivity.
    + exact SF.
    + reflexivity.
    + apply (elc_is_intro ge 1 _ [dec k]); reflexivity.
    + unfold elc_same, ge, gs'. cbn [elc els nth_error]. rewrite split_echo. apply comp_eqb_refl.
    + exists (iea_997 ck). split; [|exact T].
      unfold iea_ok. rewrite IE. replace (has_sid _ "IEA") with true by reflexivity.
      rewrite (elc_is_intro _ 1 (dec 1) [dec 1]) by reflexivity. cbn [andb].
      unfold elc_same. rewrite A3. cbn [elc els nth_error].
      apply comp_eqb_refl.
Qed.

(* ================================================================== *)
(* Corollary 1: the AK1 / AK2 lines name every group and every set     *)
(* ================================================================== *)
Lemma filter_flat_map {A B} (p : B -> bool) (f : A -> list B) xs :
  filter p (flat_map f xs) = flat_map (fun x => filter p (f x)) xs.
Proof. induction xs as [|x r IH]; cbn [flat_map]; [reflexivity|]. rewrite filter_app, IH. reflexivity. Qed.

Lemma flat_map_nil {A B} (f : A -> list B) xs : (forall x, f x = []) -> flat_map f xs = [].
Proof. intros H. induction xs as [|x r IH]; cbn [flat_map]; [reflexivity|]. rewrite H, IH. reflexivity. Qed.

Lemma not_ak12 s id : sid s = Some (l id) -> str_eqb (l id) (l "AK1") = false -> str_eqb (l id) (l "AK2") = false -> is_ak12 s = false.
Proof. intros S A B. unfold is_ak12, has_sid. rewrite S. cbn [opt_eqb]. unl5. rewrite A, B. reflexivity. Qed.
Lemma not_ak12_none s : sid s = None -> is_ak12 s = false.
Proof. intros S. unfold is_ak12, has_sid. rewrite S. reflexivity. Qed.
Lemma not_ak12_has s id : has_sid s id = true -> str_eqb (l id) (l "AK1") = false -> str_eqb (l id) (l "AK2") = false -> is_ak12 s = false.
Proof. intros S. apply not_ak12. unfold has_sid in S. destruct (sid s) as [i|]; [|discriminate]. cbn [opt_eqb] in S. apply str_eqb_eq in S. subst i. reflexivity. Qed.

Lemma ak3_not12 n cde : is_ak12 (ak3_997 n cde) = false.
Proof.
  unfold ak3_997. destruct (seg_set D _ _ cde) as [s|e] eqn:E; cbn [the_seg]; [|reflexivity].
  apply (not_ak12 _ "AK3"); try reflexivity.
  rewrite (seg_set_sid _ _ _ _ _ E). apply reparse_sid; [reflexivity|apply nostar; reflexivity].
Qed.
Lemma ak4_not12 e er : is_ak12 (ak4_997 e er) = false.
Proof.
  unfold ak4_997. destruct (seg_set D _ (C05_spec.l "AK403") _) as [s|x] eqn:E; cbn [bind the_seg]; [|reflexivity].
  assert (S : sid s = Some (l "AK4")).
  { rewrite (seg_set_sid _ _ _ _ _ E). apply reparse_sid; [reflexivity|apply nostar; reflexivity]. }
  destruct (truthy_s (snd er)); cbn [the_seg]; [|apply (not_ak12 _ "AK4"); try reflexivity; exact S].
  destruct (seg_set D s _ _) as [s'|x] eqn:E'; cbn [the_seg]; [|reflexivity].
  apply (not_ak12 _ "AK4"); try reflexivity. rewrite (seg_set_sid _ _ _ _ _ E'). exact S.
Qed.

Lemma ak1_is12 g : is_ak12 (ak1_997 g) = true.
Proof.
  unfold is_ak12, has_sid, ak1_997.
  replace (sid _) with (Some (l "AK1")); [reflexivity|]. symmetry. apply (parse_lit_sid (l "AK1")). apply nostar. reflexivity.
Qed.

Lemma seg_body_names h n : filter is_ak12 (seg_body_997 h n) = [].
Proof.
  unfold seg_body_997, ak3s_997. rewrite !filter_app, !filter_flat_map.
  rewrite flat_map_nil, flat_map_nil.
  - destruct (_ && _); cbn [filter app]; [rewrite ak3_not12|]; reflexivity.
  - intros e. unfold ak4s_997. rewrite filter_flat_map. apply flat_map_nil. intros er.
    destruct (mem_str _ _); cbn [filter]; [rewrite ak4_not12|]; reflexivity.
  - intros cde. destruct (mem_str _ _); cbn [filter]; [rewrite ak3_not12|]; reflexivity.
Qed.

Lemma st_body_names h t : filter is_ak12 (st_body_997 h t) = [ak2_997 t].
Proof.
  unfold st_body_997. cbn [filter]. replace (is_ak12 (ak2_997 t)) with true by reflexivity.
  rewrite filter_app, filter_flat_map, flat_map_nil by (intros n; apply seg_body_names). reflexivity.
Qed.

Lemma flat_map_single {A B} (f : A -> B) xs : flat_map (fun x => [f x]) xs = map f xs.
Proof. induction xs as [|x r IH]; cbn [flat_map map app]; [|rewrite IH]; reflexivity. Qed.

Lemma gs_body_names h g : filter is_ak12 (gs_body_997 h g) = ak1_997 g :: map ak2_997 (nodes_at (h_st h) (gn_children g)).
Proof.
  unfold gs_body_997. cbn [filter]. rewrite ak1_is12, filter_app, filter_flat_map.
  rewrite (flat_map_ext _ _ (st_body_names h)), flat_map_single. cbn [filter].
  replace (is_ak12 (ak9_997 h g)) with false by reflexivity. rewrite app_nil_r. reflexivity.
Qed.

Lemma number_sets_names h : forall bodies k,
  filter is_ak12 (number_sets k (map (gs_body_997 h) bodies)) =
  flat_map (fun g => ak1_997 g :: map ak2_997 (nodes_at (h_st h) (gn_children g))) bodies.
Proof.
  induction bodies as [|g r IH]; intros k; cbn [map number_sets flat_map]; [reflexivity|].
  rewrite filter_app, IH. unfold set_997. cbn [filter]. replace (is_ak12 (st_997 k)) with false by reflexivity.
  rewrite filter_app, gs_body_names. cbn [filter]. replace (is_ak12 (se_997 k _)) with false by reflexivity.
  rewrite app_nil_r. reflexivity.
Qed.

Theorem ack_names_every_group_and_set ck h h' lines :
  render_997 ck h = (h', lines, None) ->
  exists segs, lines = map line_997 segs /\ filter is_ak12 segs = names_997 h.
Proof.
  intros H. apply ack997_content_any in H as (isa & gs & trailer & L & A1 & A2 & (x6 & _ & T) & _).
  eexists. split; [exact L|]. rewrite !filter_app. unfold expected_sets_997. rewrite number_sets_names.
  cbn [filter]. rewrite (not_ak12_has isa "ISA" A1), (not_ak12_has gs "GS" A2) by reflexivity. cbn [app].
  fold (names_997 h).
  assert (TE : filter is_ak12 trailer = []).
  { assert (GE : is_ak12 (ge_997 (length (map (gs_body_997 h) (visited_gs h))) x6) = false).
    { apply (not_ak12 _ "GE"); try reflexivity. apply (parse_lit_sid (l "GE")). apply nostar. reflexivity. }
    assert (IE : is_ak12 (iea_997 ck) = false).
    { apply (not_ak12 _ "IEA"); try reflexivity. apply (parse_lit_sid (l "IEA")). apply nostar. reflexivity. }
    unfold expected_sets_997 in T.
    destruct T as [->|(ta1 & T1 & ->)]; cbn [filter]; rewrite GE, IE; [reflexivity|].
    rewrite (not_ak12_has ta1 "TA1" T1) by reflexivity. reflexivity. }
  rewrite TE, app_nil_r. reflexivity.
Qed.

(* ================================================================== *)
(* Corollary 2: a set is accepted iff it has no counted error          *)
(* ================================================================== *)
Definition st_code (h : errh) (t : st_node) : str := if st_err_count h t =? 0 then l "A" else l "R".

(* err_st.close: the ack code is decided by the count at that moment; nothing the count depends on changes *)
Theorem close_st_loop_ack src h i t :
  c_st h = Some i -> nth_error (h_st h) i = Some t ->
  exists h' t', close_st_loop src h = (h', Ok tt) /\ nth_error (h_st h') i = Some t' /\
    tn_ack t' = Some (st_code h t) /\ st_err_count h' t' = st_err_count h t /\
    tn_id t' = tn_id t /\ tn_ctl t' = tn_ctl t /\ tn_children t' = tn_children t /\
    tn_errors t' = tn_errors t /\ tn_elements t' = tn_elements t /\
    h_isa h' = h_isa h /\ h_gs h' = h_gs h /\ h_seg h' = h_seg h /\ h_ele h' = h_ele h /\
    (forall j, j <> i -> nth_error (h_st h') j = nth_error (h_st h) j).
Proof.
  intros C N. unfold close_st_loop. cbv [se_bind se_get deref se_lift get_st heap_get mod_st se_mod]. rewrite C, N.
  eexists _, _. split; [reflexivity|]. cbn [h_st set_cur_seg set_cursors set_h_st set_heaps].
  split; [apply (nth_upd_nth_eq _ _ _ _ N)|].
  repeat split.
  - cbn [tn_ack st_set_close st_upd]. unfold st_code. destruct (st_err_count h t) as [|k]; reflexivity.
  - intros j NE. clear N C. revert i j NE. induction (h_st h) as [|y xs IH]; intros [|i] [|j] NE; cbn [upd_nth nth_error]; try reflexivity; [congruence|].
    apply IH. congruence.
Qed.

Theorem set_accepted_iff_no_counted_error src h i t :
  c_st h = Some i -> nth_error (h_st h) i = Some t ->
  exists h' t', close_st_loop src h = (h', Ok tt) /\ nth_error (h_st h') i = Some t' /\
    (tn_ack t' = Some (l "A") <-> st_err_count h t = 0) /\
    (tn_ack t' = Some (l "R") <-> st_err_count h t <> 0) /\
    (* and that is the code the AK5 of this set carries (AK501), in the 997 of h' or of any later state
       that leaves the node alone *)
    elc_is (ak5_997 h' t') 1 (st_code h t) = true.
Proof.
  intros C N. destruct (close_st_loop_ack src h i t C N) as (h' & t' & R & N' & A & _).
  exists h', t'. split; [exact R|]. split; [exact N'|].
  assert (E5 : elc_is (ak5_997 h' t') 1 (st_code h t) = true).
  { unfold ak5_997. rewrite A. unfold st_code. destruct (st_err_count h t =? 0); reflexivity. }
  rewrite A. unfold st_code in *.
  destruct (st_err_count h t) as [|k]; cbn [Nat.eqb] in *; repeat split; try discriminate; try reflexivity; try congruence; try lia; exact E5.
Qed.

(* ================================================================== *)
(* Corollary 3: the totals of the AK9                                  *)
(* ================================================================== *)
Lemma split_fmt_Zi z : split ":"%char (fmt_Zi z) = [fmt_Zi z].
Proof. apply split_free. apply C06_ack999.fmt_Zi_free. Qed.

Lemma failed_plus_passed h ids :
  length (filter (fun i => match nth_error (h_st h) i with
                           | Some t => negb (match tn_ack t with
                                             | Some a => str_eqb a (l "A") || str_eqb a (l "E")
                                             | None => false
                                             end)
                           | None => false
                           end) ids)
  + length (filter st_passed (nodes_at (h_st h) ids)) = length (nodes_at (h_st h) ids).
Proof.
  unfold nodes_at. induction ids as [|i r IH]; cbn [filter flat_map length]; [reflexivity|].
  rewrite filter_app, !app_length. destruct (nth_error (h_st h) i) as [t|]; cbn [filter length app]; [|exact IH].
  unfold st_passed at 1. unl5. destruct (match tn_ack t with Some a => _ | None => false end); cbn [negb length]; lia.
Qed.

Theorem group_totals h g :
  let sets := nodes_at (h_st h) (gn_children g) in
  (* AK901 .. AK904 *)
  elc (ak9_997 h g) 1 = Some (split ":"%char (val (gs_ack_written g))) /\
  elc_is (ak9_997 h g) 2 (fmt_Zi (gn_orig g)) = true /\
  elc_is (ak9_997 h g) 3 (fmt_Zi (gn_recv g)) = true /\
  elc_is (ak9_997 h g) 4 (fmt_Zi (gs_accepted h g)) = true /\
  (* the failed sets are the children that are not marked "A" / "E" *)
  gs_count_failed_st h g + length (filter st_passed sets) = length sets /\
  (* so AK904 in general ... *)
  gs_accepted h g = Z.max (gn_recv g - (Z.of_nat (length sets) - Z.of_nat (length (filter st_passed sets)))) 0 /\
  (* ... and when the received count is the number of sets of the node *)
  (gn_recv g = Z.of_nat (length sets) -> gs_accepted h g = Z.of_nat (length (filter st_passed sets))).
Proof.
  intros sets. pose proof (failed_plus_passed h (gn_children g)) as F. fold sets in F.
  change (length (filter _ (gn_children g))) with (gs_count_failed_st h g) in F.
  split; [reflexivity|].
  split; [unfold elc_is, ak9_997; cbn [elc els mkseg map app nth_error]; rewrite split_fmt_Zi; apply str_eqb_refl|].
  split; [unfold elc_is, ak9_997; cbn [elc els mkseg map app nth_error]; rewrite split_fmt_Zi; apply str_eqb_refl|].
  split; [unfold elc_is, ak9_997; cbn [elc els mkseg map app nth_error]; rewrite split_fmt_Zi; apply str_eqb_refl|].
  split; [exact F|]. unfold gs_accepted. split; [f_equal; lia|]. intros R. lia.
Qed.

(* where the numbers come from: err_gs.close *)
Theorem close_gs_loop_totals x src h i g z :
  c_gs h = Some i -> nth_error (h_gs h) i = Some g -> ge01_count x = Ok z ->
  exists h' g', close_gs_loop (Some x) src h = (h', Ok tt) /\ nth_error (h_gs h') i = Some g' /\
    gn_orig g' = z /\ gn_recv g' = src_st_count src /\ gn_ack g' = Some (gs_ack_code h g) /\
    gn_children g' = gn_children g /\ gn_errors g' = gn_errors g /\ gn_elements g' = gn_elements g /\
    gn_fic g' = gn_fic g /\ gn_ctl g' = gn_ctl g /\
    h_isa h' = h_isa h /\ h_st h' = h_st h /\ h_seg h' = h_seg h /\ h_ele h' = h_ele h.
Proof.
  intros C N Z0. unfold close_gs_loop. cbv [se_bind se_get deref se_lift get_gs heap_get mod_gs se_mod]. rewrite C, N, Z0.
  eexists _, _. split; [reflexivity|]. cbn [h_gs set_cur_seg set_cursors set_h_gs set_heaps].
  split; [erewrite (nth_upd_nth_eq _ _ _ _ (nth_upd_nth_eq _ _ _ _ N)); reflexivity|].
  repeat split.
Qed.

(* the declared count: GE01 read as an integer, 0 when it is missing or not numeric *)
Theorem ge01_count_meaning x z : ge01_count x = Ok z ->
  (exists s, xget x "GE01" = Ok (Some s) /\ py_int s = Some z) \/
  (z = 0%Z /\ (xget x "GE01" = Ok None \/ exists s, xget x "GE01" = Ok (Some s) /\ py_int s = None)).
Proof.
  unfold ge01_count. destruct (xget x "GE01") as [[s|]|e]; cbn [bind]; [| |discriminate].
  - destruct (py_int s) as [k|] eqn:P; intros H; injection H as <-; [left; eauto|right; split; [reflexivity|right; eauto]].
  - intros H. injection H as <-. right. split; [reflexivity|left; reflexivity].
Qed.

Print Assumptions ack997_content_any.
Print Assumptions ack997_content.
Print Assumptions ack_names_every_group_and_set.
Print Assumptions close_st_loop_ack.
Print Assumptions set_accepted_iff_no_counted_error.
Print Assumptions group_totals.
Print Assumptions close_gs_loop_totals.
Print Assumptions ge01_count_meaning.
Print Assumptions normalise_997_after.
