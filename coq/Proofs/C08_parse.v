(* C08_parse.v — the reader of Spec/C08_parse_spec.v inverts the serialiser of Spec/C08_spec.v:
   xml_read (xml_decl ++ ser 0 evs) = Some (the tree of evs). *)
From Coq Require Import String Lia.
From PX.Lib Require Import Base PyStr Xml.
From PX.Model Require Import Path Segment MapLoad MapTree OutW XmlOut XmlIn.
From PX.Spec Require Import C01_spec C08_spec C08_parse_spec.
From PX.Proofs Require Import C08_lemmas C08_xml.

Local Notation l := C08_spec.l (only parsing).

(* ================================================================== *)
(* 1. scanners                                                         *)

Lemma sweep_impl (p q : ascii -> bool) :
  forallb (fun c => implb (p c) (q c)) all_ascii = true -> forall c, p c = true -> q c = true.
Proof. intros H c P. pose proof (forall_ascii _ H c) as A. cbv beta in A. rewrite P in A. exact A. Qed.

Definition head_fails (p : ascii -> bool) (s : str) : Prop := match s with c :: _ => p c = false | [] => True end.

Lemma span_app p a b : forallb p a = true -> head_fails p b -> span p (a ++ b) = (a, b).
Proof.
  induction a as [|c a IH]; intros A B.
  - cbn [app]. destruct b as [|c b]; [reflexivity|]. cbn [span]. cbn [head_fails] in B. rewrite B. reflexivity.
  - cbn [forallb] in A. apply andb_true_iff in A as [A1 A2]. cbn [app span]. rewrite A1, (IH A2 B). reflexivity.
Qed.

Lemma drop_ws_id s : head_fails is_xws s -> drop_ws s = s.
Proof. destruct s as [|c s]; [reflexivity|]. cbn [head_fails drop_ws]. intros ->. reflexivity. Qed.

Lemma drop_ws_app a b : forallb is_xws a = true -> head_fails is_xws b -> drop_ws (a ++ b) = b.
Proof.
  induction a as [|c a IH]; intros A B; [apply drop_ws_id, B|].
  cbn [forallb] in A. apply andb_true_iff in A as [A1 A2]. cbn [app drop_ws]. rewrite A1. apply IH; assumption.
Qed.

Lemma split1_app q v r : mem_ascii q v = false -> split1 q (v ++ q :: r) = Some (v, r).
Proof.
  induction v as [|c v IH]; intros M.
  - cbn [app split1]. rewrite Ascii.eqb_refl. reflexivity.
  - cbn [mem_ascii] in M. apply orb_false_iff in M as [M1 M2]. cbn [app split1].
    rewrite Ascii.eqb_sym, M1, (IH M2). reflexivity.
Qed.

(* ================================================================== *)
(* 2. decoding undoes the writer's escaping                            *)

Lemma decode_plain c r : Ascii.eqb c cAMP = false -> xml_decode (c :: r) = option_map (cons c) (xml_decode r).
Proof. destruct c as [[] [] [] [] [] [] [] []]; intros H; try discriminate H; reflexivity. Qed.

Lemma decode_cont_c : forall c r, xml_decode (esc_cont_c c ++ r) = option_map (cons c) (xml_decode r).
Proof. intros [[] [] [] [] [] [] [] []] r; reflexivity. Qed.

Lemma decode_attr_c : forall c r, xml_decode (esc_attr_c c ++ r) = option_map (cons c) (xml_decode r).
Proof. intros [[] [] [] [] [] [] [] []] r; reflexivity. Qed.

Lemma decode_flat (f : ascii -> str) :
  (forall c r, xml_decode (f c ++ r) = option_map (cons c) (xml_decode r)) -> forall t, xml_decode (flat_map f t) = Some t.
Proof. intros H t. induction t as [|c t IH]; [reflexivity|]. cbn [flat_map]. rewrite H, IH. reflexivity. Qed.

Lemma decode_noamp s : forallb (fun c => negb (Ascii.eqb c cAMP)) s = true -> xml_decode s = Some s.
Proof.
  induction s as [|c s IH]; intros H; [reflexivity|]. cbn [forallb] in H. apply andb_true_iff in H as [H1 H2].
  apply negb_true_iff in H1. rewrite (decode_plain _ _ H1), (IH H2). reflexivity.
Qed.

(* the strict decoder agrees with the lenient one of Proofs/C08_xml.v on everything the writer escapes *)
Lemma decode_escape_cont t e : escape_cont (Some t) = Some e -> xml_decode e = Some t /\ xml_unescape e = t.
Proof.
  rewrite escape_cont_flat. intros E. injection E as <-. split; [apply decode_flat, decode_cont_c | apply unescape_flat, unescape_cont_c].
Qed.

Lemma decode_escape_attr t e : escape_attr (Some t) = Some e -> xml_decode e = Some t /\ xml_unescape e = t.
Proof.
  rewrite escape_attr_flat. intros E. injection E as <-. split; [apply decode_flat, decode_attr_c | apply unescape_flat, unescape_attr_c].
Qed.

(* ---- character classes of escaped text ---- *)
Lemma flat_all (p q : ascii -> bool) (f : ascii -> str) :
  forallb (fun c => implb (p c) (forallb q (f c))) all_ascii = true ->
  forall t, forallb p t = true -> forallb q (flat_map f t) = true.
Proof.
  intros H t. induction t as [|c t IH]; intros P; [reflexivity|]. cbn [forallb] in P. apply andb_true_iff in P as [P1 P2].
  cbn [flat_map]. rewrite forallb_app, (IH P2), andb_true_r.
  pose proof (forall_ascii _ H c) as Hc. cbv beta in Hc. rewrite P1 in Hc. exact Hc.
Qed.

Lemma flat_all' (q : ascii -> bool) (f : ascii -> str) :
  forallb (fun c => forallb q (f c)) all_ascii = true -> forall t, forallb q (flat_map f t) = true.
Proof.
  intros H t. induction t as [|c t IH]; [reflexivity|]. cbn [flat_map]. rewrite forallb_app, IH, andb_true_r.
  exact (forall_ascii _ H c).
Qed.

Lemma mem_false_forallb c s : forallb (fun x => negb (Ascii.eqb x c)) s = true -> mem_ascii c s = false.
Proof.
  induction s as [|x s IH]; intros H; [reflexivity|]. cbn [forallb] in H. apply andb_true_iff in H as [H1 H2].
  cbn [mem_ascii]. rewrite Ascii.eqb_sym. apply negb_true_iff in H1. rewrite H1, (IH H2). reflexivity.
Qed.

Lemma no_cdata_end s : forallb (fun x => negb (Ascii.eqb x cGT)) s = true -> has_cdata_end s = false.
Proof.
  induction s as [|c s IH]; intros H; [reflexivity|]. cbn [forallb] in H. apply andb_true_iff in H as [H1 H2].
  cbn [has_cdata_end]. rewrite (IH H2), orb_false_r.
  cbn [starts_with C08_parse_spec.l list_ascii_of_string]. destruct (Ascii.eqb "]"%char c); [|reflexivity]. cbn [andb].
  destruct s as [|c2 s]; [reflexivity|]. destruct (Ascii.eqb "]"%char c2); [|reflexivity]. cbn [andb].
  destruct s as [|c3 s]; [reflexivity|]. cbn [forallb] in H2. apply andb_true_iff in H2 as [_ H3]. apply andb_true_iff in H3 as [H3 _].
  apply negb_true_iff in H3. change ">"%char with cGT. rewrite Ascii.eqb_sym, H3. reflexivity.
Qed.

Lemma attr_norm_id v : forallb (fun c => 32 <=? nat_of_ascii c) v = true -> attr_norm v = v.
Proof.
  induction v as [|c v IH]; intros H; [reflexivity|]. cbn [forallb] in H. apply andb_true_iff in H as [H1 H2].
  cbn [attr_norm map]. fold (attr_norm v). rewrite (IH H2). apply Nat.leb_le in H1.
  destruct (Nat.eqb_spec (nat_of_ascii c) 9); [lia|]. destruct (Nat.eqb_spec (nat_of_ascii c) 10); [lia|].
  destruct (Nat.eqb_spec (nat_of_ascii c) 13); [lia|]. reflexivity.
Qed.

(* ================================================================== *)
(* 3. the lexer on the serialiser's output                             *)

Definition text_tok (t : str) : list tok := match t with [] => [] | _ => [TText t] end.

(* the tokens of `w ++ ser d evs`, w the white space already pending *)
Fixpoint toks (w : str) (d : nat) (evs : list xev) : list tok :=
  match evs with
  | [] => text_tok w
  | XOpen n ido :: r => text_tok (w ++ indent d) ++ TOpen n (ev_attrs ido) :: toks NLc (S d) r
  | XClose n :: r => text_tok (w ++ indent (pred d)) ++ TClose n :: toks NLc (pred d) r
  | XLeaf n id t :: r => text_tok (w ++ indent d) ++ TOpen n (id_attrs id) :: text_tok t ++ TClose n :: toks NLc d r
  end.

Definition lt_or_end (s : str) : Prop := match s with c :: _ => c = cLT | [] => True end.

Lemma lt_head_fails s : lt_or_end s -> head_fails (fun x => negb (Ascii.eqb x cLT)) s.
Proof. destruct s as [|c s]; [trivial|]. cbn. intros ->. reflexivity. Qed.

Definition nolt (s : str) : bool := forallb (fun x => negb (Ascii.eqb x cLT)) s.
Definition nogt (s : str) : bool := forallb (fun x => negb (Ascii.eqb x cGT)) s.

(* a run of character data *)
Lemma lex_text e t rest f :
  e <> [] -> nolt e = true -> nogt e = true -> xml_decode e = Some t -> lt_or_end rest ->
  lex (S f) (e ++ rest) = option_map (cons (TText t)) (lex f rest).
Proof.
  intros NE L G D R. destruct e as [|c e]; [congruence|].
  cbn [app lex]. pose proof L as L'. unfold nolt in L'. cbn [forallb] in L'. apply andb_true_iff in L' as [L1 _].
  apply negb_true_iff in L1. rewrite L1.
  change (c :: e ++ rest) with ((c :: e) ++ rest). rewrite (span_app _ _ _ L (lt_head_fails _ R)).
  rewrite (no_cdata_end _ G), D. reflexivity.
Qed.

Lemma option_map_app_nil {A} (o : option (list A)) : option_map (app []) o = o.
Proof. destruct o; reflexivity. Qed.

Lemma ws_nolt u : forallb is_xws u = true -> nolt u = true /\ nogt u = true /\ xml_decode u = Some u.
Proof.
  intros H.
  assert (A : forall c, is_xws c = true -> negb (Ascii.eqb c cLT) && negb (Ascii.eqb c cGT) && negb (Ascii.eqb c cAMP) = true).
  { apply (sweep_impl is_xws (fun c => negb (Ascii.eqb c cLT) && negb (Ascii.eqb c cGT) && negb (Ascii.eqb c cAMP))).
    vm_compute. reflexivity. }
  rewrite forallb_forall in H.
  repeat split; [unfold nolt | unfold nogt | apply decode_noamp]; apply forallb_forall; intros c IN;
    specialize (A c (H c IN)); apply andb_true_iff in A as [A A3]; apply andb_true_iff in A as [A1 A2]; assumption.
Qed.

(* pending white space, then a tag or the end *)
Lemma lex_ws u rest f : forallb is_xws u = true -> lt_or_end rest ->
  lex (length (text_tok u) + f) (u ++ rest) = option_map (app (text_tok u)) (lex f rest).
Proof.
  intros H R. destruct u as [|c u].
  - cbn [text_tok length app Nat.add]. symmetry. apply option_map_app_nil.
  - destruct (ws_nolt _ H) as (A & B & C). cbn [text_tok length Nat.add].
    rewrite (lex_text (c :: u) (c :: u) rest f); [|discriminate|assumption..].
    destruct (lex f rest); reflexivity.
Qed.

Lemma name_ok_cons n : name_ok n = true ->
  exists c n', n = c :: n' /\ is_name_start c = true /\ forallb is_name_char n = true.
Proof.
  destruct n as [|c n']; [discriminate|]. cbn [name_ok]. intros H. apply andb_true_iff in H as [H1 H2].
  exists c, n'. auto.
Qed.

Lemma name_start_not : forall c, is_name_start c = true -> Ascii.eqb c cLT = false /\ Ascii.eqb c cSL = false /\ Ascii.eqb c "!"%char = false.
Proof.
  intros c H.
  pose proof (sweep_impl is_name_start (fun c => negb (Ascii.eqb c cLT) && negb (Ascii.eqb c cSL) && negb (Ascii.eqb c "!"%char)) eq_refl c H) as A.
  cbv beta in A. apply andb_true_iff in A as [A A3]. apply andb_true_iff in A as [A1 A2].
  rewrite negb_true_iff in A1, A2, A3. auto.
Qed.

(* an end tag *)
Lemma lex_close n rest f : name_ok n = true ->
  lex (S f) (cLT :: cSL :: n ++ cGT :: rest) = option_map (cons (TClose n)) (lex f rest).
Proof.
  intros N. destruct (name_ok_cons n N) as (c & n' & -> & NS & NC).
  cbn [lex]. rewrite Ascii.eqb_refl. rewrite Ascii.eqb_refl.
  rewrite (span_app is_name_char (c :: n') (cGT :: rest) NC eq_refl).
  rewrite drop_ws_id by reflexivity. rewrite Ascii.eqb_refl, N. reflexivity.
Qed.

(* the attribute part of a start tag written by XMLWriter: nothing, or id='...' *)
Lemma lex_attrs_none rest f : lex_attrs (S f) (cGT :: rest) [] = Some ([], false, rest).
Proof. reflexivity. Qed.

Lemma esc_attr_props v : attr_val_ok v = true ->
  let e := flat_map esc_attr_c v in
  mem_ascii cSQ e = false /\ mem_ascii cLT e = false /\ attr_norm e = e /\ xml_decode e = Some v.
Proof.
  intros V e. repeat split.
  - apply mem_false_forallb. apply flat_all'. vm_compute. reflexivity.
  - apply mem_false_forallb. apply flat_all'. vm_compute. reflexivity.
  - apply attr_norm_id. unfold e. revert V. unfold attr_val_ok. apply flat_all. vm_compute. reflexivity.
  - apply decode_flat, decode_attr_c.
Qed.

Lemma attr_text_some v : attr_text (Some v) = cSP :: "i"%char :: "d"%char :: cEQ :: cSQ :: flat_map esc_attr_c (unopt v) ++ [cSQ].
Proof. unfold attr_text. rewrite escape_attr_flat. reflexivity. Qed.

Lemma lex_attrs_id v rest f : attr_val_ok (unopt v) = true ->
  lex_attrs (S (S f)) (attr_text (Some v) ++ cGT :: rest) [] = Some (id_attrs v, false, rest).
Proof.
  intros V. destruct (esc_attr_props _ V) as (A & B & C & D). rewrite attr_text_some.
  cbn [app lex_attrs]. change (is_xws cSP) with true. cbv iota.
  cbn [drop_ws]. change (is_xws "i"%char) with false. cbv iota.
  change (Ascii.eqb "i"%char cGT) with false. change (Ascii.eqb "i"%char cSL) with false. cbv iota.
  cbn [starts_ws]. change (is_xws cSP) with true. cbv iota.
  change ("i"%char :: "d"%char :: cEQ :: cSQ :: (flat_map esc_attr_c (unopt v) ++ [cSQ]) ++ cGT :: rest)
    with (["i"%char; "d"%char] ++ (cEQ :: cSQ :: (flat_map esc_attr_c (unopt v) ++ [cSQ]) ++ cGT :: rest)).
  rewrite (span_app is_name_char) by reflexivity.
  change (name_ok ["i"%char; "d"%char]) with true. cbn [existsb negb andb].
  rewrite Ascii.eqb_refl. change (is_quote cSQ) with true. cbn [andb].
  rewrite <- app_assoc. cbn [app]. rewrite (split1_app _ _ _ A). rewrite B, C, D.
  cbn [lex_attrs drop_ws]. change (is_xws cGT) with false. cbv iota. rewrite Ascii.eqb_refl. reflexivity.
Qed.

Lemma lex_attrs_ev ido rest :
  match ido with Some v => attr_val_ok (unopt v) = true | None => True end ->
  lex_attrs (S (length (attr_text ido ++ cGT :: rest))) (attr_text ido ++ cGT :: rest) [] = Some (ev_attrs ido, false, rest).
Proof.
  destruct ido as [v|]; intros V.
  - destruct (length (attr_text (Some v) ++ cGT :: rest)) as [|k] eqn:L.
    + rewrite attr_text_some in L. discriminate L.
    + apply lex_attrs_id, V.
  - reflexivity.
Qed.

Lemma attr_text_head ido rest : head_fails is_name_char (attr_text ido ++ cGT :: rest).
Proof. destruct ido as [v|]; [rewrite attr_text_some|]; reflexivity. Qed.

(* a start tag *)
Lemma lex_open n ido rest f : name_ok n = true ->
  match ido with Some v => attr_val_ok (unopt v) = true | None => True end ->
  lex (S f) (cLT :: n ++ attr_text ido ++ cGT :: rest) = option_map (cons (TOpen n (ev_attrs ido))) (lex f rest).
Proof.
  intros N V. destruct (name_ok_cons n N) as (c & n' & -> & NS & NC). destruct (name_start_not c NS) as (_ & S2 & _).
  cbn [lex app]. rewrite Ascii.eqb_refl, S2.
  change (c :: n' ++ attr_text ido ++ cGT :: rest) with ((c :: n') ++ attr_text ido ++ cGT :: rest).
  rewrite (span_app is_name_char _ _ NC (attr_text_head ido rest)). rewrite N.
  rewrite (lex_attrs_ev ido rest V). reflexivity.
Qed.

Lemma lex_nil f : lex f [] = Some [].
Proof. destruct f; reflexivity. Qed.

Lemma indent_ws d : forallb is_xws (indent d) = true.
Proof. unfold indent. induction (2 * d) as [|k IH]; [reflexivity|]. cbn [repeat forallb]. rewrite IH. reflexivity. Qed.

Lemma ser_open d n ido r : ser d (XOpen n ido :: r) = indent d ++ cLT :: n ++ attr_text ido ++ cGT :: NLc ++ ser (S d) r.
Proof. reflexivity. Qed.
Lemma ser_close d n r : ser d (XClose n :: r) = indent (pred d) ++ cLT :: cSL :: n ++ cGT :: NLc ++ ser (pred d) r.
Proof. reflexivity. Qed.
Lemma ser_leaf d n id t r :
  ser d (XLeaf n id t :: r) =
  indent d ++ cLT :: n ++ attr_text (Some id) ++ cGT :: flat_map esc_cont_c t ++ cLT :: cSL :: n ++ cGT :: NLc ++ ser d r.
Proof. cbn [ser]. rewrite escape_cont_flat. reflexivity. Qed.

Lemma esc_cont_props t : 
  let e := flat_map esc_cont_c t in nolt e = true /\ nogt e = true /\ xml_decode e = Some t.
Proof.
  intros e. repeat split.
  - apply flat_all'. vm_compute. reflexivity.
  - apply flat_all'. vm_compute. reflexivity.
  - apply decode_flat, decode_cont_c.
Qed.

Lemma esc_cont_nil t : flat_map esc_cont_c t = [] -> t = [].
Proof.
  destruct t as [|c t]; [reflexivity|]. cbn [flat_map]. intros H. apply app_eq_nil in H as [H _].
  exfalso. revert H. generalize c. intros [[] [] [] [] [] [] [] []]; discriminate.
Qed.

Lemma lex_leaf_text t rest f : lt_or_end rest ->
  lex (length (text_tok t) + f) (flat_map esc_cont_c t ++ rest) = option_map (app (text_tok t)) (lex f rest).
Proof.
  intros R. destruct t as [|c t].
  - cbn [flat_map text_tok length app Nat.add]. symmetry. apply option_map_app_nil.
  - destruct (esc_cont_props (c :: t)) as (A & B & C). cbn [text_tok length Nat.add].
    rewrite (lex_text _ (c :: t) rest f); [| |assumption..].
    + destruct (lex f rest); reflexivity.
    + intros E. apply esc_cont_nil in E. discriminate E.
Qed.

Lemma ws_app a b : forallb is_xws a = true -> forallb is_xws b = true -> forallb is_xws (a ++ b) = true.
Proof. intros A B. rewrite forallb_app, A, B. reflexivity. Qed.

Theorem lex_ser : forall evs w d f,
  evs_ok evs = true -> forallb is_xws w = true -> length (toks w d evs) <= f ->
  lex f (w ++ ser d evs) = Some (toks w d evs).
Proof.
  induction evs as [|e evs IH]; intros w d f OK W F.
  - cbn [ser toks] in *. replace f with (length (text_tok w) + (f - length (text_tok w))) by lia.
    rewrite (lex_ws w [] _ W I), lex_nil. cbn [option_map]. rewrite app_nil_r. reflexivity.
  - cbn [evs_ok forallb] in OK. apply andb_true_iff in OK as [OKe OK]. fold (evs_ok evs) in OK.
    destruct e as [n ido|n|n id t]; cbn [toks] in F |- *; rewrite ?app_length in F; cbn [length] in F.
    + cbn [ev_ok] in OKe. apply andb_true_iff in OKe as [N V].
      rewrite ser_open, app_assoc.
      replace f with (length (text_tok (w ++ indent d)) + S (f - length (text_tok (w ++ indent d)) - 1)) by lia.
      rewrite (lex_ws (w ++ indent d)); [|exact (ws_app _ _ W (indent_ws d))|reflexivity].
      rewrite lex_open; [|exact N|destruct ido; [exact V|exact I]].
      rewrite (IH NLc (S d)); [reflexivity|exact OK|reflexivity|lia].
    + cbn [ev_ok] in OKe.
      rewrite ser_close, app_assoc.
      replace f with (length (text_tok (w ++ indent (pred d))) + S (f - length (text_tok (w ++ indent (pred d))) - 1)) by lia.
      rewrite (lex_ws (w ++ indent (pred d))); [|exact (ws_app _ _ W (indent_ws _))|reflexivity].
      rewrite lex_close by exact OKe.
      rewrite (IH NLc (pred d)); [reflexivity|exact OK|reflexivity|lia].
    + cbn [ev_ok] in OKe. apply andb_true_iff in OKe as [OKe T]. apply andb_true_iff in OKe as [N V].
      rewrite ser_leaf, app_assoc.
      rewrite app_length in F; cbn [length] in F.
      replace f with (length (text_tok (w ++ indent d)) + S (length (text_tok t) + S (f - length (text_tok (w ++ indent d)) - length (text_tok t) - 2))) by lia.
      rewrite (lex_ws (w ++ indent d)); [|exact (ws_app _ _ W (indent_ws d))|reflexivity].
      rewrite (lex_open n (Some id)); [|exact N|exact V].
      rewrite (lex_leaf_text t); [|reflexivity].
      rewrite lex_close by exact N.
      rewrite (IH NLc d); [|exact OK|reflexivity|lia].
      reflexivity.
Qed.

(* ================================================================== *)
(* 4. the builder on those tokens                                      *)

(* the builder's frame for an open element of the event fold: below the top every frame has already received the
   white space in front of its first child; the top one has it iff it has a child *)
Definition frame_of (depth : nat) (top : bool) (tf : tframe) : frame :=
  match tf with
  | (n, a, kids) =>
      {| f_name := n; f_attrs := a;
         f_text := if top && match kids with [] => true | _ => false end then None else Some (NLc ++ indent (S depth));
         f_kids := kids |}
  end.

Fixpoint frames_of (top : bool) (tst : list tframe) : list frame :=
  match tst with
  | [] => []
  | tf :: r => frame_of (length r) top tf :: frames_of false r
  end.

Lemma add_text_child dep tf : add_text (frame_of dep true tf) (NLc ++ indent (S dep)) = frame_of dep false tf.
Proof. destruct tf as [[n a] [|k kids]]; reflexivity. Qed.

Lemma add_kid_frame dep tf e :
  add_kid (frame_of dep false tf) e = frame_of dep true (fst (fst tf), snd (fst tf), e :: snd tf).
Proof. destruct tf as [[n a] kids]; reflexivity. Qed.

Lemma close_after_text dep n a kids :
  close_frame (add_text (frame_of dep true (n, a, kids)) (NLc ++ indent dep)) = close_tframe dep (n, a, kids).
Proof. destruct kids; reflexivity. Qed.

Lemma text_tok_nl x : text_tok (NLc ++ x) = [TText (NLc ++ x)].
Proof. reflexivity. Qed.

Lemma build_sim : forall evs tst t, tst <> [] -> tree_of_aux tst evs = Some t ->
  build (frames_of true tst) None (toks NLc (length tst) evs) = Some t.
Proof.
  induction evs as [|e evs IH]; intros tst t NE H; [discriminate H|].
  destruct tst as [|tf st']; [congruence|]. clear NE.
  destruct e as [n ido|n|n id tx]; cbn [toks]; rewrite text_tok_nl; cbn [app length pred].
  - cbn [tree_of_aux] in H. cbn [frames_of build]. rewrite add_text_child.
    specialize (IH ((n, ev_attrs ido, []) :: tf :: st') t ltac:(discriminate) H).
    cbn [length frames_of frame_of andb] in IH. exact IH.
  - destruct tf as [[pn pa] pk]. cbn [tree_of_aux] in H.
    destruct (str_eqb pn n) eqn:EN; [|discriminate H].
    cbn [frames_of build]. rewrite close_after_text.
    assert (NM : f_name (add_text (frame_of (length st') true (pn, pa, pk)) (NLc ++ indent (length st'))) = pn)
      by (destruct pk; reflexivity).
    rewrite NM, EN.
    destruct st' as [|[[qn qa] qk] st''].
    + destruct evs; [|discriminate H]. injection H as <-. reflexivity.
    + cbn [frames_of]. rewrite add_kid_frame. cbn [fst snd].
      specialize (IH ((qn, qa, close_tframe (length ((qn, qa, qk) :: st'')) (pn, pa, pk) :: qk) :: st'') t ltac:(discriminate) H).
      cbn [length frames_of] in IH. exact IH.
  - destruct tf as [[pn pa] pk]. cbn [tree_of_aux] in H.
    cbn [frames_of build]. rewrite add_text_child.
    specialize (IH ((pn, pa, leaf_tree n id tx :: pk) :: st') t ltac:(discriminate) H).
    cbn [length frames_of] in IH.
    destruct tx as [|c tx]; cbn [text_tok app build add_text f_kids f_text f_name f_attrs];
      rewrite str_eqb_refl; rewrite add_kid_frame; exact IH.
Qed.

Lemma text_tok_ws w : forallb is_xws w = true -> forall root r, build [] root (text_tok w ++ r) = build [] root r.
Proof. intros W root r. destruct w as [|c w]; [reflexivity|]. cbn [text_tok app build]. rewrite W. reflexivity. Qed.

Theorem build_toks w evs t : forallb is_xws w = true -> tree_of evs = Some t -> build [] None (toks w 0 evs) = Some t.
Proof.
  intros W H. unfold tree_of in H. destruct evs as [|[n ido|n|n id tx] evs]; try discriminate H.
  cbn [toks]. change (indent 0) with (@nil ascii). rewrite app_nil_r, (text_tok_ws w W). cbn [build].
  cbn [tree_of_aux] in H. exact (build_sim evs [(n, ev_attrs ido, [])] t ltac:(discriminate) H).
Qed.

(* ================================================================== *)
(* 5. fuel, characters, prolog: the whole reader                       *)

Lemma text_tok_len u : length (text_tok u) <= length u /\ length (text_tok u) <= 1.
Proof. destruct u; cbn [text_tok length]; lia. Qed.

Ltac lens := change (length NLc) with 1 in *; repeat (progress (rewrite ?app_length in *; cbn [length] in * )).

Lemma toks_length : forall evs w d, length (toks w d evs) <= length (w ++ ser d evs).
Proof.
  induction evs as [|e evs IH]; intros w d.
  - cbn [toks ser]. rewrite app_nil_r. apply text_tok_len.
  - destruct e as [n ido|n|n id t]; cbn [toks].
    + rewrite ser_open. specialize (IH NLc (S d)). pose proof (text_tok_len (w ++ indent d)) as [T _]. lens. lia.
    + rewrite ser_close. specialize (IH NLc (pred d)). pose proof (text_tok_len (w ++ indent (pred d))) as [T _]. lens. lia.
    + rewrite ser_leaf. specialize (IH NLc d). pose proof (text_tok_len (w ++ indent d)) as [T _].
      pose proof (text_tok_len t) as [_ T2]. lens. lia.
Qed.

Lemma indent_chars d : forallb text_char_ok (indent d) = true.
Proof. unfold indent. induction (2 * d) as [|k IH]; [reflexivity|]. cbn [repeat forallb]. rewrite IH. reflexivity. Qed.

Lemma name_chars_ok n : forallb is_name_char n = true -> forallb text_char_ok n = true.
Proof.
  intros H. apply forallb_forall. intros c IN. rewrite forallb_forall in H.
  exact (sweep_impl is_name_char text_char_ok eq_refl c (H c IN)).
Qed.

Lemma name_ok_chars n : name_ok n = true -> forallb text_char_ok n = true.
Proof. intros N. destruct (name_ok_cons n N) as (c & n' & _ & _ & NC). apply name_chars_ok, NC. Qed.

Lemma attr_text_chars ido :
  match ido with Some v => attr_val_ok (unopt v) = true | None => True end -> forallb text_char_ok (attr_text ido) = true.
Proof.
  destruct ido as [v|]; intros V; [|reflexivity]. rewrite attr_text_some.
  change (cSP :: "i"%char :: "d"%char :: cEQ :: cSQ :: flat_map esc_attr_c (unopt v) ++ [cSQ])
    with ([cSP; "i"%char; "d"%char; cEQ; cSQ] ++ flat_map esc_attr_c (unopt v) ++ [cSQ]).
  rewrite !forallb_app. rewrite (flat_all (fun c => 32 <=? nat_of_ascii c) text_char_ok esc_attr_c eq_refl _ V). reflexivity.
Qed.

Ltac fa := unfold NLc; repeat (progress (rewrite ?forallb_app; cbn [forallb app])).

Lemma ser_chars : forall evs d, evs_ok evs = true -> forallb text_char_ok (ser d evs) = true.
Proof.
  induction evs as [|e evs IH]; intros d OK; [reflexivity|].
  cbn [evs_ok forallb] in OK. apply andb_true_iff in OK as [OKe OK]. fold (evs_ok evs) in OK.
  destruct e as [n ido|n|n id t]; cbn [ev_ok] in OKe.
  - apply andb_true_iff in OKe as [N V]. rewrite ser_open. fa.
    rewrite indent_chars, (name_ok_chars n N), attr_text_chars, (IH _ OK) by (destruct ido; [exact V|exact I]). reflexivity.
  - rewrite ser_close. fa. rewrite indent_chars, (name_ok_chars n OKe), (IH _ OK). reflexivity.
  - apply andb_true_iff in OKe as [OKe T]. apply andb_true_iff in OKe as [N V]. rewrite ser_leaf. fa.
    rewrite indent_chars, (name_ok_chars n N), (attr_text_chars (Some id) V), (IH _ OK).
    rewrite (flat_all text_char_ok text_char_ok esc_cont_c eq_refl _ T). reflexivity.
Qed.

Lemma norm_eol_id s : forallb text_char_ok s = true -> norm_eol s = s.
Proof.
  induction s as [|c s IH]; intros H; [reflexivity|]. cbn [forallb] in H. apply andb_true_iff in H as [H1 H2].
  cbn [norm_eol]. pose proof (sweep_impl text_char_ok (fun c => negb (nat_of_ascii c =? 13)) eq_refl c H1) as A.
  cbv beta in A. apply negb_true_iff in A. rewrite A, (IH H2). reflexivity.
Qed.

Lemma text_xml_chars s : forallb text_char_ok s = true -> forallb xml_char_ok s = true.
Proof.
  intros H. apply forallb_forall. intros c IN. rewrite forallb_forall in H.
  exact (sweep_impl text_char_ok xml_char_ok eq_refl c (H c IN)).
Qed.

(* the serialised events begin with the root's start tag *)
Lemma tree_of_root evs t : tree_of evs = Some t -> exists n ido r, evs = XOpen n ido :: r.
Proof. destruct evs as [|[n ido|n|n id tx] r]; try discriminate. eauto. Qed.

Lemma skip_decl_written s : skip_decl (xml_decl ++ s) = Some (NLc ++ s).
Proof. reflexivity. Qed.

Lemma skip_doctype_none w n ido r : forallb is_xws w = true -> name_ok n = true ->
  skip_doctype (w ++ ser 0 (XOpen n ido :: r)) = Some (ser 0 (XOpen n ido :: r)).
Proof.
  intros W N. destruct (name_ok_cons n N) as (c & n' & -> & NS & _). destruct (name_start_not c NS) as (_ & _ & S3).
  unfold skip_doctype. rewrite ser_open. change (indent 0) with (@nil ascii). cbn [app].
  rewrite drop_ws_app; [|exact W|reflexivity].
  cbn [starts_with C08_parse_spec.l list_ascii_of_string app]. rewrite Ascii.eqb_sym in S3. rewrite S3.
  change (Ascii.eqb "<"%char cLT) with true. reflexivity.
Qed.

(* ------------------------------------------------------------------ *)
(* B: the reader inverts the serialiser                                *)
Theorem xml_read_serialised evs t :
  evs_ok evs = true -> tree_of evs = Some t -> xml_read (xml_decl ++ ser 0 evs) = Some t.
Proof.
  intros OK T. unfold xml_read.
  assert (CH : forallb text_char_ok (xml_decl ++ ser 0 evs) = true)
    by (rewrite forallb_app, (ser_chars evs 0 OK); reflexivity).
  rewrite (norm_eol_id _ CH), (text_xml_chars _ CH), skip_decl_written.
  destruct (tree_of_root evs t T) as (n & ido & r & E).
  assert (N : name_ok n = true).
  { subst evs. cbn [evs_ok forallb ev_ok] in OK. apply andb_true_iff in OK as [OK _]. apply andb_true_iff in OK as [OK _]. exact OK. }
  rewrite E, (skip_doctype_none NLc n ido r eq_refl N), <- E.
  change (ser 0 evs) with ([] ++ ser 0 evs) at 2.
  rewrite (lex_ser evs [] 0 _ OK eq_refl).
  - apply build_toks; [reflexivity | exact T].
  - pose proof (toks_length evs [] 0). cbn [app] in *. lia.
Qed.

(* with the DOCTYPE line XMLWriter.doctype writes (x12xml_simple when a dtd_urn is given) *)
Definition doctype_line (root : str) (pubid : option str) (sysid : str) : str :=
  match pubid with
  | None => l "<!DOCTYPE " ++ root ++ l " SYSTEM '" ++ sysid ++ l "'>" ++ NLc
  | Some p => l "<!DOCTYPE " ++ root ++ l " PUBLIC '" ++ p ++ l "' '" ++ sysid ++ l "'>" ++ NLc
  end.

(* a literal of the DOCTYPE line: printable, without the characters that end it or open a subset *)
Definition literal_ok (v : str) : bool :=
  forallb (fun c => text_char_ok c && negb (mem_ascii c [cGT; cLT; "["%char; cSQ; cDQ])) v.

Lemma count_char_app c a b : count_char c (a ++ b) = count_char c a + count_char c b.
Proof. unfold count_char. rewrite filter_app, app_length. reflexivity. Qed.

Lemma literal_props v : literal_ok v = true ->
  forallb text_char_ok v = true /\ mem_ascii cGT v = false /\ mem_ascii cLT v = false /\ mem_ascii "["%char v = false /\
  count_char cSQ v = 0 /\ count_char cDQ v = 0.
Proof.
  induction v as [|c v IH]; intros H; [repeat split|]. cbn [literal_ok forallb] in H. apply andb_true_iff in H as [H1 H2].
  destruct (IH H2) as (A & B & C & D & E & F). apply andb_true_iff in H1 as [H0 H1].
  cbn [mem_ascii orb negb] in H1. rewrite orb_false_r in H1. apply negb_true_iff in H1.
  apply orb_false_iff in H1 as [G1 H1]. apply orb_false_iff in H1 as [G2 H1]. apply orb_false_iff in H1 as [G3 H1].
  apply orb_false_iff in H1 as [G4 G5].
  cbn [forallb mem_ascii]. unfold count_char in *. cbn [filter].
  rewrite H0, A, B, C, D. rewrite (Ascii.eqb_sym cGT), (Ascii.eqb_sym cLT), (Ascii.eqb_sym "["%char), (Ascii.eqb_sym cSQ), (Ascii.eqb_sym cDQ).
  rewrite G1, G2, G3, G4, G5. repeat split; auto.
Qed.

Lemma split1_gt d r : mem_ascii cGT d = false -> split1 cGT (d ++ cGT :: r) = Some (d, r).
Proof. apply split1_app. Qed.

Lemma mem_ascii_app c a b : mem_ascii c (a ++ b) = mem_ascii c a || mem_ascii c b.
Proof. induction a as [|x a IH]; [reflexivity|]. cbn [app mem_ascii]. rewrite IH, orb_assoc. reflexivity. Qed.

Lemma skip_doctype_written root pubid sysid s :
  literal_ok root = true -> match pubid with Some p => literal_ok p = true | None => True end -> literal_ok sysid = true ->
  skip_doctype (NLc ++ doctype_line root pubid sysid ++ s) = Some (NLc ++ s).
Proof.
  intros R P S. destruct (literal_props _ R) as (_ & R1 & R2 & R3 & R4 & R5).
  destruct (literal_props _ S) as (_ & S1 & S2 & S3 & S4 & S5).
  unfold skip_doctype.
  assert (E : exists d, doctype_line root pubid sysid ++ s = l "<!DOCTYPE" ++ d ++ cGT :: NLc ++ s /\
            mem_ascii cGT d = false /\ mem_ascii "["%char d = false /\ mem_ascii cLT d = false /\
            Nat.odd (count_char cSQ d) = false /\ Nat.odd (count_char cDQ d) = false).
  { destruct pubid as [p|].
    - destruct (literal_props _ P) as (_ & P1 & P2 & P3 & P4 & P5).
      exists ([cSP] ++ root ++ l " PUBLIC '" ++ p ++ l "' '" ++ sysid ++ [cSQ]). split.
      + unfold doctype_line. repeat (progress (rewrite <- ?app_assoc; cbn [C08_spec.l list_ascii_of_string app])). reflexivity.
      + rewrite !mem_ascii_app, !count_char_app, R1, R2, R3, R4, R5, P1, P2, P3, P4, P5, S1, S2, S3, S4, S5.
        repeat split; reflexivity.
    - exists ([cSP] ++ root ++ l " SYSTEM '" ++ sysid ++ [cSQ]). split.
      + unfold doctype_line. repeat (progress (rewrite <- ?app_assoc; cbn [C08_spec.l list_ascii_of_string app])). reflexivity.
      + rewrite !mem_ascii_app, !count_char_app, R1, R2, R3, R4, R5, S1, S2, S3, S4, S5.
        repeat split; reflexivity. }
  destruct E as (d & E & D1 & D2 & D3 & D4 & D5). rewrite E.
  change (drop_ws (NLc ++ l "<!DOCTYPE" ++ d ++ cGT :: NLc ++ s)) with (l "<!DOCTYPE" ++ d ++ cGT :: NLc ++ s).
  change (starts_with (C08_parse_spec.l "<!DOCTYPE") (l "<!DOCTYPE" ++ d ++ cGT :: NLc ++ s)) with true. cbv iota.
  change (skipn 9 (l "<!DOCTYPE" ++ d ++ cGT :: NLc ++ s)) with (d ++ cGT :: NLc ++ s).
  rewrite (split1_gt _ _ D1), D2, D3, D4, D5. reflexivity.
Qed.

Lemma doctype_chars root pubid sysid :
  literal_ok root = true -> match pubid with Some p => literal_ok p = true | None => True end -> literal_ok sysid = true ->
  forallb text_char_ok (doctype_line root pubid sysid) = true.
Proof.
  intros R P S. destruct (literal_props _ R) as (R0 & _). destruct (literal_props _ S) as (S0 & _).
  unfold doctype_line. destruct pubid as [p|].
  - destruct (literal_props _ P) as (P0 & _). rewrite !forallb_app, R0, P0, S0. reflexivity.
  - rewrite !forallb_app, R0, S0. reflexivity.
Qed.

Theorem xml_read_serialised_doctype root pubid sysid evs t :
  literal_ok root = true -> match pubid with Some p => literal_ok p = true | None => True end -> literal_ok sysid = true ->
  evs_ok evs = true -> tree_of evs = Some t ->
  xml_read (xml_decl ++ doctype_line root pubid sysid ++ ser 0 evs) = Some t.
Proof.
  intros R P S OK T. unfold xml_read.
  assert (CH : forallb text_char_ok (xml_decl ++ doctype_line root pubid sysid ++ ser 0 evs) = true)
    by (rewrite !forallb_app, (ser_chars evs 0 OK), (doctype_chars _ _ _ R P S); reflexivity).
  rewrite (norm_eol_id _ CH), (text_xml_chars _ CH), skip_decl_written, (skip_doctype_written _ _ _ _ R P S).
  rewrite (lex_ser evs NLc 0 _ OK eq_refl).
  - apply build_toks; [reflexivity | exact T].
  - pose proof (toks_length evs NLc 0). lia.
Qed.

(* ------------------------------------------------------------------ *)
(* the tree is defined for balanced events with one root               *)
Lemma tree_of_aux_defined : forall evs (st : list tframe),
  st <> [] -> balanced (map (fun f => fst (fst f)) st) evs = true -> one_root_aux (length st) evs = true ->
  exists t, tree_of_aux st evs = Some t.
Proof.
  induction evs as [|e evs IH]; intros st NE B O; [discriminate O|].
  destruct st as [|[[pn pa] pk] st']; [congruence|]. clear NE.
  destruct e as [n ido|n|n id tx]; cbn [tree_of_aux balanced one_root_aux map fst length] in *.
  - apply (IH ((n, ev_attrs ido, []) :: (pn, pa, pk) :: st')); [discriminate|exact B|exact O].
  - apply andb_true_iff in B as [B1 B2]. rewrite B1.
    destruct st' as [|[[qn qa] qk] st''].
    + destruct evs; [eauto|discriminate O].
    + apply (IH ((qn, qa, close_tframe (length ((qn, qa, qk) :: st'')) (pn, pa, pk) :: qk) :: st'')); [discriminate|exact B2|exact O].
  - apply (IH ((pn, pa, leaf_tree n id tx :: pk) :: st')); [discriminate|exact B|exact O].
Qed.

Theorem tree_of_defined evs : balanced [] evs = true -> one_root evs = true -> exists t, tree_of evs = Some t.
Proof.
  intros B O. destruct evs as [|[n ido|n|n id tx] evs]; try discriminate O.
  unfold tree_of. cbn [tree_of_aux balanced one_root] in *.
  apply (tree_of_aux_defined evs [(n, ev_attrs ido, [])]); [discriminate|exact B|exact O].
Qed.

(* B in the form asked for: balanced, one root, names / attribute values / text that XML can carry *)
Theorem xml_read_inverts_ser evs :
  balanced [] evs = true -> one_root evs = true -> evs_ok evs = true ->
  exists t, tree_of evs = Some t /\ xml_read (xml_decl ++ ser 0 evs) = Some t.
Proof.
  intros B O OK. destruct (tree_of_defined evs B O) as (t & T). exists t. split; [exact T|]. apply xml_read_serialised; assumption.
Qed.

Print Assumptions lex_ser.
Print Assumptions build_toks.
Print Assumptions xml_read_serialised.
Print Assumptions xml_read_serialised_doctype.
Print Assumptions tree_of_defined.
Print Assumptions xml_read_inverts_ser.
Print Assumptions decode_escape_cont.
Print Assumptions decode_escape_attr.
