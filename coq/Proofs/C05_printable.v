(* C05_printable.v — when the 997 visitor completes, nothing it prints was missing: no dangling index below an
   ISA node, every set has id / control number / ack code, every segment node has id and position.  So the
   defaults `val` / `valZ` of Spec/C05_spec.v are never used on a heap for which a 997 exists (and `the_seg` /
   `okl` never at all: C05_forms.v). *)
From Coq Require Import String Lia.
From PX.Lib Require Import Base PyStr PyInt.
From PX.Model Require Import Show Path Segment Errh Ack997.
From PX.Spec Require Import C06_spec C05_spec.
From PX.Proofs Require Import C01_roundtrip C11_writer C06_lemmas C06_ack997 C05_ack.

Local Notation l := list_ascii_of_string.

(* "if m completes, the heap it started on satisfies P" *)
Definition req {A} (m : SE v997 A) (P : errh -> Prop) : Prop := forall v v' a, m v = (v', Ok a) -> P (v_h v).

Lemma yields_keeps {A} (m : SE v997 A) F : yields m F -> keeps m.
Proof. intros Y v v' a H. apply Y in H as [_ E]. exact E. Qed.

Lemma req_bind {A B} (m : SE v997 A) (f : A -> SE v997 B) (P Q : errh -> Prop) :
  keeps m -> req m P -> (forall a, req (f a) Q) -> req (se_bind m f) (fun h => P h /\ Q h).
Proof.
  intros K Hm Hf v v' b H. apply bind_ok in H as (v1 & a & H1 & H2).
  split; [eapply Hm; eauto|]. rewrite <- (K _ _ _ H1). eapply Hf; eauto.
Qed.

Lemma req_true {A} (m : SE v997 A) : req m (fun _ => True).
Proof. intros v v' a H. exact I. Qed.

Lemma req_iter {A} (f : A -> SE v997 unit) (P : A -> errh -> Prop) xs :
  (forall x, keeps (f x)) -> (forall x, req (f x) (P x)) -> req (se_iter f xs) (fun h => Forall (fun x => P x h) xs).
Proof.
  intros K Hf. induction xs as [|x r IH]; intros v v' a H; cbn [se_iter] in H; [constructor|].
  apply bind_ok in H as (v1 & u & H1 & H2). constructor; [eapply Hf; eauto|].
  rewrite <- (K _ _ _ _ H1). eapply IH; eauto.
Qed.

Lemma req_get {A B} (heap : errh -> list A) i (f : A -> SE v997 B) (P : A -> errh -> Prop) :
  (forall n, req (f n) (P n)) ->
  req (se_bind (in_h (dos h <- se_get; heap_get (heap h) i)) f) (fun h => idx_ok (heap h) (fun n => P n h) i).
Proof.
  intros Hf v v' b H. apply bind_ok in H as (v1 & n & H1 & H2). apply in_h_get in H1 as (_ & E1 & N1).
  exists n. split; [exact N1|]. rewrite <- E1. eapply Hf; eauto.
Qed.

(* ------------------------------------------------------------------ *)
(* the leaves                                                          *)
(* ------------------------------------------------------------------ *)
Lemma visit_st_pre_req n : req (visit_st_pre n) (fun _ => tn_id n <> None).
Proof.
  intros v v' a H. unfold visit_st_pre in H. se_inv H. r_inv E.
  match goal with H : seg_append _ (tn_id n) = Ok _ |- _ => apply seg_append_ok in H as (x & -> & _) end.
  discriminate.
Qed.

Lemma visit_seg_req n : req (visit_seg n) (fun _ => sn_seg_id n <> None /\ sn_seg_count n <> None).
Proof.
  intros v v' a H. unfold visit_seg in H. apply bind_ok in H as (v0 & vv & H0 & H). se_inv H0.
  apply bind_ok in H as (v1 & seg_str & H1 & _). se_inv H1. r_inv E.
  match goal with H : seg_append _ (sn_seg_id n) = Ok _ |- _ => apply seg_append_ok in H as (x & -> & _) end.
  destruct (sn_seg_count n); [split; discriminate|discriminate].
Qed.

Lemma visit_st_post_req t : req (visit_st_post t) (fun h => idx_ok (h_st h) (fun n => tn_ack n <> None) t).
Proof.
  intros v v' a H. unfold visit_st_post in H. apply bind_ok in H as (v1 & n & H1 & H).
  apply (in_h_get h_st) in H1 as (_ & E1 & N1). apply bind_ok in H as (v2 & vv & H2 & H). se_inv H2.
  exists n. split; [exact N1|]. destruct (tn_ack n); [discriminate|se_inv H].
Qed.

Lemma accept_seg_req k : req (accept_seg k) (fun h => idx_ok (h_seg h) (seg_printable h) k).
Proof.
  unfold accept_seg.
  assert (R : forall n, req (dos_ visit_seg n; se_iter (fun e => dos en <- in_h (get_ele e); visit_ele en) (sn_elements n))
                            (fun h => seg_printable h n)).
  { intros n v v' a H.
    pose proof (req_bind _ _ _ _ (yields_keeps _ _ (visit_seg_yields n)) (visit_seg_req n)
                  (fun _ => req_iter _ (fun e h => idx_ok (h_ele h) (fun _ => True) e) (sn_elements n)
                     (fun e => yields_keeps _ _ (yields_get h_ele e _ (fun en _ => ak4s_997 en) visit_ele_yields))
                     (fun e => req_get h_ele e _ (fun _ _ => True) (fun en => req_true _))) _ _ _ H) as [[A B] C].
    repeat split; assumption. }
  exact (req_get h_seg k _ (fun n h => seg_printable h n) R).
Qed.

Lemma accept_st_req t : req (accept_st t) (fun h => idx_ok (h_st h) (st_printable h) t).
Proof.
  intros v v' b H. unfold accept_st in H. apply bind_ok in H as (v1 & n & H1 & H2).
  apply (in_h_get h_st) in H1 as (_ & E1 & N1). exists n. split; [exact N1|]. rewrite <- E1.
  apply bind_ok in H2 as (v2 & u2 & H2 & H3). apply bind_ok in H3 as (v3 & u3 & H3 & H4).
  pose proof (visit_st_pre_req _ _ _ _ H2) as A.
  pose proof (yields_keeps _ _ (visit_st_pre_yields n) _ _ _ H2) as K2.
  pose proof (req_iter _ (fun k h => idx_ok (h_seg h) (seg_printable h) k) _
                (fun k => yields_keeps _ _ (accept_seg_yields k)) accept_seg_req _ _ _ H3) as C. rewrite K2 in C.
  pose proof (yields_keeps _ _ (yields_iter _ _ _ accept_seg_yields) _ _ _ H3) as K3.
  destruct (visit_st_post_req _ _ _ _ H4) as (n' & N' & D). rewrite K3, K2, E1, N1 in N'. injection N' as <-.
  repeat split; assumption.
Qed.

(* ------------------------------------------------------------------ *)
(* groups, interchanges, the run                                       *)
(* ------------------------------------------------------------------ *)
(* the handler during the run differs from the original only in ack codes of GS nodes *)
Definition same_tree (h hv : errh) : Prop :=
  h_isa hv = h_isa h /\ h_st hv = h_st h /\ h_seg hv = h_seg h /\ h_ele hv = h_ele h /\
  map gn_children (h_gs hv) = map gn_children (h_gs h).

Lemma same_tree_refl h : same_tree h h.
Proof. repeat split. Qed.

Lemma st_ok_same h hv t : same_tree h hv -> idx_ok (h_st hv) (st_printable hv) t -> idx_ok (h_st h) (st_printable h) t.
Proof.
  intros (E1 & E2 & E3 & E4 & E5). unfold idx_ok, st_printable, seg_printable. rewrite E2, E3, E4. auto.
Qed.

Lemma map_nth {A B} (f : A -> B) : forall xs ys i y, map f ys = map f xs -> nth_error ys i = Some y ->
  exists x, nth_error xs i = Some x /\ f x = f y.
Proof.
  induction xs as [|x xs IH]; intros [|y' ys] i y E H; try discriminate; [destruct i; discriminate|].
  cbn [map] in E. injection E as E0 E. destruct i as [|i]; cbn [nth_error] in *.
  - injection H as <-. eauto.
  - eapply IH; eauto.
Qed.

Lemma norm_gs_children n : gn_children (norm_gs n) = gn_children n.
Proof. unfold norm_gs. destruct (truthy_s (gn_ack n)); reflexivity. Qed.

Lemma map_upd_nth' {A B} (p : A -> B) (f : A -> A) : (forall x, p (f x) = p x) -> forall xs i, map p (upd_nth xs i f) = map p xs.
Proof.
  intros H. induction xs as [|x xs IH]; intros [|i]; cbn [upd_nth map]; try reflexivity; [rewrite H|rewrite IH]; reflexivity.
Qed.

Lemma accept_gs_req h g v v' u : same_tree h (v_h v) -> accept_gs g v = (v', Ok u) ->
  idx_ok (h_gs h) (gs_printable h) g /\ same_tree h (v_h v').
Proof.
  intros ST H. unfold accept_gs in H.
  apply bind_ok in H as (v1 & nd' & H1 & H). apply in_h_get_gs in H1 as (_ & E1 & N1).
  apply bind_ok in H as (v2 & u2 & H2 & H). rewrite visit_gs_pre_eq in H2. injection H2 as E2.
  apply bind_ok in H as (v3 & u3 & H3 & H4).
  assert (HV2 : v_h v2 = v_h v) by (rewrite <- E2; cbn [v_h v_upd]; exact E1).
  pose proof (req_iter _ (fun t h => idx_ok (h_st h) (st_printable h) t) _
                (fun t => yields_keeps _ _ (accept_st_yields t)) accept_st_req _ _ _ H3) as C. rewrite HV2 in C.
  pose proof (yields_keeps _ _ (yields_iter _ _ _ accept_st_yields) _ _ _ H3) as K3.
  assert (N3 : nth_error (h_gs (v_h v3)) g = Some nd') by (rewrite K3, HV2; exact N1).
  apply (visit_gs_post_content _ _ _ _ _ N3) in H4 as [_ E4].
  destruct ST as (S1 & S2 & S3 & S4 & S5).
  destruct (map_nth gn_children _ _ _ _ S5 N1) as (nd & Nn & EC).
  split.
  - exists nd. split; [exact Nn|]. unfold gs_printable. rewrite EC. revert C. apply Forall_impl. intros t.
    apply st_ok_same. repeat split; assumption.
  - rewrite E4, K3, HV2. cbn [h_isa h_gs h_st h_seg h_ele set_h_gs set_heaps]. repeat split; try assumption.
    cbn [h_gs set_h_gs set_heaps]. rewrite (map_upd_nth' gn_children norm_gs norm_gs_children). exact S5.
Qed.

Lemma accept_isa_req h i v v' u : same_tree h (v_h v) -> accept_isa i v = (v', Ok u) ->
  idx_ok (h_isa h) (fun n => Forall (idx_ok (h_gs h) (gs_printable h)) (in_children n)) i /\ same_tree h (v_h v').
Proof.
  intros ST H. unfold accept_isa in H. apply bind_ok in H as (v1 & n & H1 & H2).
  apply in_h_get_isa in H1 as (_ & E1 & N1). rewrite <- E1 in ST.
  assert (X : Forall (idx_ok (h_gs h) (gs_printable h)) (in_children n) /\ same_tree h (v_h v')).
  { clear N1 E1. revert v1 ST H2. induction (in_children n) as [|g r IH]; intros v1 ST H2; cbn [se_iter] in H2.
    - se_inv H2. split; [constructor|exact ST].
    - apply bind_ok in H2 as (v2 & u2 & Ha & Hb). destruct (accept_gs_req _ _ _ _ _ ST Ha) as [A ST2].
      destruct (IH _ ST2 Hb) as [B ST3]. split; [constructor; assumption|exact ST3]. }
  destruct X as [A B]. split; [|exact B]. exists n. split; [|exact A].
  destruct ST as (S1 & _). rewrite E1 in S1. rewrite <- S1. exact N1.
Qed.

Lemma idx_all {A} (P : A -> Prop) : forall (xs pre : list A),
  Forall (idx_ok (pre ++ xs) P) (seq (length pre) (length xs)) -> Forall P xs.
Proof.
  induction xs as [|x xs IH]; intros pre H; cbn [length seq] in H; [constructor|].
  inversion H as [|? ? (n & N & Pn) H']; subst. rewrite nth_error_app2 in N by lia. rewrite Nat.sub_diag in N. injection N as <-.
  constructor; [exact Pn|]. apply (IH (pre ++ [x])). rewrite <- app_assoc, app_length. cbn [app length]. rewrite Nat.add_1_r. exact H'.
Qed.

Theorem render_997_printable ck h h' lines : render_997 ck h = (h', lines, None) -> printable_997 h.
Proof.
  intros H. unfold render_997 in H. destruct (accept_root ck (v997_init h)) as [v r] eqn:E.
  destruct r as [u|e]; [|discriminate]. clear H.
  unfold accept_root in E. apply bind_ok in E as (v1 & u1 & H1 & E).
  pose proof (visit_root_pre_keeps ck _ _ _ H1) as K1. cbn [v_h v997_init] in K1.
  apply bind_ok in E as (v1' & vv & Hg & E). se_inv Hg. apply bind_ok in E as (v2 & u2 & H2 & _).
  rewrite K1 in H2. assert (ST : same_tree h (v_h v1)) by (rewrite K1; apply same_tree_refl). clear K1 H1.
  unfold printable_997. apply (idx_all _ (h_isa h) []). cbn [app length].
  revert v1 ST H2. induction (seq 0 (length (h_isa h))) as [|i r IH]; intros v1 ST H2; cbn [se_iter] in H2; [constructor|].
  apply bind_ok in H2 as (v3 & u3 & Ha & Hb). destruct (accept_isa_req _ _ _ _ _ ST Ha) as [A ST2].
  constructor; [exact A|]. eapply IH; eauto.
Qed.

Print Assumptions render_997_printable.
