(* C0203_segment.v — the segment-level halves of C02 (a conformant segment is accepted with no
   error) and C03 (a single faulty element is rejected, and every error is filed under that
   element with a code its definition implies; one element too many gives exactly one error "3").
   Definitions of conformance: Spec/C0203_spec.v. *)
From Coq Require Import String.
From PX.Lib Require Import Base PyStr PyInt Regex Xml.
From PX.Model Require Import Path Segment Syntax Validation MapLoad MapTree Element.
From PX.Spec Require Import C13_spec C13_dec C14_spec C15_spec C15_link C07_valid_wf C0203_spec.
From PX.Spec Require C16_spec.
From PX.Proofs Require Import C13_main C14_syntax C15_element C07_valid.

(* ================================================================== *)
(* 1. one element                                                      *)

Lemma type_code_cases t : type_code t = cs "8" \/ type_code t = cs "9" \/ type_code t = cs "6".
Proof.
  unfold type_code. destruct t as [x|]; [|auto].
  destruct (mem_str x _); [auto|]. destruct (str_eqb x (cs "TM")); auto.
Qed.

Lemma qualified_code_cases ch fs v q : qualified_code ch fs v = Some q -> q = cs "9" \/ q = cs "8".
Proof.
  unfold qualified_code. destruct fs as [|f fs]; [discriminate|].
  destruct (existsb _ (f :: fs)); [discriminate|].
  destruct (existsb _ (f :: fs)); [intros H; injection H as <-; auto|].
  destruct (existsb _ (f :: fs)); [intros H; injection H as <-; auto | discriminate].
Qed.

(* `implies` holds of the eight standard codes only *)
Lemma implies_all_codes ch iv d fs v code : implies ch iv d fs v code = true -> In code all_codes.
Proof.
  unfold implies. cbv zeta.
  assert (E : forall k, str_eqb code (cs k) = true -> In (cs k) all_codes -> In code all_codes).
  { intros k H. apply str_eqb_eq in H. subst. auto. }
  destruct (match match v with Some x => x | None => [] end with [] => true | _ => false end).
  { intros H. apply andb_true_iff in H as [H _].
    apply (E "1"%string H). cbn. auto. }
  destruct (C15_spec.usage_is (d_usage d) "N").
  { intros H. apply (E "10"%string H). cbn. tauto. }
  rewrite !orb_true_iff. intros [[[[[[[H|H]|H]|H]|H]|H]|H]|H].
  - apply andb_true_iff in H as [H _]. apply (E "4"%string H). cbn. tauto.
  - apply andb_true_iff in H as [H _]. apply (E "5"%string H). cbn. tauto.
  - apply andb_true_iff in H as [H _]. apply (E "6"%string H). cbn. tauto.
  - apply andb_true_iff in H as [H _]. apply (E "6"%string H). cbn. tauto.
  - apply andb_true_iff in H as [H _]. apply (E "7"%string H). cbn. tauto.
  - apply andb_true_iff in H as [H _]. apply str_eqb_eq in H. subst code.
    destruct (type_code_cases (d_type d)) as [T|[T|T]]; rewrite T; cbn; tauto.
  - destruct (qualified_code ch fs _) as [q|] eqn:Q; [|discriminate]. apply str_eqb_eq in H. subst code.
    destruct (qualified_code_cases _ _ _ _ Q) as [T|T]; rewrite T; cbn; tauto.
  - apply andb_true_iff in H as [H _]. apply (E "7"%string H). cbn. tauto.
Qed.

(* the boolean draws_nothing says: no code whatever is implied *)
Lemma draws_nothing_iff c e pc fs v :
  draws_nothing c e pc fs v = true <-> forall code, draws c e pc fs v code = false.
Proof.
  unfold draws_nothing. rewrite forallb_forall. split.
  - intros H code. destruct (draws c e pc fs v code) eqn:D; [|reflexivity].
    specialize (H code (implies_all_codes _ _ _ _ _ _ D)). rewrite D in H. discriminate.
  - intros H code _. rewrite H. reflexivity.
Qed.

Lemma dict_entry_ok c e de : get_by_elem_num (x_de c) (e_data_ele e) = Ok de -> dict_entry c e = de.
Proof. unfold dict_entry. intros ->. reflexivity. Qed.

Lemma codes_nil_no_err evs : codes_of evs = [] <-> no_err evs = true.
Proof.
  induction evs as [|[i|code m v r] evs IH]; cbn; [tauto | exact IH |]. split; discriminate.
Qed.

(* what element_if.is_valid reports on a value, against the clauses — for every element node a
   well-formed map can contain (including not-used nodes without a dictionary entry), and without
   any assumption on the format list *)
Lemma elem_report sub c e pc v fs : cset_ok c -> elem_ok c e = true ->
  exists b evs, elem_is_valid sub c e pc (edata_of v) fs = Ok (b, evs) /\
    (forall code, In code (codes_of evs) -> draws c e pc fs v code = true) /\
    (has_control_char (match v with Some x => x | None => [] end) = false ->
     forall code, draws c e pc fs v code = true -> In code (codes_of evs)) /\
    ((exists code, draws c e pc fs v code = true) -> codes_of evs <> []).
Proof.
  intros Hc Hok. unfold draws.
  destruct (MapTree.usage_is (e_usage e) "N") eqn:HN.
  - (* not used: only emptiness is looked at *)
    change (MapTree.usage_is (e_usage e) "N") with (C15_spec.usage_is (e_usage e) "N") in HN.
    assert (Habs : v = None \/ v = Some [] ->
              exists b evs, elem_is_valid sub c e pc (edata_of v) fs = Ok (b, evs) /\
                (forall code, In code (codes_of evs) -> implies (x_charset c) (icvn_of c) (def_of c e (dict_entry c e) pc) fs v code = true) /\
                (has_control_char (match v with Some x => x | None => [] end) = false ->
                 forall code, implies (x_charset c) (icvn_of c) (def_of c e (dict_entry c e) pc) fs v code = true -> In code (codes_of evs)) /\
                ((exists code, implies (x_charset c) (icvn_of c) (def_of c e (dict_entry c e) pc) fs v code = true) -> codes_of evs <> [])).
    { intros Hv. exists true, (elem_pre e pc). split.
      { destruct Hv; subst v; unfold elem_is_valid; cbn [edata_of ed_value];
          change MapTree.usage_is with C15_spec.usage_is; rewrite HN; reflexivity. }
      assert (No : forall code, implies (x_charset c) (icvn_of c) (def_of c e (dict_entry c e) pc) fs v code = true -> False).
      { intros code H. rewrite (implies_absent _ _ _ _ _ _ _ _ _ Hv) in H. unfold missing_b in H.
        rewrite (usage_excl _ "N" "R" HN eq_refl) in H. cbn [andb] in H. rewrite andb_false_r in H. discriminate. }
      split; [intros code []|]. split; [intros _ code H; destruct (No code H)|].
      intros (code & H). destruct (No code H). }
    destruct v as [[|a x]|]; [apply Habs; auto | | apply Habs; auto]. clear Habs.
    pose proof (notused_case sub c e pc (a :: x) fs ltac:(discriminate) HN) as H.
    cbn [edata_of]. destruct (elem_is_valid sub c e pc (Some [a :: x]) fs) as [[b evs]|] eqn:EV; [|contradiction].
    destruct H as [_ H]. exists b, evs. split; [exact EV|]. rewrite H.
    unfold implies, def_of. cbn [d_usage]. cbv zeta. cbv iota. rewrite HN. cbn [In].
    split; [intros code [<-|[]]; reflexivity|]. split; [|discriminate]. intros _ code E. apply str_eqb_eq in E. auto.
  - destruct (elem_ok_wf c e Hc Hok HN) as [de Hwf]. pose proof Hwf as [Hde _].
    rewrite (dict_entry_ok c e de Hde).
    destruct (situations sub c e de pc v fs Hwf) as (b & evs & H & S). exists b, evs. split; [exact H|].
    destruct S as [Hv Hb Hcd | a x Hv HN' Hb Hcd | a x Hv HN' Hctl Hb Hcd | a x Hv HN' Hctl Hcd Hb].
    + rewrite Hcd. split; [|split].
      * intros code Hin. rewrite (implies_absent _ _ _ _ _ _ _ _ _ Hv). apply in_if. exact Hin.
      * intros _ code E. rewrite (implies_absent _ _ _ _ _ _ _ _ _ Hv) in E. apply in_if. exact E.
      * intros (code & E). rewrite (implies_absent _ _ _ _ _ _ _ _ _ Hv) in E. apply andb_true_iff in E as [_ E].
        rewrite E. discriminate.
    + change (MapTree.usage_is (e_usage e) "N") with (C15_spec.usage_is (e_usage e) "N") in HN. congruence.
    + subst v. split; [|split].
      * intros code Hin. rewrite Hcd in Hin. apply implies_ctl; [exact HN' | exact Hctl|].
        apply (ctl_codes_in (def_of c e de pc)). exact Hin.
      * intros E. rewrite E in Hctl. discriminate.
      * intros _ E. rewrite Hcd in E. apply app_eq_nil in E as [_ E]. apply app_eq_nil in E as [_ E]. discriminate.
    + subst v. rewrite Hcd. split; [|split].
      * intros code Hin. apply (spec_codes_in (x_charset c) (icvn_of c) (def_of c e de pc) fs a x code HN' Hctl); exact Hin.
      * intros _ code Hin. apply (spec_codes_in (x_charset c) (icvn_of c) (def_of c e de pc) fs a x code HN' Hctl); exact Hin.
      * intros (code & Hin) E. apply (spec_codes_in (x_charset c) (icvn_of c) (def_of c e de pc) fs a x code HN' Hctl) in Hin.
        rewrite E in Hin. destruct Hin.
Qed.

(* a value that draws no code is accepted silently *)
Lemma elem_clean sub c e pc v fs : cset_ok c -> elem_ok c e = true -> fmt_list_ok fs = true ->
  draws_nothing c e pc fs v = true ->
  exists evs, elem_is_valid sub c e pc (edata_of v) fs = Ok (true, evs) /\ no_err evs = true.
Proof.
  intros Hc Hok Hf Hd. destruct (elem_report sub c e pc v fs Hc Hok) as (b & evs & H & Hs & _ & _).
  assert (N : no_err evs = true).
  { apply codes_nil_no_err. destruct (codes_of evs) as [|code r] eqn:E; [reflexivity|].
    specialize (Hs code (or_introl eq_refl)). rewrite (proj1 (draws_nothing_iff _ _ _ _ _) Hd code) in Hs. discriminate. }
  exists evs. split; [|exact N]. rewrite H. rewrite (elem_bool_gen _ _ _ _ _ _ _ _ Hf H), N. reflexivity.
Qed.

(* ---- the shape of the events of one element: the add_ele call, then only errors carrying the
   element node's own designator ---- *)
Definition at_ref (r : option str) (h : hev) : Prop := is_err h = true /\ err_refdes h = r.

Lemma at_ref_one r code m v : Forall (at_ref r) [mk_ev r code m v].
Proof. constructor; [split; reflexivity | constructor]. Qed.

Lemma at_ref_ifb (b : bool) r code m v : Forall (at_ref r) (if b then [mk_ev r code m v] else []).
Proof. destruct b; [apply at_ref_one | constructor]. Qed.

Lemma at_ref_ifn (b : bool) r code m v : Forall (at_ref r) (if b then [] else [mk_ev r code m v]).
Proof. destruct b; [constructor | apply at_ref_one]. Qed.

Lemma Forall_app_i {A} (P : A -> Prop) a b : Forall P a -> Forall P b -> Forall P (a ++ b).
Proof. intros. apply Forall_app. split; assumption. Qed.

Lemma elem_main_shape c e pre v fs b evs :
  elem_main c e pre v fs = Ok (b, evs) -> exists errs, evs = pre ++ errs /\ Forall (at_ref (e_id e)) errs.
Proof.
  intros H. unfold elem_main in H. cbv zeta in H.
  destruct (MapTree.usage_is (e_usage e) "N" && _).
  { injection H as <- <-. eexists. split; [reflexivity | apply at_ref_one]. }
  apply bind_ok in H as (de & _ & H). apply bind_ok in H as (numeric & _ & H).
  destruct (contains_control_character v) as [bad|].
  { injection H as <- <-. eexists. split; [reflexivity|].
    apply Forall_app_i; [apply at_ref_ifb|]. apply Forall_app_i; [apply at_ref_ifb | apply at_ref_one]. }
  apply bind_ok in H as (lastc & _ & H). apply bind_ok in H as (code_ok & _ & H).
  apply bind_ok in H as (type_ok & _ & H). apply bind_ok in H as (tl & Htl & H).
  injection H as <- <-. eexists. split; [reflexivity|].
  assert (T : Forall (at_ref (e_id e)) (snd tl)).
  { destruct fs as [|f fs']; [injection Htl as <-; constructor|].
    apply bind_ok in Htl as (anyv & _ & Htl). destruct anyv; [injection Htl as <-; constructor|].
    destruct (existsb _ (f :: fs')); [injection Htl as <-; apply at_ref_one|].
    destruct (existsb _ (f :: fs')); injection Htl as <-; [apply at_ref_one | constructor]. }
  apply Forall_app_i; [apply at_ref_ifb|]. apply Forall_app_i; [apply at_ref_ifb|].
  apply Forall_app_i; [apply at_ref_ifb|]. apply Forall_app_i; [apply at_ref_ifn|].
  apply Forall_app_i; [|apply Forall_app_i; [exact T|]].
  - destruct type_ok; [constructor|]. destruct (is_date_type _); [apply at_ref_one|].
    destruct (ostr_eqb _ _); apply at_ref_one.
  - destruct (e_rec e) as [r|]; [|constructor]. destruct (search r v); [constructor | apply at_ref_one].
Qed.

Lemma elem_shape sub c e pc d fs b evs :
  elem_is_valid sub c e pc d fs = Ok (b, evs) ->
  exists errs, evs = elem_pre e pc ++ errs /\ Forall (at_ref (e_id e)) errs.
Proof.
  assert (M : forall v, elem_main c e (elem_pre e pc) v fs = Ok (b, evs) ->
                exists errs, evs = elem_pre e pc ++ errs /\ Forall (at_ref (e_id e)) errs)
    by (intros v; apply elem_main_shape).
  assert (Z0 : forall b0, Ok (b0, elem_pre e pc) = Ok (b, evs) ->
                exists errs, evs = elem_pre e pc ++ errs /\ Forall (at_ref (e_id e)) errs).
  { intros b0 H. injection H as <- <-. exists []. split; [symmetry; apply app_nil_r | constructor]. }
  assert (Z1 : forall b0 code m v, Ok (b0, elem_pre e pc ++ [mk_ev (e_id e) code m v]) = Ok (b, evs) ->
                exists errs, evs = elem_pre e pc ++ errs /\ Forall (at_ref (e_id e)) errs).
  { intros b0 code m v H. injection H as <- <-. eexists. split; [reflexivity | apply at_ref_one]. }
  unfold elem_is_valid.
  destruct d as [[|v [|w r]]|]; cbn [ed_value].
  - destruct (MapTree.usage_is (e_usage e) "N" || MapTree.usage_is (e_usage e) "S"); [apply Z0|].
    destruct (MapTree.usage_is (e_usage e) "R").
    { apply Z1. }
    apply (M []).
  - destruct v as [|a x].
    + destruct (MapTree.usage_is (e_usage e) "N" || MapTree.usage_is (e_usage e) "S"); [apply Z0|].
      destruct (MapTree.usage_is (e_usage e) "R").
      { apply Z1. }
      apply (M []).
    + apply (M (a :: x)).
  - apply Z1.
  - destruct (MapTree.usage_is (e_usage e) "N" || MapTree.usage_is (e_usage e) "S"); [apply Z0|].
    destruct (MapTree.usage_is (e_usage e) "R").
    { apply Z1. }
    discriminate.
Qed.

(* ================================================================== *)
(* 2. one composite                                                    *)

Lemma comp_go_conf sub c cn kids : cset_ok c -> forallb (elem_ok c) kids = true ->
  forall i vals valid acc, subs_conform c (Some (c_usage cn, c_seq cn)) kids vals = true ->
  exists tail, comp_go sub c cn i kids vals valid acc = Ok (valid, acc ++ tail) /\ no_err tail = true.
Proof.
  intros Hc. induction kids as [|k kids IH]; intros Hk i vals valid acc Hs.
  - exists []. split; [cbn [comp_go]; rewrite app_nil_r; reflexivity | reflexivity].
  - cbn [forallb] in Hk. apply andb_true_iff in Hk as [Hk1 Hk2].
    cbn [subs_conform] in Hs. apply andb_true_iff in Hs as [Hs1 Hs2].
    destruct (elem_clean sub c k (Some (c_usage cn, c_seq cn)) (hd_error vals) [] Hc Hk1 fmt_nil Hs1) as (e1 & H1 & N1).
    cbn [comp_go]. fold (comp_go sub c cn).
    assert (E : (let (dv, vals') := match vals with v :: r => (Some [v], r) | [] => (@None (list str), []) end in
                 do r <- elem_is_valid sub c k (Some (c_usage cn, c_seq cn)) dv [];
                 comp_go sub c cn (S i) kids vals' (valid && fst r) (acc ++ snd r)) =
                comp_go sub c cn (S i) kids (tl vals) valid (acc ++ e1)).
    { destruct vals as [|v r]; cbn [hd_error edata_of tl] in *; rewrite H1; cbn [bind fst snd]; rewrite andb_true_r; reflexivity. }
    rewrite E. destruct (IH Hk2 (S i) (tl vals) valid (acc ++ e1) Hs2) as (t2 & H2 & N2).
    exists (e1 ++ t2). split; [rewrite H2, app_assoc; reflexivity|]. rewrite no_err_app, N1, N2. reflexivity.
Qed.

Lemma usage_R_or_S_not_N u : MapTree.usage_is u "R" || MapTree.usage_is u "S" = true -> MapTree.usage_is u "N" = false.
Proof.
  change MapTree.usage_is with C15_spec.usage_is. intros H. apply orb_true_iff in H as [H|H].
  - exact (usage_excl _ "R" "N" H eq_refl).
  - exact (usage_excl _ "S" "N" H eq_refl).
Qed.

(* a conformant composite (or a conformant absence) is accepted silently, and the segment does not
   report it as over-long *)
Lemma comp_conf sub c cn ov : cset_ok c -> comp_ok c cn = true -> comp_conforms c cn ov = true ->
  (exists evs, comp_is_valid sub c cn ov = Ok (true, evs) /\ no_err evs = true) /\
  (forall d sg i v, ov = Some v -> comp_sub_ev d sg cn i v = []).
Proof.
  intros Hc Hok H. rewrite comp_unfold. unfold comp_conforms in H. unfold comp_sub_ev.
  change C15_spec.usage_is with MapTree.usage_is in H.
  destruct ov as [v|].
  - change (comp_empty_b (Some v)) with (comp_empty v). cbv zeta in H.
    destruct (comp_empty v) eqn:E.
    + apply orb_true_iff in H as [H|H].
      * rewrite H. cbn [andb orb negb]. split; [exists []; split; reflexivity|].
        intros d sg i v0 _. rewrite andb_false_r. reflexivity.
      * apply andb_true_iff in H as [HS Hfit]. rewrite HS, orb_true_r. cbn [andb].
        split; [exists []; split; reflexivity|]. intros d sg i v0 E0. injection E0 as <-.
        apply Nat.leb_le in Hfit. destruct (Nat.ltb_spec (length (c_children cn)) (length v)); [lia | reflexivity].
    + apply andb_true_iff in H as [H Hsub]. apply andb_true_iff in H as [HU Hfit].
      pose proof (usage_R_or_S_not_N _ HU) as HN. apply Nat.leb_le in Hfit.
      cbn [andb]. rewrite andb_false_r, HN. cbn [andb].
      unfold comp_many. destruct (Nat.ltb_spec (length (c_children cn)) (length v)) as [L|_]; [lia|].
      split; [|intros d sg i v0 E0; injection E0 as <-;
               destruct (Nat.ltb_spec (length (c_children cn)) (length v)); [lia | reflexivity]].
      unfold comp_ok in Hok. rewrite HN in Hok. cbn [orb] in Hok. apply andb_true_iff in Hok as [_ Hk].
      destruct (comp_go_conf sub c cn (c_children cn) Hc Hk 0 v true [] Hsub) as (t & Ht & Nt).
      exists t. split; [exact Ht | exact Nt].
  - cbn [comp_empty_b andb]. rewrite H. split; [exists []; split; reflexivity | discriminate].
Qed.

(* ================================================================== *)
(* 3. the child for a position                                         *)

Lemma find_of_filter_one {A} (f : A -> bool) l x : filter f l = [x] -> List.find f l = Some x.
Proof.
  induction l as [|a l IH]; cbn [filter List.find]; [discriminate|].
  destruct (f a); [intros H; injection H as -> _; reflexivity | exact IH].
Qed.

Lemma child_at_ok sn i ch : child_by_idx sn i = Ok ch -> child_at sn i = Some ch.
Proof.
  unfold child_by_idx, child_at. intros H.
  change (fun ch : sub => (match ch with SubE e => e_seq e | SubC c0 => c_seq c0 end =? Z.of_nat i + 1)%Z)
    with (fun ch => (sub_seq ch =? Z.of_nat i + 1)%Z) in H.
  destruct (filter _ (s_children sn)) as [|ch0 [|ch2 r]] eqn:F; try discriminate H. injection H as <-.
  apply find_of_filter_one. exact F.
Qed.

Lemma child_seq sn i ch : child_by_idx sn i = Ok ch -> sub_seq ch = (Z.of_nat i + 1)%Z.
Proof.
  intros H. apply child_at_ok in H. unfold child_at in H. apply find_some in H as [_ H]. apply Z.eqb_eq in H. exact H.
Qed.

(* ================================================================== *)
(* 4. syntax notes: the evaluation of C14 without the side condition on the segment
      (an element with no component at all is empty for both Composite.format and is_empty) *)

Lemma format_comp_empty_all (sub : ascii) (c : composite) :
  (match format_comp sub c with [] => true | _ => false end) = comp_empty c.
Proof. destruct (format_comp_empty sub c) as [E|E]; [exact E | subst c; reflexivity]. Qed.

Lemma present_ok_all d sg i : idx_ok i -> present d sg i = Ok (present_spec sg i).
Proof.
  intros H. unfold present, present_spec. rewrite (value_at d sg i H). cbn [bind].
  destruct (N.ltb_spec (N.of_nat (seg_len sg)) i) as [L|L].
  - destruct (N.leb_spec i (N.of_nat (seg_len sg))); [lia | reflexivity].
  - destruct (N.leb_spec i (N.of_nat (seg_len sg))) as [L2|L2]; [|lia]. cbn [andb]. f_equal.
    rewrite <- (format_comp_empty_all (subele_term d)).
    destruct (format_comp (subele_term d) _); reflexivity.
Qed.

Lemma first_present_ok_all d sg i : idx_ok i -> first_present d sg i = Ok (present_spec sg i).
Proof.
  intros H. pose proof (present_ok_all d sg i H) as P. unfold present in P. unfold first_present, present_spec in *.
  rewrite (value_at d sg i H) in *. cbn [bind] in P.
  destruct (N.leb_spec i (N.of_nat (seg_len sg))) as [L|L]; [|reflexivity].
  cbn [bind andb] in *. exact P.
Qed.

Lemma count_present_ok_all d sg idxs : Forall idx_ok idxs ->
  count_present d sg idxs = Ok (length (filter id_b (map (present_spec sg) idxs))).
Proof.
  intros H. induction H as [|i idxs Hi _ IH]; [reflexivity|].
  cbn [count_present map filter]. rewrite (present_ok_all d sg i Hi), IH. cbn [bind].
  unfold id_b at 2. destruct (present_spec sg i); reflexivity.
Qed.

Lemma syntax_exact_all d sg code idxs :
  note_letter code = true -> 2 <= length idxs -> Forall idx_ok idxs ->
  is_syntax_valid d sg code idxs = Ok (negb (violated code (map (present_spec sg) idxs))).
Proof.
  intros HL Hlen Hidx. unfold is_syntax_valid, violated.
  destruct (Nat.ltb_spec (length idxs) 2) as [L|_]; [lia|].
  destruct (Ascii.eqb code "P"%char) eqn:EP.
  { rewrite (count_present_ok_all d sg idxs Hidx). cbn [bind]. f_equal.
    rewrite count_zero. rewrite <- (map_length (present_spec sg) idxs) at 1. rewrite count_all.
    rewrite negb_involutive. reflexivity. }
  destruct (Ascii.eqb code "R"%char) eqn:ER.
  { rewrite (count_present_ok_all d sg idxs Hidx). cbn [bind]. f_equal. rewrite count_zero. reflexivity. }
  destruct (Ascii.eqb code "E"%char) eqn:EE.
  { rewrite (count_present_ok_all d sg idxs Hidx). reflexivity. }
  destruct (Ascii.eqb code "C"%char) eqn:EC.
  { destruct idxs as [|i0 rest]; [simpl in Hlen; lia|]. inversion Hidx as [|? ? H0 Hrest]; subst.
    rewrite (first_present_ok_all d sg i0 H0). cbn [bind map].
    destruct (present_spec sg i0); [|reflexivity].
    rewrite (count_present_ok_all d sg rest Hrest). cbn [bind andb]. f_equal.
    rewrite <- (map_length (present_spec sg) rest). rewrite count_all, negb_involutive. reflexivity. }
  destruct (Ascii.eqb code "L"%char) eqn:EL.
  { destruct idxs as [|i0 rest]; [simpl in Hlen; lia|]. inversion Hidx as [|? ? H0 Hrest]; subst.
    rewrite (first_present_ok_all d sg i0 H0). cbn [bind map].
    destruct (present_spec sg i0); [|reflexivity].
    rewrite (count_present_ok_all d sg rest Hrest). cbn [bind andb]. f_equal.
    rewrite count_zero. reflexivity. }
  unfold note_letter in HL. rewrite EP, ER, EE, EC, EL in HL. discriminate HL.
Qed.

Lemma is_present_spec sg i : is_present sg i = present_spec sg i.
Proof. reflexivity. Qed.

Lemma letter_of_precl a : mem_ascii a (C16_spec.cs "PRECL") = true -> note_letter a = true.
Proof.
  unfold note_letter. cbn [C16_spec.cs list_ascii_of_string mem_ascii].
  destruct (Ascii.eqb a "P"), (Ascii.eqb a "R"), (Ascii.eqb a "E"), (Ascii.eqb a "C"), (Ascii.eqb a "L"); cbn; congruence.
Qed.

(* the notes of a well-formed node: letter, arity, positions within 1..min(children, 99) *)
Lemma note_wf_facts n nt : C16_spec.note_ok_b n nt = true -> syn_note_ok nt = true ->
  note_letter (fst nt) = true /\ 2 <= length (snd nt) /\
  Forall (fun z => (1 <= z <= Z.of_nat n)%Z /\ (z <= 99)%Z) (snd nt).
Proof.
  unfold C16_spec.note_ok_b, syn_note_ok. intros H S.
  apply andb_true_iff in H as [H H3]. apply andb_true_iff in H as [H1 H2].
  apply Nat.leb_le in H2. split; [apply letter_of_precl; exact H1|]. split; [exact H2|].
  apply orb_true_iff in S as [S|S]; [apply Nat.ltb_lt in S; lia|].
  rewrite forallb_forall in H3, S. apply Forall_forall. intros z Hz.
  specialize (H3 z Hz). specialize (S z Hz).
  apply andb_true_iff in H3 as [A B]. apply andb_true_iff in S as [_ D].
  apply Z.leb_le in A, B, D. lia.
Qed.

Lemma syntax_conf d sn sg :
  notes_wf sn = true -> forallb syn_note_ok (s_syntax sn) = true -> notes_hold sn sg = true ->
  syntax_loop d sg (map (fun nt => (fst nt, map Z.to_N (snd nt))) (s_syntax sn)) = Ok [].
Proof.
  unfold notes_wf, notes_hold. generalize (length (s_children sn)) as n. intros n.
  induction (s_syntax sn) as [|nt notes IH]; intros W S H; [reflexivity|].
  cbn [forallb] in W, S, H. apply andb_true_iff in W as [W1 W2]. apply andb_true_iff in S as [S1 S2].
  apply andb_true_iff in H as [H1 H2].
  destruct (note_wf_facts n nt W1 S1) as (L & A & R).
  cbn [map syntax_loop fst snd].
  rewrite (syntax_exact_all d sg (fst nt) (map Z.to_N (snd nt)) L).
  - cbn [bind]. rewrite (IH W2 S2 H2). cbn [bind].
    unfold note_holds in H1. rewrite map_map.
    replace (map (fun x => present_spec sg (Z.to_N x)) (snd nt)) with (map (fun z => is_present sg (Z.to_N z)) (snd nt)) by reflexivity.
    destruct (violated _ _); [discriminate H1 | reflexivity].
  - rewrite map_length. exact A.
  - apply Forall_forall. intros i Hi. apply in_map_iff in Hi as (z & <- & Hz).
    rewrite Forall_forall in R. specialize (R z Hz). unfold idx_ok. lia.
Qed.

(* ================================================================== *)
(* 5. the segment check decomposes into independent positions          *)

(* the running DTP format list before position k *)
Definition dstate (d : delims) (sn : segm) (sg : seg) (k : nat) : list (option str) :=
  if k <=? 1 then [] else if is_dtp sg then dtp_format d sn sg else [].

Lemma seg_val_text d sg k : seg_val d sg (S k) = ele_text d sg k.
Proof.
  unfold seg_val, ele_text, datum_at. destruct (Nat.leb_spec (length (els sg)) k) as [L|L].
  - rewrite (proj2 (nth_error_None (els sg) k) L). reflexivity.
  - rewrite (nth_error_nth' (els sg) [] L). reflexivity.
Qed.

Lemma dstate_step_E d sn sg k e : child_by_idx sn k = Ok (SubE e) ->
  dtp_formats d sg k (dstate d sn sg k) = dstate d sn sg (S k).
Proof.
  intros H. destruct k as [|[|k]]; [reflexivity| |reflexivity].
  unfold dtp_formats, dstate. cbn [Nat.eqb Nat.leb andb]. unfold is_dtp.
  destruct (ostr_eqb (sid sg) (Some (cs "DTP"))); [|reflexivity].
  unfold dtp_format. rewrite (child_at_ok sn 1 _ H), seg_val_text.
  destruct (ele_text d sg 1) as [x|]; [|reflexivity]. cbn [andb].
  change [cs "RD8"; cs "D8"; cs "D6"; cs "DT"; cs "TM"] with date_time_formats.
  destruct (mem_str x date_time_formats); reflexivity.
Qed.

Lemma dstate_step_C d sn sg k cn : child_by_idx sn k = Ok (SubC cn) ->
  dstate d sn sg k = dstate d sn sg (S k).
Proof.
  intros H. destruct k as [|[|k]]; [reflexivity| |reflexivity].
  unfold dstate. cbn [Nat.leb]. destruct (is_dtp sg); [|reflexivity].
  unfold dtp_format. rewrite (child_at_ok sn 1 _ H). reflexivity.
Qed.

Lemma qf_step sn k :
  qualifier_formats sn (S k) =
  qualifier_formats sn k ++ match child_at sn k with
                            | Some (SubE q) => if is_de q "1250" then e_codes q else []
                            | _ => []
                            end.
Proof.
  unfold qualifier_formats. rewrite seq_S, flat_map_app. cbn [flat_map Nat.add]. rewrite app_nil_r. reflexivity.
Qed.

Lemma qf_step_E sn k e : child_by_idx sn k = Ok (SubE e) ->
  qual_formats e (qualifier_formats sn k) = qualifier_formats sn (S k).
Proof.
  intros H. rewrite qf_step, (child_at_ok sn k _ H). unfold qual_formats, is_de.
  destruct (ostr_eqb (e_data_ele e) (Some (cs "1250"))); [reflexivity | rewrite app_nil_r; reflexivity].
Qed.

Lemma qf_step_C sn k cn : child_by_idx sn k = Ok (SubC cn) ->
  qualifier_formats sn k = qualifier_formats sn (S k).
Proof. intros H. rewrite qf_step, (child_at_ok sn k _ H), app_nil_r. reflexivity. Qed.

Lemma de_1251_not_1250 e : is_de e "1251" = true -> is_de e "1250" = false.
Proof.
  unfold is_de. intros H. apply ostr_eqb_eq in H. rewrite H. reflexivity.
Qed.

(* the format list the implementation hands to a present simple element is the one the spec names *)
Lemma formats_agree d sn sg k e : child_by_idx sn k = Ok (SubE e) ->
  elem_formats sg e k (dstate d sn sg (S k)) (qualifier_formats sn (S k)) = formats_for d sn sg k e.
Proof.
  intros H. unfold elem_formats, formats_for. fold (is_dtp sg).
  destruct ((k =? 2) && is_dtp sg) eqn:E.
  - apply andb_true_iff in E as [E1 E2]. apply Nat.eqb_eq in E1. subst k.
    unfold dstate. cbn [Nat.leb]. rewrite E2. reflexivity.
  - fold (is_de e "1251"). destruct (is_de e "1251") eqn:D; [|reflexivity].
    rewrite qf_step, (child_at_ok sn k _ H), (de_1251_not_1250 e D), app_nil_r. cbn [andb].
    destruct (qualifier_formats sn k); reflexivity.
Qed.

(* the outcome of one position: what the node at k makes of the datum at k *)
Definition pos_run (d : delims) (c : ectx) (sn : segm) (sg : seg) (k : nat) : result (bool * list hev) :=
  do ch <- child_by_idx sn k;
  match ch, datum_at sg k with
  | SubE e, Some v => elem_is_valid (subele_term d) c e None (Some v) (formats_for d sn sg k e)
  | SubE e, None => elem_is_valid (subele_term d) c e None None []
  | SubC cn, Some v => do r <- comp_is_valid (subele_term d) c cn (Some v); Ok (fst r, comp_sub_ev d sg cn k v ++ snd r)
  | SubC cn, None => comp_is_valid (subele_term d) c cn None
  end.

Definition pos_b d c sn sg k : bool := match pos_run d c sn sg k with Ok (b, _) => b | Raise _ => false end.
Definition pos_e d c sn sg k : list hev := match pos_run d c sn sg k with Ok (_, e) => e | Raise _ => [] end.

(* the end of the check: the syntax notes *)
Definition finish (d : delims) (sn : segm) (sg : seg) (valid : bool) (acc : list hev) : result (bool * list hev) :=
  do syn <- syntax_loop d sg (map (fun nt => (fst nt, map Z.to_N (snd nt))) (s_syntax sn));
  Ok (valid && (match syn with [] => true | _ => false end),
      acc ++ map (fun code => HEleErr code (cs "Syntax Error") None None) syn).

Lemma missing_dec d c sn sg : cset_ok c -> seg_okP c sn ->
  forall fuel j valid acc, fuel <= length (s_children sn) - j -> length (els sg) <= j ->
  seg_missing d c sn sg j fuel valid acc =
  finish d sn sg (valid && forallb (pos_b d c sn sg) (seq j fuel)) (acc ++ flat_map (pos_e d c sn sg) (seq j fuel)).
Proof.
  intros Hc (H1 & H2 & H3). induction fuel as [|f IH]; intros j valid acc Hf Hl.
  - rewrite seg_missing_zero. cbn [seq forallb flat_map]. rewrite andb_true_r, app_nil_r. reflexivity.
  - rewrite seg_missing_step.
    destruct (child_by_idx_ok c sn j H1 H2 ltac:(lia)) as (ch & Hch & Hok). rewrite Hch. cbn [bind].
    assert (Hd : datum_at sg j = None) by (apply nth_error_None; exact Hl).
    assert (T : total (match ch with
                       | SubE e => elem_is_valid (subele_term d) c e None None []
                       | SubC cn => comp_is_valid (subele_term d) c cn None end))
      by (destruct ch as [e|cn]; cbn [sub_ok] in Hok; [apply elem_ok_total | apply comp_ok_total]; assumption).
    destruct T as [[b1 e1] T]. rewrite T. cbn [bind fst snd].
    assert (R : pos_run d c sn sg j = Ok (b1, e1)).
    { unfold pos_run. rewrite Hch, Hd. cbn [bind]. destruct ch; exact T. }
    rewrite (IH (S j) (valid && b1) (acc ++ e1) ltac:(lia) ltac:(lia)).
    cbn [seq forallb flat_map]. unfold pos_b at 2, pos_e at 2. rewrite R.
    rewrite andb_assoc, app_assoc. reflexivity.
Qed.

(* elements beyond the node's children are skipped *)
Lemma present_skip d c sn sg vals : forall k dtype tl valid acc, length (s_children sn) <= k ->
  seg_present d c sn sg k vals dtype tl valid acc = finish d sn sg valid acc.
Proof.
  induction vals as [|v vals IH]; intros k dtype tl valid acc Hk.
  - cbn [seg_present]. replace (length (s_children sn) - k) with 0 by lia. apply seg_missing_zero.
  - rewrite seg_present_step. destruct (Nat.leb_spec (length (s_children sn)) k) as [_|L]; [|lia].
    apply IH. lia.
Qed.

Lemma skipn_cons_inv {A} (l : list A) k v r : skipn k l = v :: r -> skipn (S k) l = r /\ nth_error l k = Some v.
Proof.
  revert l. induction k as [|k IH]; intros l H.
  - cbn [skipn] in H. subst l. split; reflexivity.
  - destruct l as [|a l]; [discriminate H|]. cbn [skipn] in H. apply IH in H. exact H.
Qed.

Lemma skipn_nil_inv {A} (l : list A) k : skipn k l = [] -> length l <= k.
Proof.
  revert l. induction k as [|k IH]; intros l H.
  - cbn [skipn] in H. subst l. cbn. lia.
  - destruct l as [|a l]; [cbn; lia|]. cbn [skipn] in H. apply IH in H. cbn [length]. lia.
Qed.

Lemma present_dec d c sn sg : cset_ok c -> seg_okP c sn ->
  forall vals k valid acc, vals = skipn k (els sg) ->
  seg_present d c sn sg k vals (dstate d sn sg k) (qualifier_formats sn k) valid acc =
  finish d sn sg (valid && forallb (pos_b d c sn sg) (seq k (length (s_children sn) - k)))
                 (acc ++ flat_map (pos_e d c sn sg) (seq k (length (s_children sn) - k))).
Proof.
  intros Hc Hok. pose proof Hok as (H1 & H2 & H3).
  induction vals as [|v vals IH]; intros k valid acc Hv.
  - cbn [seg_present]. symmetry in Hv. apply skipn_nil_inv in Hv.
    apply missing_dec; auto.
  - symmetry in Hv. apply skipn_cons_inv in Hv as [Hv Hd].
    destruct (Nat.leb_spec (length (s_children sn)) k) as [L|L].
    + rewrite present_skip by exact L. replace (length (s_children sn) - k) with 0 by lia.
      cbn [seq forallb flat_map]. rewrite andb_true_r, app_nil_r. reflexivity.
    + rewrite seg_present_step. destruct (Nat.leb_spec (length (s_children sn)) k) as [L'|_]; [lia|].
      destruct (child_by_idx_ok c sn k H1 H2 L) as (ch & Hch & Hs). rewrite Hch. cbn [bind].
      replace (length (s_children sn) - k) with (S (length (s_children sn) - S k)) by lia.
      cbn [seq forallb flat_map]. unfold pos_b at 1, pos_e at 1. unfold pos_run at 1 2. rewrite Hch. cbn [bind].
      fold (datum_at sg k) in Hd. rewrite Hd.
      destruct ch as [e|cn]; cbn [sub_ok] in Hs.
      * rewrite (dstate_step_E d sn sg k e Hch), (qf_step_E sn k e Hch), (formats_agree d sn sg k e Hch).
        destruct (elem_ok_total (subele_term d) c e None (Some v) (formats_for d sn sg k e) Hc Hs) as [[b1 e1] T].
        rewrite T. cbn [bind fst snd].
        rewrite (IH (S k) (valid && b1) (acc ++ e1) (eq_sym Hv)). rewrite andb_assoc, app_assoc. reflexivity.
      * rewrite (dstate_step_C d sn sg k cn Hch), (qf_step_C sn k cn Hch).
        destruct (comp_ok_total (subele_term d) c cn (Some v) Hc Hs) as [[b1 e1] T].
        rewrite T. cbn [bind fst snd].
        rewrite (IH (S k) (valid && b1) (acc ++ comp_sub_ev d sg cn k v ++ e1) (eq_sym Hv)).
        rewrite andb_assoc, !app_assoc. reflexivity.
Qed.

(* DECOMPOSITION: on a well-formed node the segment check is the conjunction / concatenation of the
   "too many elements" test, the outcomes of the positions 0 .. children-1 taken one by one, and
   the syntax notes *)
Theorem seg_decompose d c sn sg : cset_ok c -> seg_ok c sn = true ->
  seg_is_valid d c sn sg =
  finish d sn sg
    ((match seg_many d sn sg with [] => true | _ => false end) &&
     forallb (pos_b d c sn sg) (seq 0 (length (s_children sn))))
    (seg_many d sn sg ++ flat_map (pos_e d c sn sg) (seq 0 (length (s_children sn)))).
Proof.
  intros Hc Hok. rewrite seg_unfold.
  pose proof (present_dec d c sn sg Hc (seg_ok_P c sn Hok) (els sg) 0) as P.
  change (dstate d sn sg 0) with (@nil (option str)) in P. change (qualifier_formats sn 0) with (@nil (option str)) in P.
  rewrite Nat.sub_0_r in P. apply P. reflexivity.
Qed.

(* ================================================================== *)
(* 6. a conformant position is accepted silently                       *)

Lemma dtp_format_ok d sn sg : fmt_list_ok (dtp_format d sn sg) = true.
Proof.
  unfold dtp_format. destruct (child_at sn 1) as [[e|cn]|]; try reflexivity.
  destruct (ele_text d sg 1) as [x|]; [|reflexivity].
  destruct (mem_str x date_time_formats) eqn:M; [|reflexivity]. apply five_formats_ok. exact M.
Qed.

Lemma qualifier_formats_ok sn k : seg_fmt_ok sn = true -> fmt_list_ok (qualifier_formats sn k) = true.
Proof.
  intros Hs. induction k as [|k IH]; [reflexivity|]. rewrite qf_step. apply fmt_list_ok_app; [exact IH|].
  destruct (child_at sn k) as [[q|cn]|] eqn:E; try reflexivity.
  unfold child_at in E. apply find_some in E as [Hin _].
  unfold seg_fmt_ok in Hs. rewrite forallb_forall in Hs. specialize (Hs _ Hin). cbn beta iota in Hs.
  unfold is_de. change C07_valid_wf.l with cs in Hs.
  destruct (ostr_eqb (e_data_ele q) (Some (cs "1250"))); [exact Hs | reflexivity].
Qed.

Lemma formats_for_ok d sn sg k e : seg_fmt_ok sn = true -> fmt_list_ok (formats_for d sn sg k e) = true.
Proof.
  intros Hs. unfold formats_for. destruct ((k =? 2) && is_dtp sg); [apply dtp_format_ok|].
  destruct (is_de e "1251"); [apply qualifier_formats_ok; exact Hs | reflexivity].
Qed.

(* the clauses of an absent value do not look at the formats *)
Lemma draws_nothing_absent c e pc fs fs' : draws_nothing c e pc fs None = draws_nothing c e pc fs' None.
Proof. reflexivity. Qed.

Lemma pos_conf d c sn sg k : cset_ok c -> seg_okP c sn -> seg_fmt_ok sn = true -> k < length (s_children sn) ->
  pos_conforms c sn d sg k = true ->
  exists evs, pos_run d c sn sg k = Ok (true, evs) /\ no_err evs = true.
Proof.
  intros Hc (H1 & H2 & H3) Hf Hk H.
  destruct (child_by_idx_ok c sn k H1 H2 Hk) as (ch & Hch & Hs).
  unfold pos_conforms in H. rewrite (child_at_ok sn k ch Hch) in H. unfold pos_run. rewrite Hch. cbn [bind].
  destruct ch as [e|cn]; cbn [sub_ok] in Hs.
  - pose proof (formats_for_ok d sn sg k e Hf) as Hfs. unfold elem_conforms in H.
    destruct (datum_at sg k) as [[|x [|y r]]|].
    + rewrite elem_nil_data. apply (elem_clean (subele_term d) c e None (Some []) _ Hc Hs Hfs H).
    + apply (elem_clean (subele_term d) c e None (Some x) _ Hc Hs Hfs H).
    + discriminate H.
    + rewrite (draws_nothing_absent c e None _ []) in H.
      apply (elem_clean (subele_term d) c e None None [] Hc Hs fmt_nil H).
  - destruct (comp_conf (subele_term d) c cn (datum_at sg k) Hc Hs H) as [(evs & E & N) Hsub].
    destruct (datum_at sg k) as [v|].
    + rewrite E. cbn [bind fst snd]. rewrite (Hsub d sg k v eq_refl). exists evs. split; [reflexivity | exact N].
    + exists evs. split; assumption.
Qed.

Lemma clean_positions d c sn sg ks :
  (forall k, In k ks -> exists evs, pos_run d c sn sg k = Ok (true, evs) /\ no_err evs = true) ->
  forallb (pos_b d c sn sg) ks = true /\ no_err (flat_map (pos_e d c sn sg) ks) = true.
Proof.
  induction ks as [|k ks IH]; intros H; [split; reflexivity|].
  destruct (H k (or_introl eq_refl)) as (evs & E & N).
  destruct IH as [IH1 IH2]; [intros j Hj; apply H; right; exact Hj|].
  cbn [forallb flat_map]. unfold pos_b at 1, pos_e at 1. rewrite E. rewrite no_err_app, N, IH1, IH2. split; reflexivity.
Qed.

Lemma conforms_parts c sn d sg : seg_conforms c sn d sg = true ->
  length (els sg) <= length (s_children sn) /\
  (forall k, k < length (s_children sn) -> pos_conforms c sn d sg k = true) /\
  notes_hold sn sg = true.
Proof.
  unfold seg_conforms. intros H. apply andb_true_iff in H as [H C3]. apply andb_true_iff in H as [C1 C2].
  apply Nat.leb_le in C1. rewrite forallb_forall in C2. split; [exact C1|]. split; [|exact C3].
  intros k Hk. apply C2. apply in_seq. lia.
Qed.

Lemma seg_many_fits d sn sg : length (els sg) <= length (s_children sn) -> seg_many d sn sg = [].
Proof. intros H. unfold seg_many. destruct (Nat.ltb_spec (length (s_children sn)) (length (els sg))); [lia | reflexivity]. Qed.

(* ---- (A) at the level of one node ---- *)
Theorem conformant_accepted_node d c sn sg :
  cset_ok c -> seg_ok c sn = true -> seg_fmt_ok sn = true -> notes_wf sn = true ->
  seg_conforms c sn d sg = true ->
  exists evs, seg_is_valid d c sn sg = Ok (true, evs) /\ no_err evs = true.
Proof.
  intros Hc Hok Hf Hn H. destruct (conforms_parts c sn d sg H) as (C1 & C2 & C3).
  pose proof (seg_ok_P c sn Hok) as HP. pose proof HP as (_ & _ & H3).
  rewrite (seg_decompose d c sn sg Hc Hok), (seg_many_fits d sn sg C1).
  destruct (clean_positions d c sn sg (seq 0 (length (s_children sn)))) as [B E].
  { intros k Hk. apply in_seq in Hk. apply pos_conf; auto; [lia | apply C2; lia]. }
  unfold finish. rewrite (syntax_conf d sn sg Hn H3 C3). cbn [bind map app]. rewrite B, app_nil_r.
  eexists. split; [reflexivity | exact E].
Qed.

(* ---- (A) ---- *)
Theorem conformant_segment_accepted :
  forall m sn d sg, valid_wf m = true -> fmt_wf m = true -> seg_node_of m sn -> notes_wf sn = true ->
    seg_conforms (ctx_of m) sn d sg = true ->
    exists evs, seg_is_valid d (ctx_of m) sn sg = Ok (true, evs) /\ no_error_event evs.
Proof.
  intros m sn d sg Hw Hf Hs Hn H. destruct (valid_wf_seg m sn Hw Hs) as [Hc Hok].
  destruct (conformant_accepted_node d (ctx_of m) sn sg Hc Hok (fmt_wf_seg m sn Hf Hs) Hn H) as (evs & E & N).
  exists evs. split; [exact E | exact (proj1 (no_err_spec evs) N)].
Qed.

(* ================================================================== *)
(* 7. reading the events                                               *)

Lemma located_no_err evs : forall cur, no_err evs = true -> located cur evs = [].
Proof.
  induction evs as [|[i|code m v r] evs IH]; intros cur H; [reflexivity | | discriminate H].
  cbn [located]. apply IH. exact H.
Qed.

(* the position under which later errors are filed after a stretch of events without error *)
Lemma located_skip a : no_err a = true -> forall cur b, exists cur', located cur (a ++ b) = located cur' b.
Proof.
  induction a as [|[i|code m v r] a IH]; intros H cur b; [exists cur; reflexivity | | discriminate H].
  cbn [app located]. apply IH. exact H.
Qed.

Lemma located_errs r errs : Forall (at_ref r) errs ->
  forall cur rest, located cur (errs ++ rest) = map (pair cur) errs ++ located cur rest.
Proof.
  induction 1 as [|h errs [Hh _] _ IH]; intros cur rest; [reflexivity|].
  destruct h as [i|code m v r0]; [discriminate Hh|]. cbn [app located map]. rewrite IH. reflexivity.
Qed.

(* `located` lists exactly the error events *)
Lemma located_spec evs : forall cur h, (exists p, In (p, h) (located cur evs)) <-> (In h evs /\ is_err h = true).
Proof.
  induction evs as [|[i|code m v r] evs IH]; intros cur h; cbn [located In].
  - split; [intros [p []] | intros [[] _]].
  - rewrite IH. split; [intros [H1 H2]; auto|]. intros [[E|H1] H2]; [subst h; discriminate H2 | auto].
  - split.
    + intros [p [E|H]]; [injection E as _ <-; split; [left|]; reflexivity|].
      destruct (proj1 (IH cur h) (ex_intro _ p H)) as [H1 H2]. auto.
    + intros [[E|H1] H2]; [exists cur; left; rewrite E; reflexivity|].
      destruct (proj2 (IH cur h) (conj H1 H2)) as [p Hp]. exists p. right. exact Hp.
Qed.

Lemma no_err_filter evs : no_err evs = true -> filter is_err evs = [].
Proof.
  induction evs as [|[i|code m v r] evs IH]; intros H; [reflexivity | | discriminate H]. cbn [filter is_err]. apply IH. exact H.
Qed.

Lemma codes_of_in evs code : In code (codes_of evs) <-> exists h, In h evs /\ is_err h = true /\ err_code h = code.
Proof.
  induction evs as [|[i|c0 m v r] evs IH]; cbn [codes_of flat_map app In].
  - split; [intros [] | intros (h & [] & _)].
  - fold (codes_of evs). rewrite IH. split.
    + intros (h & H1 & H2). exists h. auto.
    + intros (h & [E|H1] & H2 & H3); [subst h; discriminate H2|]. exists h. auto.
  - fold (codes_of evs). rewrite IH. split.
    + intros [E|(h & H1 & H2)]; [exists (HEleErr c0 m v r); cbn; auto | exists h; auto].
    + intros (h & [E|H1] & H2 & H3); [left; subst h; exact H3 | right; exists h; auto].
Qed.

(* ================================================================== *)
(* 8. one element too many                                             *)

Theorem too_many_node d c sn sg :
  cset_ok c -> seg_ok c sn = true -> seg_fmt_ok sn = true -> notes_wf sn = true ->
  length (s_children sn) < length (els sg) ->
  (forall k, k < length (s_children sn) -> pos_conforms c sn d sg k = true) ->
  notes_hold sn sg = true ->
  exists evs h, seg_is_valid d c sn sg = Ok (false, evs) /\
    filter is_err evs = [h] /\ located None evs = [(None, h)] /\
    err_code h = cs "3" /\ err_refdes h = Some (fmt_02 (N.of_nat (S (length (s_children sn))))).
Proof.
  intros Hc Hok Hf Hn Hlen C2 C3.
  pose proof (seg_ok_P c sn Hok) as HP. pose proof HP as (_ & _ & H3).
  rewrite (seg_decompose d c sn sg Hc Hok).
  destruct (clean_positions d c sn sg (seq 0 (length (s_children sn)))) as [B E].
  { intros k Hk. apply in_seq in Hk. apply pos_conf; auto; [lia | apply C2; lia]. }
  unfold finish. rewrite (syntax_conf d sn sg Hn H3 C3). cbn [bind map]. rewrite app_nil_r.
  unfold seg_many. destruct (Nat.ltb_spec (length (s_children sn)) (length (els sg))) as [_|L]; [|lia].
  cbn [andb]. eexists; eexists. split; [reflexivity|].
  cbn [app filter is_err located]. rewrite (no_err_filter _ E), (located_no_err _ None E).
  repeat split; reflexivity.
Qed.

(* transfer of conformance between two segments that agree where a position looks *)
Lemma pos_conforms_transfer c sn d sg sg' k :
  sid sg' = sid sg -> datum_at sg' k = datum_at sg k ->
  (k = 2 -> is_dtp sg = true -> datum_at sg' 1 = datum_at sg 1) ->
  pos_conforms c sn d sg' k = pos_conforms c sn d sg k.
Proof.
  intros Hs Hk H1. unfold pos_conforms. rewrite Hk. destruct (child_at sn k) as [[e|cn]|]; try reflexivity.
  f_equal. unfold formats_for. assert (Hd : is_dtp sg' = is_dtp sg) by (unfold is_dtp; rewrite Hs; reflexivity).
  rewrite Hd. destruct ((k =? 2) && is_dtp sg) eqn:E; [|reflexivity].
  apply andb_true_iff in E as [E1 E2]. apply Nat.eqb_eq in E1.
  unfold dtp_format, ele_text. rewrite (H1 E1 E2). reflexivity.
Qed.

Lemma notes_hold_transfer sn sg sg' :
  (forall nt z, In nt (s_syntax sn) -> In z (snd nt) -> is_present sg' (Z.to_N z) = is_present sg (Z.to_N z)) ->
  notes_hold sn sg' = notes_hold sn sg.
Proof.
  intros H. unfold notes_hold. induction (s_syntax sn) as [|nt notes IH]; [reflexivity|].
  cbn [forallb]. rewrite IH by (intros nt0 z Hn; apply H; right; exact Hn). f_equal.
  unfold note_holds. do 2 f_equal. apply map_ext_in. intros z Hz. apply (H nt z (or_introl eq_refl) Hz).
Qed.

Lemma notes_positions sn nt z : notes_wf sn = true -> In nt (s_syntax sn) -> In z (snd nt) ->
  (1 <= z <= Z.of_nat (length (s_children sn)))%Z.
Proof.
  unfold notes_wf. intros W Hn Hz. rewrite forallb_forall in W. specialize (W nt Hn).
  unfold C16_spec.note_ok_b in W. apply andb_true_iff in W as [_ W]. rewrite forallb_forall in W.
  specialize (W z Hz). apply andb_true_iff in W as [A B]. apply Z.leb_le in A, B. lia.
Qed.

(* ---- the "too many elements" instance ---- *)
Theorem extra_element_rejected :
  forall m sn d sg sg' v, valid_wf m = true -> fmt_wf m = true -> seg_node_of m sn -> notes_wf sn = true ->
    seg_conforms (ctx_of m) sn d sg = true -> length (els sg) = length (s_children sn) ->
    extended_by sg sg' v ->
    exists evs h, seg_is_valid d (ctx_of m) sn sg' = Ok (false, evs) /\
      filter is_err evs = [h] /\                       (* exactly one error event *)
      err_code h = cs "3" /\
      err_refdes h = Some (fmt_02 (N.of_nat (S (length (s_children sn))))).
Proof.
  intros m sn d sg sg' v Hw Hf Hs Hn H Hlen [Hsid Hels].
  destruct (valid_wf_seg m sn Hw Hs) as [Hc Hok].
  destruct (conforms_parts _ _ _ _ H) as (_ & C2 & C3).
  destruct (too_many_node d (ctx_of m) sn sg' Hc Hok (fmt_wf_seg m sn Hf Hs) Hn) as (evs & h & E & F & _ & K & R).
  - rewrite Hels, app_length. cbn [length]. lia.
  - intros k Hk. rewrite <- (C2 k Hk). apply pos_conforms_transfer; [exact Hsid | |].
    + unfold datum_at. rewrite Hels. apply nth_error_app1. lia.
    + intros -> _. unfold datum_at. rewrite Hels. apply nth_error_app1. lia.
  - rewrite <- C3. apply notes_hold_transfer. intros nt z Hnt Hz.
    pose proof (notes_positions sn nt z Hn Hnt Hz) as Hr.
    unfold is_present. rewrite Hels, app_length. cbn [length].
    rewrite app_nth1 by lia.
    destruct (N.leb_spec (Z.to_N z) (N.of_nat (length (els sg)))) as [_|L]; [|lia].
    destruct (N.leb_spec (Z.to_N z) (N.of_nat (length (els sg) + 1))) as [_|L]; [reflexivity | lia].
  - exists evs, h. auto.
Qed.

(* ================================================================== *)
(* 9. one faulty simple element                                        *)

Lemma seq_split n i : i < n -> seq 0 n = seq 0 i ++ i :: seq (S i) (n - S i).
Proof.
  intros H. replace n with (i + S (n - S i)) at 1 by lia. rewrite seq_app. reflexivity.
Qed.

(* node level, stated on the faulty segment itself: every other position conforms, the notes hold,
   position i is a simple element holding the single value x, which draws at least one code *)
Theorem single_fault_node d c sn sg i e x :
  cset_ok c -> seg_ok c sn = true -> seg_fmt_ok sn = true -> notes_wf sn = true ->
  length (els sg) <= length (s_children sn) -> i < length (s_children sn) ->
  (forall k, k < length (s_children sn) -> k <> i -> pos_conforms c sn d sg k = true) ->
  notes_hold sn sg = true ->
  child_at sn i = Some (SubE e) -> datum_at sg i = Some [x] ->
  (exists code, draws c e None (formats_for d sn sg i e) (Some x) code = true) ->
  exists evs errs, seg_is_valid d c sn sg = Ok (false, evs) /\
    located None evs = map (pair (Some (Z.of_nat i + 1)%Z)) errs /\
    Forall (at_ref (e_id e)) errs /\
    (forall code, In code (codes_of errs) -> draws c e None (formats_for d sn sg i e) (Some x) code = true) /\
    (has_control_char x = false ->
     forall code, draws c e None (formats_for d sn sg i e) (Some x) code = true -> In code (codes_of errs)).
Proof.
  intros Hc Hok Hf Hn C1 Hi C2 C3 Hch Hd Hdraw.
  pose proof (seg_ok_P c sn Hok) as HP. pose proof HP as (H1 & H2 & H3).
  destruct (child_by_idx_ok c sn i H1 H2 Hi) as (ch & Hci & Hs).
  pose proof (child_at_ok sn i ch Hci) as Hca. rewrite Hch in Hca. injection Hca as <-. cbn [sub_ok] in Hs.
  set (fs := formats_for d sn sg i e) in *.
  destruct (elem_report (subele_term d) c e None (Some x) fs Hc Hs) as (b & ei & E & Sound & Compl & NonE).
  cbn [edata_of] in E.
  pose proof (elem_bool_gen _ _ _ _ _ _ _ _ (formats_for_ok d sn sg i e Hf) E) as Hb.
  destruct (elem_shape _ _ _ _ _ _ _ _ E) as (errs & Hshape & Hat).
  assert (Hcodes : codes_of ei = codes_of errs) by (rewrite Hshape, codes_of_app; reflexivity).
  assert (Hbf : b = false).
  { rewrite Hb. destruct (no_err ei) eqn:N; [|reflexivity]. apply codes_nil_no_err in N. destruct (NonE Hdraw N). }
  assert (R : pos_run d c sn sg i = Ok (false, ei)).
  { unfold pos_run. rewrite Hci, Hd. cbn [bind]. rewrite <- Hbf. exact E. }
  rewrite (seg_decompose d c sn sg Hc Hok), (seg_many_fits d sn sg C1).
  rewrite (seq_split _ i Hi).
  destruct (clean_positions d c sn sg (seq 0 i)) as [B1 E1].
  { intros k Hk. apply in_seq in Hk. apply pos_conf; auto; [lia | apply C2; lia]. }
  destruct (clean_positions d c sn sg (seq (S i) (length (s_children sn) - S i))) as [B2 E2].
  { intros k Hk. apply in_seq in Hk. apply pos_conf; auto; [lia | apply C2; lia]. }
  unfold finish. rewrite (syntax_conf d sn sg Hn H3 C3). cbn [bind map].
  rewrite forallb_app, flat_map_app. cbn [forallb flat_map]. unfold pos_b at 2, pos_e at 2. rewrite R.
  rewrite B1. cbn [andb app]. rewrite app_nil_r.
  exists (flat_map (pos_e d c sn sg) (seq 0 i) ++ ei ++ flat_map (pos_e d c sn sg) (seq (S i) (length (s_children sn) - S i))), errs.
  split; [reflexivity|]. split; [|split; [exact Hat|]].
  - destruct (located_skip _ E1 None (ei ++ flat_map (pos_e d c sn sg) (seq (S i) (length (s_children sn) - S i)))) as [cur' ->].
    rewrite Hshape. unfold elem_pre. cbn [app located].
    rewrite (located_errs _ _ Hat), (located_no_err _ _ E2), app_nil_r.
    unfold add_pos. cbn [ei_parent_is_composite ei_seq].
    pose proof (child_seq sn i _ Hci) as Hq. cbn [sub_seq] in Hq. rewrite Hq. reflexivity.
  - rewrite <- Hcodes. split; [exact Sound | exact Compl].
Qed.

(* set_nth *)
Lemma set_nth_len {A} (xs : list A) n v : length (set_nth xs n v) = length xs.
Proof. revert n; induction xs as [|x xs IH]; intros [|n]; cbn [set_nth length]; auto. Qed.

Lemma nth_error_set_nth_same {A} (xs : list A) n v : n < length xs -> nth_error (set_nth xs n v) n = Some v.
Proof.
  revert n; induction xs as [|x xs IH]; intros [|n] H; cbn [length] in H; try lia; cbn [set_nth nth_error]; [reflexivity|].
  apply IH. lia.
Qed.

Lemma nth_error_set_nth_other {A} (xs : list A) n k v : k <> n -> nth_error (set_nth xs n v) k = nth_error xs k.
Proof.
  revert n k; induction xs as [|x xs IH]; intros [|n] [|k] H; cbn [set_nth nth_error]; try reflexivity; try lia.
  apply IH. lia.
Qed.

Lemma nth_set_nth_other {A} (xs : list A) n k v dflt : k <> n -> nth k (set_nth xs n v) dflt = nth k xs dflt.
Proof.
  revert n k; induction xs as [|x xs IH]; intros [|n] [|k] H; cbn [set_nth nth]; try reflexivity; try lia.
  apply IH. lia.
Qed.

(* ---- (B), general form: the completeness half is the only one that needs the absence of a
   control character ---- *)
Theorem single_element_fault_general :
  forall m sn d sg sg' i e x,
    valid_wf m = true -> fmt_wf m = true -> seg_node_of m sn -> notes_wf sn = true ->
    seg_conforms (ctx_of m) sn d sg = true ->
    replaced_at sg sg' i x -> child_at sn i = Some (SubE e) ->
    unmentioned sn i -> is_qualifier_pos sg i = false ->
    (exists code, draws (ctx_of m) e None (formats_for d sn sg' i e) (Some x) code = true) ->
    exists evs errs, seg_is_valid d (ctx_of m) sn sg' = Ok (false, evs) /\
      located None evs = map (pair (Some (Z.of_nat i + 1)%Z)) errs /\
      Forall (at_ref (e_id e)) errs /\
      (forall code, In code (codes_of errs) -> draws (ctx_of m) e None (formats_for d sn sg' i e) (Some x) code = true) /\
      (has_control_char x = false ->
       forall code, draws (ctx_of m) e None (formats_for d sn sg' i e) (Some x) code = true -> In code (codes_of errs)).
Proof.
  intros m sn d sg sg' i e x Hw Hf Hs Hn H (Hsid & Hi & Hels) Hch Hun Hq Hdraw.
  destruct (valid_wf_seg m sn Hw Hs) as [Hc Hok].
  destruct (conforms_parts _ _ _ _ H) as (C1 & C2 & C3).
  assert (Dsame : forall k, k <> i -> datum_at sg' k = datum_at sg k).
  { intros k Hk. unfold datum_at. rewrite Hels. apply nth_error_set_nth_other. exact Hk. }
  apply (single_fault_node d (ctx_of m) sn sg' i e x Hc Hok (fmt_wf_seg m sn Hf Hs) Hn).
  - rewrite Hels, set_nth_len. exact C1.
  - lia.
  - intros k Hk Hki. rewrite <- (C2 k Hk). apply pos_conforms_transfer; [exact Hsid | apply Dsame; exact Hki|].
    intros -> Hdtp. apply Dsame. intros <-. unfold is_qualifier_pos in Hq. rewrite Hdtp in Hq. discriminate Hq.
  - rewrite <- C3. apply notes_hold_transfer. intros nt z Hnt Hz.
    pose proof (notes_positions sn nt z Hn Hnt Hz) as Hr.
    unfold is_present. rewrite Hels, set_nth_len. f_equal. f_equal. f_equal. apply nth_set_nth_other.
    intros E. apply (Hun nt Hnt). replace (Z.of_nat i + 1)%Z with z by lia. exact Hz.
  - exact Hch.
  - unfold datum_at. rewrite Hels. apply nth_error_set_nth_same. exact Hi.
  - exact Hdraw.
Qed.

(* ---- (B) ---- *)
Theorem single_element_fault_localised :
  forall m sn d sg sg' i e x cds,
    valid_wf m = true -> fmt_wf m = true -> seg_node_of m sn -> notes_wf sn = true ->
    seg_conforms (ctx_of m) sn d sg = true ->
    (* sg' is sg with the simple element at position i replaced by the value x *)
    replaced_at sg sg' i x -> child_at sn i = Some (SubE e) ->
    (* i is mentioned by no syntax note and is not the qualifier of a following element *)
    unmentioned sn i -> is_qualifier_pos sg i = false ->
    (* x draws exactly the codes cds (not none) from the definition, and holds no control character *)
    cds <> [] ->
    (forall code, In code cds <-> draws (ctx_of m) e None (formats_for d sn sg' i e) (Some x) code = true) ->
    has_control_char x = false ->
    exists evs, seg_is_valid d (ctx_of m) sn sg' = Ok (false, evs) /\
      (* every error event is filed under element position i+1 (1-based), carries the designator of
         that element node, and a code of cds; every code of cds is reported there *)
      (forall p h, In (p, h) (located None evs) ->
         p = Some (Z.of_nat i + 1)%Z /\ err_refdes h = e_id e /\ In (err_code h) cds) /\
      (forall cde, In cde cds -> exists h, In (Some (Z.of_nat i + 1)%Z, h) (located None evs) /\ err_code h = cde).
Proof.
  intros m sn d sg sg' i e x cds Hw Hf Hs Hn H Hrep Hch Hun Hq Hne Hcds Hctl.
  assert (Hdraw : exists code, draws (ctx_of m) e None (formats_for d sn sg' i e) (Some x) code = true).
  { destruct cds as [|code r]; [congruence|]. exists code. apply Hcds. left. reflexivity. }
  destruct (single_element_fault_general m sn d sg sg' i e x Hw Hf Hs Hn H Hrep Hch Hun Hq Hdraw)
    as (evs & errs & E & L & Hat & Sound & Compl).
  exists evs. split; [exact E|]. rewrite L. split.
  - intros p h Hin. apply in_map_iff in Hin as (h0 & Eq & Hin). injection Eq as <- <-.
    rewrite Forall_forall in Hat. destruct (Hat h0 Hin) as [He Hr].
    split; [reflexivity|]. split; [exact Hr|]. apply Hcds. apply Sound. apply codes_of_in. exists h0. auto.
  - intros cde Hin. apply Hcds in Hin. apply (Compl Hctl) in Hin. apply codes_of_in in Hin as (h & Hh & _ & Hc0).
    exists h. split; [|exact Hc0]. apply in_map. exact Hh.
Qed.

(* ================================================================== *)
(* 10. the side condition on the notes follows from the shape clause of C16 *)

Lemma loops_shape_children f n : C16_spec.loops_shape_ok (S f) n = true ->
  forallb (C16_spec.loops_shape_ok f) (node_children n) = true.
Proof.
  destruct n as [i t nm u p rp pm|sn]; [|reflexivity]. cbn [C16_spec.loops_shape_ok node_children].
  intros H. apply andb_true_iff in H as [_ H]. exact H.
Qed.

Lemma node_at_shape r : forall f ns n, forallb (C16_spec.loops_shape_ok f) ns = true -> node_at ns r = Some n ->
  exists f', C16_spec.loops_shape_ok f' n = true.
Proof.
  induction r as [|i rest IH]; intros f ns n H E; [discriminate E|].
  cbn [node_at] in E. destruct (nth_error ns i) as [n0|] eqn:N; [|discriminate E].
  pose proof (forallb_nth _ _ _ _ H N) as H0.
  destruct rest as [|j rest']; [injection E as <-; exists f; exact H0|].
  destruct f as [|f]; [destruct n0; discriminate H0|].
  apply (IH f (node_children n0) n); [apply loops_shape_children; exact H0 | exact E].
Qed.

Lemma shapes_notes_wf m sn : C16_spec.shapes_ok m = true -> seg_node_of m sn -> notes_wf sn = true.
Proof.
  intros H [r Hr]. destruct (node_at_shape r 40 _ _ H Hr) as [f Hf].
  destruct f as [|f]; [discriminate Hf|]. cbn [C16_spec.loops_shape_ok] in Hf.
  unfold C16_spec.seg_shape_ok in Hf. apply andb_true_iff in Hf as [Hf _]. apply andb_true_iff in Hf as [_ Hf].
  exact Hf.
Qed.

(* (A), (B) and the extra-element instance with the static conditions stated on the map only *)
Corollary conformant_segment_accepted_map :
  forall m sn d sg, valid_wf m = true -> fmt_wf m = true -> C16_spec.shapes_ok m = true -> seg_node_of m sn ->
    seg_conforms (ctx_of m) sn d sg = true ->
    exists evs, seg_is_valid d (ctx_of m) sn sg = Ok (true, evs) /\ no_error_event evs.
Proof.
  intros m sn d sg Hw Hf Hsh Hs. apply conformant_segment_accepted; auto. apply (shapes_notes_wf m sn Hsh Hs).
Qed.

(* ================================================================== *)
(* 11. non-vacuity, and why each hypothesis / clause is there (smallest witnesses)          *)
Module Witness.
  Definition mk_elem (id de u : string) (sq : Z) (codes : list (option str)) : elem :=
    {| e_id := Some (cs id); e_data_ele := Some (cs de); e_usage := Some (cs u); e_name := Some (cs id);
       e_seq := sq; e_path := None; e_max_use := None; e_res := None; e_rec := None;
       e_codes := codes; e_external := None |}.
  Definition mkde (n t : string) (mn mx : Z) : dataele :=
    {| de_num := Some (cs n); de_type := Some (cs t); de_min := mn; de_max := mx; de_name := None |}.
  Definition c0 : ectx :=
    {| x_de := [ mkde "100" "ID" 2 2; mkde "200" "AN" 1 5; mkde "300" "ID" 2 2; mkde "1250" "ID" 2 3;
                 mkde "1251" "AN" 1 35; mkde "374" "ID" 3 3 ];
       x_codes := []; x_exclude := []; x_charset := cs "B"; x_icvn := None |}.
  (* TS03: a situational composite of a required ID (code X1) and a situational AN 1/5 *)
  Definition cn0 : comp :=
    {| c_id := Some (cs "TS03"); c_refdes := Some (cs "TS03"); c_data_ele := Some (cs "C001"); c_usage := Some (cs "S");
       c_seq := 3; c_repeat := 1; c_name := Some (cs "Comp");
       c_children := [mk_elem "TS03-01" "300" "R" 1 [Some (cs "X1")]; mk_elem "TS03-02" "200" "S" 2 []] |}.
  Definition mk_seg (id : string) (notes : list (ascii * list Z)) (kids : list sub) : segm :=
    {| s_id := Some (cs id); s_path := Some (cs id); s_type := None; s_name := Some (cs "Test"); s_usage := Some (cs "R");
       s_pos := 10; s_max_use := None; s_repeat := None; s_end_tag := None; s_syntax := notes; s_children := kids |}.
  (* TS01: required ID 2/2 with codes AA, BB; TS02: situational AN 1/5; TS03: the composite *)
  Definition ts (notes : list (ascii * list Z)) : segm :=
    mk_seg "TS" notes [SubE (mk_elem "TS01" "100" "R" 1 [Some (cs "AA"); Some (cs "BB")]);
                       SubE (mk_elem "TS02" "200" "S" 2 []); SubC cn0].
  Definition dtp : segm :=
    mk_seg "DTP" [] [SubE (mk_elem "DTP01" "374" "R" 1 [Some (cs "472")]);
                     SubE (mk_elem "DTP02" "1250" "R" 2 [Some (cs "D8")]);
                     SubE (mk_elem "DTP03" "1251" "R" 3 [])].
  Definition d0 : delims := {| seg_term := "~"%char; ele_term := "*"%char; subele_term := ":"%char |}.
  Definition P (s : string) : seg := parse_seg d0 (cs s).
  (* the result, and the error events as (position filed under, code) *)
  Definition outcome (r : result (bool * list hev)) : option (bool * list (option Z * str)) :=
    match r with
    | Ok (b, evs) => Some (b, map (fun ph => (fst ph, err_code (snd ph))) (located None evs))
    | Raise _ => None
    end.
  Definition statics (sn : segm) : bool * bool * bool := (seg_ok c0 sn, seg_fmt_ok sn, notes_wf sn).

  (* a conformant segment (with a paired note that holds) and its acceptance *)
  Example conformant :
    statics (ts [("P"%char, [2; 3]%Z)]) = (true, true, true) /\
    seg_conforms c0 (ts [("P"%char, [2; 3]%Z)]) d0 (P "TS*AA*HELLO*X1:AB~") = true /\
    outcome (seg_is_valid d0 c0 (ts [("P"%char, [2; 3]%Z)]) (P "TS*AA*HELLO*X1:AB~")) = Some (true, []).
  Proof. vm_compute. auto. Qed.

  (* one faulty element: TS01 = CC draws exactly code 7, reported under position 1 only *)
  Example one_fault :
    filter (draws c0 (mk_elem "TS01" "100" "R" 1 [Some (cs "AA"); Some (cs "BB")]) None [] (Some (cs "CC"))) all_codes = [cs "7"] /\
    outcome (seg_is_valid d0 c0 (ts []) (P "TS*CC*HELLO*X1:AB~")) = Some (false, [(Some 1%Z, cs "7")]).
  Proof. vm_compute. auto. Qed.

  (* one element too many *)
  Example one_too_many :
    outcome (seg_is_valid d0 c0 (ts []) (P "TS*AA*HELLO*X1:AB*Z~")) = Some (false, [(None, cs "3")]).
  Proof. vm_compute. auto. Qed.

  (* WHY notes_wf: a note with a single position is reported as violated by every segment *)
  Example needs_notes_wf :
    statics (ts [("P"%char, [2]%Z)]) = (true, true, false) /\
    seg_conforms c0 (ts [("P"%char, [2]%Z)]) d0 (P "TS*AA*HELLO~") = true /\
    outcome (seg_is_valid d0 c0 (ts [("P"%char, [2]%Z)]) (P "TS*AA*HELLO~")) = Some (false, [(Some 2%Z, cs "2")]).
  Proof. vm_compute. auto. Qed.

  (* WHY fmt_wf: the node of Proofs/C07_valid.v (FmtCounterexample): a 1250 qualifier whose code list
     names no date/time format; the 1251 value draws no code, yet the result is False (with no error) *)
  Example needs_fmt_wf :
    seg_ok FmtCounterexample.c0 FmtCounterexample.sn0 = true /\ seg_fmt_ok FmtCounterexample.sn0 = false /\
    notes_wf FmtCounterexample.sn0 = true /\
    seg_conforms FmtCounterexample.c0 FmtCounterexample.sn0 d0 (P "XX*UN*HELLO~") = true /\
    outcome (seg_is_valid d0 FmtCounterexample.c0 FmtCounterexample.sn0 (P "XX*UN*HELLO~")) = Some (false, []).
  Proof. vm_compute. auto. Qed.

  (* WHY the clause `fits` for an empty situational composite: "::" has three (empty) components for a
     two-component node; the composite check accepts it as empty, the segment reports it as over-long,
     and the result is True WITH an error *)
  Example overlong_empty_composite :
    seg_conforms c0 (ts []) d0 (P "TS*AA**::~") = false /\
    seg_conforms c0 (ts []) d0 (P "TS*AA**:~") = true /\
    outcome (seg_is_valid d0 c0 (ts []) (P "TS*AA**::~")) = Some (true, [(Some 2%Z, cs "3")]).
  Proof. vm_compute. auto. Qed.

  (* WHY "not the qualifier of a following element": DTP02 = RD8 draws only code 7 (not in the node's
     code list), but it also re-selects the format of DTP03, which is then reported too *)
  Example needs_not_qualifier :
    seg_conforms c0 dtp d0 (P "DTP*472*D8*20200101~") = true /\
    is_qualifier_pos (P "DTP*472*D8*20200101~") 1 = true /\
    filter (draws c0 (mk_elem "DTP02" "1250" "R" 2 [Some (cs "D8")]) None [] (Some (cs "RD8"))) all_codes = [cs "7"] /\
    outcome (seg_is_valid d0 c0 dtp (P "DTP*472*RD8*20200101~")) = Some (false, [(Some 2%Z, cs "7"); (Some 3%Z, cs "8")]).
  Proof. vm_compute. auto. Qed.

  (* WHY "mentioned by no syntax note": emptying TS01 draws code 1 there, and breaks the paired note *)
  Example needs_unmentioned :
    seg_conforms c0 (ts [("P"%char, [1; 2]%Z)]) d0 (P "TS*AA*HELLO~") = true /\
    outcome (seg_is_valid d0 c0 (ts [("P"%char, [1; 2]%Z)]) (P "TS**HELLO~")) = Some (false, [(Some 1%Z, cs "1"); (Some 2%Z, cs "2")]).
  Proof. vm_compute. auto. Qed.

  (* WHY "no control character" for the completeness half: A<SOH> draws 6 and 7, only 6 is reported *)
  Example control_char_preempts :
    let v := "A"%char :: [ascii_of_nat 1] in
    filter (draws c0 (mk_elem "TS01" "100" "R" 1 [Some (cs "AA"); Some (cs "BB")]) None [] (Some v)) all_codes = [cs "6"; cs "7"] /\
    outcome (seg_is_valid d0 c0 (ts []) (parse_seg d0 (cs "TS*" ++ v ++ cs "*HELLO~"))) = Some (false, [(Some 1%Z, cs "6")]).
  Proof. vm_compute. auto. Qed.
End Witness.

Print Assumptions seg_decompose.
Print Assumptions conformant_segment_accepted.
Print Assumptions conformant_segment_accepted_map.
Print Assumptions extra_element_rejected.
Print Assumptions single_element_fault_general.
Print Assumptions single_element_fault_localised.
