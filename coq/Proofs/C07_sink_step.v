(* C07_sink_step.v — what one turn of the driver's loop (Driver.step) and Driver.finish leave for the
   output sinks, as a PARTIAL-correctness statement (nothing is claimed when the computation raises;
   totality is Proofs/C07_driver.v):
     - the handler heap keeps the structural invariant H2 and only grows (ext),
     - `node` lies in a map on which the sinks' per-map facts hold (xml_ok, html_ok),
     - cur_map, if set, is a loaded map (sinks_ok). *)
From Coq Require Import String.
From PX.Lib Require Import Base PyStr PyInt Regex Xml.
From PX.Model Require Import Show Path Segment Raw Reader Syntax MapLoad MapTree Element Counter Walker MapEnv Driver.
From PX.Model Require Errh.
From PX.Spec Require Import C01_spec C07_walker_wf C07_valid_wf C07_spec C07_sinks_spec.
From PX.Proofs Require Import C07_errh C07_sink_defs C07_sink_errh.

Local Definition l (x : string) : str := list_ascii_of_string x.

(* ------------------------------------------------------------------ *)
(* partial correctness for D                                            *)

Definition dpc {A} (c : D A) (s : dstate) (Q : A -> dstate -> Prop) : Prop :=
  match c s with (s', Ok a) => Q a s' | (_, Raise _) => True end.

Lemma dpc_ret {A} (a : A) s (Q : A -> dstate -> Prop) : Q a s -> dpc (d_ret a) s Q.
Proof. intros H. exact H. Qed.

Lemma dpc_bind {A B} (m : D A) (f : A -> D B) s (Q : B -> dstate -> Prop) :
  dpc m s (fun a s' => dpc (f a) s' Q) -> dpc (d_bind m f) s Q.
Proof. unfold dpc, d_bind. destruct (m s) as [s' [a|e]]; auto. Qed.

Lemma dpc_get s (Q : dstate -> dstate -> Prop) : Q s s -> dpc d_get s Q.
Proof. intros H. exact H. Qed.

Lemma dpc_mod f s (Q : unit -> dstate -> Prop) : Q tt (f s) -> dpc (d_mod f) s Q.
Proof. intros H. exact H. Qed.

Lemma dpc_lift {A} (r : result A) s (Q : A -> dstate -> Prop) :
  (forall a, r = Ok a -> Q a s) -> dpc (d_lift r) s Q.
Proof. unfold dpc, d_lift. destruct r; auto. Qed.

Lemma dpc_raise {A} e s (Q : A -> dstate -> Prop) : dpc (d_raise e) s Q.
Proof. exact I. Qed.

Lemma dpc_conseq {A} (c : D A) s (Q Q' : A -> dstate -> Prop) :
  dpc c s Q -> (forall a s', Q a s' -> Q' a s') -> dpc c s Q'.
Proof. unfold dpc. destruct (c s) as [s' [a|e]]; auto. Qed.

Lemma dpc_iter {A} (f : A -> D unit) (J : dstate -> Prop) xs :
  (forall x s1, J s1 -> dpc (f x) s1 (fun _ s2 => J s2)) ->
  forall s, J s -> dpc (d_iter f xs) s (fun _ s' => J s').
Proof.
  intros Hf. induction xs as [|x xs IH]; intros s Hs; cbn [d_iter].
  - apply dpc_ret. exact Hs.
  - apply dpc_bind. eapply dpc_conseq; [apply Hf; exact Hs|]. cbn beta. intros _ s1 H1. apply IH. exact H1.
Qed.

Ltac pstep :=
  cbn beta;
  lazymatch goal with
  | |- dpc (d_bind _ _) _ _ => apply dpc_bind
  | |- dpc d_get _ _ => apply dpc_get
  | |- dpc (d_mod _) _ _ => apply dpc_mod
  | |- dpc (d_ret _) _ _ => apply dpc_ret
  | |- dpc (d_raise _) _ _ => exact I
  | |- dpc (set_node _ _) _ _ => unfold set_node; apply dpc_mod
  | |- dpc (sel_upd _) _ _ => unfold sel_upd; apply dpc_mod
  | |- dpc (d_lift _) _ _ => apply dpc_lift; intros ? ?
  end.

(* ------------------------------------------------------------------ *)
(* the frame: what a computation that only talks to the handler leaves   *)

Definition SinkOK (m : xmap) : Prop := xml_ok m = true /\ html_ok m = true.

Definition KF (s s' : dstate) : Prop :=
  ds_node s' = ds_node s /\ ms_cur (ds_sel s') = ms_cur (ds_sel s) /\
  (H2 (ds_errh s) -> H2 (ds_errh s') /\ ext (ds_errh s) (ds_errh s')).

Lemma KF_refl s : KF s s.
Proof. split; [reflexivity|]. split; [reflexivity|]. intros H. split; [exact H | apply ext_refl]. Qed.

Lemma KF_trans a b c : KF a b -> KF b c -> KF a c.
Proof.
  intros (N1 & S1 & H1) (N2 & S2 & H2'). split; [congruence|]. split; [congruence|].
  intros Ha. destruct (H1 Ha) as [Hb X1]. destruct (H2' Hb) as [Hc X2]. split; [exact Hc | eapply ext_trans; eauto].
Qed.

(* a state change that neither the handler nor node / cur_map see *)
Lemma KF_same s s' :
  ds_errh s' = ds_errh s -> ds_node s' = ds_node s -> ms_cur (ds_sel s') = ms_cur (ds_sel s) -> KF s s'.
Proof.
  intros E N C. split; [exact N|]. split; [exact C|]. rewrite E. intros H. split; [exact H | apply ext_refl].
Qed.

Definition KI (h0 : Errh.errh) (s : dstate) : Prop :=
  H2 (ds_errh s) /\ ext h0 (ds_errh s) /\ SinkOK (fst (ds_node s)) /\
  (forall mp, ms_cur (ds_sel s) = Some mp -> sinks_ok mp = true).

Lemma KI_KF h0 s s' : KI h0 s -> KF s s' -> KI h0 s'.
Proof.
  intros (H & X & N & C) (EN & EC & HH). destruct (HH H) as [H' X'].
  split; [exact H'|]. split; [eapply ext_trans; eauto|]. rewrite EN, EC. split; assumption.
Qed.

Lemma call_pc ev s : dpc (call_errh ev) s (fun _ s' => KF s s').
Proof.
  unfold dpc, call_errh. cbn [ds_errh with_trace].
  destruct (apply_dev ev (ds_errh s)) as [h' [u|e]] eqn:E; [|exact I]. destruct u.
  split; [reflexivity|]. split; [reflexivity|]. cbn [ds_errh with_errh with_trace].
  intros H. exact (apply_dev_H2 ev _ _ E H).
Qed.

Lemma iter_call_pc {A} (g : A -> dev) xs s :
  dpc (d_iter (fun x => call_errh (g x)) xs) s (fun _ s' => KF s s').
Proof.
  apply (dpc_iter _ (fun s' => KF s s')); [|apply KF_refl].
  intros x s1 F1. eapply dpc_conseq; [apply call_pc|]. cbn beta. intros _ s2 F2. eapply KF_trans; eauto.
Qed.

Lemma handle_popped_pc s : dpc handle_popped s (fun _ s' => KF s s').
Proof.
  unfold handle_popped. pstep. pstep. pstep. pstep.
  set (s0 := with_pending s []).
  apply (dpc_conseq _ _ (fun _ s' => KF s0 s')).
  2:{ intros _ s' F. eapply KF_trans; [|exact F]. apply KF_same; reflexivity. }
  apply (dpc_iter _ (fun s' => KF s0 s')); [|apply KF_refl].
  intros e s1 F1. destruct (err_call e) as [ev|].
  - eapply dpc_conseq; [apply call_pc|]. cbn beta. intros _ s2 F2. eapply KF_trans; eauto.
  - pstep. exact F1.
Qed.

Lemma cur_info_pc s (Q : ninfo -> dstate -> Prop) : (forall i, Q i s) -> dpc cur_info s Q.
Proof. intros HQ. unfold cur_info. pstep. pstep. pstep. pstep. pstep. apply HQ. Qed.

Lemma add_cur_seg_pc x s : dpc (add_cur_seg x) s (fun _ s' => KF s s').
Proof. unfold add_cur_seg. pstep. apply cur_info_pc. intros i. pstep. pstep. apply call_pc. Qed.

Lemma validate_pc E sg s : dpc (validate E sg) s (fun _ s' => KF s s').
Proof.
  unfold validate. pstep. pstep. pstep. pstep. destruct a as [? ? ? ? ? ? ?|sn]; [exact I|].
  pstep. pstep. pstep.
  eapply dpc_conseq; [apply (iter_call_pc dev_of_hev)|]. cbn beta. intros _ s1 F1.
  pstep. eapply KF_trans; [exact F1|]. apply KF_same; reflexivity.
Qed.

(* ------------------------------------------------------------------ *)
(* the maps                                                             *)

Record EnvS (E : denv) : Prop := {
  es_cm : sinks_ok (de_cm E) = true;
  es_load : forall name m, de_load E name = Ok m -> sinks_ok m = true
}.

Lemma usable_isa m r : getnode m "/ISA_LOOP/ISA" = Ok r -> unusable m = false.
Proof. intros H. unfold unusable, path_ok. rewrite H. reflexivity. Qed.

Lemma usable_gs m r : getnode m "/ISA_LOOP/GS_LOOP/GS" = Ok r -> unusable m = false.
Proof.
  intros H. unfold unusable, path_ok. rewrite H.
  destruct (getnode m "/ISA_LOOP/ISA") as [?|e]; [reflexivity|]. destruct (allowed e); reflexivity.
Qed.

Lemma usable_bht m r : getnode m "/ISA_LOOP/GS_LOOP/ST_LOOP/HEADER/BHT" = Ok r -> unusable m = false.
Proof. intros H. unfold unusable, path_ok. rewrite H. apply andb_false_r. Qed.

Lemma sinks_usable m : sinks_ok m = true -> unusable m = false -> SinkOK m.
Proof.
  unfold sinks_ok. intros H U. rewrite U in H. cbn [orb] in H. apply andb_true_iff in H. exact H.
Qed.

(* ------------------------------------------------------------------ *)
(* find_node                                                            *)

Lemma find_node_pc E sg h0 s :
  EnvS E -> KI h0 s -> dpc (find_node E sg) s (fun _ s' => KI h0 s').
Proof.
  intros ES K. pose proof K as (H & X & N & C). unfold find_node.
  destruct (sid_is sg "ISA").
  { pstep. pstep. pstep. pstep. pstep. pstep. pstep. pstep. pstep. pstep.
    split; [exact H|]. split; [exact X|]. cbn [ds_node ds_sel with_w with_node fst]. split; [|exact C].
    apply sinks_usable; [exact (es_cm E ES) | eapply usable_isa; eassumption]. }
  destruct (sid_is sg "GS").
  { pstep. pstep. pstep. pstep. pstep. pstep. pstep. pstep. pstep. pstep.
    split; [exact H|]. split; [exact X|]. cbn [ds_node ds_sel with_w with_node fst]. split; [|exact C].
    apply sinks_usable; [exact (es_cm E ES) | eapply usable_gs; eassumption]. }
  pstep. pstep.
  destruct (walk_st _ _ _ _ _ _ _ _) as [[w' evs] res].
  pstep. pstep. pstep.
  assert (K1 : KI h0 (with_w s w')) by exact K.
  eapply dpc_conseq; [apply (iter_call_pc dev_of_wev)|]. cbn beta. intros _ s1 F1.
  pose proof (KI_KF _ _ _ K1 F1) as K2.
  pstep. pstep. destruct (fst (fst a)) as [r'|].
  - pstep. pstep. pstep. destruct K2 as (H2' & X2 & N2 & C2).
    split; [exact H2'|]. split; [exact X2|]. cbn [ds_node ds_sel with_node fst]. split; [exact N | exact C2].
  - pstep. exact K2.
Qed.

(* ------------------------------------------------------------------ *)
(* dispatch_seg                                                         *)

Lemma switch_map_pc E new s :
  EnvS E ->
  dpc (switch_map E new) s (fun mp s' =>
    ds_errh s' = ds_errh s /\ ds_node s' = ds_node s /\ ms_cur (ds_sel s') = Some mp /\ sinks_ok mp = true).
Proof.
  intros ES. unfold switch_map. pstep. pstep. destruct new as [f|]; [|exact I].
  pstep. pstep. pstep. pstep. pstep. pstep. pstep. cbn. repeat split. exact (es_load E ES f a H).
Qed.

(* handle_popped; node info; one closing call *)
Lemma close_pattern_pc (mk : ninfo -> Errh.src_info -> dev) s :
  dpc (dod_ handle_popped; dod i <- cur_info; dod st <- d_get; call_errh (mk i (src_of (ds_x st)))) s
      (fun _ s' => KF s s').
Proof.
  pstep. eapply dpc_conseq; [apply handle_popped_pc|]. cbn beta. intros _ s1 F1.
  pstep. apply cur_info_pc. intros i. pstep. pstep.
  eapply dpc_conseq; [apply call_pc|]. cbn beta. intros _ s2 F2. eapply KF_trans; eauto.
Qed.

Lemma seg_then_popped_pc x s :
  dpc (dod_ add_cur_seg x; handle_popped) s (fun _ s' => KF s s').
Proof.
  pstep. eapply dpc_conseq; [apply add_cur_seg_pc|]. cbn beta. intros _ s1 F1.
  eapply dpc_conseq; [apply handle_popped_pc|]. cbn beta. intros _ s2 F2. eapply KF_trans; eauto.
Qed.

Lemma dispatch_pc E sg h0 s :
  EnvS E -> KI h0 s -> dpc (dispatch_seg E sg) s (fun _ s' => KI h0 s').
Proof.
  intros ES K. unfold dispatch_seg. cbv zeta.
  assert (FR : forall c : D unit, dpc c s (fun _ s' => KF s s') -> dpc c s (fun _ s' => KI h0 s')).
  { intros c Hc. eapply dpc_conseq; [exact Hc|]. cbn beta. intros _ s' F. eapply KI_KF; eauto. }
  destruct (sid_is sg "ISA").
  { apply FR. pstep. pstep. pstep.
    eapply dpc_conseq; [apply call_pc|]. cbn beta. intros _ s1 F1.
    pstep. pstep. pstep. pstep.
    eapply dpc_conseq; [apply handle_popped_pc|]. cbn beta. intros _ s2 F2.
    eapply KF_trans; [exact F1|]. eapply KF_trans; [|exact F2]. apply KF_same; reflexivity. }
  destruct (sid_is sg "IEA").
  { apply FR. apply (close_pattern_pc (fun i src => DCloseIsa i {| xg_d := de_d E; xg_s := sg |} src)). }
  destruct (sid_is sg "GS").
  { pstep. pstep. pstep. pstep. pstep. pstep. pstep. pstep. pstep.
    set (s1 := with_sel s _).
    assert (K1 : KI h0 s1) by exact K.
    apply (dpc_conseq _ _ (fun _ s2 => KI h0 s2)).
    { destruct (negb _).
      - pstep. eapply dpc_conseq; [apply switch_map_pc; exact ES|]. cbn beta.
        intros mp s2 (E2 & N2 & C2 & M2). pstep. destruct K1 as (H1 & X1 & N1 & C1). unfold KI.
        split; [rewrite E2; exact H1|]. split; [rewrite E2; exact X1|]. rewrite N2. split; [exact N1|].
        intros mp' Hmp. congruence.
      - pstep. exact K1. }
    intros _ s2 K2. pstep. pstep.
    destruct (ms_cur (ds_sel s2)) as [mp|] eqn:EC; [|exact I].
    pstep. pstep. pstep. pstep.
    set (s3 := with_node s2 (mp, a1)).
    assert (K3 : KI h0 s3).
    { destruct K2 as (H2' & X2 & N2 & C2). split; [exact H2'|]. split; [exact X2|].
      cbn [s3 ds_node ds_sel with_node fst]. split; [|exact C2].
      apply sinks_usable; [exact (C2 mp EC) | eapply usable_gs; eassumption]. }
    pstep. eapply dpc_conseq; [apply call_pc|]. cbn beta. intros _ s4 F4.
    eapply dpc_conseq; [apply handle_popped_pc|]. cbn beta. intros _ s5 F5.
    eapply KI_KF; [exact K3|]. eapply KF_trans; eauto. }
  destruct (sid_is sg "BHT").
  { pstep. pstep. pstep.
    apply (dpc_conseq _ _ (fun _ s1 => KI h0 s1)).
    2:{ intros _ s1 K1. eapply dpc_conseq; [apply seg_then_popped_pc|]. cbn beta. intros _ s2 F2. eapply KI_KF; eauto. }
    destruct (_ || _); [|pstep; exact K].
    pstep. pstep.
    destruct (negb _); [|pstep; exact K].
    pstep. eapply dpc_conseq; [apply switch_map_pc; exact ES|]. cbn beta.
    intros mp s1 (E1 & N1 & C1 & M1). pstep. pstep. pstep.
    destruct K as (Hh & X & N & C). unfold KI. cbn [ds_errh ds_node ds_sel with_node fst].
    split; [rewrite E1; exact Hh|]. split; [rewrite E1; exact X|]. split.
    - apply sinks_usable; [exact M1 | eapply usable_bht; eassumption].
    - intros mp' Hmp. congruence. }
  destruct (sid_is sg "GE").
  { apply FR. apply (close_pattern_pc (fun i src => DCloseGs i {| xg_d := de_d E; xg_s := sg |} src)). }
  destruct (sid_is sg "ST").
  { apply FR. pstep. pstep. pstep.
    eapply dpc_conseq; [apply call_pc|]. cbn beta. intros _ s1 F1.
    eapply dpc_conseq; [apply handle_popped_pc|]. cbn beta. intros _ s2 F2. eapply KF_trans; eauto. }
  destruct (sid_is sg "SE").
  { apply FR. apply (close_pattern_pc (fun i src => DCloseSt i {| xg_d := de_d E; xg_s := sg |} src)). }
  apply FR. apply seg_then_popped_pc.
Qed.

(* ------------------------------------------------------------------ *)
(* one segment, the finish                                              *)

Theorem step_pc E sg h0 s :
  EnvS E -> KI h0 s -> dpc (step E sg) s (fun _ s' => KI h0 s').
Proof.
  intros ES K. unfold step. pstep.
  eapply dpc_conseq; [apply find_node_pc; eassumption|]. cbn beta. intros found s1 K1.
  destruct found.
  - pstep. eapply dpc_conseq; [apply dispatch_pc; eassumption|]. cbn beta. intros _ s2 K2.
    eapply dpc_conseq; [apply validate_pc|]. cbn beta. intros _ s3 F3. eapply KI_KF; eauto.
  - eapply dpc_conseq; [apply handle_popped_pc|]. cbn beta. intros _ s2 F2. eapply KI_KF; eauto.
Qed.

Theorem finish_pc h0 s : KI h0 s -> dpc finish s (fun _ s' => KI h0 s').
Proof.
  intros K. unfold finish. pstep. pstep. pstep.
  set (s1 := with_pending _ _). assert (K1 : KI h0 s1) by exact K.
  eapply dpc_conseq; [apply handle_popped_pc|]. cbn beta. intros _ s2 F2.
  pstep. pstep. pstep. eapply KI_KF; eauto.
Qed.

Print Assumptions step_pc.
