(* C07_ctx_refs.v — map references for the context reader: what ctx_wf / lid_good (Spec/C07_ctx_spec.v)
   say about one node, the reader's `in the tree` / `at the start of the tree` tests in terms of the
   enclosing loops, and what a walker move does to them. *)
From Coq Require Import String List Lia.
From PX.Lib Require Import Base PyStr PyInt Regex Xml.
From PX.Model Require Import Show Path Segment Raw Reader Syntax MapLoad MapTree Element Counter Walker MapEnv Driver Context CtxReader.
From PX.Spec Require Import C07_walker_wf C07_valid_wf C07_spec C07_ctx_spec.
From PX.Proofs Require Import C07_walker_lemmas C07_walker C07_zone C07_ctx_defs C07_ctx_walker.
Import ListNotations.

Local Definition l (x : string) : str := list_ascii_of_string x.

(* ------------------------------------------------------------------ *)
(* small list facts                                                     *)

Lemma ostr_eqb_refl a : ostr_eqb a a = true.
Proof. destruct a as [x|]; [apply str_eqb_refl | reflexivity]. Qed.

Lemma list_eqb_ostr a b : list_eqb ostr_eqb a b = true -> a = b.
Proof.
  revert b. induction a as [|x a IH]; intros [|y b] H; try discriminate; [reflexivity|].
  cbn [list_eqb] in H. apply andb_true_iff in H as [H1 H2]. apply ostr_eqb_eq in H1. f_equal; auto.
Qed.

Lemma mem_str_some lid ll : mem_str lid ll = existsb (ostr_eqb (Some lid)) (map Some ll).
Proof. induction ll as [|y ll IH]; [reflexivity|]. cbn [mem_str map existsb]. rewrite IH. reflexivity. Qed.

Lemma last_snoc {A} (xs : list A) a d : last (xs ++ [a]) d = a.
Proof. apply last_last. Qed.

Lemma rev_head_last (r : nref) :
  (match rev r with 0 :: _ => true | _ => false end) = (match r with [] => false | _ => last r 1 =? 0 end).
Proof.
  destruct r as [|a r'] using rev_ind; [reflexivity|].
  rewrite rev_app_distr. cbn [rev app]. rewrite last_snoc.
  destruct (r' ++ [a]) eqn:E; [destruct r'; discriminate|]. destruct a; reflexivity.
Qed.

Lemma in_removelast {A} (x : A) xs : In x (removelast xs) -> In x xs.
Proof.
  induction xs as [|a xs IH]; [intros []|]. cbn [removelast]. destruct xs as [|b xs']; [intros []|].
  intros [<-|H]; [left; reflexivity | right; apply IH, H].
Qed.

Lemma in_skipn_in {A} (x : A) n xs : In x (skipn n xs) -> In x xs.
Proof.
  revert xs. induction n as [|n IH]; intros xs H; [exact H|]. destruct xs as [|a xs]; [exact H|].
  right. apply IH, H.
Qed.

(* ------------------------------------------------------------------ *)
(* the enclosing loops                                                  *)

Lemma loop_id_at_nil m : loop_id_at m [] = None.
Proof. reflexivity. Qed.

Lemma anc_ids_exists m r x :
  existsb (ostr_eqb (Some x)) (anc_ids m r) = true <->
  exists k, 1 <= k < length r /\ loop_id_at m (firstn k r) = Some x.
Proof.
  unfold anc_ids. rewrite existsb_exists. split.
  - intros [i [Hin E]]. apply in_map_iff in Hin as [k [<- Hk]]. apply in_seq in Hk. apply ostr_eqb_eq in E.
    exists k. split; [lia | symmetry; exact E].
  - intros [k [Hk E]]. exists (Some x). split; [|apply ostr_eqb_refl].
    apply in_map_iff. exists k. split; [exact E|]. apply in_seq. lia.
Qed.

Lemma in_tree_split m x r :
  in_tree_ref (Some x) m r = true <-> exists p q, r = p ++ q /\ q <> [] /\ loop_id_at m p = Some x.
Proof.
  unfold in_tree_ref. rewrite anc_ids_exists. split.
  - intros [k [Hk E]]. exists (firstn k r), (skipn k r). split; [symmetry; apply firstn_skipn|]. split; [|exact E].
    intros N. pose proof (f_equal (@length nat) N) as L. rewrite skipn_length in L. cbn in L. lia.
  - intros (p & q & -> & NQ & E). exists (length p). split.
    + rewrite app_length. destruct q; [congruence|]. destruct p; [discriminate E|]. cbn [length]. lia.
    + rewrite firstn_app, Nat.sub_diag, firstn_all. cbn [firstn]. rewrite app_nil_r. exact E.
Qed.

Lemma last_anc_ids m r : last (anc_ids m r) None = loop_id_at m (removelast r).
Proof.
  unfold anc_ids. destruct (length r) as [|[|n]] eqn:L.
  - destruct r; [reflexivity | discriminate].
  - destruct r as [|a [|b r']]; try discriminate. reflexivity.
  - replace (S (S n) - 1) with (S n) by lia. rewrite seq_S, map_app. cbn [map]. rewrite last_snoc.
    rewrite removelast_firstn_len, L. reflexivity.
Qed.

Lemma prefix_is_loop ns p q n :
  p <> [] -> q <> [] -> node_at ns (p ++ q) = Some n -> exists n', node_at ns p = Some n' /\ node_is_loop n' = true.
Proof.
  intros NP NQ H. destruct (node_at_prefix p ns q n NP H) as [n' Hn']. exists n'. split; [exact Hn'|].
  destruct n' as [i t nm u ps rp pm|sn]; [reflexivity|]. pose proof (node_at_app_seg _ _ _ _ _ Hn' H). congruence.
Qed.

(* ------------------------------------------------------------------ *)
(* paths                                                                *)

Lemma starts_with_refl p : starts_with p p = true.
Proof. induction p as [|a p IH]; [reflexivity|]. cbn [starts_with]. rewrite IH, Ascii.eqb_refl. reflexivity. Qed.

Lemma starts_with_app p s : starts_with p (p ++ s) = true.
Proof. induction p as [|a p IH]; [reflexivity|]. cbn [starts_with app]. rewrite IH, Ascii.eqb_refl. reflexivity. Qed.

Lemma find_sub_suffix i pre : i <> [] -> find_sub i (pre ++ i) <> None.
Proof.
  intros NI. induction pre as [|a pre IH].
  - cbn [app]. destruct i as [|c i']; [congruence|]. cbn [find_sub].
    rewrite starts_with_refl. discriminate.
  - cbn [app find_sub]. destruct (starts_with i (a :: pre ++ i)); [discriminate|].
    destruct (find_sub i (pre ++ i)); [discriminate | congruence].
Qed.

Lemma join_suffix pp own p : join_path pp (Some own) = Ok p -> exists pre, p = pre ++ own.
Proof.
  unfold join_path. intros H. injection H as <-. destruct (str_eqb pp _).
  - exists ["/"%char]. reflexivity.
  - exists (pp ++ ["/"%char]). rewrite <- app_assoc. reflexivity.
Qed.

Lemma path_from_suffix : forall r ns pp pth n own,
  path_from ns pp r = Ok pth -> node_at ns r = Some n -> node_own_path n = Some own -> exists pre, pth = pre ++ own.
Proof.
  induction r as [|i r IH]; intros ns pp pth n own H Hn Ho; [discriminate Hn|].
  cbn [path_from node_at] in *. destruct (nth_error ns i) as [c|]; [|discriminate].
  destruct (join_path pp (node_own_path c)) as [p|e] eqn:J; cbn [bind] in H; [|discriminate].
  destruct r as [|j r'].
  - injection Hn as ->. injection H as <-. rewrite Ho in J. eapply join_suffix; eauto.
  - eapply IH; eauto.
Qed.

(* ------------------------------------------------------------------ *)
(* one map                                                              *)

Section Refs.
Variable m : xmap.
Hypothesis FO : full_ok m = true.
Hypothesis CW : ctx_wf m = true.
Notation ns := (root_nodes m).

Lemma WFm : walker_wf m = true.
Proof. apply (full_ok_parts m FO). Qed.

Lemma ctx_at r n : node_at ns r = Some n -> ctx_ref_ok m r n = true.
Proof.
  intros H. unfold ctx_wf in CW. apply andb_true_iff in CW as [A _].
  pose proof WFm as W. unfold walker_wf in W. apply andb_true_iff in W as [D _].
  rewrite forallb_forall in A. specialize (A r (all_refs_complete m r n D H)). rewrite H in A. exact A.
Qed.

Lemma seg_path r sn : node_at ns r = Some (NSeg sn) ->
  exists xp, node_x12path m r = Ok xp /\ anc_ids m r = map Some (loop_list xp).
Proof.
  intros H. pose proof (ctx_at _ _ H) as C. cbn [ctx_ref_ok] in C.
  destruct (node_x12path m r) as [xp|e]; [|discriminate]. exists xp. split; [reflexivity|].
  apply list_eqb_ostr, C.
Qed.

Lemma loop_facts r i t nm u ps rp pm : node_at ns r = Some (NLoop i t nm u ps rp pm) ->
  exists x, i = Some x /\ x <> [] /\ exists xp, node_x12path m r = Ok xp.
Proof.
  intros H. pose proof (ctx_at _ _ H) as C. cbn [ctx_ref_ok] in C. apply andb_true_iff in C as [C1 C2].
  destruct i as [[|c x]|]; try discriminate. exists (c :: x). split; [reflexivity|]. split; [discriminate|].
  apply is_ok_Ok, C2.
Qed.

Lemma ref_x12path r n : node_at ns r = Some n -> exists xp, node_x12path m r = Ok xp.
Proof.
  intros H. destruct n as [i t nm u ps rp pm|sn].
  - destruct (loop_facts _ _ _ _ _ _ _ _ H) as (x & _ & _ & X). exact X.
  - destruct (seg_path _ _ H) as (xp & X & _). eauto.
Qed.

Lemma mn_ok r n : node_at ns r = Some n -> MnOK (mn_of m r).
Proof.
  intros H. split; [|split].
  - cbn. intros ->. discriminate H.
  - cbn. eauto.
  - unfold mn_x12path. cbn. eapply ref_x12path; eauto.
Qed.

Lemma mn_id_at r n : node_at ns r = Some n -> mn_id (mn_of m r) = Ok (node_id n).
Proof.
  intros H. unfold mn_id, mn_view. cbn [mn_ref mn_map mn_of].
  destruct r as [|a r']; [discriminate H|]. rewrite (get_node_ok _ _ _ H). reflexivity.
Qed.

(* what the reader needs of a loop handed over by the walker *)
Definition LoopMn (p : mnode) : Prop :=
  MnOK p /\ exists i pth, mn_id p = Ok (Some i) /\ i <> [] /\ mn_path p = Ok pth /\ find_sub i pth <> None.

Lemma loop_mn r n : node_at ns r = Some n -> node_is_loop n = true -> LoopMn (mn_of m r).
Proof.
  intros H L. destruct n as [i t nm u ps rp pm|sn]; [|discriminate]. split; [eapply mn_ok; eauto|].
  destruct (loop_facts _ _ _ _ _ _ _ _ H) as (x & -> & NX & xp & X).
  destruct (node_x12path_path m r) as [pth Hp]; [rewrite X; reflexivity|].
  exists x, pth. split; [rewrite (mn_id_at _ _ H); reflexivity|]. split; [exact NX|]. split; [exact Hp|].
  unfold node_path in Hp. destruct (path_from_suffix _ _ _ _ _ x Hp H eq_refl) as [pre ->].
  apply find_sub_suffix, NX.
Qed.

Lemma loop_mn_id r x : loop_id_at m r = Some x -> mn_id (mn_of m r) = Ok (Some x).
Proof.
  unfold loop_id_at. destruct (node_at ns r) as [[i t nm u ps rp pm|sn]|] eqn:H; try discriminate.
  intros ->. rewrite (mn_id_at _ _ H). reflexivity.
Qed.

Lemma mn_id_loop r n x : node_at ns r = Some n -> node_is_loop n = true ->
  mn_id (mn_of m r) = Ok (Some x) -> loop_id_at m r = Some x.
Proof.
  intros H L E. rewrite (mn_id_at _ _ H) in E. injection E as E. unfold loop_id_at. rewrite H.
  destruct n; [exact E | discriminate].
Qed.

(* ---- the reader's tests ---- *)
Lemma first_seg_at r sn : node_at ns r = Some (NSeg sn) ->
  mn_is_first_seg (mn_of m r) = Ok (last r 1 =? 0).
Proof.
  intros H. unfold mn_is_first_seg, mn_view. cbn [mn_ref mn_map mn_of].
  destruct r as [|a r'] eqn:Er; [discriminate H|]. rewrite <- Er in *. rewrite (get_node_ok _ _ _ H). cbn [bind].
  rewrite rev_head_last. rewrite Er. reflexivity.
Qed.

Lemma model_in_tree r sn xp lid : node_at ns r = Some (NSeg sn) -> node_x12path m r = Ok xp ->
  mem_str lid (loop_list xp) = in_tree_ref (Some lid) m r.
Proof.
  intros H X. destruct (seg_path _ _ H) as (xp' & X' & A). rewrite X in X'. injection X' as <-.
  unfold in_tree_ref. rewrite A. apply mem_str_some.
Qed.

Lemma model_at_start r sn xp lid : node_at ns r = Some (NSeg sn) -> node_x12path m r = Ok xp ->
  (match rev (loop_list xp) with lst :: _ => str_eqb lst lid && (last r 1 =? 0) | [] => false end)
  = at_start_ref (Some lid) m r.
Proof.
  intros H X. destruct (seg_path _ _ H) as (xp' & X' & A). rewrite X in X'. injection X' as <-.
  unfold at_start_ref. rewrite A. destruct (loop_list xp) as [|a ll] using rev_ind; [reflexivity|].
  rewrite rev_app_distr. cbn [rev app]. rewrite map_app. cbn [map]. rewrite last_snoc. reflexivity.
Qed.

Lemma at_start_in_tree lid r : at_start_ref lid m r = true -> in_tree_ref lid m r = true.
Proof.
  destruct lid as [x|]; [|discriminate]. unfold at_start_ref. intros H. apply andb_true_iff in H as [H _].
  apply ostr_eqb_eq in H. rewrite last_anc_ids in H. apply in_tree_split.
  destruct r as [|a r'] using rev_ind; [discriminate H|]. rewrite removelast_snoc in H.
  exists r', [a]. split; [reflexivity|]. split; [discriminate | exact H].
Qed.

(* ---- the requested loop ---- *)
Section Lid.
Variable x : str.
Hypothesis LG : lid_good (Some x) m = true.

Lemma lid_good_at r i t nm u ps rp pm : node_at ns r = Some (NLoop i t nm u ps rp pm) -> i = Some x ->
  (pm_nodes pm = [] \/ exists s0 rest, pm_nodes pm = NSeg s0 :: rest) /\ in_tree_ref (Some x) m r = false.
Proof.
  intros H ->. cbn [lid_good] in LG.
  pose proof WFm as W. unfold walker_wf in W. apply andb_true_iff in W as [D _].
  rewrite forallb_forall in LG. specialize (LG r (all_refs_complete m r _ D H)). rewrite H in LG.
  rewrite ostr_eqb_refl in LG. cbn [negb orb] in LG. apply andb_true_iff in LG as [L1 L2].
  apply negb_true_iff in L2. split; [|exact L2].
  destruct (pm_nodes pm) as [|[? ? ? ? ? ? ?|s0] rest]; [left; reflexivity | discriminate | right; eauto].
Qed.

(* a node that is in the requested loop but not at its start, reached by `anc ++ [i] ++ 0...0`:
   the requested loop encloses anc (or is anc) *)
Lemma inside_anc r' sn anc i k :
  node_at ns r' = Some (NSeg sn) -> r' = (anc ++ [i]) ++ repeat 0 k -> inside_ref (Some x) m r' = true ->
  exists p q, anc = p ++ q /\ loop_id_at m p = Some x.
Proof.
  intros H E I. unfold inside_ref in I. apply andb_true_iff in I as [IT NS]. apply negb_true_iff in NS.
  apply anc_ids_exists in IT as [j [Hj Ej]].
  destruct (Nat.le_gt_cases j (length anc)) as [Le|Gt].
  - exists (firstn j anc), (skipn j anc). split; [symmetry; apply firstn_skipn|].
    rewrite E in Ej. rewrite <- app_assoc in Ej. rewrite firstn_app in Ej.
    replace (j - length anc) with 0 in Ej by lia. cbn [firstn] in Ej. rewrite app_nil_r in Ej. exact Ej.
  - exfalso.
    set (B := firstn j r') in *. set (rest := skipn j r').
    assert (ER : r' = B ++ rest) by (symmetry; apply firstn_skipn).
    assert (NR : rest <> []).
    { intros N. pose proof (f_equal (@length nat) N) as L. unfold rest in L. rewrite skipn_length in L. cbn in L. lia. }
    (* rest consists of zeros *)
    assert (Z : forall z, In z rest -> z = 0).
    { intros z Hz. unfold rest in Hz. rewrite E in Hz.
      rewrite skipn_app in Hz. rewrite (skipn_all2 (anc ++ [i])) in Hz by (rewrite app_length; cbn; lia).
      cbn [app] in Hz. apply (repeat_spec k 0 z). eapply in_skipn_in. exact Hz. }
    destruct rest as [|z rest'] eqn:ERest; [congruence|].
    assert (z = 0) as -> by (apply Z; left; reflexivity).
    unfold loop_id_at in Ej. destruct (node_at ns B) as [[ib t nm u ps rp pm|sb]|] eqn:HB; try discriminate.
    destruct (lid_good_at _ _ _ _ _ _ _ _ HB Ej) as [[EC | (s0 & rs & EC)] _].
    + (* no children: B ++ [0] cannot exist *)
      rewrite ER in H. replace (B ++ 0 :: rest') with ((B ++ [0]) ++ rest') in H by (rewrite <- app_assoc; reflexivity).
      destruct (node_at_prefix (B ++ [0]) ns rest' _ (snoc_not_nil B 0) H) as [n0 Hn0].
      rewrite (node_at_snoc _ _ _ _ HB) in Hn0. cbn [node_children] in Hn0. rewrite EC in Hn0. discriminate.
    + assert (H0 : node_at ns (B ++ [0]) = Some (NSeg s0)).
      { rewrite (node_at_snoc _ _ _ _ HB). cbn [node_children]. rewrite EC. reflexivity. }
      rewrite ER in H. replace (B ++ 0 :: rest') with ((B ++ [0]) ++ rest') in H by (rewrite <- app_assoc; reflexivity).
      pose proof (node_at_app_seg _ _ _ _ _ H0 H) as ->.
      (* r' = B ++ [0]: at the start *)
      unfold at_start_ref in NS. rewrite last_anc_ids, ER, removelast_snoc, last_snoc in NS.
      unfold loop_id_at in NS. rewrite HB, Ej, ostr_eqb_refl in NS. discriminate NS.
Qed.

(* no loop that has the requested id encloses another one *)
Lemma no_nesting p q y : q <> [] -> loop_id_at m p = Some x -> loop_id_at m (p ++ q) = Some y -> y <> x.
Proof.
  intros NQ Ep Epq ->. unfold loop_id_at in Epq.
  destruct (node_at ns (p ++ q)) as [[i t nm u ps rp pm|sb]|] eqn:HB; try discriminate.
  destruct (lid_good_at _ _ _ _ _ _ _ _ HB Epq) as [_ NT].
  assert (T : in_tree_ref (Some x) m (p ++ q) = true) by (apply in_tree_split; eauto).
  congruence.
Qed.

End Lid.
End Refs.

(* ------------------------------------------------------------------ *)
(* a walker move                                                        *)

Lemma removelast_map {A B} (f : A -> B) xs : removelast (map f xs) = map f (removelast xs).
Proof.
  induction xs as [|a xs IH]; [reflexivity|]. cbn [map removelast]. destruct xs as [|b xs']; [reflexivity|].
  cbn [map] in *. rewrite IH. reflexivity.
Qed.

Lemma in_ups p anc P : In p (ups anc P) -> exists k, p = firstn k P /\ length anc < k <= length P.
Proof.
  unfold ups. intros H. apply in_map_iff in H as [k [<- Hk]]. apply in_rev, in_seq in Hk. exists k. split; [reflexivity | lia].
Qed.

Section Move.
Variable m : xmap.
Hypothesis FO : full_ok m = true.
Hypothesis CW : ctx_wf m = true.
Variable lid : option str.
Hypothesis LG : lid_good lid m = true.
Notation ns := (root_nodes m).

Lemma walker_move w start d sg sc cl ls o pop push :
  seg_ref m start ->
  snd (walk_st m w start d sg sc cl ls) = Ok (o, pop, push) ->
  Forall LoopMn (map (mn_of m) pop) /\ Forall LoopMn (map (mn_of m) push) /\
  match o with
  | None => pop = [] /\ push = []
  | Some r' =>
      seg_ref m r' /\
      (inside_ref lid m r' = true -> in_tree_ref lid m start = true) /\
      (inside_ref lid m r' = true -> forall x, lid = Some x ->
         Forall (fun p => mn_id p <> Ok (Some x)) (removelast (map (mn_of m) pop))) /\
      (in_tree_ref lid m r' = false -> forall x, lid = Some x ->
         Forall (fun p => mn_id p <> Ok (Some x)) (map (mn_of m) push))
  end.
Proof.
  intros SR E. destruct (full_ok_parts m FO) as (WF & FW & _).
  pose proof (walker_poppush m w start d sg sc cl ls o pop push WF FW SR E) as PP.
  destruct o as [r'|].
  2:{ destruct PP as [-> ->]. repeat split; constructor. }
  destruct PP as (anc & PF & (i & k & Er') & PC & PU).
  assert (SR' : seg_ref m r').
  { pose proof (walker_total m w start d sg sc cl ls WF SR) as WT.
    destruct (walk_st m w start d sg sc cl ls) as [[w' evs] res]. cbn [snd] in E. subst res. exact WT. }
  destruct SR as [sn Hs]. destruct SR' as [sn' Hr'].
  set (P := removelast start) in *.
  assert (NS : start <> []) by (intros ->; discriminate Hs).
  assert (ES : start = P ++ [last start 0]) by (apply app_removelast_last; exact NS).
  (* every prefix of P is a proper prefix of start *)
  assert (PS : forall p j, p = firstn j P -> j <= length P -> p <> [] ->
                 exists q, q <> [] /\ start = p ++ q).
  { intros p j -> Lj _. exists (skipn j P ++ [last start 0]). split; [apply snoc_not_nil|].
    rewrite app_assoc, firstn_skipn. exact ES. }
  destruct PF as (n & Ln & Ea).
  (* the members of pop *)
  assert (POP : forall p, In p pop -> p <> [] /\ exists j, p = firstn j P /\ length anc <= j <= length P).
  { intros p Hp. destruct PC as [-> | [-> NA]].
    - apply in_ups in Hp as (j & -> & Hj). split; [|exists j; split; [reflexivity | lia]].
      intros N. pose proof (f_equal (@length nat) N) as L. rewrite firstn_length in L. cbn in L. lia.
    - destruct Hp as [<-|[]]. split; [exact NA|]. exists (length anc). split; [exact Ea | lia]. }
  assert (VPOP : Forall LoopMn (map (mn_of m) pop)).
  { apply Forall_forall. intros mp Hmp. apply in_map_iff in Hmp as (p & <- & Hp).
    destruct (POP p Hp) as (NP & j & Ej & Hj). destruct (PS p j Ej (proj2 Hj) NP) as (q & NQ & Eq).
    rewrite Eq in Hs. destruct (prefix_is_loop _ _ _ _ NP NQ Hs) as (n' & Hn' & Ln').
    eapply loop_mn; eauto. }
  assert (VPUSH : Forall LoopMn (map (mn_of m) push)).
  { apply Forall_forall. intros mp Hmp. apply in_map_iff in Hmp as (p & <- & Hp).
    rewrite Forall_forall in PU. destruct (PU p Hp) as (NP & q & NQ & Eq).
    rewrite Eq in Hr'. destruct (prefix_is_loop _ _ _ _ NP NQ Hr') as (n' & Hn' & Ln').
    eapply loop_mn; eauto. }
  split; [exact VPOP|]. split; [exact VPUSH|]. split; [exists sn'; exact Hr'|].
  split; [|split].
  - (* inside -> the start node was in the loop *)
    intros I. destruct lid as [x|]; [|discriminate I].
    destruct (inside_anc m FO x LG r' sn' anc i k Hr' Er' I) as (p0 & q0 & Ea0 & Ep0).
    apply in_tree_split. exists p0, (q0 ++ skipn (length anc) P ++ [last start 0]). split; [|split; [|exact Ep0]].
    + rewrite ES at 1. rewrite <- (firstn_skipn (length anc) P) at 1. rewrite <- Ea, Ea0. rewrite <- !app_assoc. reflexivity.
    + intros N. apply app_eq_nil in N as [_ N]. apply app_eq_nil in N as [_ N]. discriminate N.
  - intros I x EL. subst lid.
    destruct (inside_anc m FO x LG r' sn' anc i k Hr' Er' I) as (p0 & q0 & Ea0 & Ep0).
    rewrite removelast_map. apply Forall_forall. intros mp Hmp. apply in_map_iff in Hmp as (p & <- & Hp).
    destruct PC as [-> | [-> NA]]; [|destruct Hp].
    apply in_removelast, in_ups in Hp as (j & Ej & Hj).
    assert (NP : p <> []).
    { subst p. intros N. pose proof (f_equal (@length nat) N) as L. rewrite firstn_length in L. cbn in L. lia. }
    destruct (PS p j Ej (proj2 Hj) NP) as (q & NQ & Eq).
    rewrite Eq in Hs. destruct (prefix_is_loop _ _ _ _ NP NQ Hs) as (n' & Hn' & Ln').
    intros EI. pose proof (mn_id_loop m p n' x Hn' Ln' EI) as LP.
    (* p = p0 ++ (q0 ++ rest) with a non-empty rest *)
    assert (EP : p = p0 ++ (q0 ++ skipn (length anc) p)).
    { rewrite app_assoc, <- Ea0. rewrite <- (firstn_skipn (length anc) p) at 1. f_equal.
      rewrite Ej, firstn_firstn. replace (Nat.min (length anc) j) with (length anc) by lia. symmetry. exact Ea. }
    assert (NR : q0 ++ skipn (length anc) p <> []).
    { intros N. apply app_eq_nil in N as [_ N]. pose proof (f_equal (@length nat) N) as L.
      rewrite skipn_length, Ej, firstn_length in L. cbn in L. lia. }
    rewrite EP in LP. exact (no_nesting m FO x LG p0 _ x NR Ep0 LP eq_refl).
  - intros NT x EL. subst lid. apply Forall_forall. intros mp Hmp. apply in_map_iff in Hmp as (p & <- & Hp).
    rewrite Forall_forall in PU. destruct (PU p Hp) as (NP & q & NQ & Eq).
    pose proof Hr' as Hr''. rewrite Eq in Hr''. destruct (prefix_is_loop _ _ _ _ NP NQ Hr'') as (n' & Hn' & Ln').
    intros EI. pose proof (mn_id_loop m p n' x Hn' Ln' EI) as LP.
    assert (T : in_tree_ref (Some x) m r' = true) by (apply in_tree_split; exists p, q; auto).
    congruence.
Qed.

End Move.

Print Assumptions walker_move.
