(* C10_place.v — property C10, placement law: where add_segment / add_loop / add_node put the new
   child among its siblings, what else changes in the heap, and that the forest invariant is kept.
   Spec: Spec/C10_place_spec.v.  Model: Model/Context.v. *)
From Coq Require Import String Sorted.
From PX.Lib Require Import Base PyStr.
From PX.Model Require Import Path Segment MapLoad MapTree Walker Context.
From PX.Spec Require Import C10_spec C10_place_spec.
From PX.Proofs Require Import Ctx_basics C10_tree.

(* ================================================================== *)
(* Part A: the list-level insertion                                    *)

Section ListLaws.
Context {A : Type}.
Implicit Types (xs : list (Z * A)) (v : Z * A).

Lemma last_le_none p xs : last_le p xs = None <-> Forall (fun x => (p < fst x)%Z) xs.
Proof.
  induction xs as [|x r IH]; cbn [last_le]; [split; auto|].
  destruct (last_le p r) as [i|].
  - split; [discriminate|]. intros F. inversion F; subst. apply IH in H2. discriminate.
  - destruct (Z.leb_spec (fst x) p).
    + split; [discriminate|]. intros F. inversion F; subst. lia.
    + split; [|reflexivity]. intros _. constructor; [lia|]. apply IH. reflexivity.
Qed.

(* the index found: the element there is <= p, every later one is > p *)
Lemma last_le_some p xs i :
  last_le p xs = Some i ->
  exists a y b, xs = a ++ y :: b /\ length a = i /\ (fst y <= p)%Z /\ Forall (fun x => (p < fst x)%Z) b.
Proof.
  revert i. induction xs as [|x r IH]; cbn [last_le]; [discriminate|]. intros i.
  destruct (last_le p r) as [j|] eqn:E.
  - intros [= <-]. destruct (IH j eq_refl) as (a & y & b & -> & La & Hy & Hb).
    exists (x :: a), y, b. cbn [app length]. repeat split; auto.
  - destruct (Z.leb_spec (fst x) p); [|discriminate]. intros [= <-].
    exists [], x, r. repeat split; auto. apply last_le_none, E.
Qed.

Lemma place_at_app a b v : place_at (a ++ b) (length a) v = a ++ v :: b.
Proof.
  unfold place_at. rewrite firstn_app, skipn_app, Nat.sub_diag, firstn_all, skipn_all. cbn. rewrite app_nil_r. reflexivity.
Qed.

(* the shape of the result, for ANY sibling list: the new element stands right after an element
   that is <= it (or in front), and everything behind it is greater *)
Theorem insert_by_pos_shape xs v :
  exists a b, xs = a ++ b /\ insert_by_pos xs v = a ++ v :: b /\
              Forall (fun x => (fst v < fst x)%Z) b /\
              (a = [] \/ exists a' y, a = a' ++ [y] /\ (fst y <= fst v)%Z).
Proof.
  unfold insert_by_pos. destruct (last_le (fst v) xs) as [i|] eqn:E.
  - destruct (last_le_some _ _ _ E) as (a & y & b & -> & La & Hy & Hb).
    exists (a ++ [y]), b. rewrite <- app_assoc. cbn [app]. split; [reflexivity|]. split.
    + replace (S i) with (length (a ++ [y])) by (rewrite app_length; cbn; lia).
      replace (a ++ y :: b) with ((a ++ [y]) ++ b) by (rewrite <- app_assoc; reflexivity).
      rewrite place_at_app, <- app_assoc. reflexivity.
    + split; [exact Hb|]. right. eauto.
  - exists [], xs. repeat split; auto. apply last_le_none, E.
Qed.

(* on siblings that are in map order: after every sibling with a position <= the new one, before
   every sibling with a greater one, and the result is in map order again *)
Theorem insert_by_pos_sorted xs v :
  pos_sorted xs ->
  exists a b, xs = a ++ b /\ insert_by_pos xs v = a ++ v :: b /\
              Forall (fun x => (fst x <= fst v)%Z) a /\ Forall (fun x => (fst v < fst x)%Z) b /\
              pos_sorted (insert_by_pos xs v).
Proof.
  intros S. destruct (insert_by_pos_shape xs v) as (a & b & -> & E & Hb & Ha).
  assert (Fa : Forall (fun x => (fst x <= fst v)%Z) a).
  { destruct Ha as [->|(a' & y & -> & Hy)]; [constructor|].
    apply Forall_app. split; [|constructor; auto].
    unfold pos_sorted in S. rewrite <- app_assoc in S. cbn [app] in S.
    clear -S Hy. induction a' as [|z a' IH]; [constructor|].
    cbn [app] in S. inversion S; subst. constructor; [|apply IH; assumption].
    rewrite Forall_forall in H2. specialize (H2 y). cbn beta in H2.
    assert (In y (a' ++ y :: b)) by (apply in_or_app; right; left; reflexivity). specialize (H2 H). lia. }
  exists a, b. repeat split; auto. rewrite E.
  unfold pos_sorted in *. clear E Ha.
  induction a as [|z a IH]; cbn [app] in *.
  - constructor; [exact S|]. eapply Forall_impl; [|exact Hb]. cbn. intros; lia.
  - inversion S; subst. inversion Fa; subst. constructor; [apply IH; assumption|].
    apply Forall_app in H2. destruct H2 as [H2a H2b]. apply Forall_app. split; [exact H2a|].
    constructor; [assumption|exact H2b].
Qed.

End ListLaws.

Lemma insert_split {A} (xs : list (Z * A)) v :
  exists a b, xs = a ++ b /\ insert_by_pos xs v = a ++ v :: b.
Proof. destruct (insert_by_pos_shape xs v) as (a & b & E1 & E2 & _). eauto. Qed.

Lemma insert_at_split {B} (l : list B) i v : i <= length l -> insert_at l i v = firstn i l ++ v :: skipn i l.
Proof.
  revert i. induction l as [|x l IH]; intros [|i] L; cbn [insert_at firstn skipn app length] in *; try reflexivity; try lia.
  rewrite IH by lia. reflexivity.
Qed.

(* the index the code computes, and the list insertion it amounts to *)
Lemma insert_at_code {A} (olds : list (Z * A)) pos n :
  insert_at (map snd olds) (match last_le pos olds with Some i => S i | None => 0 end) n
  = map snd (insert_by_pos olds (pos, n)).
Proof.
  unfold insert_by_pos. cbn [fst]. destruct (last_le pos olds) as [i|] eqn:E.
  - destruct (last_le_some _ _ _ E) as (a & y & b & -> & La & _ & _).
    rewrite insert_at_split by (rewrite map_length, app_length; cbn [length]; lia).
    unfold place_at. rewrite firstn_map, skipn_map, map_app. reflexivity.
  - destruct olds; reflexivity.
Qed.

(* ================================================================== *)
(* Part B: reading the heap                                            *)

Lemma hb_ok {A B} (m : H A) (f : A -> H B) h h2 b :
  h_bind m f h = (h2, Ok b) -> exists h1 a, m h = (h1, Ok a) /\ f a h1 = (h2, Ok b).
Proof.
  intros E. apply h_bind_inv in E. destruct E as [(h1 & a & E1 & E2)|(e & _ & E)]; [eauto|discriminate].
Qed.

Lemma bind_ok {A B} (r : result A) (f : A -> result B) b : bind r f = Ok b -> exists a, r = Ok a /\ f a = Ok b.
Proof. destruct r; cbn [bind]; [eauto|discriminate]. Qed.

Lemma live_ids_of_live_of h cs : live_ids_of h cs = (do kids <- live_of h cs; Ok (map fst kids)).
Proof.
  induction cs as [|c r IH]; [reflexivity|]. cbn [live_ids_of live_of]. rewrite IH.
  destruct (h_get h c) as [x|e]; cbn [bind]; [|reflexivity].
  destruct (live_of h r) as [more|e]; cbn [bind]; [|reflexivity]. destruct (o_live x); reflexivity.
Qed.

(* what two heaps must agree on at an id for the live-children reading: liveness and the map node *)
Definition shell_eq (a b : option dobj) : Prop :=
  match a, b with
  | Some x, Some y => o_live x = o_live y /\ o_map x = o_map y
  | None, None => True
  | _, _ => False
  end.

Lemma shell_eq_refl a : shell_eq a a.
Proof. destruct a; cbn; auto. Qed.

Lemma shell_eq_of_eq a b : a = b -> shell_eq a b.
Proof. intros ->. apply shell_eq_refl. Qed.

Lemma live_ids_of_shell h h' cs :
  (forall c, In c cs -> shell_eq (nth_error h' c) (nth_error h c)) -> live_ids_of h' cs = live_ids_of h cs.
Proof.
  induction cs as [|c r IH]; intros S; [reflexivity|]. cbn [live_ids_of].
  rewrite IH by (intros; apply S; right; assumption).
  specialize (S c (or_introl eq_refl)). unfold h_get, shell_eq in *.
  destruct (nth_error h' c) as [x|], (nth_error h c) as [y|]; try contradiction; [|reflexivity].
  cbn [bind]. destruct S as [-> _]. reflexivity.
Qed.

Lemma pos_of_ids_shell h h' cs :
  (forall c, In c cs -> shell_eq (nth_error h' c) (nth_error h c)) -> pos_of_ids h' cs = pos_of_ids h cs.
Proof.
  induction cs as [|c r IH]; intros S; [reflexivity|]. cbn [pos_of_ids].
  rewrite IH by (intros; apply S; right; assumption).
  specialize (S c (or_introl eq_refl)). unfold h_get, shell_eq in *.
  destruct (nth_error h' c) as [x|], (nth_error h c) as [y|]; try contradiction; [|reflexivity].
  destruct S as [_ S]. cbn [bind]. unfold obj_pos. rewrite S. reflexivity.
Qed.

Lemma live_ids_of_spec h cs l :
  live_ids_of h cs = Ok l ->
  l = filter (fun c => match nth_error h c with Some x => o_live x | None => false end) cs /\
  (forall c, In c cs -> exists x, nth_error h c = Some x).
Proof.
  revert l. induction cs as [|c r IH]; cbn [live_ids_of filter]; intros l E.
  - injection E as <-. split; [reflexivity|]. intros c [].
  - apply bind_ok in E. destruct E as (x & Ex & E). apply bind_ok in E. destruct E as (more & Em & E).
    injection E as <-. destruct (IH _ Em) as [-> Hall]. apply h_get_some in Ex. rewrite Ex.
    split; [destruct (o_live x); reflexivity|]. intros c' [<-|Hin]; eauto.
Qed.

Lemma live_ids_of_all_live h l :
  (forall c, In c l -> exists x, nth_error h c = Some x /\ o_live x = true) -> live_ids_of h l = Ok l.
Proof.
  induction l as [|c r IH]; intros L; [reflexivity|]. cbn [live_ids_of].
  destruct (L c (or_introl eq_refl)) as (x & Ex & Lx). unfold h_get. rewrite Ex. cbn [bind].
  rewrite IH by (intros; apply L; right; assumption). cbn [bind]. rewrite Lx. reflexivity.
Qed.

Lemma pos_of_ids_spec h cs ps :
  pos_of_ids h cs = Ok ps ->
  map snd ps = cs /\ Forall (fun pc => exists cx, nth_error h (snd pc) = Some cx /\ obj_pos cx = Ok (fst pc)) ps.
Proof.
  revert ps. induction cs as [|c r IH]; cbn [pos_of_ids]; intros ps E.
  - injection E as <-. split; [reflexivity|constructor].
  - apply bind_ok in E. destruct E as (x & Ex & E). apply bind_ok in E. destruct E as (p & Ep & E).
    apply bind_ok in E. destruct E as (more & Em & E). injection E as <-.
    destruct (IH _ Em) as [M F]. cbn [map snd]. rewrite M. split; [reflexivity|].
    constructor; [|exact F]. exists x. split; [apply h_get_some, Ex|exact Ep].
Qed.

Lemma pos_of_ids_build h ps :
  Forall (fun pc => exists cx, nth_error h (snd pc) = Some cx /\ obj_pos cx = Ok (fst pc)) ps ->
  pos_of_ids h (map snd ps) = Ok ps.
Proof.
  induction 1 as [|[p c] ps (cx & Ex & Ep) _ IH]; [reflexivity|]. cbn [map snd pos_of_ids fst] in *.
  unfold h_get. rewrite Ex. cbn [bind]. rewrite Ep. cbn [bind]. rewrite IH. reflexivity.
Qed.

(* ---- the pieces of _get_insert_idx ---- *)

Lemma cleanup_eq p h :
  cleanup p h = match nth_error h p with
                | None => (h, Raise OtherError)
                | Some x => match live_of h (o_children x) with
                            | Raise e => (h, Raise e)
                            | Ok kids => (set_nth h p (upd_children x (map fst kids)), Ok tt)
                            end
                end.
Proof.
  unfold cleanup, h_bind. rewrite h_obj_eq. unfold h_get. destruct (nth_error h p) as [x|]; [|reflexivity].
  rewrite h_read_eq. destruct (live_of h (o_children x)); reflexivity.
Qed.

(* the scan of _get_insert_idx (173-177) *)
Definition idx_go (h : heap) (map_idx : Z) : nat -> list oid -> option nat -> result (option nat) :=
  fix go (i : nat) (cs : list oid) (acc : option nat) : result (option nat) :=
  match cs with
  | [] => Ok acc
  | c :: r =>
      do cx <- h_get h c;
      match o_map cx with
      | None => Raise AttributeError
      | Some cm => do p <- mn_pos cm; go (S i) r (if (p <=? map_idx)%Z then Some i else acc)
      end
  end.

Lemma idx_go_cons h m i c r acc :
  idx_go h m i (c :: r) acc =
  do cx <- h_get h c;
  match o_map cx with
  | None => Raise AttributeError
  | Some cm => do p <- mn_pos cm; idx_go h m (S i) r (if (p <=? m)%Z then Some i else acc)
  end.
Proof. reflexivity. Qed.

Lemma idx_go_ok h m cs : forall i acc r,
  idx_go h m i cs acc = Ok r ->
  exists ps, pos_of_ids h cs = Ok ps /\
             r = match last_le m ps with Some j => Some (i + j) | None => acc end.
Proof.
  induction cs as [|c cs IH]; intros i acc r E; cbn [pos_of_ids] in *.
  - cbn in E. injection E as <-. exists []. split; reflexivity.
  - rewrite idx_go_cons in E. apply bind_ok in E. destruct E as (cx & Ex & E). rewrite Ex. cbn [bind]. unfold obj_pos.
    destruct (o_map cx) as [cm|]; [|discriminate].
    apply bind_ok in E. destruct E as (p & Ep & E). rewrite Ep. cbn [bind].
    destruct (IH _ _ _ E) as (ps & Eps & ->). rewrite Eps. cbn [bind].
    exists ((p, c) :: ps). split; [reflexivity|]. cbn [last_le fst].
    destruct (last_le m ps) as [j|]; [f_equal; lia|].
    destruct (p <=? m)%Z; [f_equal; lia|reflexivity].
Qed.

Lemma set_nth_twice {B} (xs : list B) n a b : set_nth (set_nth xs n a) n b = set_nth xs n b.
Proof.
  apply nth_error_ext'. intros k. rewrite !nth_error_set_nth. rewrite Nat.eqb_refl. destruct (k =? n); [|reflexivity].
  destruct (nth_error xs n); reflexivity.
Qed.

Lemma shell_set_children h p me cs c :
  nth_error h p = Some me -> shell_eq (nth_error (set_nth h p (upd_children me cs)) c) (nth_error h c).
Proof.
  intros E. rewrite nth_error_set_nth. destruct (Nat.eqb_spec c p) as [->|]; [|apply shell_eq_refl].
  rewrite E. cbn. auto.
Qed.

(* _get_insert_idx followed by children.insert: the parent's list becomes the insertion of the
   new id into its live children; nothing else changes *)
Lemma place_core hN p mn n idx h2 h3 r :
  get_insert_idx p mn hN = (h2, Ok idx) -> insert_child p idx n h2 = (h3, r) ->
  exists me pos olds,
    nth_error hN p = Some me /\ mn_pos mn = Ok pos /\ live_children hN p = Ok olds /\ r = Ok tt /\
    h3 = set_nth hN p (upd_children me (map snd (insert_by_pos olds (pos, n)))).
Proof.
  intros G I. unfold get_insert_idx in G.
  apply hb_ok in G. destruct G as (h1 & [] & C & G). rewrite cleanup_eq in C.
  destruct (nth_error hN p) as [me|] eqn:Eme; [|discriminate].
  destruct (live_of hN (o_children me)) as [kids|] eqn:Ek; [|discriminate]. injection C as <-.
  apply hb_ok in G. destruct G as (? & pos & L & G). rewrite h_lift_eq in L. injection L as <- Epos.
  apply hb_ok in G. destruct G as (? & x & O & G). rewrite h_obj_eq in O. injection O as <- Ex.
  apply h_get_some in Ex. rewrite (nth_error_set_nth_same _ _ _ _ Eme) in Ex. injection Ex as <-.
  apply hb_ok in G. destruct G as (? & ri & R & G). rewrite h_read_eq in R. injection R as <- R.
  rewrite h_ret_eq in G. injection G as <- <-.
  change (idx_go (set_nth hN p (upd_children me (map fst kids))) pos 0 (map fst kids) None = Ok ri) in R.
  apply idx_go_ok in R. destruct R as (olds & Eolds & ->).
  rewrite (pos_of_ids_shell hN) in Eolds by (intros; apply shell_set_children, Eme).
  exists me, pos, olds. split; [reflexivity|]. split; [exact Epos|]. split.
  { unfold live_children, live_ids, h_get. rewrite Eme. cbn [bind]. rewrite live_ids_of_live_of, Ek. cbn [bind]. exact Eolds. }
  unfold insert_child in I. rewrite h_mod_eq, (nth_error_set_nth_same _ _ _ _ Eme) in I. injection I as <- <-.
  split; [reflexivity|]. rewrite set_nth_twice. f_equal.
  cbn [o_children upd_children]. apply pos_of_ids_spec in Eolds. destruct Eolds as [M _].
  assert (Q : upd_children (upd_children me (map fst kids)) = upd_children me) by reflexivity. rewrite Q.
  f_equal. rewrite <- M. cbn [Nat.add]. rewrite <- insert_at_code.
  destruct (last_le pos olds); reflexivity.
Qed.

Lemma Forall_insert {A} (P : Z * A -> Prop) xs v :
  Forall P xs -> P v -> Forall P (insert_by_pos xs v).
Proof.
  intros F Pv. destruct (insert_split xs v) as (a & b & -> & ->).
  apply Forall_app in F. destruct F as [Fa Fb]. apply Forall_app. split; [exact Fa|]. constructor; assumption.
Qed.

(* the reading of the parent after the insertion *)
Lemma after_place hN p me n nx pos olds :
  nth_error hN p = Some me -> live_children hN p = Ok olds ->
  nth_error hN n = Some nx -> o_live nx = true -> obj_pos nx = Ok pos ->
  live_children (set_nth hN p (upd_children me (map snd (insert_by_pos olds (pos, n))))) p
  = Ok (insert_by_pos olds (pos, n)).
Proof.
  intros Eme L En Ln Pn. set (news := insert_by_pos olds (pos, n)).
  unfold live_children, live_ids in L. unfold h_get in L. rewrite Eme in L. cbn [bind] in L.
  apply bind_ok in L. destruct L as (ids & Eids & Eolds).
  apply live_ids_of_spec in Eids. destruct Eids as [Eids _].
  apply pos_of_ids_spec in Eolds. destruct Eolds as [M F].
  assert (Fnews : Forall (fun pc => exists cx, nth_error hN (snd pc) = Some cx /\ o_live cx = true /\ obj_pos cx = Ok (fst pc)) news).
  { apply Forall_insert; [|exists nx; auto].
    rewrite Forall_forall in *. intros pc Hin. destruct (F pc Hin) as (cx & Ex & Px). exists cx. split; [exact Ex|]. split; [|exact Px].
    assert (Hc : In (snd pc) ids) by (rewrite <- M; apply in_map, Hin).
    rewrite Eids in Hc. apply filter_In in Hc. rewrite Ex in Hc. apply Hc. }
  unfold live_children, live_ids, h_get. rewrite (nth_error_set_nth_same _ _ _ _ Eme). cbn [bind o_children upd_children].
  rewrite (live_ids_of_shell hN) by (intros; apply shell_set_children, Eme).
  rewrite live_ids_of_all_live.
  2:{ intros c Hc. apply in_map_iff in Hc. destruct Hc as (pc & <- & Hin). rewrite Forall_forall in Fnews.
      destruct (Fnews pc Hin) as (cx & Ex & Lx & _). eauto. }
  cbn [bind]. rewrite (pos_of_ids_shell hN) by (intros; apply shell_set_children, Eme).
  apply pos_of_ids_build. eapply Forall_impl; [|exact Fnews]. cbn beta. intros pc (cx & Ex & _ & Px). eauto.
Qed.

(* ================================================================== *)
(* the forest invariant                                                *)

Lemma depth_le_mono h d o : depth_le h d o -> forall d', d <= d' -> depth_le h d' o.
Proof.
  induction 1 as [d o x Ex _ IH]. intros [|d'] L; [lia|]. econstructor; [exact Ex|]. intros k Hk. apply IH; [exact Hk|lia].
Qed.

Lemma depth_le_lt h d o : depth_le h d o -> o < length h.
Proof. intros D. inversion D; subst. apply nth_error_Some. congruence. Qed.

Lemma reach_trans h a b c : reachable_children h a b -> reachable_children h b c -> reachable_children h a c.
Proof. intros R1 R2. induction R2; [exact R1|]. eapply rc_step; eauto. Qed.

Lemma reach_child h o x k : nth_error h o = Some x -> In k (o_children x) -> reachable_children h o k.
Proof. intros E I. eapply rc_step; [apply rc_refl|exact E|exact I]. Qed.

Lemma depth_reach h d o z : depth_le h d o -> reachable_children h o z -> depth_le h d z.
Proof.
  intros D R. induction R as [|x k obj R IH E I]; [exact D|].
  inversion IH; subst. rewrite E in H. injection H as <-. eapply depth_le_mono; [apply H0, I|lia].
Qed.

(* no cycle: a node is not reachable from its own child *)
Lemma no_cycle h d : forall o, depth_le h d o -> forall x k, nth_error h o = Some x -> In k (o_children x) ->
  ~ reachable_children h k o.
Proof.
  induction d as [|d IH]; intros o D x k E I R; [inversion D|].
  inversion D; subst. rewrite E in H0. injection H0 as <-.
  pose proof (H1 k I) as Dk. pose proof (depth_reach _ _ _ _ Dk R) as Do.
  exact (IH o Do x k E I R).
Qed.

Lemma forest_no_cycle h o x k : forest h -> nth_error h o = Some x -> In k (o_children x) -> ~ reachable_children h k o.
Proof.
  intros F E I. destruct (f_depth h F o) as (d & D); [apply nth_error_Some; congruence|]. eapply no_cycle; eauto.
Qed.

Lemma forest_not_own_child h o x : forest h -> nth_error h o = Some x -> ~ In o (o_children x).
Proof. intros F E I. eapply forest_no_cycle; eauto. apply rc_refl. Qed.

Theorem forest_heap_wf h : forest h -> heap_wf h.
Proof.
  intros F x obj k E I. destruct (f_depth h F x) as (d & D); [apply nth_error_Some; congruence|].
  inversion D; subst. rewrite E in H. injection H as <-. eapply depth_le_lt, H0, I.
Qed.

(* the invariant only looks at the `children` lists *)
Definition kids_of (h : heap) (o : oid) : option (list oid) := option_map o_children (nth_error h o).

Lemma kids_of_some h o cs : kids_of h o = Some cs <-> exists x, nth_error h o = Some x /\ o_children x = cs.
Proof.
  unfold kids_of. destruct (nth_error h o) as [x|]; cbn; split.
  - intros [= <-]. eauto.
  - intros (y & [= <-] & <-). reflexivity.
  - discriminate.
  - intros (y & Q & _). discriminate.
Qed.

Lemma depth_le_kids h h' : (forall o, kids_of h' o = kids_of h o) -> forall d o, depth_le h d o -> depth_le h' d o.
Proof.
  intros K d o D. induction D as [d o x Ex _ IH].
  assert (Q : kids_of h' o = Some (o_children x)) by (rewrite K; apply kids_of_some; eauto).
  apply kids_of_some in Q. destruct Q as (y & Ey & Cy). econstructor; [exact Ey|]. rewrite Cy. exact IH.
Qed.

Lemma forest_same_kids h h' :
  length h' = length h -> (forall o, kids_of h' o = kids_of h o) -> forest h -> forest h'.
Proof.
  intros L K F. split.
  - intros o Ho. destruct (f_depth h F o) as (d & D); [lia|]. exists d. eapply depth_le_kids; eauto.
  - intros o x E. assert (Q : kids_of h o = Some (o_children x)) by (rewrite <- K; apply kids_of_some; eauto).
    apply kids_of_some in Q. destruct Q as (y & Ey & <-). eapply f_nodup; eauto.
  - intros o1 o2 x1 x2 k E1 E2 I1 I2.
    assert (Q1 : kids_of h o1 = Some (o_children x1)) by (rewrite <- K; apply kids_of_some; eauto).
    assert (Q2 : kids_of h o2 = Some (o_children x2)) by (rewrite <- K; apply kids_of_some; eauto).
    apply kids_of_some in Q1, Q2. destruct Q1 as (y1 & Ey1 & C1), Q2 as (y2 & Ey2 & C2).
    rewrite <- C1 in I1. rewrite <- C2 in I2. eapply (f_one_parent h F); eauto.
Qed.

(* allocation of a childless object *)
Lemma forest_alloc h x : forest h -> o_children x = [] -> forest (h ++ [x]).
Proof.
  intros F Cx.
  assert (Old : forall d o, depth_le h d o -> depth_le (h ++ [x]) d o).
  { intros d o D. induction D as [d o y Ey _ IH]. econstructor; [|exact IH].
    rewrite nth_error_app1; [exact Ey|]. apply nth_error_Some. congruence. }
  assert (Get : forall o y, nth_error (h ++ [x]) o = Some y -> (o < length h /\ nth_error h o = Some y) \/ (o = length h /\ y = x)).
  { intros o y E. destruct (Nat.lt_ge_cases o (length h)) as [Lt|Ge].
    - left. rewrite nth_error_app1 in E by exact Lt. auto.
    - right. rewrite nth_error_app2 in E by exact Ge. destruct (o - length h) as [|m] eqn:Q.
      + cbn in E. injection E as <-. split; [lia|reflexivity].
      + cbn in E. destruct m; discriminate. }
  split.
  - intros o Ho. rewrite app_length in Ho. cbn [length] in Ho.
    destruct (Nat.lt_ge_cases o (length h)) as [Lt|Ge].
    + destruct (f_depth h F o Lt) as (d & D). eauto.
    + assert (o = length h) by lia. subst o. exists 1. econstructor.
      * rewrite nth_error_app2, Nat.sub_diag by lia. reflexivity.
      * rewrite Cx. intros k [].
  - intros o y E. destruct (Get o y E) as [[_ E']|[_ ->]]; [eapply f_nodup; eauto|rewrite Cx; constructor].
  - intros o1 o2 x1 x2 k E1 E2 I1 I2.
    destruct (Get o1 x1 E1) as [[_ E1']|[_ ->]]; [|rewrite Cx in I1; destruct I1].
    destruct (Get o2 x2 E2) as [[_ E2']|[_ ->]]; [|rewrite Cx in I2; destruct I2].
    eapply (f_one_parent h F); eauto.
Qed.

(* the children list of p is replaced by a duplicate-free list made of old children of p and,
   possibly, one node n that no parent lists and from which p cannot be reached *)
Lemma forest_graft h p me n cs' :
  forest h -> nth_error h p = Some me -> n < length h ->
  ~ attached h n -> ~ reachable_children h n p ->
  NoDup cs' -> (forall c, In c cs' -> c = n \/ In c (o_children me)) ->
  forest (set_nth h p (upd_children me cs')).
Proof.
  intros F Eme Ln Na Nr Nd Sub. set (h' := set_nth h p (upd_children me cs')).
  assert (Ep : nth_error h' p = Some (upd_children me cs')) by (apply (nth_error_set_nth_same _ _ _ _ Eme)).
  assert (Eo : forall o, o <> p -> nth_error h' o = nth_error h o) by (intros; apply nth_error_set_nth_other; assumption).
  assert (Avoid : forall d o, depth_le h d o -> ~ reachable_children h o p -> depth_le h' d o).
  { intros d o D. induction D as [d o x Ex Dk IH]. intros NR.
    assert (o <> p) by (intros ->; apply NR, rc_refl).
    econstructor; [rewrite Eo by assumption; exact Ex|]. intros k Hk. apply IH; [exact Hk|].
    intros R. apply NR. eapply reach_trans; [eapply reach_child; eauto|exact R]. }
  destruct (f_depth h F n Ln) as (D & Dn). pose proof (Avoid _ _ Dn Nr) as Dn'.
  assert (All : forall d o, depth_le h d o -> depth_le h' (d + D) o).
  { intros d o Do. induction Do as [d o x Ex Dk IH]. destruct (Nat.eq_dec o p) as [->|Ne].
    - rewrite Eme in Ex. injection Ex as <-. cbn [Nat.add]. econstructor; [exact Ep|]. cbn [o_children upd_children].
      intros c Hc. destruct (Sub c Hc) as [->|Hin]; [eapply depth_le_mono; [exact Dn'|lia]|apply IH, Hin].
    - cbn [Nat.add]. econstructor; [rewrite Eo by assumption; exact Ex|]. exact IH. }
  split.
  - intros o Ho. unfold h' in Ho. rewrite len_set_nth in Ho. destruct (f_depth h F o Ho) as (d & Do). eauto.
  - intros o x E. destruct (Nat.eq_dec o p) as [->|Ne].
    + rewrite Ep in E. injection E as <-. exact Nd.
    + rewrite Eo in E by assumption. eapply f_nodup; eauto.
  - assert (Old : forall o x k, nth_error h' o = Some x -> In k (o_children x) -> k <> n ->
                   exists y, nth_error h o = Some y /\ In k (o_children y)).
    { intros o x k E I Nk. destruct (Nat.eq_dec o p) as [->|Ne].
      - rewrite Ep in E. injection E as <-. cbn [o_children upd_children] in I.
        destruct (Sub k I) as [->|Hin]; [contradiction|]. eauto.
      - rewrite Eo in E by assumption. eauto. }
    assert (New : forall o x, nth_error h' o = Some x -> In n (o_children x) -> o = p).
    { intros o x E I. destruct (Nat.eq_dec o p) as [|Ne]; [assumption|]. rewrite Eo in E by assumption.
      exfalso. apply Na. exists o, x. auto. }
    intros o1 o2 x1 x2 k E1 E2 I1 I2. destruct (Nat.eq_dec k n) as [->|Nk].
    + rewrite (New _ _ E1 I1), (New _ _ E2 I2). reflexivity.
    + destruct (Old _ _ _ E1 I1 Nk) as (y1 & Ey1 & J1). destruct (Old _ _ _ E2 I2 Nk) as (y2 & Ey2 & J2).
      eapply (f_one_parent h F); eauto.
Qed.

(* ... or by a duplicate-free selection of its old children *)
Lemma forest_shrink h p me cs' :
  forest h -> nth_error h p = Some me -> NoDup cs' -> incl cs' (o_children me) ->
  forest (set_nth h p (upd_children me cs')).
Proof.
  intros F Eme Nd Sub. set (h' := set_nth h p (upd_children me cs')).
  assert (Ep : nth_error h' p = Some (upd_children me cs')) by (apply (nth_error_set_nth_same _ _ _ _ Eme)).
  assert (Eo : forall o, o <> p -> nth_error h' o = nth_error h o) by (intros; apply nth_error_set_nth_other; assumption).
  assert (Old : forall o x k, nth_error h' o = Some x -> In k (o_children x) ->
                   exists y, nth_error h o = Some y /\ In k (o_children y)).
  { intros o x k E I. destruct (Nat.eq_dec o p) as [->|Ne].
    - rewrite Ep in E. injection E as <-. cbn [o_children upd_children] in I. eauto.
    - rewrite Eo in E by assumption. eauto. }
  assert (All : forall d o, depth_le h d o -> depth_le h' d o).
  { intros d o Do. induction Do as [d o x Ex Dk IH]. destruct (Nat.eq_dec o p) as [->|Ne].
    - rewrite Eme in Ex. injection Ex as <-. econstructor; [exact Ep|]. cbn [o_children upd_children].
      intros c Hc. apply IH, Sub, Hc.
    - econstructor; [rewrite Eo by assumption; exact Ex|]. exact IH. }
  split.
  - intros o Ho. unfold h' in Ho. rewrite len_set_nth in Ho. destruct (f_depth h F o Ho) as (d & Do). eauto.
  - intros o x E. destruct (Nat.eq_dec o p) as [->|Ne].
    + rewrite Ep in E. injection E as <-. exact Nd.
    + rewrite Eo in E by assumption. eapply f_nodup; eauto.
  - intros o1 o2 x1 x2 k E1 E2 I1 I2.
    destruct (Old _ _ _ E1 I1) as (y1 & Ey1 & J1). destruct (Old _ _ _ E2 I2) as (y2 & Ey2 & J2).
    eapply (f_one_parent h F); eauto.
Qed.

Lemma NoDup_insert {B} (a b : list B) n : NoDup (a ++ b) -> ~ In n (a ++ b) -> NoDup (a ++ n :: b).
Proof. intros N I. apply (NoDup_Add (Add_app n a b)). auto. Qed.

Lemma live_children_ids h p olds :
  live_children h p = Ok olds ->
  exists me, nth_error h p = Some me /\ live_ids h p = Ok (map snd olds) /\
             map snd olds = filter (fun c => match nth_error h c with Some x => o_live x | None => false end) (o_children me).
Proof.
  unfold live_children. intros E. apply bind_ok in E. destruct E as (ids & Ei & Ep).
  apply pos_of_ids_spec in Ep. destruct Ep as [M _]. rewrite M.
  unfold live_ids in Ei. apply bind_ok in Ei. destruct Ei as (me & Em & Ei). apply h_get_some in Em.
  exists me. split; [exact Em|]. split.
  - unfold live_ids, h_get. rewrite Em. exact Ei.
  - apply live_ids_of_spec in Ei. apply Ei.
Qed.

(* the children list after an insertion is duplicate-free and made of old children and n *)
Lemma news_ok h p me olds pos n :
  forest h -> nth_error h p = Some me -> live_children h p = Ok olds -> ~ In n (o_children me) ->
  NoDup (map snd (insert_by_pos olds (pos, n))) /\
  (forall c, In c (map snd (insert_by_pos olds (pos, n))) -> c = n \/ In c (o_children me)).
Proof.
  intros F Eme L Nn. apply live_children_ids in L. destruct L as (me' & Eme' & _ & Q).
  rewrite Eme in Eme'. injection Eme' as <-.
  destruct (insert_split olds (pos, n)) as (a & b & Eo & ->). rewrite Eo in Q.
  rewrite map_app in *. cbn [map snd].
  assert (Sub : forall c, In c (map snd a ++ map snd b) -> In c (o_children me)).
  { intros c Hc. rewrite Q in Hc. apply filter_In in Hc. apply Hc. }
  split.
  - apply NoDup_insert.
    + rewrite Q. apply NoDup_filter. eapply f_nodup; eauto.
    + intros I. apply Nn, Sub, I.
  - intros c Hc. apply in_app_or in Hc. destruct Hc as [Hc|[<-|Hc]]; [right|left; reflexivity|right]; apply Sub, in_or_app; auto.
Qed.

Lemma reach_from_leaf h n nx z :
  nth_error h n = Some nx -> o_children nx = [] -> reachable_children h n z -> z = n.
Proof.
  intros E C R. induction R as [|y k obj R IH Ey Iy]; [reflexivity|]. subst y. rewrite E in Ey. injection Ey as <-.
  rewrite C in Iy. destruct Iy.
Qed.

(* ================================================================== *)
(* add_segment                                                         *)

Lemma loop_self_ok p h h1 me : loop_self p h = (h1, Ok me) -> h1 = h /\ nth_error h p = Some me /\ o_class me = CLoop.
Proof.
  unfold loop_self. intros E. apply hb_ok in E. destruct E as (? & x & O & E). rewrite h_obj_eq in O. injection O as <- Ex.
  apply h_get_some in Ex. destruct (o_class x) eqn:C; [rewrite h_raise_eq in E; discriminate|].
  rewrite h_ret_eq in E. injection E as <- <-. auto.
Qed.

(* allocate a childless live object with map node m, then place it under p *)
Definition alloc_and_place (p : oid) (m : mnode) (nx : dobj) : H oid :=
  doh n <- h_new nx; doh idx <- get_insert_idx p m; doh_ insert_child p idx n; h_ret n.

Lemma alloc_place h h' p me m nx n :
  forest h -> nth_error h p = Some me ->
  o_children nx = [] -> o_live nx = true -> o_map nx = Some m ->
  alloc_and_place p m nx h = (h', Ok n) ->
  exists pos olds,
    mn_pos m = Ok pos /\ live_children h p = Ok olds /\ n = length h /\
    h' = set_nth (h ++ [nx]) p (upd_children me (map snd (insert_by_pos olds (pos, n)))) /\
    live_children h' p = Ok (insert_by_pos olds (pos, n)) /\
    forest h'.
Proof.
  intros F Eme Cnx Lnx Mnx E. unfold alloc_and_place in E.
  apply hb_ok in E. destruct E as (hN & n0 & Nw & E). rewrite h_new_eq in Nw. injection Nw as <- <-.
  apply hb_ok in E. destruct E as (h2 & idx & G & E).
  apply hb_ok in E. destruct E as (h3 & [] & I & E). rewrite h_ret_eq in E. injection E as <- <-.
  destruct (place_core _ _ _ _ _ _ _ _ G I) as (me' & pos & olds & Eme' & Epos & L & _ & ->).
  assert (Lp : p < length h) by (apply nth_error_Some; congruence).
  rewrite nth_error_app1, Eme in Eme' by exact Lp. injection Eme' as <-.
  pose proof (forest_heap_wf _ F) as W.
  assert (Kids : forall c, In c (o_children me) -> c < length h) by (intros c Hc; eapply W; eauto).
  (* the reading of p is the same with and without the new object *)
  assert (L0 : live_children h p = Ok olds).
  { unfold live_children, live_ids, h_get in L |- *. rewrite nth_error_app1, Eme in L by exact Lp. rewrite Eme.
    cbn [bind] in L |- *.
    assert (Sh : forall cs, (forall c, In c cs -> c < length h) ->
                 forall c, In c cs -> shell_eq (nth_error (h ++ [nx]) c) (nth_error h c)).
    { intros cs Hcs c Hc. apply shell_eq_of_eq, nth_error_app1, Hcs, Hc. }
    rewrite (live_ids_of_shell h) in L by (apply Sh, Kids).
    apply bind_ok in L. destruct L as (ids & Ei & Ep). rewrite Ei. cbn [bind].
    rewrite (pos_of_ids_shell h) in Ep; [exact Ep|]. apply Sh. intros c Hc.
    apply live_ids_of_spec in Ei. destruct Ei as [-> _]. apply filter_In in Hc. apply Kids, Hc. }
  assert (En : nth_error (h ++ [nx]) (length h) = Some nx) by (rewrite nth_error_app2, Nat.sub_diag by lia; reflexivity).
  exists pos, olds. repeat (split; [first [assumption|reflexivity]|]).
  split.
  - eapply after_place; [rewrite nth_error_app1 by exact Lp; exact Eme|exact L|exact En|exact Lnx|].
    unfold obj_pos. rewrite Mnx. exact Epos.
  - assert (FN : forest (h ++ [nx])) by (apply forest_alloc; [exact F|exact Cnx]).
    assert (Nn : ~ In (length h) (o_children me)) by (intros Hc; apply Kids in Hc; lia).
    destruct (news_ok _ _ _ _ pos (length h) F Eme L0 Nn) as [Nd Sub].
    apply (forest_graft _ _ _ (length h)); try assumption.
    + rewrite nth_error_app1 by exact Lp. exact Eme.
    + rewrite app_length. cbn. lia.
    + intros (o & y & Ey & Iy). destruct (Nat.lt_ge_cases o (length h)) as [Lt|Ge].
      * rewrite nth_error_app1 in Ey by exact Lt. pose proof (W _ _ _ Ey Iy). lia.
      * rewrite nth_error_app2 in Ey by exact Ge. destruct (o - length h) as [|[|k]]; cbn in Ey; try discriminate.
        injection Ey as <-. rewrite Cnx in Iy. destruct Iy.
    + intros R. apply (reach_from_leaf _ _ _ _ En Cnx) in R. lia.
Qed.

(* what such an h' is, object by object *)
Lemma placed_heap_frame h p me nx cs :
  nth_error h p = Some me ->
  let h' := set_nth (h ++ [nx]) p (upd_children me cs) in
  length h' = S (length h) /\
  nth_error h' p = Some (upd_children me cs) /\
  nth_error h' (length h) = Some nx /\
  (forall o, o <> p -> o <> length h -> nth_error h' o = nth_error h o).
Proof.
  intros Eme h'. assert (Lp : p < length h) by (apply nth_error_Some; congruence). unfold h'.
  split; [rewrite len_set_nth, app_length; cbn; lia|]. split.
  { eapply nth_error_set_nth_same. rewrite nth_error_app1 by exact Lp. exact Eme. }
  split.
  { rewrite nth_error_set_nth_other by lia. rewrite nth_error_app2, Nat.sub_diag by lia. reflexivity. }
  intros o N1 N2. rewrite nth_error_set_nth_other by exact N1.
  destruct (Nat.lt_ge_cases o (length h)) as [Lt|Ge]; [apply nth_error_app1, Lt|].
  rewrite (proj2 (nth_error_None h o)) by lia. apply nth_error_None. rewrite app_length. cbn. lia.
Qed.

(* PLACEMENT, add_segment: the live children of the parent, read as (map position, id), become the
   insertion of (position of the segment's map node, new id) into the old ones; the heap is the
   old one with the new segment object (parent pointer = p) allocated behind it and p's children
   list replaced (deleted entries dropped, new id inserted); the forest invariant is kept. *)
Theorem add_segment_placement h h' p a n :
  forest h -> add_segment p a h = (h', Ok n) ->
  exists me mn x sm pos olds,
    nth_error h p = Some me /\ o_class me = CLoop /\ o_map me = Some mn /\
    get_segment h p a = Ok x /\ mn_child_node false mn x = Ok (Some sm) /\ mn_pos sm = Ok pos /\
    live_children h p = Ok olds /\
    n = length h /\
    h' = set_nth (h ++ [new_seg (Some sm) x (RObj p) [] []]) p
                 (upd_children me (map snd (insert_by_pos olds (pos, n)))) /\
    live_children h' p = Ok (insert_by_pos olds (pos, n)) /\
    forest h'.
Proof.
  intros F E. unfold add_segment in E.
  apply hb_ok in E. destruct E as (? & me & LS & E). apply loop_self_ok in LS. destruct LS as (-> & Eme & Cme).
  apply hb_ok in E. destruct E as (? & x & R & E). rewrite h_read_eq in R. injection R as <- Ex.
  destruct (o_map me) as [mn|] eqn:Emn; [|rewrite h_raise_eq in E; discriminate].
  apply hb_ok in E. destruct E as (? & sn & Lf & E). rewrite h_lift_eq in Lf. injection Lf as <- Esn.
  destruct sn as [sm|]; [|rewrite h_raise_eq in E; discriminate].
  change (alloc_and_place p sm (new_seg (Some sm) x (RObj p) [] []) h = (h', Ok n)) in E.
  destruct (alloc_place _ _ _ _ _ (new_seg (Some sm) x (RObj p) [] []) _ F Eme eq_refl eq_refl eq_refl E) as (pos & olds & Epos & L & -> & -> & L' & F').
  exists me, mn, x, sm, pos, olds. repeat (split; [first [assumption|reflexivity]|]). exact F'.
Qed.

(* the same for _add_loop_node (p an existing object) *)
Theorem add_loop_node_placement h h' p me lm n :
  forest h -> nth_error h p = Some me -> add_loop_node p lm h = (h', Ok n) ->
  exists pos olds,
    mn_pos lm = Ok pos /\ live_children h p = Ok olds /\ n = length h /\
    h' = set_nth (h ++ [new_loop (Some lm) [] (RObj p)]) p
                 (upd_children me (map snd (insert_by_pos olds (pos, n)))) /\
    live_children h' p = Ok (insert_by_pos olds (pos, n)) /\
    forest h'.
Proof.
  intros F Eme E. change (alloc_and_place p lm (new_loop (Some lm) [] (RObj p)) h = (h', Ok n)) in E.
  exact (alloc_place _ _ _ _ _ (new_loop (Some lm) [] (RObj p)) _ F Eme eq_refl eq_refl eq_refl E).
Qed.

(* ================================================================== *)
(* add_node                                                            *)

Lemma set_nth_comm {B} (xs : list B) n m a b : n <> m -> set_nth (set_nth xs n a) m b = set_nth (set_nth xs m b) n a.
Proof.
  intros N. apply nth_error_ext'. intros k. rewrite !nth_error_set_nth.
  destruct (Nat.eqb_spec n m); [congruence|]. destruct (Nat.eqb_spec m n); [congruence|].
  destruct (Nat.eqb_spec k m), (Nat.eqb_spec k n); try reflexivity; congruence.
Qed.

Lemma shell_set_parent h dn dnx q c :
  nth_error h dn = Some dnx -> shell_eq (nth_error (set_nth h dn (upd_parent dnx q)) c) (nth_error h c).
Proof.
  intros E. rewrite nth_error_set_nth. destruct (Nat.eqb_spec c dn) as [->|]; [|apply shell_eq_refl].
  rewrite E. cbn. auto.
Qed.

Lemma live_children_set_parent h dn dnx q p :
  nth_error h dn = Some dnx -> live_children (set_nth h dn (upd_parent dnx q)) p = live_children h p.
Proof.
  intros E. unfold live_children, live_ids, h_get. rewrite nth_error_set_nth.
  assert (Q : forall cs, live_ids_of (set_nth h dn (upd_parent dnx q)) cs = live_ids_of h cs)
    by (intros; apply live_ids_of_shell; intros; apply shell_set_parent, E).
  assert (Q' : forall cs, pos_of_ids (set_nth h dn (upd_parent dnx q)) cs = pos_of_ids h cs)
    by (intros; apply pos_of_ids_shell; intros; apply shell_set_parent, E).
  destruct (Nat.eqb_spec p dn) as [->|].
  - rewrite E. cbn [bind o_children upd_parent]. rewrite Q. destruct (live_ids_of h (o_children dnx)); cbn [bind]; [apply Q'|reflexivity].
  - destruct (nth_error h p); cbn [bind]; [|reflexivity]. rewrite Q.
    destruct (live_ids_of h (o_children d)); cbn [bind]; [apply Q'|reflexivity].
Qed.

(* PLACEMENT, add_node, for EVERY heap: data_node gets p as its parent pointer and its id is
   inserted among the live children of p at the position of ITS map node; nothing else changes.
   (No check that data_node is not already someone's child, or an ancestor of p: see the Examples.) *)
Theorem add_node_placement h h' p dn :
  add_node p dn h = (h', Ok tt) ->
  exists me dnx dm sm pos olds,
    nth_error h p = Some me /\ o_class me = CLoop /\ nth_error h dn = Some dnx /\
    o_map dnx = Some dm /\ o_map me = Some sm /\ mn_ref dm <> [] /\ mn_ne (mn_parent dm) sm = Ok false /\
    mn_pos dm = Ok pos /\ live_children h p = Ok olds /\
    let news := insert_by_pos olds (pos, dn) in
    let h1 := set_nth h dn (upd_parent dnx (RObj p)) in
    let me1 := if p =? dn then upd_parent me (RObj p) else me in
    h' = set_nth h1 p (upd_children me1 (map snd news)) /\
    (o_live dnx = true -> live_children h' p = Ok news).
Proof.
  intros E. unfold add_node in E.
  apply hb_ok in E. destruct E as (? & me & LS & E). apply loop_self_ok in LS. destruct LS as (-> & Eme & Cme).
  apply hb_ok in E. destruct E as (? & dnx & O & E). rewrite h_obj_eq in O. injection O as <- Ed. apply h_get_some in Ed.
  destruct (o_map dnx) as [dm|] eqn:Edm; [|rewrite h_raise_eq in E; discriminate].
  destruct (mn_ref dm) as [|r0 rr] eqn:Eref.
  { destruct (o_map me); rewrite h_raise_eq in E; discriminate. }
  destruct (o_map me) as [sm|] eqn:Esm; [|rewrite h_raise_eq in E; discriminate].
  apply hb_ok in E. destruct E as (? & ne & Lf & E). rewrite h_lift_eq in Lf. injection Lf as <- Ene.
  destruct ne; [rewrite h_raise_eq in E; discriminate|].
  apply hb_ok in E. destruct E as (h1 & [] & M & E). rewrite h_mod_eq, Ed in M. injection M as <-.
  apply hb_ok in E. destruct E as (h2 & idx & G & I).
  destruct (place_core _ _ _ _ _ _ _ _ G I) as (me1 & pos & olds & Eme1 & Epos & L & _ & ->).
  rewrite (live_children_set_parent _ _ _ _ _ Ed) in L.
  exists me, dnx, dm, sm, pos, olds. repeat (split; [first [assumption|reflexivity|congruence]|]).
  assert (Q : me1 = if p =? dn then upd_parent me (RObj p) else me).
  { rewrite nth_error_set_nth in Eme1. destruct (Nat.eqb_spec p dn) as [->|].
    - rewrite Ed in Eme1. rewrite Eme in Ed. injection Ed as <-. injection Eme1 as <-. reflexivity.
    - rewrite Eme in Eme1. injection Eme1 as <-. reflexivity. }
  cbn zeta. rewrite <- Q. split; [reflexivity|]. intros Ld.
  assert (exists nx, nth_error (set_nth h dn (upd_parent dnx (RObj p))) dn = Some nx /\ o_live nx = true /\ obj_pos nx = Ok pos)
    as (nx & En & Ln & Pn).
  { exists (upd_parent dnx (RObj p)). split; [eapply nth_error_set_nth_same; eauto|]. split; [exact Ld|].
    unfold obj_pos. cbn [o_map upd_parent]. rewrite Edm. exact Epos. }
  eapply after_place; eauto. rewrite live_children_set_parent by exact Ed. exact L.
Qed.

Lemma reach_kids h h' : (forall o, kids_of h' o = kids_of h o) -> forall a b, reachable_children h a b -> reachable_children h' a b.
Proof.
  intros K a b R. induction R as [|x k obj R IH E I]; [apply rc_refl|].
  assert (Q : kids_of h' x = Some (o_children obj)) by (rewrite K; apply kids_of_some; eauto).
  apply kids_of_some in Q. destruct Q as (y & Ey & Cy). eapply rc_step; [exact IH|exact Ey|]. rewrite Cy. exact I.
Qed.

Lemma kids_set_parent h dn dnx q o : nth_error h dn = Some dnx -> kids_of (set_nth h dn (upd_parent dnx q)) o = kids_of h o.
Proof.
  intros E. unfold kids_of. rewrite nth_error_set_nth. destruct (Nat.eqb_spec o dn) as [->|]; [|reflexivity].
  rewrite E. reflexivity.
Qed.

(* the forest invariant is kept when the node added is detached (no parent lists it) and p is not
   inside its subtree *)
Theorem add_node_forest h h' p dn :
  forest h -> add_node p dn h = (h', Ok tt) ->
  ~ attached h dn -> ~ reachable_children h dn p -> forest h'.
Proof.
  intros F E Na Nr. destruct (add_node_placement _ _ _ _ E) as (me & dnx & dm & sm & pos & olds & Eme & _ & Ed & _ & _ & _ & _ & _ & L & Eh & _).
  cbn zeta in Eh. assert (Ne : p <> dn) by (intros ->; apply Nr, rc_refl).
  apply Nat.eqb_neq in Ne. rewrite Ne in Eh. apply Nat.eqb_neq in Ne.
  rewrite set_nth_comm in Eh by congruence. subst h'.
  assert (Nd : ~ In dn (o_children me)) by (intros I; apply Na; exists p, me; auto).
  destruct (news_ok _ _ _ _ pos dn F Eme L Nd) as [ND Sub].
  pose proof (forest_graft _ _ _ dn _ F Eme ltac:(apply nth_error_Some; congruence) Na Nr ND Sub) as F1.
  eapply forest_same_kids; [| |exact F1].
  - rewrite len_set_nth. reflexivity.
  - intros o. apply kids_set_parent. rewrite nth_error_set_nth_other by congruence. exact Ed.
Qed.

(* ================================================================== *)
(* add_loop                                                            *)

Lemma set_nth_app1 {B} (xs ys : list B) n v : n < length xs -> set_nth (xs ++ ys) n v = set_nth xs n v ++ ys.
Proof.
  revert n. induction xs as [|x xs IH]; intros n L; [cbn in L; lia|].
  destruct n as [|n]; cbn [set_nth app]; [reflexivity|]. rewrite IH by (cbn in L; lia). reflexivity.
Qed.

Lemma set_nth_last {B} (xs : list B) a b : set_nth (xs ++ [a]) (length xs) b = xs ++ [b].
Proof. induction xs as [|x xs IH]; [reflexivity|]. cbn [length app set_nth]. rewrite IH. reflexivity. Qed.

Lemma set_nth_id {B} (xs : list B) n v : nth_error xs n = Some v -> set_nth xs n v = xs.
Proof.
  intros E. apply nth_error_ext'. intros k. rewrite nth_error_set_nth. destruct (Nat.eqb_spec k n) as [->|]; [|reflexivity].
  rewrite E. reflexivity.
Qed.

Lemma two_alloc_shape {B} (h : list B) p X nlx NL sg :
  p < length h ->
  set_nth (set_nth (h ++ [nlx]) p X ++ [sg]) (length h) NL = set_nth (h ++ [NL; sg]) p X.
Proof.
  intros Lp. rewrite <- set_nth_app1 by (rewrite app_length; cbn; lia).
  rewrite set_nth_comm by lia. f_equal.
  rewrite set_nth_app1 by (rewrite app_length; cbn; lia).
  rewrite set_nth_last, <- app_assoc. reflexivity.
Qed.

(* the reading of p only depends on p's list and on liveness / map node of the objects *)
Lemma live_children_congr h h' p :
  heap_wf h -> kids_of h' p = kids_of h p ->
  (forall c, c < length h -> shell_eq (nth_error h' c) (nth_error h c)) ->
  live_children h' p = live_children h p.
Proof.
  intros W K S. unfold live_children, live_ids, h_get. unfold kids_of in K.
  destruct (nth_error h p) as [x|] eqn:Ex, (nth_error h' p) as [y|] eqn:Ey; cbn in K; try discriminate; [|reflexivity].
  injection K as K. cbn [bind]. rewrite K.
  assert (Kids : forall c, In c (o_children x) -> c < length h) by (intros c Hc; eapply W; eauto).
  rewrite (live_ids_of_shell h) by (intros; apply S, Kids; assumption).
  destruct (live_ids_of h (o_children x)) as [ids|] eqn:Ei; cbn [bind]; [|reflexivity].
  apply pos_of_ids_shell. intros c Hc. apply S, Kids. apply live_ids_of_spec in Ei. destruct Ei as [-> _].
  apply filter_In in Hc. apply Hc.
Qed.

(* PLACEMENT, add_loop: two objects are allocated, the loop (id length h, parent pointer p, its only
   child the segment) and the segment (id length h + 1, parent pointer the new loop); the loop's id is
   inserted among p's live children at the position of the LOOP's map node *)
Theorem add_loop_placement h h' p a nl :
  forest h -> add_loop p a h = (h', Ok nl) ->
  exists me mn x lm sm pos spos olds,
    nth_error h p = Some me /\ o_class me = CLoop /\ o_map me = Some mn /\
    get_segment h p a = Ok x /\ mn_child_node true mn x = Ok (Some lm) /\ mn_pos lm = Ok pos /\
    mn_child_node false lm x = Ok (Some sm) /\ mn_pos sm = Ok spos /\
    live_children h p = Ok olds /\
    nl = length h /\
    h' = set_nth (h ++ [upd_children (new_loop (Some lm) [] (RObj p)) [S (length h)];
                        new_seg (Some sm) x (RObj (length h)) [] []]) p
                 (upd_children me (map snd (insert_by_pos olds (pos, nl)))) /\
    live_children h' p = Ok (insert_by_pos olds (pos, nl)) /\
    live_children h' nl = Ok [(spos, S (length h))] /\
    forest h'.
Proof.
  intros F E. unfold add_loop in E.
  apply hb_ok in E. destruct E as (? & me & LS & E). apply loop_self_ok in LS. destruct LS as (-> & Eme & Cme).
  apply hb_ok in E. destruct E as (? & x & R & E). rewrite h_read_eq in R. injection R as <- Ex.
  destruct (o_map me) as [mn|] eqn:Emn; [|rewrite h_raise_eq in E; discriminate].
  apply hb_ok in E. destruct E as (? & ln & Lf & E). rewrite h_lift_eq in Lf. injection Lf as <- Eln.
  destruct ln as [lm|]; [|rewrite h_raise_eq in E; discriminate].
  apply hb_ok in E. destruct E as (h1 & nl0 & AL & E).
  destruct (add_loop_node_placement _ _ _ _ _ _ F Eme AL) as (pos & olds & Epos & L & -> & Eh1 & L1 & F1).
  apply hb_ok in E. destruct E as (? & sn & Lf & E). rewrite h_lift_eq in Lf. injection Lf as <- Esn.
  apply hb_ok in E. destruct E as (h2 & nd & Nw & E). rewrite h_new_eq in Nw. injection Nw as <- <-.
  apply hb_ok in E. destruct E as (h3 & [] & AN & E). rewrite h_ret_eq in E. injection E as <- <-.
  set (nlx := new_loop (Some lm) [] (RObj p)) in *.
  set (cs := map snd (insert_by_pos olds (pos, length h))) in *.
  assert (PF : length h1 = S (length h) /\ nth_error h1 p = Some (upd_children me cs) /\
               nth_error h1 (length h) = Some nlx /\
               (forall o, o <> p -> o <> length h -> nth_error h1 o = nth_error h o))
    by (rewrite Eh1; exact (placed_heap_frame h p me nlx cs Eme)).
  destruct PF as (Len1 & Ep1 & Enl1 & Oth1).
  assert (Lp : p < length h) by (apply nth_error_Some; congruence).
  set (sg := new_seg sn x (RObj (length h)) [] []) in *.
  assert (F2 : forest (h1 ++ [sg])) by (apply forest_alloc; [exact F1|reflexivity]).
  assert (End : nth_error (h1 ++ [sg]) (length h1) = Some sg) by (rewrite nth_error_app2, Nat.sub_diag by lia; reflexivity).
  assert (Enl2 : nth_error (h1 ++ [sg]) (length h) = Some nlx) by (rewrite nth_error_app1 by lia; exact Enl1).
  pose proof (forest_heap_wf _ F1) as W1.
  (* forest first, while AN is intact *)
  assert (F3 : forest h3).
  { eapply add_node_forest; [exact F2|exact AN| |].
    - intros (o & y & Ey & Iy). destruct (Nat.lt_ge_cases o (length h1)) as [Lt|Ge].
      + rewrite nth_error_app1 in Ey by exact Lt. pose proof (W1 _ _ _ Ey Iy). lia.
      + rewrite nth_error_app2 in Ey by exact Ge. destruct (o - length h1) as [|[|k]]; cbn in Ey; try discriminate.
        injection Ey as <-. destruct Iy.
    - intros R. apply (reach_from_leaf _ _ _ _ End eq_refl) in R. lia. }
  destruct (add_node_placement _ _ _ _ AN) as (nlx' & dnx & dm & lm' & spos & olds2 & Enl' & _ & Ed & Edm & Elm' & _ & _ & Espos & L2 & Eh3 & L3).
  rewrite Enl2 in Enl'. injection Enl' as <-. rewrite End in Ed. injection Ed as <-.
  cbn [o_map sg new_seg] in Edm. subst sn.
  assert (olds2 = []).
  { unfold live_children, live_ids, h_get in L2. rewrite Enl2 in L2. cbn in L2. injection L2 as <-. reflexivity. }
  subst olds2. cbn zeta in Eh3, L3. specialize (L3 eq_refl).
  assert (Nq : (length h =? length h1) = false) by (apply Nat.eqb_neq; lia). rewrite Nq in Eh3.
  change (insert_by_pos [] (spos, length h1)) with [(spos, length h1)] in *. cbn [map snd] in Eh3.
  assert (Q : upd_parent sg (RObj (length h)) = sg) by reflexivity. rewrite Q in Eh3. rewrite (set_nth_id _ _ _ End) in Eh3.
  exists me, mn, x, lm, dm, pos, spos, olds. repeat (split; [first [assumption|reflexivity]|]).
  assert (Eh3' : h3 = set_nth (h ++ [upd_children nlx [S (length h)]; sg]) p (upd_children me cs)).
  { rewrite Eh3, Len1, Eh1. apply two_alloc_shape, Lp. }
  split; [exact Eh3'|]. split; [|split; [rewrite <- Len1; exact L3|exact F3]].
  (* p reads the same in h3 as in h1 *)
  rewrite <- L1. rewrite Eh3. apply live_children_congr; [exact W1| |].
  - unfold kids_of. rewrite nth_error_set_nth_other by lia. rewrite nth_error_app1 by lia. reflexivity.
  - intros c Hc. rewrite nth_error_set_nth. destruct (Nat.eqb_spec c (length h)) as [->|].
    + rewrite Enl2, Enl1. cbn. auto.
    + rewrite nth_error_app1 by exact Hc. apply shell_eq_refl.
Qed.

(* ================================================================== *)
(* map order                                                           *)

(* On children that are in map order the new node stands after every sibling with a smaller or equal
   position, before every sibling with a greater one, and the children are in map order again. *)
Theorem add_segment_map_order h h' p a n :
  forest h -> add_segment p a h = (h', Ok n) ->
  exists pos olds,
    live_children h p = Ok olds /\
    live_children h' p = Ok (insert_by_pos olds (pos, n)) /\
    (pos_sorted olds ->
       exists before after,
         olds = before ++ after /\
         live_children h' p = Ok (before ++ (pos, n) :: after) /\
         Forall (fun s => (fst s <= pos)%Z) before /\ Forall (fun s => (pos < fst s)%Z) after /\
         pos_sorted (before ++ (pos, n) :: after)).
Proof.
  intros F E. destruct (add_segment_placement _ _ _ _ _ F E) as (me & mn & x & sm & pos & olds & _ & _ & _ & _ & _ & _ & L & _ & _ & L' & _).
  exists pos, olds. split; [exact L|]. split; [exact L'|].
  intros S. destruct (insert_by_pos_sorted olds (pos, n) S) as (bf & af & Eo & Ei & Fa & Fb & S2).
  exists bf, af. rewrite <- Ei. auto.
Qed.

Print Assumptions insert_by_pos_shape.
Print Assumptions insert_by_pos_sorted.
Print Assumptions add_segment_placement.
Print Assumptions add_loop_node_placement.
Print Assumptions add_node_placement.
Print Assumptions add_node_forest.
Print Assumptions add_loop_placement.
Print Assumptions add_segment_map_order.
Print Assumptions forest_heap_wf.
