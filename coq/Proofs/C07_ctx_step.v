(* C07_ctx_step.v — one segment of X12ContextReader.iter_segments (CtxReader.ctx_step) keeps the
   invariant `Good` or ends in an allowed exception; the run-level theorem. *)
From Coq Require Import String List Lia.
From PX.Lib Require Import Base PyStr PyInt Regex Xml.
From PX.Model Require Import Show Path Segment Raw Reader Syntax MapLoad MapTree Element Counter Walker MapEnv Driver Context CtxReader.
From PX.Model Require Errh.
From PX.Spec Require Import C01_spec C07_walker_wf C07_valid_wf C07_spec C07_ctx_spec.
From PX.Proofs Require Import C01_raw C04_reader C07_walker_lemmas C07_walker C07_errh C07_zone C07_text C07_driver.
From PX.Proofs Require Import C09_heap C09_addseg C07_ctx_defs C07_ctx_walker C07_ctx_heap C07_ctx_refs.
Import ListNotations.

Local Definition l (x : string) : str := list_ascii_of_string x.

(* ------------------------------------------------------------------ *)
(* the Hoare logic for C                                                *)

Lemma csafe_ret {A} (a : A) s (Q : A -> cstate -> Prop) : Q a s -> csafe (c_ret a) s Q.
Proof. intros H. exact H. Qed.

Lemma csafe_bind {A B} (m : C A) (f : A -> C B) s (Q : B -> cstate -> Prop) :
  csafe m s (fun a s' => csafe (f a) s' Q) -> csafe (c_bind m f) s Q.
Proof. unfold csafe, c_bind. destruct (m s) as [s' [a|e]]; auto. Qed.

Lemma csafe_get s (Q : cstate -> cstate -> Prop) : Q s s -> csafe c_get s Q.
Proof. intros H. exact H. Qed.

Lemma csafe_mod f s (Q : unit -> cstate -> Prop) : Q tt (f s) -> csafe (c_mod f) s Q.
Proof. intros H. exact H. Qed.

Lemma csafe_lift {A} (r : result A) s (Q : A -> cstate -> Prop) :
  match r with Ok a => Q a s | Raise e => allowed e = true end -> csafe (c_lift r) s Q.
Proof. unfold csafe, c_lift. destruct r; auto. Qed.

Lemma csafe_lift_ok {A} (r : result A) a s (Q : A -> cstate -> Prop) : r = Ok a -> Q a s -> csafe (c_lift r) s Q.
Proof. intros -> H. exact H. Qed.

Lemma csafe_lift_gv {A} (r : result A) s (Q : A -> cstate -> Prop) :
  ok_or_engine r -> (forall a, Q a s) -> csafe (c_lift r) s Q.
Proof. intros H HQ. apply csafe_lift. destruct r as [a|e]; [apply HQ|]. cbn in H. subst e. reflexivity. Qed.

Lemma csafe_raise {A} e s (Q : A -> cstate -> Prop) : allowed e = true -> csafe (c_raise e) s Q.
Proof. intros H. exact H. Qed.

Lemma csafe_conseq {A} (c : C A) s (Q Q' : A -> cstate -> Prop) :
  csafe c s Q -> (forall a s', Q a s' -> Q' a s') -> csafe c s Q'.
Proof. unfold csafe. destruct (c s) as [s' [a|e]]; auto. Qed.

Lemma csafe_yield o s (Q : unit -> cstate -> Prop) : Q tt (set_out s ((cs_heap s, o) :: cs_out s)) -> csafe (c_yield o) s Q.
Proof. intros H. exact H. Qed.

Lemma csafe_heap {A} (m : H A) s (Q : A -> cstate -> Prop) :
  hsafe m (cs_heap s) (fun a h' => Q a (set_heap s h')) -> csafe (c_heap m) s Q.
Proof. unfold csafe, hsafe, c_heap. destruct (m (cs_heap s)) as [h' [a|e]]; auto. Qed.

Lemma csafe_local {A} (v : option A) s (Q : A -> cstate -> Prop) :
  v <> None -> (forall a, v = Some a -> Q a s) -> csafe (c_local v) s Q.
Proof. intros N H. destruct v as [a|]; [apply H; reflexivity | congruence]. Qed.

Ltac cstep :=
  cbn beta;
  lazymatch goal with
  | |- csafe (c_bind _ _) _ _ => apply csafe_bind
  | |- csafe c_get _ _ => apply csafe_get
  | |- csafe (c_mod _) _ _ => apply csafe_mod
  | |- csafe (c_ret _) _ _ => apply csafe_ret
  | |- csafe (c_yield _) _ _ => apply csafe_yield
  end.

(* ------------------------------------------------------------------ *)
(* ctx_step in two parts                                                *)

Section Filt.
Variable lid : str.
Fixpoint filt_pops (ps : list mnode) : result (list mnode) :=
  match ps with
  | [] => Ok []
  | p :: rest =>
      do pth <- mn_path p;
      do more <- filt_pops rest;
      Ok (match find_sub lid pth with None => p :: more | Some _ => more end)
  end.
End Filt.

Fixpoint ids_of (ps : list mnode) : result (list (option str)) :=
  match ps with [] => Ok [] | p :: r => do i <- mn_id p; do m <- ids_of r; Ok (i :: m) end.

(* 858-877: the segment lies in the requested loop *)
Definition rest_tree (E : cenv) (s : seg) (pop push : list mnode) (st : cstate) (at_start : bool) : C unit :=
  let x := {| xg_d := de_d (ce_d E); xg_s := s |} in
  let node := cs_node st in
  if at_start then
    doc_ (match cs_tree st with Some t => c_yield t | None => c_ret tt end);
    doc t <- c_heap (h_new (new_loop (Some (mn_parent node)) pop RNone));
    doc_ c_mod (fun st => set_tree st (Some t));
    doc n <- c_heap (add_segment_node t node x pop push);
    doc_ c_mod (fun st => set_data st (Some n));
    stamp n
  else
    match cs_data st with
    | None => c_raise EngineError
    | Some cd =>
        doc n <- c_heap (add_segment_node cd node x pop push);
        doc_ c_mod (fun st => set_data st (Some n));
        stamp n
    end.

(* 878-903: the segment lies outside *)
Definition plain_new (E : cenv) (s : seg) (pop push : list mnode) (st : cstate) : C oid :=
  let x := {| xg_d := de_d (ce_d E); xg_s := s |} in
  let node := cs_node st in
  match cs_data st with
  | Some _ =>
      doc pop' <- (match ce_loop E with
                   | Some (c :: r) => c_lift (filt_pops (c :: r) pop)
                   | _ => c_ret pop
                   end);
      doc push_ids <- c_lift (ids_of push);
      doc pop_ids <- c_lift (ids_of pop');
      if existsb (ostr_eqb (ce_loop E)) push_ids || existsb (ostr_eqb (ce_loop E)) pop_ids then c_raise OtherError
      else c_heap (h_new (new_seg (Some node) x (RList push) pop' []))
  | None => c_heap (h_new (new_seg (Some node) x RNone [] []))
  end.

Definition rest_plain (E : cenv) (s : seg) (pop push : list mnode) (werrs : list (str * str * option str)) (st : cstate) : C unit :=
  doc_ (match cs_tree st with
        | Some t => doc_ c_yield t; c_mod (fun st => set_tree st None)
        | None => c_ret tt
        end);
  doc n <- plain_new E s pop push st;
  doc_ c_mod (fun st => set_data st (Some n));
  doc_ stamp n;
  doc_ attach_errors n werrs;
  doc nx <- c_obj n;
  doc i <- c_lift (obj_id nx);
  doc_ (if negb (ostr_eqb i (Some (CtxReader.l "ISA"))) && match o_parent nx with RNone => true | _ => false end
        then c_raise OtherError else c_ret tt);
  c_yield n.

(* 856-903: everything after the map selection *)
Definition ctx_rest (E : cenv) (s : seg) (pop push : list mnode) (werrs : list (str * str * option str)) : C unit :=
  doc st <- c_get;
  let node := cs_node st in
  doc xp <- c_lift (mn_x12path node);
  let in_tree := match ce_loop E with Some lid => mem_str lid (loop_list xp) | None => false end in
  if in_tree then
    doc first <- c_lift (mn_is_first_seg node);
    rest_tree E s pop push st (match rev (loop_list xp), ce_loop E with
                               | lst :: _, Some lid => str_eqb lst lid && first
                               | _, _ => false
                               end)
  else rest_plain E s pop push werrs st.

(* 788-854: find the node, select the map *)
Definition ctx_p1 (E : cenv) (s : seg) : C (list mnode * list mnode * list (str * str * option str)) :=
  doc st0 <- c_get;
  doc found <- ctx_find_node E s;
  let '(ok, pop, push, werrs) := found in
  doc_ (if ok then ctx_select_map E s else c_mod (fun st => set_mnode st (cs_node st0)));
  c_ret (pop, push, werrs).

Lemma split_gen {A B} (find : C (bool * A * A * B)) (sel : bool -> cstate -> C unit) (R : A -> A -> B -> C unit) s :
  (doc st0 <- c_get; doc found <- find; let '(ok, pop, push, werrs) := found in doc_ sel ok st0; R pop push werrs) s
  = (doc ppw <- (doc st0 <- c_get; doc found <- find; let '(ok, pop, push, werrs) := found in
                 doc_ sel ok st0; c_ret (pop, push, werrs));
     let '(pop, push, werrs) := ppw in R pop push werrs) s.
Proof.
  unfold c_bind, c_get, c_ret. destruct (find s) as [s1 [[[[ok pop] push] werrs]|e]]; [|reflexivity].
  destruct (sel ok s s1) as [s2 [u|e]]; reflexivity.
Qed.

Lemma ctx_step_split E sg s :
  ctx_step E sg s = (doc ppw <- ctx_p1 E sg; let '(pop, push, werrs) := ppw in ctx_rest E sg pop push werrs) s.
Proof.
  exact (split_gen (ctx_find_node E sg)
           (fun ok st0 => if ok then ctx_select_map E sg else c_mod (fun st => set_mnode st (cs_node st0)))
           (ctx_rest E sg) s).
Qed.

(* ------------------------------------------------------------------ *)
(* the invariant                                                        *)

Definition MOK (k : nat) (lid : option str) (m : xmap) : Prop :=
  full_ok m = true /\ ctx_wf m = true /\ lid_good lid m = true /\ jump_ok k lid m = true.

Definition nin (lid : option str) (n : mnode) : bool := in_tree_ref lid (mn_map n) (mn_ref n).
Definition nins (lid : option str) (n : mnode) : bool := inside_ref lid (mn_map n) (mn_ref n).

Definition NodeOK (k : nat) (lid : option str) (n : mnode) : Prop :=
  MOK k lid (mn_map n) /\ seg_ref (mn_map n) (mn_ref n).

Definition SelOK (k : nat) (lid : option str) (s : cstate) : Prop :=
  forall mp, cs_cur_map s = Some mp -> cmap_ok k lid mp = true.

Definition LocOK (s : cstate) : Prop :=
  cs_icvn s <> None /\
  (anc_has (mn_map (cs_node s)) (mn_ref (cs_node s)) "GS_LOOP" = true -> cs_vriic s <> None /\ cs_fic s <> None).

Definition DataOK (lid : option str) (s : cstate) : Prop :=
  HWF (cs_heap s) /\
  forall cd, cs_data s = Some cd ->
    exists cdx, nth_error (cs_heap s) cd = Some cdx /\ o_live cdx = true /\ o_class cdx = CSeg /\
      (nin lid (cs_node s) = true -> exists x d, lid = Some x /\ o_parent cdx = RObj d /\ chain (cs_heap s) x d).

Definition Good (k : nat) (lid : option str) (s : cstate) : Prop :=
  NodeOK k lid (cs_node s) /\ SelOK k lid s /\ LocOK s /\ DataOK lid s /\ cs_data s <> None.

Record CEnvOK (k : nat) (lid : option str) (E : cenv) : Prop := {
  ceo_load : forall name mp, de_load (ce_d E) name = Ok mp -> cmap_ok k lid mp = true;
  ceo_raise : forall name e, de_load (ce_d E) name = Raise e -> allowed e = true;
  ceo_cm : MOK k lid (de_cm (ce_d E));
  ceo_lid : ce_loop E = lid
}.

(* what the first part of a step establishes *)
Definition P1post (k : nat) (lid : option str) (s : cstate) (sg : seg) (pop push : list mnode) (s1 : cstate) : Prop :=
  cs_heap s1 = cs_heap s /\ cs_tree s1 = cs_tree s /\ cs_data s1 = cs_data s /\
  NodeOK k lid (cs_node s1) /\ SelOK k lid s1 /\ LocOK s1 /\
  Forall LoopMn pop /\ Forall LoopMn push /\
  (nins lid (cs_node s1) = true -> cs_data s <> None -> nin lid (cs_node s) = true) /\
  (nins lid (cs_node s1) = true -> forall x, lid = Some x -> Forall (fun p => mn_id p <> Ok (Some x)) (removelast pop)) /\
  (nin lid (cs_node s1) = false -> forall x, lid = Some x -> Forall (fun p => mn_id p <> Ok (Some x)) push) /\
  (sid_is sg "ISA" = true -> mn_id (cs_node s1) = Ok (Some (l "ISA"))).

(* ------------------------------------------------------------------ *)
(* maps                                                                 *)

Lemma cmap_ok_cases k lid m : cmap_ok k lid m = true -> unusable m = true \/ MOK k lid m.
Proof.
  unfold cmap_ok. intros H. apply orb_true_iff in H as [H|H]; [left; exact H | right].
  apply andb_true_iff in H as [H H4]. apply andb_true_iff in H as [H H3]. apply andb_true_iff in H as [H1 H2].
  repeat split; assumption.
Qed.

Lemma cmap_ok_map_ok k lid m : cmap_ok k lid m = true -> map_ok m = true.
Proof.
  intros H. unfold map_ok. destruct (cmap_ok_cases _ _ _ H) as [U | (F & _)]; [rewrite U | rewrite F, orb_true_r]; reflexivity.
Qed.

Lemma path_false m p r : path_ok m p (fun _ => false) = true -> getnode m p = Ok r -> False.
Proof. unfold path_ok. intros H G. rewrite G in H. discriminate H. Qed.

Lemma unusable_no_node m p r :
  unusable m = true ->
  p = "/ISA_LOOP/ISA"%string \/ p = "/ISA_LOOP/GS_LOOP/GS"%string \/ p = "/ISA_LOOP/GS_LOOP/ST_LOOP/HEADER/BHT"%string ->
  getnode m p = Ok r -> False.
Proof.
  unfold unusable. intros U P G. apply andb_true_iff in U as [U U3]. apply andb_true_iff in U as [U1 U2].
  destruct P as [-> | [-> | ->]]; [exact (path_false _ _ _ U1 G) | exact (path_false _ _ _ U2 G) | exact (path_false _ _ _ U3 G)].
Qed.

Lemma cmap_paths k lid m : cmap_ok k lid m = true ->
  match getnode m "/ISA_LOOP/ISA" with Ok r => MOK k lid m /\ isa_good m r = true | Raise e => allowed e = true end /\
  match getnode m "/ISA_LOOP/GS_LOOP/GS" with Ok r => MOK k lid m /\ gs_good m r = true | Raise e => allowed e = true end /\
  match getnode m "/ISA_LOOP/GS_LOOP/ST_LOOP/HEADER/BHT" with Ok r => MOK k lid m /\ bht_good m r = true | Raise e => allowed e = true end.
Proof.
  intros H. destruct (map_ok_paths _ (cmap_ok_map_ok _ _ _ H)) as (P1 & P2 & P3).
  assert (M : forall p r, p = "/ISA_LOOP/ISA"%string \/ p = "/ISA_LOOP/GS_LOOP/GS"%string \/ p = "/ISA_LOOP/GS_LOOP/ST_LOOP/HEADER/BHT"%string ->
               getnode m p = Ok r -> MOK k lid m).
  { intros p r P G. destruct (cmap_ok_cases _ _ _ H) as [U|M]; [destruct (unusable_no_node _ _ _ U P G) | exact M]. }
  split; [|split].
  - destruct (getnode m "/ISA_LOOP/ISA") as [r|e] eqn:G; [|exact P1].
    split; [exact (M _ r (or_introl eq_refl) G) | exact (proj2 P1)].
  - destruct (getnode m "/ISA_LOOP/GS_LOOP/GS") as [r|e] eqn:G; [|exact P2].
    split; [exact (M _ r (or_intror (or_introl eq_refl)) G) | exact (proj2 P2)].
  - destruct (getnode m "/ISA_LOOP/GS_LOOP/ST_LOOP/HEADER/BHT") as [r|e] eqn:G; [|exact P3].
    split; [exact (M _ r (or_intror (or_intror eq_refl)) G) | exact (proj2 P3)].
Qed.

Lemma MOK_wf k lid m : MOK k lid m -> walker_wf m = true.
Proof. intros (F & _). apply (full_ok_parts m F). Qed.

Lemma all_refs_in m r n : walker_wf m = true -> node_at (root_nodes m) r = Some n -> In r (all_refs m).
Proof.
  intros W H. unfold walker_wf in W. apply andb_true_iff in W as [D _]. eapply all_refs_complete; eauto.
Qed.

Lemma all_in_tree_at lid m r sn :
  walker_wf m = true -> all_in_tree lid m = true -> node_at (root_nodes m) r = Some (NSeg sn) -> in_tree_ref lid m r = true.
Proof.
  intros W A H. unfold all_in_tree in A. rewrite forallb_forall in A.
  specialize (A r (all_refs_in _ _ _ W H)). rewrite H in A. exact A.
Qed.

Lemma bht_all_seg pr lid m r sn :
  walker_wf m = true -> bht_all pr lid m = true -> node_at (root_nodes m) r = Some (NSeg sn) ->
  s_id sn = Some (l "BHT") -> prof_is pr lid m r = true.
Proof.
  intros W A H I. unfold bht_all in A. apply andb_true_iff in A as [A _]. rewrite forallb_forall in A.
  specialize (A r (all_refs_in _ _ _ W H)). rewrite H, I in A.
  change (is_id (Some (l "BHT")) "BHT") with (is_id (Some (C07_zone.l "BHT")) "BHT") in A.
  rewrite (is_id_refl "BHT") in A. exact A.
Qed.

Lemma bht_all_tgt pr lid m r :
  bht_all pr lid m = true -> getnode m "/ISA_LOOP/GS_LOOP/ST_LOOP/HEADER/BHT" = Ok r -> prof_is pr lid m r = true.
Proof. unfold bht_all. intros A G. apply andb_true_iff in A as [_ A]. rewrite G in A. exact A. Qed.

Definition bprof (k : nat) : nat := match k with 0 => 2 | 1 => 0 | 2 => 2 | _ => 1 end.

Lemma jump_bht k lid m : jump_ok k lid m = true -> bht_all (bprof k) lid m = true.
Proof.
  destruct k as [|[|[|k]]]; cbn [jump_ok bprof]; intros H; apply andb_true_iff in H as [_ H]; exact H.
Qed.

Lemma prof_transfer pr lid m1 r1 m2 r2 :
  prof_is pr lid m1 r1 = true -> prof_is pr lid m2 r2 = true ->
  in_tree_ref lid m1 r1 = in_tree_ref lid m2 r2 /\ inside_ref lid m1 r1 = inside_ref lid m2 r2.
Proof.
  unfold inside_ref. destruct pr as [|[|pr]]; cbn [prof_is]; intros H1 H2.
  - apply negb_true_iff in H1, H2. rewrite H1, H2. split; reflexivity.
  - apply andb_true_iff in H1 as [A1 B1]. apply andb_true_iff in H2 as [A2 B2]. rewrite A1, A2, B1, B2. split; reflexivity.
  - unfold inside_ref in H1, H2. pose proof H1 as H1'. pose proof H2 as H2'.
    apply andb_true_iff in H1 as [A1 B1]. apply andb_true_iff in H2 as [A2 B2]. rewrite A1, A2, B1, B2. split; reflexivity.
Qed.

(* a move to the ISA or GS target: if the target is inside the requested loop, so was the node before *)
Lemma jump_isa_gs k lid m p r old :
  jump_ok k lid m = true -> p = "/ISA_LOOP/ISA"%string \/ p = "/ISA_LOOP/GS_LOOP/GS"%string ->
  getnode m p = Ok r -> inside_ref lid m r = true -> NodeOK k lid old -> nin lid old = true.
Proof.
  intros J P G I ((FO & _ & _ & JO) & [sn Hs]).
  destruct k as [|k].
  - cbn [jump_ok] in JO. apply andb_true_iff in JO as [A _].
    unfold nin. eapply all_in_tree_at; eauto. apply (full_ok_parts _ FO).
  - exfalso.
    assert (T : tgt_not_inside lid m p = true).
    { destruct k as [|[|k]]; cbn [jump_ok] in J; apply andb_true_iff in J as [J _]; apply andb_true_iff in J as [J1 J2];
        destruct P as [-> | ->]; assumption. }
    unfold tgt_not_inside in T. rewrite G, I in T. discriminate T.
Qed.

Lemma inside_in_tree lid m r : inside_ref lid m r = true -> in_tree_ref lid m r = true.
Proof. unfold inside_ref. intros H. apply andb_true_iff in H as [H _]. exact H. Qed.

(* ------------------------------------------------------------------ *)
(* part 1 of a step: ISA                                                *)

Lemma isa_target_id m r : ctx_wf m = true -> getnode m "/ISA_LOOP/ISA" = Ok r -> full_ok m = true ->
  mn_id (mn_of m r) = Ok (Some (l "ISA")).
Proof.
  intros CW G FO. unfold ctx_wf in CW. apply andb_true_iff in CW as [_ P]. apply path_ok_cases in P. rewrite G in P.
  apply is_id_eq in P. apply seg_id_at_node in P as (sn & H & I).
  rewrite (mn_id_at m _ _ H). cbn [node_id]. rewrite I. reflexivity.
Qed.

Lemma p1_isa k lid E sg s :
  CEnvOK k lid E -> SelOK k lid s -> sid_is sg "ISA" = true ->
  (cs_data s <> None -> NodeOK k lid (cs_node s)) ->
  csafe (ctx_p1 E sg) s (fun ppw s1 => let '(pop, push, werrs) := ppw in P1post k lid s sg pop push s1).
Proof.
  intros EO SO S NO. unfold ctx_p1, ctx_find_node, ctx_select_map. cbv zeta. rewrite S.
  pose proof (ceo_cm _ _ _ EO) as MC. pose proof MC as (FO & CW & LG & JO).
  destruct (full_ok_parts _ FO) as (_ & _ & _ & _ & PI & _). apply path_ok_cases in PI.
  cstep. cstep. cstep. cstep. apply csafe_lift.
  destruct (getnode (de_cm (ce_d E)) "/ISA_LOOP/ISA") as [r|e] eqn:G; [|exact PI].
  cstep. cstep. cstep. cstep. cstep.
  apply csafe_lift_gv; [apply gv_ISA12|]. intros v. cstep. cstep.
  destruct (isa_good_parts _ _ PI) as (sn & e0 & Hsn & NG & NS & _).
  unfold P1post. cbn [cs_heap cs_tree cs_data cs_node cs_cur_map cs_icvn cs_vriic cs_fic set_icvn set_mnode].
  split; [reflexivity|]. split; [reflexivity|]. split; [reflexivity|].
  split; [split; [exact MC | exists sn; exact Hsn]|].
  split; [exact SO|].
  split; [unfold LocOK; cbn [cs_icvn cs_node cs_vriic cs_fic set_icvn set_mnode mn_map mn_ref mn_of];
          split; [discriminate | intros A; congruence]|].
  split; [constructor|]. split; [constructor|].
  split; [|split; [|split]].
  - intros I D. unfold nins in I. cbn [mn_map mn_ref mn_of] in I.
    eapply (jump_isa_gs k lid _ "/ISA_LOOP/ISA"); eauto.
  - intros _ x _. constructor.
  - intros _ x _. constructor.
  - intros _. apply isa_target_id; assumption.
Qed.

(* ------------------------------------------------------------------ *)
(* part 1 of a step: GS                                                 *)

Definition frame (s s' : cstate) : Prop :=
  cs_heap s' = cs_heap s /\ cs_tree s' = cs_tree s /\ cs_data s' = cs_data s /\ cs_node s' = cs_node s /\
  cs_icvn s' = cs_icvn s /\ cs_vriic s' = cs_vriic s /\ cs_fic s' = cs_fic s.

Lemma frame_refl s : frame s s.
Proof. repeat split. Qed.

Lemma frame_trans a b c : frame a b -> frame b c -> frame a c.
Proof.
  intros (a1 & a2 & a3 & a4 & a5 & a6 & a7) (b1 & b2 & b3 & b4 & b5 & b6 & b7). repeat split; congruence.
Qed.

Lemma switch_map_safe k lid E new s :
  CEnvOK k lid E ->
  csafe (ctx_switch_map E new) s (fun mp s' => frame s s' /\ cs_cur_map s' = Some mp /\ cmap_ok k lid mp = true).
Proof.
  intros EO. unfold ctx_switch_map. cstep. cstep. destruct new as [f|]; [|apply csafe_raise; reflexivity].
  cstep. apply csafe_lift. destruct (de_load (ce_d E) f) as [mp|e] eqn:EL; [|exact (ceo_raise _ _ _ EO f e EL)].
  cstep. cstep. cstep. cstep. cstep. split; [repeat split|]. split; [reflexivity|]. exact (ceo_load _ _ _ EO f mp EL).
Qed.

Lemma reset_counter_safe a b pa pb s :
  parse_path a = Ok pa -> parse_path b = Ok pb ->
  csafe (reset_counter a b) s (fun _ s' => frame s s' /\ cs_cur_map s' = cs_cur_map s).
Proof.
  intros Ha Hb. unfold reset_counter. cstep. cstep. cstep.
  destruct (fw_ok (cs_w s) a b pa pb Ha Hb) as [w' Ew]. apply (csafe_lift_ok _ w'); [exact Ew|].
  cstep. split; [repeat split | reflexivity].
Qed.

Lemma reset_isa_safe s :
  csafe (reset_counter (CtxReader.l "/ISA_LOOP") (CtxReader.l "/ISA_LOOP/ISA")) s (fun _ s' => frame s s' /\ cs_cur_map s' = cs_cur_map s).
Proof. eapply reset_counter_safe; vm_compute; reflexivity. Qed.

Lemma reset_gs_safe s :
  csafe (reset_counter (CtxReader.l "/ISA_LOOP/GS_LOOP") (CtxReader.l "/ISA_LOOP/GS_LOOP/GS")) s (fun _ s' => frame s s' /\ cs_cur_map s' = cs_cur_map s).
Proof. eapply reset_counter_safe; vm_compute; reflexivity. Qed.

Lemma p1_gs k lid E sg s :
  CEnvOK k lid E -> SelOK k lid s -> sid_is sg "ISA" = false -> sid_is sg "GS" = true ->
  NodeOK k lid (cs_node s) -> LocOK s ->
  csafe (ctx_p1 E sg) s (fun ppw s1 => let '(pop, push, werrs) := ppw in P1post k lid s sg pop push s1).
Proof.
  intros EO SO S1 S2 NO LO. unfold ctx_p1, ctx_find_node, ctx_select_map. cbv zeta. rewrite S1, S2.
  pose proof (ceo_cm _ _ _ EO) as MC. pose proof MC as (FO & CW & LG & JO).
  destruct (full_ok_parts _ FO) as (_ & _ & _ & _ & _ & PG & _). apply path_ok_cases in PG.
  cstep. cstep. cstep. cstep. apply csafe_lift.
  destruct (getnode (de_cm (ce_d E)) "/ISA_LOOP/GS_LOOP/GS") as [r0|e] eqn:G0; [|exact PG].
  cstep. cstep. cstep. cstep. cstep.
  apply csafe_lift_gv; [apply gv_GS01|]. intros fic. cstep.
  apply csafe_lift_gv; [apply gv_GS08|]. intros vriic. cstep. cstep. cstep. cstep. cstep.
  set (sa := set_fic_vriic _ _ _).
  assert (Fa : cs_heap sa = cs_heap s /\ cs_tree sa = cs_tree s /\ cs_data sa = cs_data s /\ cs_icvn sa = cs_icvn s /\
               cs_cur_map sa = cs_cur_map s /\ cs_vriic sa = Some vriic /\ cs_fic sa = Some fic) by (repeat split).
  destruct Fa as (a1 & a2 & a3 & a4 & a5 & a6 & a7).
  apply csafe_local; [rewrite a4; exact (proj1 LO)|]. intros icvn Eicvn. cstep.
  (* the optional switch *)
  apply (csafe_conseq _ _ (fun _ s2 => frame sa s2 /\ SelOK k lid s2)).
  { destruct (negb _).
    - cstep. eapply csafe_conseq; [apply switch_map_safe; exact EO|]. cbn beta.
      intros mp s2 (F2 & C2 & M2).
      eapply csafe_conseq; [apply reset_isa_safe|]. cbn beta. intros _ s3 (F3 & C3).
      split; [eapply frame_trans; eauto|]. intros mp' Hmp. rewrite C3, C2 in Hmp. injection Hmp as <-. exact M2.
    - cstep. split; [apply frame_refl|]. intros mp Hmp. rewrite a5 in Hmp. exact (SO mp Hmp). }
  intros _ s2 (F2 & SO2). cstep.
  eapply csafe_conseq; [apply reset_gs_safe|]. cbn beta. intros _ s3 (F3 & C3).
  pose proof (frame_trans _ _ _ F2 F3) as F. destruct F as (f1 & f2 & f3 & f4 & f5 & f6 & f7).
  cstep. cstep. cstep.
  destruct (cs_cur_map s3) as [mp|] eqn:EC; [|apply csafe_raise; reflexivity].
  cstep. assert (MPO : cmap_ok k lid mp = true) by (apply SO2; rewrite <- C3; reflexivity).
  destruct (cmap_paths _ _ _ MPO) as (_ & PG2 & _).
  cstep. apply csafe_lift. destruct (getnode mp "/ISA_LOOP/GS_LOOP/GS") as [r|e] eqn:G; [|exact PG2].
  destruct PG2 as [MO PG2]. destruct (gs_good_parts _ _ PG2) as [SR NST].
  cstep. cstep.
  unfold P1post. cbn [cs_heap cs_tree cs_data cs_node cs_cur_map cs_icvn cs_vriic cs_fic set_mnode].
  split; [congruence|]. split; [congruence|]. split; [congruence|].
  split; [split; assumption|].
  split; [intros mp' Hmp; unfold SelOK in *; cbn [cs_cur_map set_mnode] in Hmp; rewrite EC in Hmp; injection Hmp as <-; exact MPO|].
  split; [unfold LocOK; cbn [cs_icvn cs_node cs_vriic cs_fic set_mnode]; rewrite f5, f6, f7, a4, a6, a7;
          split; [exact (proj1 LO) | intros _; split; discriminate]|].
  split; [constructor|]. split; [constructor|].
  split; [|split; [|split]].
  - intros I D. unfold nins in I. cbn [mn_map mn_ref mn_of] in I.
    destruct MO as (_ & _ & _ & JO2).
    eapply (jump_isa_gs k lid mp "/ISA_LOOP/GS_LOOP/GS"); eauto.
  - intros _ x _. constructor.
  - intros _ x _. constructor.
  - intros X. rewrite S1 in X. discriminate X.
Qed.

(* ------------------------------------------------------------------ *)
(* part 1 of a step: any other segment                                  *)

Lemma nodeok_parts k lid n : NodeOK k lid n ->
  full_ok (mn_map n) = true /\ ctx_wf (mn_map n) = true /\ lid_good lid (mn_map n) = true /\
  jump_ok k lid (mn_map n) = true /\ seg_ref (mn_map n) (mn_ref n).
Proof. intros ((a & b & c & d) & e). repeat split; assumption. Qed.

Lemma p1_found k lid E sg s w' m start r' pop0 push0 w sc cl :
  CEnvOK k lid E -> SelOK k lid s -> sid_is sg "ISA" = false -> sid_is sg "GS" = false ->
  NodeOK k lid (cs_node s) -> LocOK s -> m = mn_map (cs_node s) -> start = mn_ref (cs_node s) ->
  snd (walk_st m w start (de_d (ce_d E)) sg sc cl None) = Ok (Some r', pop0, push0) ->
  csafe (ctx_select_map E sg) (set_mnode (set_w s w') (mn_of m r'))
        (fun _ s2 => P1post k lid s sg (map (mn_of m) pop0) (map (mn_of m) push0) s2).
Proof.
  intros EO SO S1 S2 NO LO Em Es EW.
  destruct (nodeok_parts _ _ _ NO) as (FO & CW & LG & JO & SR). rewrite <- Em, <- Es in *.
  destruct (walker_move m FO CW lid LG w start _ sg sc cl None _ _ _ SR EW) as (VPOP & VPUSH & SR' & M1 & M2 & M3).
  destruct (walker_zone m w start _ sg sc cl None r' pop0 push0 FO SR EW) as (_ & z1 & _ & _ & _ & _ & z6).
  destruct LO as (LI & LV).
  assert (NG : sid sg <> Some (l "GS")) by (apply sid_is_false; exact S2).
  (* the result when the map is not switched *)
  assert (BASE : forall s2, s2 = set_mnode (set_w s w') (mn_of m r') ->
            P1post k lid s sg (map (mn_of m) pop0) (map (mn_of m) push0) s2).
  { intros s2 ->. unfold P1post. cbn [cs_heap cs_tree cs_data cs_node cs_cur_map cs_icvn cs_vriic cs_fic set_mnode set_w].
    split; [reflexivity|]. split; [reflexivity|]. split; [reflexivity|].
    split; [split; [repeat split; assumption | exact SR']|].
    split; [exact SO|].
    split; [unfold LocOK; cbn [cs_icvn cs_node cs_vriic cs_fic set_mnode set_w mn_map mn_ref mn_of]; split; [exact LI|];
            intros A; destruct (z1 A) as [A'|A']; [apply LV; rewrite <- Em, <- Es; exact A' | contradiction]|].
    split; [exact VPOP|]. split; [exact VPUSH|].
    split; [|split; [|split]].
    - intros I _. unfold nin. rewrite <- Em, <- Es. apply M1. exact I.
    - exact M2.
    - exact M3.
    - intros X. rewrite S1 in X. discriminate X. }
  unfold ctx_select_map. cbv zeta. rewrite S1, S2.
  destruct (sid_is sg "BHT") eqn:S3; [|cstep; apply BASE; reflexivity].
  apply sid_is_true in S3. destruct (z6 S3) as [BS BG].
  assert (BV : cs_vriic s <> None /\ cs_fic s <> None).
  { apply LV. rewrite <- Em, <- Es. destruct (z1 BG) as [A|A]; [exact A | contradiction]. }
  cstep. cstep. cstep.
  apply csafe_local; [exact (proj1 BV)|]. intros vriic Ev.
  destruct (_ || _); [|cstep; apply BASE; reflexivity].
  cstep. apply csafe_lift_gv; [apply gv_BHT02|]. intros tspc. cstep.
  apply csafe_local; [exact LI|]. intros icvn Ei. cstep.
  apply csafe_local; [exact (proj2 BV)|]. intros fic Ef. cbv zeta.
  destruct (negb _); [|cstep; apply BASE; reflexivity].
  cstep. eapply csafe_conseq; [apply switch_map_safe; exact EO|]. cbn beta.
  intros mp s2 (F2 & C2 & MPO). destruct F2 as (f1 & f2 & f3 & f4 & f5 & f6 & f7).
  destruct (cmap_paths _ _ _ MPO) as (_ & _ & PB).
  cstep. apply csafe_lift. destruct (getnode mp "/ISA_LOOP/GS_LOOP/ST_LOOP/HEADER/BHT") as [rb|e] eqn:GB; [|exact PB].
  destruct PB as [MO PB]. apply bht_good_parts in PB.
  cstep.
  (* the BHT of the old map and the target in the new one lie alike *)
  destruct SR' as [sn' Hr'].
  destruct (walker_match m w start _ sg sc cl None r' pop0 push0 (proj1 (full_ok_parts _ FO)) SR EW) as (sn'' & Hr'' & MT).
  rewrite Hr' in Hr''. injection Hr'' as <-. apply seg_match_id in MT. rewrite S3 in MT.
  pose proof (bht_all_seg _ lid m r' sn' (proj1 (full_ok_parts _ FO)) (jump_bht _ _ _ JO) Hr' MT) as PR1.
  destruct MO as (FO2 & CW2 & LG2 & JO2).
  pose proof (bht_all_tgt _ lid mp rb (jump_bht _ _ _ JO2) GB) as PR2.
  destruct (prof_transfer _ _ _ _ _ _ PR1 PR2) as (TT & TI).
  unfold P1post. cbn [cs_heap cs_tree cs_data cs_node cs_cur_map cs_icvn cs_vriic cs_fic set_mnode set_w] in *.
  split; [congruence|]. split; [congruence|]. split; [congruence|].
  split; [split; [repeat split; assumption | exact PB]|].
  split; [unfold SelOK; cbn [cs_cur_map set_mnode]; intros mp' Hmp; rewrite C2 in Hmp; injection Hmp as <-; exact MPO|].
  split; [unfold LocOK; cbn [cs_icvn cs_node cs_vriic cs_fic set_mnode]; rewrite f5, f6, f7;
          cbn [cs_icvn cs_vriic cs_fic set_mnode set_w]; split; [exact LI | intros _; exact BV]|].
  split; [exact VPOP|]. split; [exact VPUSH|].
  unfold nins, nin. cbn [mn_map mn_ref mn_of]. rewrite <- TI, <- TT.
  split; [|split; [|split]].
  - intros I _. rewrite <- Em, <- Es. apply M1. exact I.
  - exact M2.
  - exact M3.
  - intros X. rewrite S1 in X. discriminate X.
Qed.

Lemma p1_other k lid E sg s :
  CEnvOK k lid E -> SelOK k lid s -> sid_is sg "ISA" = false -> sid_is sg "GS" = false ->
  NodeOK k lid (cs_node s) -> LocOK s ->
  csafe (ctx_p1 E sg) s (fun ppw s1 => let '(pop, push, werrs) := ppw in P1post k lid s sg pop push s1).
Proof.
  intros EO SO S1 S2 NO LO. unfold ctx_p1, ctx_find_node. cbv zeta. rewrite S1, S2.
  destruct (nodeok_parts _ _ _ NO) as (FO & CW & LG & JO & SR).
  cstep. cstep. cstep. cstep. cstep.
  pose proof (walker_total (mn_map (cs_node s)) (cs_w s) (mn_ref (cs_node s)) (de_d (ce_d E)) sg
                (seg_count (cs_x s)) (cur_line (cs_x s)) None (proj1 (full_ok_parts _ FO)) SR) as WT.
  destruct (walk_st (mn_map (cs_node s)) (cs_w s) (mn_ref (cs_node s)) (de_d (ce_d E)) sg
              (seg_count (cs_x s)) (cur_line (cs_x s)) None) as [[w' evs] res] eqn:EW.
  destruct res as [[[o pop0] push0]|e]; [|destruct WT].
  assert (EW' : snd (walk_st (mn_map (cs_node s)) (cs_w s) (mn_ref (cs_node s)) (de_d (ce_d E)) sg
              (seg_count (cs_x s)) (cur_line (cs_x s)) None) = Ok (o, pop0, push0)) by (rewrite EW; reflexivity).
  cstep. cstep. cstep. apply (csafe_lift_ok _ (o, pop0, push0)); [reflexivity|].
  destruct o as [r'|].
  - cstep. cstep. cstep. cstep.
    eapply csafe_conseq; [eapply (p1_found k lid E sg s w' _ _ r' pop0 push0); eauto|].
    cbn beta. intros _ s2 P. cstep. exact P.
  - destruct (walker_move _ FO CW lid LG _ _ _ sg _ _ None _ _ _ SR EW') as (_ & _ & -> & ->).
    cstep. cstep. cstep. cstep.
    unfold P1post. cbn [cs_heap cs_tree cs_data cs_node cs_cur_map cs_icvn cs_vriic cs_fic set_mnode set_w map].
    split; [reflexivity|]. split; [reflexivity|]. split; [reflexivity|].
    split; [exact NO|]. split; [exact SO|]. split; [exact LO|].
    split; [constructor|]. split; [constructor|].
    split; [|split; [|split]].
    + intros I _. apply inside_in_tree. exact I.
    + intros _ x _. constructor.
    + intros _ x _. constructor.
    + intros X. rewrite S1 in X. discriminate X.
Qed.

Lemma p1_safe k lid E sg s :
  CEnvOK k lid E -> SelOK k lid s ->
  (sid_is sg "ISA" = true \/ (NodeOK k lid (cs_node s) /\ LocOK s)) ->
  (cs_data s <> None -> NodeOK k lid (cs_node s)) ->
  csafe (ctx_p1 E sg) s (fun ppw s1 => let '(pop, push, werrs) := ppw in P1post k lid s sg pop push s1).
Proof.
  intros EO SO C NO. destruct (sid_is sg "ISA") eqn:S1; [apply p1_isa; assumption|].
  destruct C as [C | [N L]]; [discriminate C|].
  destruct (sid_is sg "GS") eqn:S2; [apply p1_gs | apply p1_other]; assumption.
Qed.

(* ------------------------------------------------------------------ *)
(* part 2 of a step                                                     *)

Definition same_obj (y y' : dobj) : Prop :=
  o_live y' = o_live y /\ o_map y' = o_map y /\ o_children y' = o_children y /\ o_parent y' = o_parent y /\
  o_class y' = o_class y.

Lemma stamp_safe n s y (Q : unit -> cstate -> Prop) :
  nth_error (cs_heap s) n = Some y ->
  (forall y', same_obj y y' -> Q tt (set_heap s (set_nth (cs_heap s) n y'))) ->
  csafe (stamp n) s Q.
Proof.
  intros E HQ. unfold stamp. cstep. cstep. apply csafe_heap. eapply h_mod_safe; [exact E|].
  apply HQ. repeat split.
Qed.

Lemma attach_safe n w s y (Q : unit -> cstate -> Prop) :
  nth_error (cs_heap s) n = Some y ->
  (forall y', same_obj y y' -> Q tt (set_heap (set_pending s []) (set_nth (cs_heap s) n y'))) ->
  csafe (attach_errors n w) s Q.
Proof.
  intros E HQ. unfold attach_errors. cstep. cstep. cbv zeta. cstep. cstep. apply csafe_heap.
  eapply h_mod_safe; [exact E|]. apply HQ. repeat split.
Qed.

(* the part of the invariant that only depends on the map selection *)
Definition MapPart (k : nat) (lid : option str) (s : cstate) : Prop :=
  NodeOK k lid (cs_node s) /\ SelOK k lid s /\ LocOK s.

Lemma MapPart_eq k lid s s' :
  cs_node s' = cs_node s -> cs_cur_map s' = cs_cur_map s -> cs_icvn s' = cs_icvn s ->
  cs_vriic s' = cs_vriic s -> cs_fic s' = cs_fic s -> MapPart k lid s -> MapPart k lid s'.
Proof.
  unfold MapPart, SelOK, LocOK. intros -> -> -> -> ->. auto.
Qed.

(* the new segment node hung into the tree, then stamped *)
Lemma tree_finish k lid x s n nx d' :
  MapPart k lid s -> lid = Some x -> HWF (cs_heap s) ->
  nth_error (cs_heap s) n = Some nx -> o_class nx = CSeg -> o_live nx = true ->
  o_parent nx = RObj d' -> chain (cs_heap s) x d' ->
  csafe (doc_ c_mod (fun st => set_data st (Some n)); stamp n) s (fun _ s2 => Good k lid s2).
Proof.
  intros MP EL HW En Cn Ln Pn CH. cstep. cstep.
  eapply stamp_safe; [exact En|]. intros y' (s1 & s2 & s3 & s4 & s5).
  destruct (HWF_set_same _ _ _ y' HW En s1 s2 s3 s4 s5) as [HW' HX].
  destruct MP as (NO & SO & LO).
  split; [exact NO|]. split; [exact SO|]. split; [exact LO|]. split; [|discriminate].
  split; [exact HW'|]. cbn [cs_data cs_heap cs_node set_heap set_data]. intros cd Ecd. injection Ecd as <-.
  exists y'. split; [apply nth_set_nth_eq; eapply nth_lt; eauto|]. split; [congruence|]. split; [congruence|].
  intros _. exists x, d'. split; [exact EL|]. split; [congruence|]. eapply chain_hext; eauto.
Qed.

Lemma is_segment_at m r sn : node_at (root_nodes m) r = Some (NSeg sn) -> mn_is_segment (mn_of m r) = Ok true.
Proof.
  intros H. unfold mn_is_segment, mn_view. cbn [mn_ref mn_map mn_of].
  destruct r as [|a r'] eqn:Er; [discriminate H|]. rewrite <- Er in *. rewrite (get_node_ok _ _ _ H). reflexivity.
Qed.

Lemma LoopMn_MnOK ps : Forall LoopMn ps -> Forall MnOK ps.
Proof. apply Forall_impl. intros p [H _]. exact H. Qed.

Lemma tree_safe k lid x E sg s0 pop push s1 m r :
  CEnvOK k lid E -> lid = Some x -> P1post k lid s0 sg pop push s1 -> DataOK lid s0 ->
  cs_node s1 = mn_of m r -> in_tree_ref lid m r = true ->
  csafe (rest_tree E sg pop push s1 (at_start_ref lid m r)) s1 (fun _ s2 => Good k lid s2).
Proof.
  intros EO EL P1 DO EN IT.
  destruct P1 as (p1 & p2 & p3 & NO & SO & LO & VPOP & VPUSH & X1 & X2 & X3 & _).
  assert (MP : MapPart k lid s1) by (split; [exact NO | split; assumption]).
  destruct (nodeok_parts _ _ _ NO) as (FO & CW & LG & JO & SR). rewrite EN in FO, CW, LG, JO, SR.
  cbn [mn_map mn_ref mn_of] in FO, CW, LG, JO, SR. destruct SR as [sn Hsn].
  destruct DO as (HW0 & DD). rewrite <- p1 in HW0.
  unfold rest_tree. cbv zeta. rewrite EN.
  assert (MNODE : MnOK (mn_of m r)) by (eapply mn_ok; eauto).
  assert (ISSEG : mn_is_segment (mn_of m r) = Ok true) by (eapply is_segment_at; eauto).
  destruct (at_start_ref lid m r) eqn:AS.
  - (* a new tree *)
    subst lid. unfold at_start_ref in AS. apply andb_true_iff in AS as [AS _]. apply ostr_eqb_eq in AS.
    rewrite last_anc_ids in AS.
    destruct (loop_id_at_node _ _ _ AS) as (np & Hnp & Lnp).
    assert (MPAR : MnOK (mn_parent (mn_of m r))) by (apply (mn_ok m FO CW (removelast r) np Hnp)).
    assert (IDPAR : mn_id (mn_parent (mn_of m r)) = Ok (Some x)) by (apply (loop_mn_id m (removelast r) x AS)).
    cstep.
    apply (csafe_conseq _ _ (fun _ s' => cs_heap s' = cs_heap s1 /\ MapPart k (Some x) s')).
    { destruct (cs_tree s1); cstep; (split; [reflexivity | exact MP]). }
    intros _ sY (HY & MPY). cstep. apply csafe_heap. apply h_new_safe.
    cstep. cstep. cstep. apply csafe_heap.
    cbn [cs_heap set_heap set_tree]. rewrite HY.
    set (root := new_loop (Some (mn_parent (mn_of m r))) pop RNone).
    assert (HW1 : HWF (cs_heap s1 ++ [root])).
    { apply HWF_new; [exact HW0|]. split; [reflexivity|]. split; [exists (mn_parent (mn_of m r)); split; [reflexivity | exact MPAR]|].
      split; [constructor|]. split; [intros p Hp; discriminate Hp | intros _ ms Hms; discriminate Hms]. }
    assert (CH1 : chain (cs_heap s1 ++ [root]) x (length (cs_heap s1))).
    { eapply chain_root; [apply nth_app_new | reflexivity | reflexivity | reflexivity | exact IDPAR]. }
    eapply hsafe_conseq.
    { eapply (add_segment_node_safe' x _ (length (cs_heap s1)) root (length (cs_heap s1)));
        [exact HW1 | apply nth_app_new | reflexivity | exact CH1 | exact MNODE | exact ISSEG | exact MPAR
        | apply LoopMn_MnOK; exact VPOP | apply LoopMn_MnOK; exact VPUSH |].
      left. exists root. split; [apply nth_app_new | reflexivity]. }
    cbn beta. intros n h' (HW' & HX' & nx & d' & En & Cn & Ln & Mn & Pn & CHn).
    eapply (tree_finish k (Some x) x _ n nx d'); try eassumption; try reflexivity.
  - (* the tree goes on *)
    assert (INS : nins lid (cs_node s1) = true).
    { unfold nins, inside_ref. rewrite EN. cbn [mn_map mn_ref mn_of]. rewrite IT, AS. reflexivity. }
    destruct (cs_data s1) as [cd|] eqn:ED; [|apply csafe_raise; reflexivity].
    assert (ED0 : cs_data s0 = Some cd) by congruence.
    destruct (DD cd ED0) as (cdx & Ecd & Lcd & Ccd & TR).
    destruct TR as (x' & d & EL' & Pcd & CH); [apply X1; [exact INS | congruence]|].
    rewrite EL in EL'. injection EL' as <-.
    cstep. apply csafe_heap. rewrite p1.
    eapply hsafe_conseq.
    { eapply (add_segment_node_safe' x _ cd cdx d);
        [rewrite <- p1; exact HW0 | exact Ecd | unfold is_seg_typed; rewrite Lcd, Ccd; exact Pcd | exact CH | exact MNODE | exact ISSEG
        | | apply LoopMn_MnOK; exact VPOP | apply LoopMn_MnOK; exact VPUSH | right; apply (X2 INS x EL)].
      (* the enclosing loop of the node *)
      subst lid. apply in_tree_split in IT as (p & q & Er & NQ & Ep).
      destruct r as [|a r'] using rev_ind; [symmetry in Er; apply app_eq_nil in Er as [_ Eq]; congruence|].
      assert (NP : removelast (r' ++ [a]) <> []).
      { rewrite removelast_snoc. intros ->. pose proof (f_equal (@length nat) Er) as L. rewrite !app_length in L.
        destruct p as [|b p']; [discriminate Ep|]. destruct q; [congruence|]. cbn [length] in L. lia. }
      rewrite removelast_snoc in NP.
      destruct (prefix_is_loop _ r' [a] _ NP ltac:(discriminate) Hsn) as (np & Hnp & _).
      change (mn_parent (mn_of m (r' ++ [a]))) with (mn_of m (removelast (r' ++ [a]))). rewrite removelast_snoc.
      eapply mn_ok; eauto. }
    cbn beta. intros n h' (HW' & HX' & nx & d' & En & Cn & Ln & Mn & Pn & CHn).
    eapply (tree_finish k lid x _ n nx d'); try eassumption; try reflexivity.
Qed.

(* ---- a segment outside the requested loop ---- *)
Lemma filt_pops_ok lid pop : Forall LoopMn pop ->
  exists pop', filt_pops lid pop = Ok pop' /\ Forall LoopMn pop' /\
               Forall (fun p => mn_id p <> Ok (Some lid)) pop'.
Proof.
  induction 1 as [|p ps Hp Hps IH]; [exists []; repeat split; constructor|].
  destruct IH as (more & Em & Fm & Im). destruct Hp as (MO & i & pth & Ei & Ni & Ep & Fs).
  cbn [filt_pops]. rewrite Ep. cbn [bind]. rewrite Em. cbn [bind].
  destruct (find_sub lid pth) eqn:F; [exists more; repeat split; assumption|].
  exists (p :: more). split; [reflexivity|]. split; [constructor; [split; [exact MO | exists i, pth; repeat split; assumption] | exact Fm]|].
  constructor; [|exact Im]. rewrite Ei. intros X. injection X as ->. congruence.
Qed.

Lemma ids_of_ok (L : option str) ps : Forall LoopMn ps -> Forall (fun p => mn_id p <> Ok L) ps ->
  exists ids, ids_of ps = Ok ids /\ existsb (ostr_eqb L) ids = false.
Proof.
  induction 1 as [|p ps Hp Hps IH]; intros HL; [exists []; split; reflexivity|].
  inversion HL as [|? ? NL HL']; subst. destruct (IH HL') as (ids & Ei & Ex).
  destruct Hp as (_ & i & pth & Eid & _). cbn [ids_of]. rewrite Eid. cbn [bind]. rewrite Ei. cbn [bind].
  exists (Some i :: ids). split; [reflexivity|]. cbn [existsb]. rewrite Ex, orb_false_r.
  destruct (ostr_eqb L (Some i)) eqn:X; [|reflexivity]. apply ostr_eqb_eq in X. subst L. rewrite Eid in NL. congruence.
Qed.

Lemma loop_ids_some ps : Forall LoopMn ps -> Forall (fun p => mn_id p <> Ok None) ps.
Proof. apply Forall_impl. intros p (_ & i & pth & Ei & _). rewrite Ei. discriminate. Qed.

Lemma loop_ids_nonempty ps : Forall LoopMn ps -> Forall (fun p => mn_id p <> Ok (Some [])) ps.
Proof. apply Forall_impl. intros p (_ & i & pth & Ei & Ni & _). rewrite Ei. intros X. injection X as ->. congruence. Qed.

Lemma plain_new_safe k lid E sg pop push s m r sn :
  CEnvOK k lid E -> cs_node s = mn_of m r -> full_ok m = true -> ctx_wf m = true ->
  node_at (root_nodes m) r = Some (NSeg sn) -> HWF (cs_heap s) ->
  Forall LoopMn pop -> Forall LoopMn push ->
  (forall x, lid = Some x -> Forall (fun p => mn_id p <> Ok (Some x)) push) ->
  forall st, cs_node st = cs_node s -> cs_data st = cs_data s ->
  csafe (plain_new E sg pop push st) s (fun n s' =>
    exists nx, s' = set_heap s (cs_heap s ++ [nx]) /\ n = length (cs_heap s) /\ HWF (cs_heap s ++ [nx]) /\
      o_class nx = CSeg /\ o_live nx = true /\ o_map nx = Some (mn_of m r) /\
      (forall o, o_parent nx <> RObj o) /\ (o_parent nx = RNone -> cs_data s = None)).
Proof.
  intros EO EN FO CW Hsn HW VPOP VPUSH X3 st ENst EDst. unfold plain_new. cbv zeta. rewrite ENst, EDst, EN.
  assert (MNODE : MnOK (mn_of m r)) by (eapply mn_ok; eauto).
  assert (NEW : forall par stl, (forall o, par <> RObj o) ->
            HWF (cs_heap s ++ [new_seg (Some (mn_of m r)) {| xg_d := de_d (ce_d E); xg_s := sg |} par stl []])).
  { intros par stl NP. apply HWF_new; [exact HW|]. split; [reflexivity|].
    split; [exists (mn_of m r); split; [reflexivity | exact MNODE]|]. split; [constructor|].
    split; [intros p Hp; destruct (NP p Hp) | intros C; discriminate C]. }
  destruct (cs_data s) as [cd|] eqn:ED.
  2:{ apply csafe_heap. apply h_new_safe. eexists. split; [reflexivity|]. split; [reflexivity|].
      split; [apply NEW; discriminate|]. repeat split; try discriminate. }
  rewrite (ceo_lid _ _ _ EO).
  cstep.
  apply (csafe_conseq _ _ (fun pop' s' => s' = s /\ Forall LoopMn pop' /\ Forall (fun p => mn_id p <> Ok lid) pop')).
  { destruct lid as [[|c x]|].
    - cstep. split; [reflexivity|]. split; [exact VPOP | apply loop_ids_nonempty; exact VPOP].
    - destruct (filt_pops_ok (c :: x) pop VPOP) as (pop' & Ef & Fp & Ip).
      apply (csafe_lift_ok _ pop'); [exact Ef|]. split; [reflexivity|]. split; assumption.
    - cstep. split; [reflexivity|]. split; [exact VPOP | apply loop_ids_some; exact VPOP]. }
  intros pop' s' (-> & Fp & Ip).
  assert (IPUSH : Forall (fun p => mn_id p <> Ok lid) push).
  { destruct lid as [x|]; [apply X3; reflexivity | apply loop_ids_some; exact VPUSH]. }
  destruct (ids_of_ok lid push VPUSH IPUSH) as (push_ids & E1 & N1).
  destruct (ids_of_ok lid pop' Fp Ip) as (pop_ids & E2 & N2).
  cstep. apply (csafe_lift_ok _ push_ids); [exact E1|]. cstep. apply (csafe_lift_ok _ pop_ids); [exact E2|].
  rewrite N1, N2. cbn [orb].
  apply csafe_heap. apply h_new_safe. eexists. split; [reflexivity|]. split; [reflexivity|].
  split; [apply NEW; discriminate|]. repeat split; try discriminate.
Qed.

Lemma plain_safe k lid E sg s0 pop push werrs s1 m r :
  CEnvOK k lid E -> P1post k lid s0 sg pop push s1 -> DataOK lid s0 ->
  (cs_data s0 = None -> sid_is sg "ISA" = true) ->
  cs_node s1 = mn_of m r -> in_tree_ref lid m r = false ->
  csafe (rest_plain E sg pop push werrs s1) s1 (fun _ s2 => Good k lid s2).
Proof.
  intros EO P1 DO FI EN IT.
  destruct P1 as (p1 & p2 & p3 & NO & SO & LO & VPOP & VPUSH & X1 & X2 & X3 & XI).
  assert (MP : MapPart k lid s1) by (split; [exact NO | split; assumption]).
  destruct (nodeok_parts _ _ _ NO) as (FO & CW & LG & JO & SR). rewrite EN in FO, CW, LG, JO, SR.
  cbn [mn_map mn_ref mn_of] in FO, CW, LG, JO, SR. destruct SR as [sn Hsn].
  destruct DO as (HW0 & _). rewrite <- p1 in HW0.
  assert (NIN : nin lid (cs_node s1) = false) by (unfold nin; rewrite EN; exact IT).
  unfold rest_plain. cstep.
  apply (csafe_conseq _ _ (fun _ s' => cs_heap s' = cs_heap s1 /\ cs_data s' = cs_data s1 /\ cs_node s' = cs_node s1 /\ MapPart k lid s')).
  { destruct (cs_tree s1); [cstep; cstep; cstep | cstep]; (split; [reflexivity|]; split; [reflexivity|]; split; [reflexivity | exact MP]). }
  intros _ sa (Ha & Da & Na & MPa). cstep.
  eapply csafe_conseq.
  { eapply (plain_new_safe k lid E sg pop push sa m r sn); try eassumption.
    - congruence.
    - rewrite Ha; exact HW0.
    - intros x EL. apply (X3 NIN x EL).
    - congruence.
    - congruence. }
  cbn beta. intros n sb (nx & -> & -> & HWb & Cn & Ln & Mn & Pn & PNone). rewrite Ha in *.
  cstep. cstep. cstep.
  eapply stamp_safe; [cbn [cs_heap set_heap set_data]; apply nth_app_new|].
  intros y1 (a1 & a2 & a3 & a4 & a5). cbn [cs_heap set_heap set_data].
  set (h1 := cs_heap s1 ++ [nx]) in *.
  assert (E1 : nth_error h1 (length (cs_heap s1)) = Some nx) by apply nth_app_new.
  destruct (HWF_set_same _ _ _ y1 HWb E1 a1 a2 a3 a4 a5) as [HW2 _].
  set (h2 := set_nth h1 (length (cs_heap s1)) y1) in *.
  assert (E2 : nth_error h2 (length (cs_heap s1)) = Some y1) by (apply nth_set_nth_eq; eapply nth_lt; eauto).
  cstep.
  eapply attach_safe; [cbn [cs_heap set_heap]; exact E2|].
  intros y2 (b1 & b2 & b3 & b4 & b5). cbn [cs_heap set_heap set_data set_pending].
  destruct (HWF_set_same _ _ _ y2 HW2 E2 b1 b2 b3 b4 b5) as [HW3 _].
  set (h3 := set_nth h2 (length (cs_heap s1)) y2) in *.
  assert (E3 : nth_error h3 (length (cs_heap s1)) = Some y2) by (apply nth_set_nth_eq; eapply nth_lt; eauto).
  cstep. unfold c_obj. apply csafe_heap. cbn [cs_heap set_heap]. eapply hsafe_obj; [exact E3|].
  cstep.
  assert (M2 : o_map y2 = Some (mn_of m r)) by congruence.
  assert (MNODE : MnOK (mn_of m r)) by (eapply mn_ok; eauto).
  unfold obj_id. rewrite M2. rewrite (mn_id_at m r _ Hsn). apply (csafe_lift_ok _ (node_id (NSeg sn))); [reflexivity|].
  cstep.
  apply (csafe_conseq _ _ (fun _ s' => s' = set_heap (set_heap (set_pending (set_heap (set_data (set_heap sa h1) (Some (length (cs_heap s1)))) h2) []) h3) h3)).
  { destruct (negb _ && _) eqn:CK; [|cstep; reflexivity]. exfalso.
    apply andb_true_iff in CK as [C1 C2]. apply negb_true_iff in C1.
    assert (PN : o_parent nx = RNone).
    { destruct (o_parent y2) eqn:PP; try discriminate C2. congruence. }
    pose proof (PNone PN) as DN. rewrite Da, p3 in DN.
    pose proof (XI (FI DN)) as IDN. rewrite EN, (mn_id_at m r _ Hsn) in IDN. injection IDN as IDN.
    cbn [node_id] in C1. rewrite IDN in C1. vm_compute in C1. discriminate C1. }
  intros _ s' ->. cstep.
  (* the invariant *)
  assert (MPf : forall o, MapPart k lid (set_out (set_heap (set_heap (set_pending (set_heap (set_data (set_heap sa h1) (Some (length (cs_heap s1)))) h2) []) h3) h3) o)).
  { intros o. eapply MapPart_eq; [| | | | | exact MPa]; reflexivity. }
  destruct (MPf ((h3, length (cs_heap s1)) :: cs_out sa)) as (NOf & SOf & LOf).
  split; [exact NOf|]. split; [exact SOf|]. split; [exact LOf|]. split; [|discriminate].
  split; [exact HW3|]. cbn [cs_data cs_heap cs_node set_out set_heap set_data set_pending].
  intros cd Ecd. injection Ecd as <-. exists y2. split; [exact E3|]. split; [congruence|]. split; [congruence|].
  rewrite Na. intros X. congruence.
Qed.

Lemma rest_safe k lid E sg s0 pop push werrs s1 :
  CEnvOK k lid E -> P1post k lid s0 sg pop push s1 -> DataOK lid s0 ->
  (cs_data s0 = None -> sid_is sg "ISA" = true) ->
  csafe (ctx_rest E sg pop push werrs) s1 (fun _ s2 => Good k lid s2).
Proof.
  intros EO P1 DO FI. pose proof P1 as (_ & _ & _ & NO & _).
  destruct (nodeok_parts _ _ _ NO) as (FO & CW & LG & JO & SR).
  destruct (cs_node s1) as [m r] eqn:EN. cbn [mn_map mn_ref] in FO, CW, LG, JO, SR.
  change {| mn_map := m; mn_ref := r |} with (mn_of m r) in EN.
  destruct SR as [sn Hsn]. destruct (seg_path m FO CW r sn Hsn) as (xp & X & A).
  unfold ctx_rest. cstep. cstep. cbv zeta. rewrite EN. cstep.
  apply (csafe_lift_ok _ xp); [exact X|]. rewrite (ceo_lid _ _ _ EO).
  destruct lid as [x|].
  - rewrite (model_in_tree m FO CW r sn xp x Hsn X).
    destruct (in_tree_ref (Some x) m r) eqn:IT.
    + cstep. apply (csafe_lift_ok _ (last r 1 =? 0)); [apply (first_seg_at m r sn Hsn)|].
      replace (match rev (loop_list xp) with
               | [] => false
               | lst :: _ => str_eqb lst x && (last r 1 =? 0)
               end) with (at_start_ref (Some x) m r) by (symmetry; apply (model_at_start m FO CW r sn xp x Hsn X)).
      eapply tree_safe; eauto.
    + eapply plain_safe; eauto.
  - eapply plain_safe; eauto.
Qed.

(* ------------------------------------------------------------------ *)
(* one segment                                                          *)

Lemma step_safe k lid E sg s :
  CEnvOK k lid E -> SelOK k lid s -> DataOK lid s ->
  (cs_data s = None -> sid_is sg "ISA" = true) ->
  (cs_data s <> None -> NodeOK k lid (cs_node s) /\ LocOK s) ->
  csafe (ctx_step E sg) s (fun _ s2 => Good k lid s2).
Proof.
  intros EO SO DO FI G. unfold csafe. rewrite ctx_step_split. fold (csafe (doc ppw <- ctx_p1 E sg; let '(pop, push, werrs) := ppw in ctx_rest E sg pop push werrs) s (fun _ s2 => Good k lid s2)).
  cstep. eapply csafe_conseq.
  - apply (p1_safe k lid E sg s EO SO).
    + destruct (cs_data s) eqn:ED; [right; apply G; discriminate | left; exact (FI eq_refl)].
    + intros N. apply G. exact N.
  - cbn beta. intros [[pop push] werrs] s1 P1. eapply rest_safe; eauto.
Qed.

Lemma step_good k lid E sg s :
  CEnvOK k lid E -> Good k lid s -> csafe (ctx_step E sg) s (fun _ s2 => Good k lid s2).
Proof.
  intros EO (NO & SO & LO & DO & DN). apply step_safe; auto.
Qed.

(* ------------------------------------------------------------------ *)
(* the loop over the lines                                              *)

Lemma run_good k lid E : CEnvOK k lid E -> forall lines s, Good k lid s ->
  csafe (ctx_run_lines E lines) s (fun _ _ => True).
Proof.
  intros EO. induction lines as [|ln rest IH]; intros s G; cbn [ctx_run_lines].
  - cstep. cstep. destruct (cs_tree s); cstep; exact I.
  - cstep. cstep. cstep. apply csafe_lift.
    destruct (reader_line_opt (de_d (ce_d E)) (cs_x s) ln) as [[[x' os] es]|e] eqn:RL.
    2:{ apply reader_line_opt_raise in RL. subst e. reflexivity. }
    cstep. cstep.
    set (s1 := set_pending _ _).
    assert (G1 : Good k lid s1) by exact G.
    cstep. destruct os as [sg|].
    + eapply csafe_conseq; [apply step_good; [exact EO | exact G1]|].
      cbn beta. intros _ s2 G2. apply IH. exact G2.
    + cstep. apply IH. exact G1.
Qed.

(* ------------------------------------------------------------------ *)
(* the theorem                                                          *)

Theorem ctx_reader_total_first :
  forall load idx loop_id text,
    cenv_ok loop_id load idx -> first_is_isa text ->
    match ir_res (iter_segments_gen load idx loop_id text) with Ok _ => True | Raise e => allowed e = true end.
Proof.
  intros load idx lid text (k & EL & ER & EI) FI. unfold iter_segments_gen.
  destruct (header_ok text) eqn:HO.
  2:{ rewrite (raw_rejects text [] HO). reflexivity. }
  destruct (raw_chunk_independent text [] HO) as (r & RA & _).
  specialize (FI _ _ RA). rewrite RA. cbv zeta.
  set (lines := raw_spec _ _) in *.
  destruct (load (control_name (r_icvn r))) as [cm|e] eqn:LC; cbn [bind].
  2:{ cbn [ir_res]. exact (ER _ _ LC). }
  destruct idx as [ix|e] eqn:EX; cbn [bind].
  2:{ cbn [ir_res]. exact (EI e eq_refl). }
  destruct (cmap_paths _ _ _ (EL _ _ LC)) as (PI & _).
  destruct (getnode cm "/ISA_LOOP/ISA") as [n0|e]; cbn [bind]; [|cbn [ir_res]; exact PI].
  destruct PI as [MC _].
  set (E := {| ce_d := {| de_load := load; de_idx := ix; de_cm := cm; de_d := delims_of r |}; ce_loop := lid |}).
  set (s0 := Build_cstate _ _ _ _ _ _ _ _ _ _ _ _ _).
  assert (EO : CEnvOK k lid E) by (constructor; [exact EL | exact ER | exact MC | reflexivity]).
  assert (SO0 : SelOK k lid s0) by (intros mp Hmp; discriminate Hmp).
  assert (DO0 : DataOK lid s0) by (split; [exact HWF_nil | intros cd Hcd; discriminate Hcd]).
  assert (X : csafe (ctx_run_lines E lines) s0 (fun _ _ => True)).
  { destruct lines as [|ln rest]; cbn [ctx_run_lines].
    - cstep. cstep. change (cs_tree s0) with (@None oid). cbv iota. cstep. exact I.
    - cstep. cstep. cstep. apply csafe_lift.
      destruct (reader_line_opt (de_d (ce_d E)) (cs_x s0) ln) as [[[x' os] es]|e] eqn:RL.
      2:{ apply reader_line_opt_raise in RL. subst e. reflexivity. }
      destruct (FI _ _ _ _ RL) as (sg & -> & SI).
      cstep. cstep. cstep.
      eapply csafe_conseq; [apply (step_safe k lid E sg)|].
      + exact EO.
      + exact SO0.
      + exact DO0.
      + intros _. exact SI.
      + intros N. exfalso. apply N. reflexivity.
      + cbn beta. intros _ s1 G1. eapply run_good; eauto. }
  unfold csafe in X. destruct (ctx_run_lines E lines s0) as [s1 [u|e]]; cbn [ir_res]; [exact I | exact X].
Qed.

Theorem ctx_reader_total : ctx_reader_total_stmt.
Proof.
  intros load idx lid text CE P. apply ctx_reader_total_first; [exact CE | apply plain_delims_first_isa; exact P].
Qed.

(* in the form: env_ok plus the additional condition on every map *)
Lemma cenv_ok_of_env_ok k lid load idx :
  env_ok load idx -> (forall name m, load name = Ok m -> ctx_ok k lid m = true) -> cenv_ok lid load idx.
Proof.
  intros (EL & ER & EI) CO. exists k. split; [|split; assumption].
  intros name m L. specialize (EL _ _ L). specialize (CO _ _ L). unfold cmap_ok, ctx_ok, map_ok in *.
  destruct (unusable m); [reflexivity|]. cbn [orb] in *. rewrite EL. cbn [andb].
  apply andb_true_iff in CO as [CO C3]. apply andb_true_iff in CO as [C1 C2]. rewrite C1, C2, C3. reflexivity.
Qed.

Theorem ctx_reader_total_env :
  forall k load idx loop_id text,
    env_ok load idx -> (forall name m, load name = Ok m -> ctx_ok k loop_id m = true) ->
    plain_delims text = true ->
    match ir_res (iter_segments_gen load idx loop_id text) with Ok _ => True | Raise e => allowed e = true end.
Proof.
  intros k load idx lid text EO CO P. apply ctx_reader_total; [eapply cenv_ok_of_env_ok; eauto | exact P].
Qed.

(* without a loop id (iter_segments()): only ctx_wf is needed *)
Lemma ctx_ok_none m : unusable m || ctx_wf m = true -> ctx_ok 1 None m = true.
Proof.
  unfold ctx_ok. intros H. apply orb_true_iff in H as [H|H]; [rewrite H; reflexivity|]. rewrite H.
  cbn [lid_good andb]. unfold jump_ok, tgt_not_inside, bht_all, inside_ref, prof_is, in_tree_ref. cbn [andb negb].
  assert (A : forall (xs : list nref) f, (forall r, f r = true) -> forallb f xs = true)
    by (intros xs f Hf; apply forallb_forall; intros; apply Hf).
  rewrite A.
  - destruct (getnode m "/ISA_LOOP/ISA"); destruct (getnode m "/ISA_LOOP/GS_LOOP/GS");
      destruct (getnode m "/ISA_LOOP/GS_LOOP/ST_LOOP/HEADER/BHT"); apply orb_true_r.
  - intros r. destruct (node_at (root_nodes m) r) as [[? ? ? ? ? ? ?|sn]|]; try reflexivity. apply orb_true_r.
Qed.

Theorem ctx_reader_total_none :
  forall load idx text,
    env_ok load idx -> (forall name m, load name = Ok m -> unusable m || ctx_wf m = true) ->
    plain_delims text = true ->
    match ir_res (iter_segments_gen load idx None text) with Ok _ => True | Raise e => allowed e = true end.
Proof.
  intros load idx text EO CO P. apply (ctx_reader_total_env 1); [exact EO | | exact P].
  intros name m L. apply ctx_ok_none. eapply CO; eauto.
Qed.

Print Assumptions ctx_reader_total.
Print Assumptions ctx_reader_total_env.
Print Assumptions ctx_reader_total_none.
