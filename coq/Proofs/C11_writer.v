(* C11_writer.v — for every well-nested write history (trailers supplied with
   any counts, omitted inside an enclosing trailer, or left to Close), the
   segments the writer emits are read back by the reader without a single
   envelope error; non-trailer segments are written unchanged and in order. *)
From Coq Require Import String.
From PX.Lib Require Import Base PyStr PyInt.
From PX.Gen Require Import SrcConsts.
From PX.Model Require Import Path Segment Raw Reader Writer.
From PX.Spec Require Import C01_spec C04_spec C11_spec.
From PX.Proofs Require Import C04_reader C01_roundtrip.

(* what the reader gets back from a written segment *)
Definition rt (dl : delims) (s : seg) : seg := parse_seg dl (format_seg dl s).

(* a fresh writer with delimiters dl (the 837 service-line rewriting off) *)
Definition w0 (dl : delims) (rep eol : str) : wstate := w_init dl rep eol.

(* ------------------------------------------------------------------ *)
(* W3: prefixes                                                        *)
(* ------------------------------------------------------------------ *)
Lemma wn_prefix h1 h2 : forall stk, well_nested_w stk (h1 ++ h2) = true -> well_nested_w stk h1 = true.
Proof.
  induction h1 as [|s h1 IH]; intros stk H; [reflexivity|].
  cbn [app well_nested_w] in *.
  destruct (header_kind s) as [k|].
  - apply andb_true_iff in H as [H1 H2]. rewrite H1. cbn [andb]. eauto.
  - destruct (trailer_kind s) as [k|]; [destruct (drop_through k stk); [eauto|discriminate]|eauto].
Qed.

Lemma iu_prefix dl h1 h2 : forall a b c, ids_unique dl a b c (h1 ++ h2) = true -> ids_unique dl a b c h1 = true.
Proof.
  induction h1 as [|s h1 IH]; intros a b c H; [reflexivity|].
  cbn [app ids_unique] in *.
  destruct (has_id s "ISA"); [apply andb_true_iff in H as [H1 H2]; rewrite H1; cbn [andb]; eauto|].
  destruct (has_id s "GS"); [apply andb_true_iff in H as [H1 H2]; rewrite H1; cbn [andb]; eauto|].
  destruct (has_id s "ST"); [apply andb_true_iff in H as [H1 H2]; rewrite H1; cbn [andb]; eauto|].
  eauto.
Qed.

(* ------------------------------------------------------------------ *)
(* bookkeeping facts about the writer                                  *)
(* ------------------------------------------------------------------ *)
Lemma base_flag d x s x1 e : base_step d x s = Ok (x1, e) -> check_837_lx x1 = check_837_lx x.
Proof.
  unfold base_step.
  destruct (sid_is s "ISA"); [destruct (negb _); [discriminate|intros H; injection H as <- _; reflexivity]|].
  destruct (sid_is s "GS"); [intros H; injection H as <- _; reflexivity|].
  destruct (sid_is s "ST"); [intros H; injection H as <- _; reflexivity|].
  destruct (sid_is s "HL"); [intros H; injection H as <- _; reflexivity|].
  destruct (check_837_lx x && sid_is s "CLM"); [intros H; injection H as <- _; reflexivity|].
  destruct (check_837_lx x && sid_is s "LX"); intros H; injection H as <- _; reflexivity.
Qed.

Lemma base_ok d x s : (sid_is s "ISA" = true -> (length (els s) =? 16) = true) ->
  exists r, base_step d x s = Ok r.
Proof.
  intros H. unfold base_step.
  destruct (sid_is s "ISA"); [rewrite (H eq_refl); cbn [negb]; eexists; reflexivity|].
  destruct (sid_is s "GS"); [eexists; reflexivity|].
  destruct (sid_is s "ST"); [eexists; reflexivity|].
  destruct (sid_is s "HL"); [eexists; reflexivity|].
  destruct (check_837_lx x && sid_is s "CLM"); [eexists; reflexivity|].
  destruct (check_837_lx x && sid_is s "LX"); eexists; reflexivity.
Qed.

Lemma close_meta w k o w' out : close_loop w k o = (w', out) ->
  wd w' = wd w /\ w_rep w' = w_rep w /\ check_837_lx (wx w') = check_837_lx (wx w) /\ loops (wx w') = loops (wx w).
Proof.
  unfold close_loop.
  destruct (str_eqb k _); [intros H; injection H as <- _; auto|].
  destruct (str_eqb k _); [intros H; injection H as <- _; auto|].
  destruct (str_eqb k _); intros H; injection H as <- _; auto.
Qed.

Lemma pop_meta kind : forall lp w w' out, pop_to_loop w lp kind = (w', out) ->
  wd w' = wd w /\ w_rep w' = w_rep w /\ check_837_lx (wx w') = check_837_lx (wx w).
Proof.
  induction lp as [|[k o] rest IH]; intros w w' out H; cbn [pop_to_loop] in H.
  - injection H as <- _. auto.
  - destruct (close_loop _ k o) as [w2 o2] eqn:C. apply close_meta in C as (C1 & C2 & C3 & _).
    cbn [with_x with_loops wd w_rep wx check_837_lx] in C1, C2, C3.
    destruct (str_eqb k kind).
    + injection H as <- _. auto.
    + destruct (pop_to_loop w2 rest kind) as [w3 o3] eqn:P. injection H as <- _.
      apply IH in P as (P1 & P2 & P3). repeat split; congruence.
Qed.

(* Segment.set on element 11 / 16 of a 16-element segment *)
Lemma set_ix_10 d s v : length (els s) = 16 ->
  set_ix d s (Some 10%Z, None) v = Ok {| sid := sid s; els := set_nth (els s) 10 (split (subele_term d) v) |}.
Proof.
  intros L. unfold set_ix, pad_to, py_set. cbn [fst snd]. rewrite L.
  change (Z.to_nat (10 + 1 - Z.of_nat 16)) with 0. cbn [repeat]. rewrite app_nil_r, L.
  change (10 =? 15)%Z with false. rewrite andb_false_r. reflexivity.
Qed.

Lemma set_ix_15 d s v : length (els s) = 16 -> sid s = Some (cs "ISA") ->
  set_ix d s (Some 15%Z, None) v = Ok {| sid := sid s; els := set_nth (els s) 15 (split (ele_term d) v) |}.
Proof.
  intros L I. unfold set_ix, pad_to, py_set. cbn [fst snd]. rewrite L.
  change (Z.to_nat (15 + 1 - Z.of_nat 16)) with 0. cbn [repeat]. rewrite app_nil_r, L, I. reflexivity.
Qed.

Lemma set_nth_length {A} (xs : list A) n v : length (set_nth xs n v) = length xs.
Proof. revert n; induction xs as [|x xs IH]; intros [|n]; cbn [set_nth length]; auto. Qed.

Lemma has_id_sid s id : has_id s id = true -> sid s = Some (cs id).
Proof. unfold has_id. destruct (sid s); [|discriminate]. intros H. apply str_eqb_eq in H. congruence. Qed.

Definition wr_ok (dl : delims) (rep : str) (w : wstate) : Prop :=
  wd w = dl /\ w_rep w = rep /\ check_837_lx (wx w) = false.

Lemma writable_isa16 dl s : writable dl s = true -> has_id s "ISA" = true -> length (els s) = 16.
Proof.
  unfold writable. intros H I. rewrite I in H. apply andb_true_iff in H as [_ H]. apply Nat.eqb_eq. exact H.
Qed.

(* the result of one Write *)
Lemma write_cases w ds s :
  check_837_lx (wx w) = false ->
  w_write_segs w ds s =
  match base_step ds (wx w) s with
  | Raise e => Raise e
  | Ok r =>
    let w1 := with_x w (fst r) in
    if has_id s "IEA" then Ok (pop_to w1 "ISA")
    else if has_id s "GE" then Ok (pop_to w1 "GS")
    else if has_id s "SE" then Ok (pop_to w1 "ST")
    else if has_id s "ISA" then
      do s1 <- (if opt_str_eqb (el ds s 12) (Some (cs "00501"))
                then set_ix ds s (Some 10%Z, None) (w_rep w) else Ok s);
      do s2 <- set_ix ds s1 (Some 15%Z, None) [subele_term (wd w)];
      Ok (w1, [s2])
    else Ok (w1, [s])
  end.
Proof.
  intros F. unfold w_write_segs. destruct (base_step ds (wx w) s) as [[x1 e]|ex] eqn:B; cbn [bind]; [|reflexivity].
  rewrite !sid_is_has_id. cbn [fst with_x wx]. rewrite (base_flag _ _ _ _ _ B), F. cbn [andb].
  reflexivity.
Qed.

(* ------------------------------------------------------------------ *)
(* W1                                                                  *)
(* ------------------------------------------------------------------ *)
Lemma write_total dl w s : check_837_lx (wx w) = false -> writable dl s = true ->
  exists w' out, w_write_segs w dl s = Ok (w', out) /\ check_837_lx (wx w') = false.
Proof.
  intros F W. rewrite (write_cases w dl s F).
  destruct (base_ok dl (wx w) s) as [[x1 e] B].
  { rewrite sid_is_has_id. intros I. apply Nat.eqb_eq. eapply writable_isa16; eauto. }
  rewrite B. cbn [fst]. pose proof (base_flag _ _ _ _ _ B) as F1. rewrite F in F1.
  assert (P : forall k, exists w' out, Ok (pop_to (with_x w x1) k) = Ok (w', out) /\ check_837_lx (wx w') = false).
  { intros k. unfold pop_to. destruct (pop_to_loop _ _ _) as [w' out] eqn:E.
    apply pop_meta in E as (_ & _ & E). exists w', out. split; [reflexivity|]. rewrite E. exact F1. }
  destruct (has_id s "IEA"); [apply P|].
  destruct (has_id s "GE"); [apply P|].
  destruct (has_id s "SE"); [apply P|].
  destruct (has_id s "ISA") eqn:I.
  - pose proof (writable_isa16 dl s W I) as L. pose proof (has_id_sid s _ I) as Si.
    destruct (opt_str_eqb _ _).
    + rewrite (set_ix_10 dl s _ L). cbn [bind]. rewrite set_ix_15; cbn [sid els]; [|rewrite set_nth_length; exact L|exact Si].
      cbn [bind]. eexists; eexists; split; [reflexivity|exact F1].
    + cbn [bind]. rewrite (set_ix_15 dl s _ L Si). cbn [bind]. eexists; eexists; split; [reflexivity|exact F1].
  - eexists; eexists; split; [reflexivity|exact F1].
Qed.

Lemma run_total dl : forall h w, check_837_lx (wx w) = false -> forallb (writable dl) h = true ->
  exists r, w_run_segs w dl h = Ok r.
Proof.
  induction h as [|s h IH]; intros w F W; cbn [w_run_segs]; [eexists; reflexivity|].
  cbn [forallb] in W. apply andb_true_iff in W as [Ws W].
  destruct (write_total dl w s F Ws) as (w' & out & H & F'). rewrite H. cbn [bind fst snd].
  destruct (IH w' F' W) as [r Hr]. rewrite Hr. cbn [bind]. eexists; reflexivity.
Qed.

Lemma history_parts dl h : history_ok dl h = true ->
  well_nested_w [] h = true /\ forallb (writable dl) h = true /\ ids_unique dl [] [] [] h = true.
Proof. unfold history_ok. intros H. apply andb_true_iff in H as [H H3]. apply andb_true_iff in H as [H1 H2]. auto. Qed.

(* GOAL W1: the writer does not raise on such a history *)
Theorem writer_total dl rep eol h :
  history_ok dl h = true -> exists es, w_run_close (w0 dl rep eol) dl h = Ok es.
Proof.
  intros H. apply history_parts in H as (_ & H & _).
  destruct (run_total dl h (w0 dl rep eol) eq_refl H) as [r Hr].
  unfold w_run_close. rewrite Hr. cbn [bind]. eexists; reflexivity.
Qed.

(* GOAL W3: every prefix of a well-nested history is one (so Close may come after any prefix) *)
Theorem prefix_ok dl h1 h2 : history_ok dl (h1 ++ h2) = true -> history_ok dl h1 = true.
Proof.
  intros H. apply history_parts in H as (H1 & H2 & H3). unfold history_ok.
  rewrite (wn_prefix _ _ _ H1), (iu_prefix _ _ _ _ _ _ H3). rewrite forallb_app in H2.
  apply andb_true_iff in H2 as [-> _]. reflexivity.
Qed.

(* ------------------------------------------------------------------ *)
(* generated trailers                                                  *)
(* ------------------------------------------------------------------ *)
(* the ids of the trailers the writer generates can be written with its delimiters
   (NOT a consequence of history_ok: see the counterexamples at the end of the file) *)
Definition trailer_ids_writable (dl : delims) : Prop :=
  free_of dl (cs "IEA") = true /\ free_of dl (cs "GE") = true /\ free_of dl (cs "SE") = true.

(* the decimal count of a generated trailer can be written with the writer's delimiters *)
Definition count_digits_writable (dl : delims) : Prop := free_of dl (cs "0123456789") = true.

(* the interchange control number (ISA13) does not END with the component separator.
   An ISA is never split at the component separator, so (C01_spec.clean_seg) its values may
   contain it; but the generated IEA is built as text "IEA*count*<ISA13>" and parsed with the
   writer's delimiters, which splits IEA02 at the component separator: separators inside the
   value survive (the components are joined again when the value is read), trailing ones do
   not (trailing empty components are dropped), and IEA02 would then differ from ISA13.
   (NOT a consequence of history_ok: see W2_needs_isa_ids at the end of the file) *)
Definition ends_with (c : ascii) (v : str) : bool :=
  match rev v with x :: _ => Ascii.eqb x c | [] => false end.

Definition isa13_ok (dl : delims) (s : seg) : bool :=
  if has_id s "ISA"
  then match el dl s 13 with Some v => negb (ends_with (subele_term dl) v) | None => true end
  else true.

Definition isa_ids_writable (dl : delims) (h : list seg) : Prop := forallb (isa13_ok dl) h = true.

Lemma parse_seg_sid d id r : ~ In (ele_term d) id ->
  sid (parse_seg d (id ++ ele_term d :: r)) = Some id.
Proof.
  intros H. unfold parse_seg.
  destruct (id ++ ele_term d :: r) as [|a q] eqn:E; [destruct id; discriminate|]. rewrite <- E. clear E a q.
  assert (B : forall body, (body = id ++ ele_term d :: r \/ exists r', body = id ++ ele_term d :: r' \/ body = id) ->
              sid match split (ele_term d) body with
                  | [] => {| sid := None; els := [] |}
                  | i :: rest => {| sid := Some i; els := map (fun e => if str_eqb i (Segment.l "ISA") then split (ele_term d) e else split (subele_term d) e) rest |}
                  end = Some id).
  { intros body [->|(r' & [->| ->])].
    - rewrite split_app by exact H. reflexivity.
    - rewrite split_app by exact H. reflexivity.
    - rewrite split_free by exact H. reflexivity. }
  apply B.
  rewrite rev_app_distr. cbn [rev]. destruct (rev r) as [|c q] eqn:R.
  - assert (r = []) by (rewrite <- (rev_involutive r), R; reflexivity). subst r.
    cbn [app].
    destruct (Ascii.eqb _ _); [right; exists []; right; apply rev_involutive|left; reflexivity].
  - rewrite <- !app_assoc. cbn [app]. destruct (Ascii.eqb c _); [|left; reflexivity].
    right. exists (rev q). left. rewrite rev_app_distr. cbn [rev app]. rewrite <- app_assoc, rev_involutive. reflexivity.
Qed.

Lemma trailer_sid w id z o : ~ In (ele_term (wd w)) (cs id) -> sid (trailer w id z o) = Some (cs id).
Proof.
  intros H. unfold trailer. cbn [app]. apply (parse_seg_sid (wd w) (cs id)). exact H.
Qed.

Lemma free_E d v : free_of d v = true -> ~ In (ele_term d) v.
Proof. intros H. apply free_of_iff in H. apply freeP_E. exact H. Qed.

Lemma is_trailer_sid s id : sid s = Some (cs id) -> In id ["IEA"; "GE"; "SE"]%string -> is_trailer s = true.
Proof.
  intros S H. unfold is_trailer, trailer_kind, has_id. rewrite S.
  cbn [In] in H. destruct H as [<-|[<-|[<-|[]]]]; reflexivity.
Qed.

Lemma close_trailers dl w k o w' out : trailer_ids_writable dl -> wd w = dl ->
  close_loop w k o = (w', out) -> Forall (fun s => is_trailer s = true) out.
Proof.
  intros (T1 & T2 & T3) D. unfold close_loop.
  destruct (str_eqb k _).
  { intros H; injection H as _ <-. constructor; [|constructor].
    apply (is_trailer_sid _ "IEA"); [apply trailer_sid; rewrite D; apply free_E; exact T1|cbn; tauto]. }
  destruct (str_eqb k _).
  { intros H; injection H as _ <-. constructor; [|constructor].
    apply (is_trailer_sid _ "GE"); [apply trailer_sid; rewrite D; apply free_E; exact T2|cbn; tauto]. }
  destruct (str_eqb k _).
  { intros H; injection H as _ <-. constructor; [|constructor].
    apply (is_trailer_sid _ "SE"); [apply trailer_sid; rewrite D; apply free_E; exact T3|cbn; tauto]. }
  intros H; injection H as _ <-. constructor.
Qed.

Lemma pop_trailers dl kind : trailer_ids_writable dl -> forall lp w w' out, wd w = dl ->
  pop_to_loop w lp kind = (w', out) -> Forall (fun s => is_trailer s = true) out.
Proof.
  intros T. induction lp as [|[k o] rest IH]; intros w w' out D H; cbn [pop_to_loop] in H.
  - injection H as _ <-. constructor.
  - destruct (close_loop _ k o) as [w2 o2] eqn:C.
    pose proof (close_trailers dl _ _ _ _ _ T (D : wd (with_x w (with_loops (wx w) rest)) = dl) C) as F2.
    apply close_meta in C as (C1 & _). cbn [with_x wd] in C1.
    destruct (str_eqb k kind).
    + injection H as _ <-. exact F2.
    + destruct (pop_to_loop w2 rest kind) as [w3 o3] eqn:P. injection H as _ <-.
      apply Forall_app. split; [exact F2|]. eapply IH; [|exact P]. congruence.
Qed.

Lemma filter_none {A} (p : A -> bool) xs : Forall (fun a => p a = false) xs -> filter p xs = [].
Proof. induction 1 as [|a xs H _ IH]; cbn [filter]; [reflexivity|]. rewrite H. exact IH. Qed.

Lemma filter_trailers out : Forall (fun s => is_trailer s = true) out ->
  filter (fun s => negb (is_trailer s)) out = [].
Proof. intros H. apply filter_none. eapply Forall_impl; [|exact H]. cbv beta. intros a ->. reflexivity. Qed.

(* GOAL W4: non-trailer segments are written in order; all but the ISA unchanged, the ISA only
   in ISA11 (for 00501) and ISA16 *)
Definition isa_fix (dl : delims) (rep : str) (s : seg) : seg :=
  if has_id s "ISA" then
    let s1 := if opt_str_eqb (el dl s 12) (Some (cs "00501")) then
                match set_ix dl s (Some 10%Z, None) rep with Ok x => x | Raise _ => s end else s in
    match set_ix dl s1 (Some 15%Z, None) [subele_term dl] with Ok x => x | Raise _ => s1 end
  else s.

Lemma is_trailer_ids s : is_trailer s = false ->
  has_id s "IEA" = false /\ has_id s "GE" = false /\ has_id s "SE" = false.
Proof.
  unfold is_trailer, trailer_kind.
  destruct (has_id s "IEA"); [discriminate|]. destruct (has_id s "GE"); [discriminate|].
  destruct (has_id s "SE"); [discriminate|]. auto.
Qed.

Lemma set_ix_sid d s ix v s' : set_ix d s ix v = Ok s' -> sid s' = sid s.
Proof.
  unfold set_ix. destruct (fst ix) as [ei|]; [|discriminate].
  destruct (_ && _).
  { destruct (py_set _ _ _); cbn [bind]; [|discriminate]. intros H; injection H as <-. reflexivity. }
  destruct (snd ix) as [ci|].
  - destruct (py_nth _ _); cbn [bind]; [|discriminate].
    destruct (py_set _ _ _); cbn [bind]; [|discriminate].
    destruct (py_set _ _ _); cbn [bind]; [|discriminate]. intros H; injection H as <-. reflexivity.
  - destruct (py_set _ _ _); cbn [bind]; [|discriminate]. intros H; injection H as <-. reflexivity.
Qed.

Lemma write_keeps dl rep w s w' out : trailer_ids_writable dl -> wr_ok dl rep w ->
  w_write_segs w dl s = Ok (w', out) ->
  wr_ok dl rep w' /\
  filter (fun s => negb (is_trailer s)) out =
  map (isa_fix dl rep) (filter (fun s => negb (is_trailer s)) [s]).
Proof.
  intros T (D & R & F). rewrite (write_cases w dl s F).
  destruct (base_step dl (wx w) s) as [[x1 e]|ex] eqn:B; [|discriminate]. cbn [fst].
  pose proof (base_flag _ _ _ _ _ B) as F1. rewrite F in F1.
  assert (P : forall k, has_id s k = true -> In k ["IEA"; "GE"; "SE"]%string -> forall kd,
              Ok (pop_to (with_x w x1) kd) = Ok (w', out) ->
              wr_ok dl rep w' /\
              filter (fun s => negb (is_trailer s)) out =
              map (isa_fix dl rep) (filter (fun s => negb (is_trailer s)) [s])).
  { intros k Hk Hin kd H. injection H as H. unfold pop_to in H.
    pose proof (pop_meta _ _ _ _ _ H) as (P1 & P2 & P3). cbn [with_x wd w_rep wx] in P1, P2, P3.
    split; [unfold wr_ok; repeat split; congruence|].
    rewrite (filter_trailers out).
    2:{ eapply (pop_trailers dl); [exact T| |exact H]. exact D. }
    cbn [filter]. rewrite (is_trailer_sid s k (has_id_sid _ _ Hk) Hin). reflexivity. }
  destruct (has_id s "IEA") eqn:I1; [apply (P "IEA"%string I1); cbn; tauto|].
  destruct (has_id s "GE") eqn:I2; [apply (P "GE"%string I2); cbn; tauto|].
  destruct (has_id s "SE") eqn:I3; [apply (P "SE"%string I3); cbn; tauto|].
  assert (NT : is_trailer s = false) by (unfold is_trailer, trailer_kind; rewrite I1, I2, I3; reflexivity).
  assert (WR : wr_ok dl rep (with_x w x1)) by (unfold wr_ok; cbn [with_x wd w_rep wx]; auto).
  cbn [filter]. rewrite NT. cbn [negb map]. unfold isa_fix.
  destruct (has_id s "ISA") eqn:I.
  - rewrite R, D.
    destruct (opt_str_eqb _ _).
    + destruct (set_ix dl s (Some 10%Z, None) rep) as [s1|] eqn:E1; cbn [bind]; [|discriminate].
      destruct (set_ix dl s1 _ _) as [s2|] eqn:E2; cbn [bind]; [|discriminate].
      intros H; injection H as <- <-. split; [exact WR|]. cbn [filter].
      unfold is_trailer, trailer_kind, has_id in *. rewrite (set_ix_sid _ _ _ _ _ E2), (set_ix_sid _ _ _ _ _ E1).
      rewrite NT. reflexivity.
    + cbn [bind]. destruct (set_ix dl s _ _) as [s2|] eqn:E2; cbn [bind]; [|discriminate].
      intros H; injection H as <- <-. split; [exact WR|]. cbn [filter].
      unfold is_trailer, trailer_kind, has_id in *. rewrite (set_ix_sid _ _ _ _ _ E2).
      rewrite NT. reflexivity.
  - intros H; injection H as <- <-. split; [exact WR|]. cbn [filter]. rewrite NT. reflexivity.
Qed.

Lemma run_keeps dl rep : trailer_ids_writable dl -> forall h w w' es, wr_ok dl rep w ->
  w_run_segs w dl h = Ok (w', es) ->
  wr_ok dl rep w' /\
  filter (fun s => negb (is_trailer s)) es = map (isa_fix dl rep) (filter (fun s => negb (is_trailer s)) h).
Proof.
  intros T. induction h as [|s h IH]; intros w w' es WR H; cbn [w_run_segs] in H.
  - injection H as <- <-. auto.
  - destruct (w_write_segs w dl s) as [[w1 o1]|] eqn:E1; cbn [bind fst snd] in H; [|discriminate].
    destruct (w_run_segs w1 dl h) as [[w2 o2]|] eqn:E2; cbn [bind fst snd] in H; [|discriminate].
    injection H as <- <-.
    destruct (write_keeps dl rep w s w1 o1 T WR E1) as (WR1 & K1).
    destruct (IH w1 w2 o2 WR1 E2) as (WR2 & K2). split; [exact WR2|].
    rewrite filter_app, K1, K2. change (s :: h) with ([s] ++ h). rewrite filter_app, map_app. reflexivity.
Qed.

Theorem writer_keeps_segments dl rep eol h es :
  trailer_ids_writable dl ->
  history_ok dl h = true -> w_run_close (w0 dl rep eol) dl h = Ok es ->
  filter (fun s => negb (is_trailer s)) es = map (isa_fix dl rep) (filter (fun s => negb (is_trailer s)) h).
Proof.
  intros T _ H. unfold w_run_close in H.
  destruct (w_run_segs (w0 dl rep eol) dl h) as [[w1 o1]|] eqn:E; cbn [bind fst snd] in H; [|discriminate].
  injection H as <-.
  assert (WR : wr_ok dl rep (w0 dl rep eol)) by (unfold wr_ok; auto).
  destruct (run_keeps dl rep T h _ _ _ WR E) as ((D & _ & _) & K).
  rewrite filter_app, K. rewrite (filter_trailers (snd _)); [apply app_nil_r|].
  unfold w_close_segs, pop_to. destruct (pop_to_loop _ _ _) as [w2 o2] eqn:P. cbn [snd].
  eapply (pop_trailers dl); [exact T|exact D|exact P].
Qed.

(* ------------------------------------------------------------------ *)
(* decimal counts: int(str(n)) = n                                     *)
(* ------------------------------------------------------------------ *)
Lemma digit_facts c : is_digit c = true ->
  is_space c = false /\ Ascii.eqb c "+"%char = false /\ Ascii.eqb c "-"%char = false /\
  mem_ascii c (cs "0123456789") = true.
Proof.
  assert (H : forall c, implb (is_digit c)
                (negb (is_space c) && negb (Ascii.eqb c "+"%char) && negb (Ascii.eqb c "-"%char) &&
                 mem_ascii c (cs "0123456789")) = true) by (apply forall_ascii; vm_compute; reflexivity).
  intros D. specialize (H c). rewrite D in H. cbn [implb] in H.
  rewrite !andb_true_iff, !negb_true_iff in H. tauto.
Qed.

Lemma digit_char_ok d : d < 10 -> is_digit (digit_char d) = true /\ digit_val (digit_char d) = d.
Proof. intros H. do 10 (destruct d as [|d]; [split; reflexivity|]). lia. Qed.

Lemma dec_val_snoc' u d : dec_val (u ++ [d]) = (dec_val u * 10 + N.of_nat (digit_val d))%N.
Proof. unfold dec_val. rewrite fold_left_app. reflexivity. Qed.

Lemma show_spec : forall fuel n acc, (n < 2 ^ N.of_nat fuel)%N -> fuel <> 0 ->
  exists ds, show_N_fuel fuel n acc = ds ++ acc /\ all_digits ds = true /\ ds <> [] /\ dec_val ds = n.
Proof.
  induction fuel as [|f IH]; intros n acc B NZ; [congruence|]. cbn [show_N_fuel].
  assert (M : (n mod 10 < 10)%N) by (apply N.mod_lt; lia).
  assert (Md : N.to_nat (n mod 10) < 10) by lia.
  destruct (digit_char_ok _ Md) as [D1 D2].
  pose proof (N.div_mod' n 10) as DM.
  destruct (N.eqb (n / 10) 0) eqn:Q.
  - apply N.eqb_eq in Q. exists [digit_char (N.to_nat (n mod 10))]. split; [reflexivity|].
    split; [unfold all_digits; cbn [forallb]; rewrite D1; reflexivity|]. split; [discriminate|].
    unfold dec_val. cbn [fold_left]. rewrite D2. lia.
  - apply N.eqb_neq in Q.
    assert (B' : (n / 10 < 2 ^ N.of_nat f)%N).
    { apply N.div_lt_upper_bound; [lia|]. rewrite Nat2N.inj_succ, N.pow_succ_r' in B. lia. }
    assert (NZ' : f <> 0).
    { intros ->. change (2 ^ N.of_nat 0)%N with 1%N in B'. lia. }
    destruct (IH (n / 10)%N (digit_char (N.to_nat (n mod 10)) :: acc) B' NZ') as (ds & E & A & _ & V).
    exists (ds ++ [digit_char (N.to_nat (n mod 10))]). split; [rewrite E, <- app_assoc; reflexivity|].
    split; [unfold all_digits in *; rewrite forallb_app, A; cbn [forallb]; rewrite D1; reflexivity|].
    split; [destruct ds; discriminate|]. rewrite dec_val_snoc', V, D2. lia.
Qed.

Lemma fmt_d_spec n : exists ds, fmt_d n = ds /\ all_digits ds = true /\ ds <> [] /\ dec_val ds = n.
Proof.
  unfold fmt_d. destruct (show_spec (S (N.to_nat (N.log2 n))) n []) as (ds & E & A & NE & V).
  - rewrite Nat2N.inj_succ, N2Nat.id. destruct n as [|p]; [reflexivity|]. apply N.log2_spec. lia.
  - discriminate.
  - rewrite app_nil_r in E. exists ds. auto.
Qed.

Definition fZ (acc : Z) (c : ascii) : Z := (acc * 10 + Z.of_nat (digit_val c))%Z.

Lemma int_body_digits : forall ds st a, all_digits ds = true -> (ds <> [] \/ st = 1) ->
  int_body ds st a = Some (fold_left fZ ds a).
Proof.
  induction ds as [|c ds IH]; intros st a A H; cbn [int_body fold_left].
  - destruct H as [H| ->]; [congruence|reflexivity].
  - unfold all_digits in A. cbn [forallb] in A. apply andb_true_iff in A as [A1 A2]. rewrite A1.
    apply IH; [exact A2|right; reflexivity].
Qed.

Lemma fold_ZN ds : forall a, fold_left fZ ds (Z.of_N a) = Z.of_N (fold_left (fun acc c => (acc * 10 + N.of_nat (digit_val c))%N) ds a).
Proof.
  induction ds as [|c ds IH]; intros a; cbn [fold_left]; [reflexivity|]. rewrite <- IH. f_equal. unfold fZ. lia.
Qed.

Lemma all_digits_rev ds : all_digits ds = true -> all_digits (rev ds) = true.
Proof.
  unfold all_digits. rewrite !forallb_forall. intros H x Hx. apply H. apply in_rev. exact Hx.
Qed.

Lemma lstrip_digits ds : all_digits ds = true -> lstrip_ws ds = ds.
Proof.
  destruct ds as [|c ds]; [reflexivity|]. unfold all_digits. cbn [forallb lstrip_ws]. intros H.
  apply andb_true_iff in H as [H _]. destruct (digit_facts c H) as (-> & _). reflexivity.
Qed.

Lemma py_int_digits ds : all_digits ds = true -> ds <> [] -> py_int ds = Some (Z.of_N (dec_val ds)).
Proof.
  intros A NE. unfold py_int, strip_ws, rstrip_ws.
  rewrite (lstrip_digits ds A), (lstrip_digits _ (all_digits_rev _ A)), rev_involutive.
  destruct ds as [|c r]; [congruence|].
  assert (Dc : is_digit c = true) by (unfold all_digits in A; cbn [forallb] in A; apply andb_true_iff in A as [A _]; exact A).
  destruct (digit_facts c Dc) as (_ & -> & -> & _).
  rewrite (int_body_digits (c :: r) 0 0%Z A) by (left; discriminate).
  f_equal. unfold dec_val. rewrite <- fold_ZN. reflexivity.
Qed.

Lemma py_int_fmt_Z z : (0 <= z)%Z -> py_int (fmt_Z z) = Some z.
Proof.
  intros H. assert (E : fmt_Z z = fmt_d (Z.to_N z)) by (destruct z; [reflexivity|reflexivity|lia]).
  rewrite E. destruct (fmt_d_spec (Z.to_N z)) as (ds & -> & A & NE & V).
  rewrite (py_int_digits ds A NE), V. f_equal. lia.
Qed.

Lemma digits_free dl ds : count_digits_writable dl -> all_digits ds = true -> freeP dl ds.
Proof.
  unfold count_digits_writable. intros F A. apply free_of_iff in F. destruct F as (F1 & F2 & F3).
  assert (S : forall x, In x ds -> In x (cs "0123456789")).
  { intros x Hx. unfold all_digits in A. rewrite forallb_forall in A. apply mem_ascii_In.
    apply (digit_facts x (A x Hx)). }
  unfold freeP. repeat split; intros H; apply S in H; auto.
Qed.

Lemma fmt_Z_free dl z : count_digits_writable dl -> (0 <= z)%Z -> freeP dl (fmt_Z z).
Proof.
  intros F H. assert (E : fmt_Z z = fmt_d (Z.to_N z)) by (destruct z; [reflexivity|reflexivity|lia]).
  rewrite E. destruct (fmt_d_spec (Z.to_N z)) as (ds & -> & A & _). apply digits_free; assumption.
Qed.

(* ------------------------------------------------------------------ *)
(* reading back what was written                                       *)
(* ------------------------------------------------------------------ *)
Lemma format_comp_keep sub c : format_comp sub c = join sub (keep ele_empty c).
Proof. reflexivity. Qed.

Lemma format_comp_nonempty sub c : format_comp sub c <> [] -> comp_empty c = false.
Proof.
  intros H. destruct (comp_empty c) eqn:E; [|reflexivity]. exfalso. apply H.
  rewrite format_comp_keep. destruct c as [|x c]; [reflexivity|].
  unfold comp_empty in E. cbn [forallb] in E. apply andb_true_iff in E as [E1 E2].
  rewrite keep_cons, E2. cbn [join]. destruct x; [reflexivity|discriminate].
Qed.

Lemma format_comp_trim sub c : format_comp sub (trim_comp c) = format_comp sub c.
Proof.
  change (join sub (keep ele_empty (keep ele_empty c)) = join sub (keep ele_empty c)).
  rewrite keep_idem. reflexivity.
Qed.

Lemma keep_nth {A} (emp : A -> bool) d : forall xs k, k < length xs -> emp (nth k xs d) = false ->
  k < length (keep emp xs) /\ nth k (keep emp xs) d = nth k xs d.
Proof.
  induction xs as [|x xs IH]; intros k L E; [cbn in L; lia|].
  rewrite keep_cons. destruct (forallb emp xs) eqn:F.
  - destruct k as [|k]; [cbn; split; [lia|reflexivity]|].
    cbn [length nth] in L, E. rewrite forallb_forall in F.
    rewrite F in E; [discriminate|]. apply nth_In. lia.
  - destruct k as [|k]; [cbn; split; [lia|reflexivity]|].
    cbn [length nth] in *. destruct (IH k) as [I1 I2]; [lia|exact E|]. split; [lia|exact I2].
Qed.

Lemma keep_last {A} (emp : A -> bool) a : emp a = false -> forall xs, keep emp (xs ++ [a]) = xs ++ [a].
Proof.
  intros E. induction xs as [|x xs IH]; [reflexivity|].
  cbn [app]. rewrite keep_cons, forallb_app. cbn [forallb]. rewrite E, andb_false_r. rewrite IH. reflexivity.
Qed.

Lemma rt_clean_eq dl s : distinct_delims dl = true -> clean_seg dl s = true ->
  rt dl s = {| sid := sid s; els := rt_els (els s) |}.
Proof. intros D C. apply parse_format; [exact D|apply clean_iff; exact C]. Qed.

Lemma rt_has_id dl s id : distinct_delims dl = true -> clean_seg dl s = true -> has_id (rt dl s) id = has_id s id.
Proof. intros D C. rewrite (rt_clean_eq dl s D C). reflexivity. Qed.

(* a non-empty element value survives the round trip *)
Lemma el_rt dl s i a v : distinct_delims dl = true -> clean_seg dl s = true ->
  el dl s i = Some (a :: v) -> el dl (rt dl s) i = Some (a :: v).
Proof.
  intros D C. rewrite (rt_clean_eq dl s D C). unfold el. destruct i as [|k]; [discriminate|]. cbn [els].
  destruct (length (els s) <=? k) eqn:L; [discriminate|]. apply Nat.leb_gt in L.
  intros H. injection H as H.
  assert (NE : comp_empty (nth k (els s) []) = false).
  { apply (format_comp_nonempty (subele_term dl)). rewrite H. discriminate. }
  destruct (keep_nth comp_empty [] (els s) k L NE) as [K1 K2].
  assert (R : rt_els (els s) = map trim_comp (keep comp_empty (els s))).
  { unfold rt_els. destruct (els s); [cbn in L; lia|reflexivity]. }
  rewrite R, map_length.
  assert (L' : (length (keep comp_empty (els s)) <=? k) = false) by (apply Nat.leb_gt; exact K1).
  rewrite L'. f_equal.
  change (@nil str) with (trim_comp []) at 1. rewrite map_nth, format_comp_trim, K2. exact H.
Qed.

Lemma parse_seg_noterm d t a : a <> [] -> ~ In (seg_term d) a -> parse_seg d (t ++ a) = parse_body d (t ++ a).
Proof.
  intros NE F. destruct (exists_last NE) as (a' & c & ->). rewrite app_assoc.
  unfold parse_seg, parse_body.
  destruct ((t ++ a') ++ [c]) as [|x r] eqn:H; [destruct (t ++ a'); discriminate|]. rewrite <- H.
  rewrite rev_app_distr. cbn [rev app].
  assert (N : Ascii.eqb c (seg_term d) = false).
  { apply Ascii.eqb_neq. intros ->. apply F. apply in_or_app. right. left. reflexivity. }
  rewrite N. reflexivity.
Qed.

(* control numbers as they sit on the loop stack: a formatted, non-empty element of clean components *)
Definition okid (dl : delims) (o : option str) : Prop :=
  exists c, o = Some (format_comp (subele_term dl) c) /\ format_comp (subele_term dl) c <> [] /\
            forall v, In v c -> freeP dl v.

Definition tseg (dl : delims) (id : str) (z : Z) (c : composite) : seg :=
  {| sid := Some id; els := [[fmt_Z z]; keep ele_empty c] |}.

Lemma okid_free dl c z : distinct_delims dl = true -> (forall v, In v c -> freeP dl v) ->
  z <> subele_term dl -> (forall v, freeP dl v -> ~ In z v) -> ~ In z (format_comp (subele_term dl) c).
Proof. intros D H Z P. apply format_comp_free; [exact Z|]. intros v Hv. apply P, H, Hv. Qed.

Lemma trailer_eq dl w id z c :
  distinct_delims dl = true -> count_digits_writable dl -> wd w = dl ->
  freeP dl (cs id) -> str_eqb (cs id) (cs "ISA") = false -> (0 <= z)%Z ->
  format_comp (subele_term dl) c <> [] -> (forall v, In v c -> freeP dl v) ->
  trailer w id z (Some (format_comp (subele_term dl) c)) = tseg dl (cs id) z c.
Proof.
  intros D DW W Fid NI Z NE Fc. pose proof D as D'. apply distinct_iff in D' as (D1 & D2 & D3).
  pose proof (fmt_Z_free dl z DW Z) as Fz.
  unfold trailer. rewrite W. cbn [show_oid app].
  set (fc := format_comp (subele_term dl) c) in *.
  assert (FcT : ~ In (seg_term dl) fc) by (apply okid_free; auto; apply freeP_T).
  assert (FcE : ~ In (ele_term dl) fc) by (apply okid_free; auto; apply freeP_E).
  change (Writer.l id) with (cs id).
  replace (cs id ++ ele_term dl :: fmt_Z z ++ ele_term dl :: fc)
    with ((cs id ++ ele_term dl :: fmt_Z z ++ [ele_term dl]) ++ fc)
    by (rewrite <- app_assoc; cbn [app]; rewrite <- app_assoc; reflexivity).
  rewrite (parse_seg_noterm dl _ fc NE FcT).
  rewrite <- app_assoc. cbn [app]. rewrite <- app_assoc. cbn [app].
  unfold parse_body. rewrite split_app by (apply freeP_E; exact Fid).
  rewrite split_app by (apply freeP_E; exact Fz). rewrite (split_free _ fc FcE).
  change (C01_spec.cs "ISA") with (cs "ISA"). rewrite NI. cbn [map]. unfold tseg. f_equal.
  rewrite split_free by (apply freeP_S; exact Fz). f_equal.
  subst fc. rewrite format_comp_keep. rewrite split_join; [reflexivity| |].
  - apply keep_nonnil. intros ->. apply NE. reflexivity.
  - intros x Hx. apply keep_In in Hx. apply freeP_S, Fc, Hx.
Qed.

Lemma tseg_rt dl id z c :
  distinct_delims dl = true -> count_digits_writable dl ->
  freeP dl id -> id <> [] -> str_eqb id (cs "ISA") = false -> (0 <= z)%Z ->
  format_comp (subele_term dl) c <> [] -> (forall v, In v c -> freeP dl v) ->
  rt dl (tseg dl id z c) = tseg dl id z c.
Proof.
  intros D DW Fid NEid NI Z NE Fc.
  assert (N : id <> cs "ISA") by (intros E; subst id; discriminate NI).
  assert (CL : cleanP dl (tseg dl id z c)).
  { exists id. cbn [tseg sid els]. split; [reflexivity|]. split; [exact NEid|]. split; [exact Fid|].
    split; [|split].
    - intros c' [<-|[<-|[]]] v Hv.
      + destruct Hv as [<-|[]]. apply freeP_TE, fmt_Z_free; assumption.
      + apply keep_In in Hv. apply freeP_TE. auto.
    - intros E. contradiction.
    - intros _ c' [<-|[<-|[]]].
      + split; [discriminate|]. intros v [<-|[]]. apply freeP_S, fmt_Z_free; assumption.
      + split; [apply keep_nonnil; intros ->; apply NE; reflexivity|].
        intros v Hv. apply keep_In in Hv. apply freeP_S. auto. }
  unfold rt. rewrite (parse_format dl _ D CL). unfold tseg. cbn [sid els]. f_equal.
  unfold rt_els. rewrite keep_cons. cbn [forallb].
  assert (CE : comp_empty (keep ele_empty c) = false).
  { change (keep ele_empty c) with (trim_comp c). rewrite comp_empty_trim.
    eapply format_comp_nonempty. exact NE. }
  rewrite CE. cbn [andb]. rewrite keep_cons. cbn [forallb map].
  change (trim_comp (keep ele_empty c)) with (keep ele_empty (keep ele_empty c)). rewrite keep_idem. reflexivity.
Qed.

Lemma tseg_ev1 dl id z c : ev dl (tseg dl id z c) 1 = Some (fmt_Z z).
Proof. reflexivity. Qed.

Lemma tseg_ev2 dl id z c : ev dl (tseg dl id z c) 2 = Some (format_comp (subele_term dl) c).
Proof.
  unfold ev, tseg. cbn [els length Nat.leb nth]. f_equal. apply (format_comp_trim (subele_term dl) c).
Qed.

(* ---------- a value split at a separator it does not end with ---------- *)
Lemma split_aux_nonnil c s : forall cur, split_aux c s cur <> [].
Proof.
  induction s as [|x s IH]; intros cur; cbn [split_aux]; [discriminate|].
  destruct (Ascii.eqb x c); [discriminate|apply IH].
Qed.

Lemma join_split_aux c s : forall cur, join c (split_aux c s cur) = rev cur ++ s.
Proof.
  induction s as [|x s IH]; intros cur; cbn [split_aux].
  - cbn [join]. rewrite app_nil_r. reflexivity.
  - destruct (Ascii.eqb x c) eqn:E.
    + apply Ascii.eqb_eq in E. subst x. specialize (IH []).
      pose proof (split_aux_nonnil c s []) as NN.
      destruct (split_aux c s []) as [|p ps]; [congruence|].
      change (join c (rev cur :: p :: ps)) with (rev cur ++ c :: join c (p :: ps)).
      rewrite IH. reflexivity.
    + rewrite IH. cbn [rev]. rewrite <- app_assoc. reflexivity.
Qed.

Lemma join_split c s : join c (split c s) = s.
Proof. unfold split. rewrite join_split_aux. reflexivity. Qed.

Lemma split_aux_sub c z s : forall cur x, In x (split_aux c s cur) -> In z x -> In z cur \/ In z s.
Proof.
  induction s as [|a s IH]; intros cur x Hx Hz; cbn [split_aux] in Hx.
  - destruct Hx as [<-|[]]. left. apply in_rev. exact Hz.
  - destruct (Ascii.eqb a c).
    + destruct Hx as [<-|Hx]; [left; apply in_rev; exact Hz|].
      destruct (IH [] x Hx Hz) as [[]|H]. right. right. exact H.
    + destruct (IH (a :: cur) x Hx Hz) as [[<-|H]|H]; [right; left; reflexivity|left; exact H|right; right; exact H].
Qed.

Lemma split_sub c z s x : In x (split c s) -> In z x -> In z s.
Proof. intros Hx Hz. destruct (split_aux_sub c z s [] x Hx Hz) as [[]|H]. exact H. Qed.

Lemma ends_with_cons c x y s : ends_with c (x :: y :: s) = ends_with c (y :: s).
Proof.
  unfold ends_with. change (rev (x :: y :: s)) with (rev (y :: s) ++ [x]).
  destruct (rev (y :: s)) as [|a q] eqn:R; [|reflexivity].
  apply (f_equal (@length ascii)) in R. rewrite rev_length in R. discriminate R.
Qed.

Lemma split_aux_last c s : forall cur, ends_with c s = false -> (s <> [] \/ cur <> []) ->
  exists xs a, split_aux c s cur = xs ++ [a] /\ a <> [].
Proof.
  induction s as [|x s IH]; intros cur E NE; cbn [split_aux].
  - destruct NE as [NE|NE]; [congruence|]. exists [], (rev cur). split; [reflexivity|].
    intros H. apply NE. rewrite <- (rev_involutive cur), H. reflexivity.
  - assert (E' : s <> [] -> ends_with c s = false).
    { destruct s as [|y s]; [congruence|]. intros _. rewrite ends_with_cons in E. exact E. }
    destruct (Ascii.eqb x c) eqn:X.
    + assert (NS : s <> []).
      { intros ->. unfold ends_with in E. cbn [rev app] in E. congruence. }
      destruct (IH [] (E' NS) (or_introl NS)) as (xs & a & H & Na).
      exists (rev cur :: xs), a. rewrite H. split; [reflexivity|exact Na].
    + apply IH; [|right; discriminate].
      destruct s as [|y s]; [reflexivity|]. apply E'. discriminate.
Qed.

(* splitting and formatting again gives the value back *)
Lemma format_comp_split c v : v <> [] -> ends_with c v = false -> format_comp c (split c v) = v.
Proof.
  intros NE E. destruct (split_aux_last c v [] E (or_introl NE)) as (xs & a & H & Na).
  rewrite format_comp_keep. unfold split in *. rewrite H.
  rewrite keep_last by (destruct a; [congruence|reflexivity]).
  rewrite <- H. apply (join_split_aux c v []).
Qed.

(* ---------- the written ISA ---------- *)
Lemma nth_set_nth_neq {A} (d : A) v : forall xs n k, k <> n -> nth k (set_nth xs n v) d = nth k xs d.
Proof.
  induction xs as [|x xs IH]; intros n k H; [reflexivity|].
  destruct n as [|n], k as [|k]; cbn [set_nth nth]; try reflexivity; try congruence. apply IH. congruence.
Qed.

Lemma In_set_nth {A} (v : A) c : forall xs n, In c (set_nth xs n v) -> c = v \/ In c xs.
Proof.
  induction xs as [|x xs IH]; intros n H; [destruct H|].
  destruct n as [|n]; cbn [set_nth] in H.
  - destruct H as [<-|H]; [left; reflexivity|right; right; exact H].
  - destruct H as [<-|H]; [right; left; reflexivity|]. apply IH in H as [H|H]; [left; exact H|right; right; exact H].
Qed.

Lemma set_nth_last {A} (v : A) : forall xs n, length xs = S n -> set_nth xs n v = firstn n xs ++ [v].
Proof.
  induction xs as [|x xs IH]; intros n L; [discriminate|]. cbn [length] in L. injection L as L.
  destruct n as [|n]; cbn [set_nth firstn app].
  - destruct xs; [reflexivity|discriminate].
  - rewrite (IH n L). reflexivity.
Qed.

Lemma isa_rt d s :
  distinct_delims d = true -> sid s = Some (cs "ISA") -> ~ In (ele_term d) (cs "ISA") ->
  (forall c, In c (els s) -> exists v, c = [v] /\ ~ In (ele_term d) v) ->
  (exists xs v, els s = xs ++ [[v]] /\ v <> []) ->
  rt d s = s.
Proof.
  intros D S FI H (xs & v & E & NV). unfold rt. rewrite format_seg_body, parse_seg_term.
  unfold parse_body, seg_body. rewrite S. cbn [show_sid].
  rewrite split_app by exact FI.
  assert (K : keep comp_empty (els s) = els s).
  { rewrite E. apply keep_last. destruct v; [congruence|reflexivity]. }
  rewrite K. rewrite split_join.
  - change (str_eqb (cs "ISA") (C01_spec.cs "ISA")) with true. cbv iota.
    rewrite map_map. destruct s as [i es]. cbn [sid els] in *. subst i. f_equal.
    rewrite <- (map_id es) at 2. apply map_ext_in. intros c Hc.
    destruct (H c Hc) as (v' & -> & F). change (format_comp (subele_term d) [v']) with v'.
    apply split_free. exact F.
  - rewrite E. destruct xs; discriminate.
  - intros x Hx. apply in_map_iff in Hx as (c & <- & Hc). destruct (H c Hc) as (v' & -> & F). exact F.
Qed.

(* ------------------------------------------------------------------ *)
(* W2: the simulation                                                  *)
(* ------------------------------------------------------------------ *)
Section Sim.
Variables (dl : delims) (rep : str).
Hypothesis Hd : distinct_delims dl = true.
Hypothesis Hrep : free_of dl rep = true.
Hypothesis TW : trailer_ids_writable dl.
Hypothesis DW : count_digits_writable dl.

Fixpoint stack_ok (stk : list kind) : Prop :=
  match stk with [] => True | k :: r => may_open k r = true /\ stack_ok r end.

Lemma stack_shapes stk : stack_ok stk -> stk = [] \/ stk = [KISA] \/ stk = [KGS; KISA] \/ stk = [KST; KGS; KISA].
Proof.
  destruct stk as [|k1 stk]; [auto|]. intros [M1 H].
  destruct k1.
  - destruct stk; [auto|discriminate].
  - destruct stk as [|[] stk]; try discriminate. destruct H as [M2 H]. destruct stk; [auto|discriminate].
  - destruct stk as [|[] stk]; try discriminate. destruct H as [M2 H].
    destruct stk as [|[] stk]; try discriminate. destruct H as [M3 H]. destruct stk; [auto 6|discriminate].
Qed.

Lemma stack_notin k stk : stack_ok (k :: stk) -> ~ In k stk.
Proof.
  intros H. apply stack_shapes in H as [H|[H|[H|H]]]; try discriminate; injection H as -> ->; cbn [In];
    intuition discriminate.
Qed.

Record Inv (stk : list kind) (x y : xstate) : Prop := {
  i_shape : map fst (loops x) = map kstr stk;
  i_ok : stack_ok stk;
  i_loops : loops y = loops x;
  i_oks : Forall (fun p => okid dl (snd p)) (loops x);
  i_isa : isa_ids y = isa_ids x;
  i_gs : gs_ids y = gs_ids x;
  i_st : st_ids y = st_ids x;
  i_gc : In KISA stk -> gs_count y = gs_count x;
  i_sc : In KGS stk -> st_count y = st_count x;
  i_sg : In KST stk -> seg_count y = seg_count x;
  i_n1 : (0 <= gs_count x)%Z;
  i_n2 : (0 <= st_count x)%Z;
  i_n3 : (0 <= seg_count x)%Z;
  i_lx : check_837_lx x = false
}.

Definition silent (es : list err) : Prop := env_codes es = [].

Ltac simp_fields :=
  cbn [set_gs_count set_st_count set_seg_count with_loops with_x wx wd w_rep loops gs_count st_count seg_count
       isa_ids gs_ids st_ids check_837_lx hl_stack hl_count cur_line lx_count] in *.

Lemma oid_eqb_refl o : oid_eqb o o = true.
Proof. destruct o; [apply str_eqb_refl|reflexivity]. Qed.

Lemma trailer_facts w id z o : wd w = dl -> In id ["IEA"; "GE"; "SE"]%string -> okid dl o -> (0 <= z)%Z ->
  rt dl (trailer w id z o) = trailer w id z o /\ has_id (trailer w id z o) id = true /\
  ev dl (trailer w id z o) 1 = Some (fmt_Z z) /\ ev dl (trailer w id z o) 2 = o.
Proof.
  intros W Hin (c & -> & NE & Fc) Z. destruct TW as (T1 & T2 & T3).
  assert (Fid : freeP dl (cs id) /\ str_eqb (cs id) (cs "ISA") = false /\ cs id <> []).
  { cbn [In] in Hin. destruct Hin as [<-|[<-|[<-|[]]]]; (split; [apply free_of_iff; assumption|split; [reflexivity|discriminate]]). }
  destruct Fid as (Fid & NI & NEid).
  rewrite (trailer_eq dl w id z c Hd DW W Fid NI Z NE Fc).
  split; [apply tseg_rt; assumption|]. split; [unfold has_id, tseg; cbn [sid]; apply str_eqb_refl|].
  split; [apply tseg_ev1|apply tseg_ev2].
Qed.

Lemma run_one y t y' es : reader_step dl y t = Ok (y', es) -> run_steps dl y [t] = Ok ([es], y').
Proof. intros H. cbn [run_steps]. rewrite H. reflexivity. Qed.

Lemma optZ_fmt z : (0 <= z)%Z -> optZ_eqb (int_opt (Some (fmt_Z z))) z = true.
Proof. intros H. cbn [int_opt]. rewrite (py_int_fmt_Z z H). cbn [optZ_eqb]. apply Z.eqb_refl. Qed.

(* closing the innermost loop *)
Lemma close_sim k0 stk w y o rest : wd w = dl ->
  Inv (k0 :: stk) (wx w) y -> loops (wx w) = (kstr k0, o) :: rest ->
  forall w2 out, close_loop (with_x w (with_loops (wx w) rest)) (kstr k0) o = (w2, out) ->
  exists errs y', run_steps dl y (map (rt dl) out) = Ok (errs, y') /\ Forall silent errs /\
    Inv stk (wx w2) y' /\ wd w2 = dl /\ w_rep w2 = w_rep w /\ loops (wx w2) = rest.
Proof.
  intros W I L w2 out C. destruct I as [I1 I2 I3 I4 I5 I6 I7 I8 I9 I10 I11 I12 I13 I14].
  rewrite L in *. cbn [map fst] in I1. injection I1 as I1.
  pose proof (stack_notin _ _ I2) as NI. destruct I2 as [M I2].
  inversion I4 as [|p ps Ho I4' Ep]. subst p ps. cbn [snd] in Ho.
  set (w1 := with_x w (with_loops (wx w) rest)) in *.
  assert (W1 : wd w1 = dl) by exact W.
  destruct k0.
  - (* ISA / IEA *)
    change (close_loop w1 (kstr KISA) o) with
      (with_x w1 (set_gs_count (wx w1) 0), [trailer w1 "IEA" (gs_count (wx w1)) o]) in C.
    injection C as <- <-. subst w1. simp_fields.
    set (t := trailer _ "IEA" (gs_count (wx w)) o).
    destruct (trailer_facts (with_x w (with_loops (wx w) rest)) "IEA" (gs_count (wx w)) o W ltac:(cbn; tauto) Ho I11)
      as (T1 & T2 & T3 & T4). fold t in T1, T2, T3, T4.
    destruct (reader_IEA dl y t T2) as (y1 & e0 & E0 & F & H).
    rewrite I3 in H. change (str_eqb (kstr KISA) (cs "ISA")) with true in H. cbv beta iota in H.
    rewrite T3, T4, oid_eqb_refl, (I8 (or_introl eq_refl)), (optZ_fmt _ I11) in H.
    destruct F as (F1 & F2 & F3 & F4 & F5 & F6 & F7).
    eexists; eexists. cbn [map]. rewrite T1. split; [apply run_one; exact H|].
    split; [constructor; [|constructor]; unfold silent; rewrite !env_codes_app, E0; reflexivity|].
    split; [|auto].
    constructor; simp_fields; try congruence; try assumption; try lia;
      (intros Hk; first [exfalso; exact (NI Hk) | rewrite ?F2, ?F3, ?F4; first [apply I8 | apply I9 | apply I10]; right; exact Hk]).
  - (* GS / GE *)
    change (close_loop w1 (kstr KGS) o) with
      (with_x w1 (set_st_count (wx w1) 0), [trailer w1 "GE" (st_count (wx w1)) o]) in C.
    injection C as <- <-. subst w1. simp_fields.
    set (t := trailer _ "GE" (st_count (wx w)) o).
    destruct (trailer_facts (with_x w (with_loops (wx w) rest)) "GE" (st_count (wx w)) o W ltac:(cbn; tauto) Ho I12)
      as (T1 & T2 & T3 & T4). fold t in T1, T2, T3, T4.
    destruct (reader_GE dl y t T2) as (y1 & e0 & E0 & F & H).
    rewrite I3 in H. change (str_eqb (kstr KGS) (cs "GS")) with true in H. cbv beta iota in H.
    rewrite T3, T4, oid_eqb_refl, (I9 (or_introl eq_refl)), (optZ_fmt _ I12) in H.
    destruct F as (F1 & F2 & F3 & F4 & F5 & F6 & F7).
    eexists; eexists. cbn [map]. rewrite T1. split; [apply run_one; exact H|].
    split; [constructor; [|constructor]; unfold silent; rewrite !env_codes_app, E0; reflexivity|].
    split; [|auto].
    constructor; simp_fields; try congruence; try assumption; try lia;
      (intros Hk; first [exfalso; exact (NI Hk) | rewrite ?F2, ?F3, ?F4; first [apply I8 | apply I9 | apply I10]; right; exact Hk]).
  - (* ST / SE *)
    change (close_loop w1 (kstr KST) o) with
      (with_x w1 (set_seg_count (wx w1) 0), [trailer w1 "SE" (seg_count (wx w1) + 1)%Z o]) in C.
    injection C as <- <-. subst w1. simp_fields.
    set (t := trailer _ "SE" (seg_count (wx w) + 1)%Z o).
    assert (P : (0 <= seg_count (wx w) + 1)%Z) by lia.
    destruct (trailer_facts (with_x w (with_loops (wx w) rest)) "SE" (seg_count (wx w) + 1)%Z o W ltac:(cbn; tauto) Ho P)
      as (T1 & T2 & T3 & T4). fold t in T1, T2, T3, T4.
    destruct (reader_SE dl y t T2) as (y1 & e0 & E0 & F & H).
    rewrite I3 in H. change (str_eqb (kstr KST) (cs "ST")) with true in H. cbv beta iota in H.
    rewrite T3, T4, oid_eqb_refl, (I10 (or_introl eq_refl)), (optZ_fmt _ P) in H. cbn [andb] in H.
    destruct F as (F1 & F2 & F3 & F4 & F5 & F6 & F7).
    eexists; eexists. cbn [map]. rewrite T1. split; [apply run_one; exact H|].
    split; [constructor; [|constructor]; unfold silent; rewrite !env_codes_app, E0; reflexivity|].
    split; [|auto].
    constructor; simp_fields; try congruence; try assumption; try lia;
      (intros Hk; first [exfalso; exact (NI Hk) | rewrite ?F2, ?F3, ?F4; first [apply I8 | apply I9 | apply I10]; right; exact Hk]).
Qed.

Definition dropk (k : kind) (stk : list kind) : list kind :=
  match drop_through k stk with Some b => b | None => [] end.

Lemma kstr_eqb k0 k : str_eqb (kstr k0) (kstr k) = kind_eqb k0 k.
Proof. destruct k0, k; reflexivity. Qed.

Lemma pop_sim k : forall stk w y, wd w = dl -> Inv stk (wx w) y ->
  forall w' out, pop_to_loop w (loops (wx w)) (kstr k) = (w', out) ->
  exists errs y', run_steps dl y (map (rt dl) out) = Ok (errs, y') /\ Forall silent errs /\
    Inv (dropk k stk) (wx w') y' /\ wd w' = dl /\ w_rep w' = w_rep w.
Proof.
  induction stk as [|k0 stk IH]; intros w y W I w' out P.
  - assert (L : loops (wx w) = []) by (apply (map_eq_nil fst); exact (i_shape _ _ _ I)).
    rewrite L in P. cbn [pop_to_loop] in P. injection P as <- <-.
    exists [], y. split; [reflexivity|]. split; [constructor|]. split; [|auto].
    destruct I. constructor; simp_fields; rewrite ?L in *; auto.
  - destruct (loops (wx w)) as [|[kd o] rest] eqn:L.
    { pose proof (i_shape _ _ _ I) as S. rewrite L in S. discriminate S. }
    assert (Ek : kd = kstr k0).
    { pose proof (i_shape _ _ _ I) as S. rewrite L in S. cbn [map fst] in S. injection S as S _. exact S. }
    subst kd. cbn [pop_to_loop] in P.
    destruct (close_loop _ (kstr k0) o) as [w2 o2] eqn:C.
    destruct (close_sim k0 stk w y o rest W I L w2 o2 C) as (e1 & y1 & R1 & S1 & I1 & W2 & Rp2 & L2).
    rewrite kstr_eqb in P. unfold dropk. cbn [drop_through].
    destruct (kind_eqb k0 k).
    + injection P as <- <-. exists e1, y1. auto.
    + destruct (pop_to_loop w2 rest (kstr k)) as [w3 o3] eqn:P2. injection P as <- <-.
      rewrite <- L2 in P2.
      destruct (IH w2 y1 W2 I1 w3 o3 P2) as (e2 & y2 & R2 & S2 & I2 & W3 & Rp3).
      exists (e1 ++ e2), y2. rewrite map_app.
      split; [eapply run_steps_app; eauto|]. split; [apply Forall_app; auto|].
      split; [exact I2|]. split; [exact W3|congruence].
Qed.

Lemma close_ids w k o w' out : close_loop w k o = (w', out) ->
  isa_ids (wx w') = isa_ids (wx w) /\ gs_ids (wx w') = gs_ids (wx w) /\ st_ids (wx w') = st_ids (wx w).
Proof.
  unfold close_loop.
  destruct (str_eqb k _); [intros H; injection H as <- _; auto|].
  destruct (str_eqb k _); [intros H; injection H as <- _; auto|].
  destruct (str_eqb k _); intros H; injection H as <- _; auto.
Qed.

Lemma pop_ids kind : forall lp w w' out, pop_to_loop w lp kind = (w', out) ->
  isa_ids (wx w') = isa_ids (wx w) /\ gs_ids (wx w') = gs_ids (wx w) /\ st_ids (wx w') = st_ids (wx w).
Proof.
  induction lp as [|[k o] rest IH]; intros w w' out H; cbn [pop_to_loop] in H.
  - injection H as <- _. auto.
  - destruct (close_loop _ k o) as [w2 o2] eqn:C. apply close_ids in C as (C1 & C2 & C3).
    simp_fields.
    destruct (str_eqb k kind).
    + injection H as <- _. auto.
    + destruct (pop_to_loop w2 rest kind) as [w3 o3] eqn:P. injection H as <- _.
      apply IH in P as (P1 & P2 & P3). repeat split; congruence.
Qed.

(* ---------- headers and body segments ---------- *)
Lemma writable_parts s : writable dl s = true -> clean_seg dl s = true /\ ctl_ok dl s = true.
Proof. unfold writable. intros H. apply andb_true_iff in H as [H _]. apply andb_true_iff in H. exact H. Qed.

Lemma el_okid s i a v : clean_seg dl s = true -> has_id s "ISA" = false ->
  el dl s i = Some (a :: v) -> okid dl (el dl s i).
Proof.
  intros C NI E. apply clean_iff in C as (id & Hid & _ & _ & Hte & _ & Hnon).
  assert (N : id <> cs "ISA").
  { intros ->. unfold has_id in NI. rewrite Hid, str_eqb_refl in NI. discriminate NI. }
  unfold el in *.
  destruct i as [|k]; [discriminate|]. destruct (length (els s) <=? k) eqn:L; [discriminate|].
  apply Nat.leb_gt in L. exists (nth k (els s) []). split; [reflexivity|]. injection E as E.
  split; [rewrite E; discriminate|].
  assert (Hin : In (nth k (els s) []) (els s)) by (apply nth_In; exact L).
  intros u Hu. destruct (Hte _ Hin u Hu) as [H1 H2]. destruct (Hnon N _ Hin) as [_ H3].
  unfold freeP. auto.
Qed.

(* ISA13 is not split in the ISA, but it is in the generated IEA: its components there *)
Lemma isa13_okid s a v : clean_seg dl s = true -> has_id s "ISA" = true -> isa13_ok dl s = true ->
  el dl s 13 = Some (a :: v) -> okid dl (el dl s 13).
Proof.
  intros C I K E. unfold isa13_ok in K. rewrite I, E in K. apply negb_true_iff in K.
  rewrite E. apply has_id_sid in I.
  apply clean_iff in C as (id & Hid & _ & _ & Hte & Hisa & _). rewrite I in Hid. injection Hid as <-.
  unfold el in E. destruct (length (els s) <=? 12) eqn:L; [discriminate|]. apply Nat.leb_gt in L.
  assert (Hin : In (nth 12 (els s) []) (els s)) by (apply nth_In; exact L).
  destruct (Hisa eq_refl _ Hin) as (u & Hu). rewrite Hu in E, Hin.
  change (format_comp (subele_term dl) [u]) with u in E. injection E as ->.
  exists (split (subele_term dl) (a :: v)).
  rewrite (format_comp_split (subele_term dl) (a :: v)) by (discriminate || exact K).
  split; [reflexivity|]. split; [discriminate|].
  intros p Hp. destruct (Hte _ Hin (a :: v) (or_introl eq_refl)) as [H1 H2].
  unfold freeP. split; [|split].
  - intros H. apply H1. eapply split_sub; eauto.
  - intros H. apply H2. eapply split_sub; eauto.
  - eapply split_In. exact Hp.
Qed.

Lemma ctl_ISA s : ctl_ok dl s = true -> has_id s "ISA" = true -> exists a v, el dl s 13 = Some (a :: v).
Proof.
  unfold ctl_ok, header_kind, ctl. intros H I. rewrite I in H.
  destruct (el dl s 13) as [[|a v]|]; try discriminate. eauto.
Qed.

Lemma ctl_GS s : ctl_ok dl s = true -> has_id s "GS" = true -> exists a v, el dl s 6 = Some (a :: v).
Proof.
  unfold ctl_ok, header_kind, ctl. intros H I. rewrite (has_id_excl s "GS" "ISA" I eq_refl), I in H.
  destruct (el dl s 6) as [[|a v]|]; try discriminate. eauto.
Qed.

Lemma ctl_ST s : ctl_ok dl s = true -> has_id s "ST" = true -> exists a v, el dl s 2 = Some (a :: v).
Proof.
  unfold ctl_ok, header_kind, ctl. intros H I.
  rewrite (has_id_excl s "ST" "ISA" I eq_refl), (has_id_excl s "ST" "GS" I eq_refl), I in H.
  destruct (el dl s 2) as [[|a v]|]; try discriminate. eauto.
Qed.

Lemma hdr_GS stk x y s : Inv stk x y -> writable dl s = true -> has_id s "GS" = true ->
  may_open KGS stk = true -> dup (el dl s 6) (gs_ids x) = false ->
  exists x1 e y1 es, base_step dl x s = Ok (x1, e) /\ reader_step dl y (rt dl s) = Ok (y1, es) /\ silent es /\
    Inv (KGS :: stk) x1 y1 /\ check_837_lx x1 = false /\
    isa_ids x1 = isa_ids x /\ gs_ids x1 = gs_ids x ++ [el dl s 6] /\ st_ids x1 = [].
Proof.
  intros I Wr Hid M Du. destruct (writable_parts s Wr) as [Cl Ct].
  destruct (ctl_GS s Ct Hid) as (a & v & Ev).
  pose proof (el_rt dl s 6 a v Hd Cl Ev) as Er. pose proof (el_okid s 6 a v Cl (has_id_excl s "GS" "ISA" Hid eq_refl) Ev) as Ok6.
  rewrite <- Ev in Er.
  assert (Hid' : has_id (rt dl s) "GS" = true) by (rewrite rt_has_id; assumption).
  destruct (reader_GS dl y (rt dl s) Hid') as (y1 & e & H & E & F).
  destruct I as [I1 I2 I3 I4 I5 I6 I7 I8 I9 I10 I11 I12 I13 I14].
  assert (Sy : map fst (loops y) = map kstr stk) by (rewrite I3; exact I1).
  destruct (top_may _ _ Sy) as (_ & T2 & _). rewrite T2, M in H. cbn [app] in H.
  change ev with el in *. rewrite Er in *. rewrite I6 in E. change (mem_oid (el dl s 6) (gs_ids x)) with (dup (el dl s 6) (gs_ids x)) in E.
  rewrite Du in E.
  rewrite (base_GS dl x s Hid). cbv zeta.
  eexists; eexists; exists y1, e. split; [reflexivity|]. split; [exact H|]. split; [exact E|].
  destruct F as (F1 & F2 & F3 & F4 & F5 & F6 & F7).
  split; [|simp_fields; auto].
  constructor; simp_fields; change ev with el.
  - cbn [map fst kstr]. f_equal. exact I1.
  - split; assumption.
  - congruence.
  - constructor; [exact Ok6|exact I4].
  - congruence.
  - congruence.
  - congruence.
  - intros [Hk|Hk]; [discriminate|]. rewrite F2, (I8 Hk). reflexivity.
  - intros _. exact F3.
  - intros [Hk|Hk]; [discriminate|]. rewrite F4. exact (I10 Hk).
  - lia.
  - lia.
  - lia.
  - exact I14.
Qed.

Lemma hdr_ST stk x y s : Inv stk x y -> writable dl s = true -> has_id s "ST" = true ->
  may_open KST stk = true -> dup (el dl s 2) (st_ids x) = false ->
  exists x1 e y1 es, base_step dl x s = Ok (x1, e) /\ reader_step dl y (rt dl s) = Ok (y1, es) /\ silent es /\
    Inv (KST :: stk) x1 y1 /\ check_837_lx x1 = false /\
    isa_ids x1 = isa_ids x /\ gs_ids x1 = gs_ids x /\ st_ids x1 = st_ids x ++ [el dl s 2].
Proof.
  intros I Wr Hid M Du. destruct (writable_parts s Wr) as [Cl Ct].
  destruct (ctl_ST s Ct Hid) as (a & v & Ev).
  pose proof (el_rt dl s 2 a v Hd Cl Ev) as Er. pose proof (el_okid s 2 a v Cl (has_id_excl s "ST" "ISA" Hid eq_refl) Ev) as Ok2.
  rewrite <- Ev in Er.
  assert (Hid' : has_id (rt dl s) "ST" = true) by (rewrite rt_has_id; assumption).
  destruct (reader_ST dl y (rt dl s) Hid') as (y1 & e & H & E & F).
  destruct I as [I1 I2 I3 I4 I5 I6 I7 I8 I9 I10 I11 I12 I13 I14].
  assert (Sy : map fst (loops y) = map kstr stk) by (rewrite I3; exact I1).
  destruct (top_may _ _ Sy) as (_ & _ & T3). rewrite T3, M in H. cbn [app] in H.
  change ev with el in *. rewrite Er in *. rewrite I7 in E. change (mem_oid (el dl s 2) (st_ids x)) with (dup (el dl s 2) (st_ids x)) in E.
  rewrite Du in E.
  rewrite (base_ST dl x s Hid). cbv zeta.
  eexists; eexists; exists y1, e. split; [reflexivity|]. split; [exact H|]. split; [exact E|].
  destruct F as (F1 & F2 & F3 & F4 & F5 & F6 & F7).
  split; [|simp_fields; auto].
  constructor; simp_fields; change ev with el.
  - cbn [map fst kstr]. f_equal. exact I1.
  - split; assumption.
  - congruence.
  - constructor; [exact Ok2|exact I4].
  - congruence.
  - congruence.
  - congruence.
  - intros [Hk|Hk]; [discriminate|]. rewrite F2. exact (I8 Hk).
  - intros [Hk|Hk]; [discriminate|]. rewrite F3, (I9 Hk). reflexivity.
  - intros _. exact F4.
  - lia.
  - lia.
  - lia.
  - exact I14.
Qed.

(* the ISA as written: ISA11 (for 00501) and ISA16 replaced *)
Definition isa_out (s : seg) (b : bool) : seg :=
  let s1 := if b then {| sid := sid s; els := set_nth (els s) 10 (split (subele_term dl) rep) |} else s in
  {| sid := sid s1; els := set_nth (els s1) 15 (split (ele_term dl) [subele_term dl]) |}.

Lemma isa_write (w1 : wstate) s (b : bool) : has_id s "ISA" = true -> length (els s) = 16 ->
  (do s1 <- (if b then set_ix dl s (Some 10%Z, None) rep else Ok s);
   do s2 <- set_ix dl s1 (Some 15%Z, None) [subele_term dl];
   Ok (w1, [s2])) = Ok (w1, [isa_out s b]).
Proof.
  intros I L. pose proof (has_id_sid s _ I) as Si. unfold isa_out. destruct b.
  - rewrite (set_ix_10 dl s _ L). cbn [bind]. rewrite set_ix_15; cbn [sid els]; [|rewrite set_nth_length; exact L|exact Si].
    reflexivity.
  - cbn [bind]. rewrite (set_ix_15 dl s _ L Si). reflexivity.
Qed.

Lemma isa_out_facts s b : clean_seg dl s = true -> has_id s "ISA" = true -> length (els s) = 16 ->
  rt dl (isa_out s b) = isa_out s b /\ has_id (isa_out s b) "ISA" = true /\
  length (els (isa_out s b)) = 16 /\ el dl (isa_out s b) 13 = el dl s 13.
Proof.
  intros C I L. pose proof (has_id_sid s _ I) as Si.
  apply clean_iff in C as (id & Hid & _ & Fid & Hte & Hisa & _). rewrite Si in Hid. injection Hid as <-.
  pose proof Hd as D'. apply distinct_iff in D' as (D1 & D2 & D3).
  pose proof (proj1 (free_of_iff dl rep) Hrep) as Frep.
  assert (R1 : split (subele_term dl) rep = [rep]) by (apply split_free, freeP_S, Frep).
  assert (NS : ~ In (ele_term dl) [subele_term dl]) by (intros [E|[]]; congruence).
  assert (R2 : split (ele_term dl) [subele_term dl] = [[subele_term dl]]) by (apply split_free; exact NS).
  unfold isa_out. rewrite R1, R2.
  set (s1 := if b then {| sid := sid s; els := set_nth (els s) 10 [rep] |} else s).
  assert (P : sid s1 = Some (cs "ISA") /\ length (els s1) = 16 /\
              (forall c, In c (els s1) -> exists v, c = [v] /\ ~ In (ele_term dl) v) /\
              nth 12 (els s1) [] = nth 12 (els s) []).
  { assert (P0 : forall c, In c (els s) -> exists v, c = [v] /\ ~ In (ele_term dl) v).
    { intros c Hin. destruct (Hisa eq_refl c Hin) as (v & ->). exists v. split; [reflexivity|].
      apply (Hte [v] Hin v (or_introl eq_refl)). }
    subst s1. destruct b; cbn [sid els].
    - split; [exact Si|]. split; [rewrite set_nth_length; exact L|]. split.
      + intros c Hin. apply In_set_nth in Hin as [->|Hin]; [|auto].
        exists rep. split; [reflexivity|apply freeP_E, Frep].
      + apply nth_set_nth_neq. lia.
    - auto. }
  destruct P as (S1 & L1 & P1 & N1). clearbody s1.
  split.
  { apply isa_rt; cbn [sid els].
    - exact Hd.
    - exact S1.
    - apply freeP_E. exact Fid.
    - intros c Hin. apply In_set_nth in Hin as [->|Hin]; [|auto].
      exists [subele_term dl]. split; [reflexivity|exact NS].
    - exists (firstn 15 (els s1)), [subele_term dl]. split; [apply set_nth_last; exact L1|discriminate]. }
  split; [unfold has_id; cbn [sid]; rewrite S1; reflexivity|].
  split; [cbn [els]; rewrite set_nth_length; exact L1|].
  unfold el. cbn [els]. rewrite set_nth_length, L1, L. cbn [Nat.leb].
  rewrite nth_set_nth_neq by lia. rewrite N1. reflexivity.
Qed.

Lemma hdr_ISA stk x y s b : Inv stk x y -> writable dl s = true -> has_id s "ISA" = true ->
  isa13_ok dl s = true -> may_open KISA stk = true -> dup (el dl s 13) (isa_ids x) = false ->
  exists x1 e y1 es, base_step dl x s = Ok (x1, e) /\ reader_step dl y (isa_out s b) = Ok (y1, es) /\ silent es /\
    Inv (KISA :: stk) x1 y1 /\ check_837_lx x1 = false /\
    isa_ids x1 = isa_ids x ++ [el dl s 13] /\ gs_ids x1 = [] /\ st_ids x1 = st_ids x.
Proof.
  intros I Wr Hid K13 M Du. destruct (writable_parts s Wr) as [Cl Ct].
  pose proof (writable_isa16 dl s Wr Hid) as L.
  destruct (ctl_ISA s Ct Hid) as (a & v & Ev).
  pose proof (isa13_okid s a v Cl Hid K13 Ev) as Ok13.
  destruct (isa_out_facts s b Cl Hid L) as (_ & Hid' & L' & Er).
  assert (L16 : (length (els (isa_out s b)) =? 16) = true) by (apply Nat.eqb_eq; exact L').
  destruct (reader_ISA dl y (isa_out s b) Hid' L16) as (y1 & e & H & E & F).
  destruct I as [I1 I2 I3 I4 I5 I6 I7 I8 I9 I10 I11 I12 I13 I14].
  assert (Sy : map fst (loops y) = map kstr stk) by (rewrite I3; exact I1).
  destruct (top_may _ _ Sy) as (T1 & _ & _). rewrite M in T1.
  assert (Ly : loops y = []) by (destruct (loops y); [reflexivity|discriminate]).
  rewrite Ly in H. cbn [app] in H.
  change ev with el in *. rewrite Er in *. rewrite I5 in E.
  change (mem_oid (el dl s 13) (isa_ids x)) with (dup (el dl s 13) (isa_ids x)) in E.
  rewrite Du in E.
  assert (L16s : (length (els s) =? 16) = true) by (apply Nat.eqb_eq; exact L).
  rewrite (base_ISA dl x s Hid), L16s. cbn [negb]. cbv zeta.
  eexists; eexists; exists y1, e. split; [reflexivity|]. split; [exact H|]. split; [exact E|].
  destruct F as (F1 & F2 & F3 & F4 & F5 & F6 & F7).
  split; [|simp_fields; auto].
  constructor; simp_fields; change ev with el.
  - cbn [map fst kstr]. f_equal. exact I1.
  - split; assumption.
  - congruence.
  - constructor; [exact Ok13|exact I4].
  - congruence.
  - congruence.
  - congruence.
  - intros _. exact F2.
  - intros [Hk|Hk]; [discriminate|]. rewrite F3. exact (I9 Hk).
  - intros [Hk|Hk]; [discriminate|]. rewrite F4. exact (I10 Hk).
  - lia.
  - lia.
  - lia.
  - exact I14.
Qed.

Lemma body_sim stk x y s : Inv stk x y -> writable dl s = true -> is_envelope s = false ->
  exists x1 e y1 es, base_step dl x s = Ok (x1, e) /\ reader_step dl y (rt dl s) = Ok (y1, es) /\ silent es /\
    Inv stk x1 y1 /\ check_837_lx x1 = false /\
    isa_ids x1 = isa_ids x /\ gs_ids x1 = gs_ids x /\ st_ids x1 = st_ids x.
Proof.
  intros I Wr NE. destruct (writable_parts s Wr) as [Cl _].
  destruct (base_body dl x s NE) as (x1 & e & B & _ & G).
  assert (NE' : is_envelope (rt dl s) = false) by (rewrite (rt_clean_eq dl s Hd Cl); exact NE).
  destruct (reader_body dl y (rt dl s) NE') as (y1 & es & H & E & F).
  pose proof (base_flag _ _ _ _ _ B) as Fl.
  exists x1, e, y1, es. split; [exact B|]. split; [exact H|]. split; [exact E|].
  destruct I as [I1 I2 I3 I4 I5 I6 I7 I8 I9 I10 I11 I12 I13 I14].
  destruct F as (F1 & F2 & F3 & F4 & F5 & F6 & F7). destruct G as (G1 & G2 & G3 & G4 & G5 & G6 & G7).
  split; [|repeat split; congruence].
  constructor; try congruence; try lia.
  - intros Hk. rewrite F2, G2. exact (I8 Hk).
  - intros Hk. rewrite F3, G3. exact (I9 Hk).
  - intros Hk. rewrite F4, G4, (I10 Hk). reflexivity.
Qed.

Lemma Inv_x stk x x1 y : Inv stk x y ->
  fields x1 (loops x) (gs_count x) (st_count x) (seg_count x) (isa_ids x) (gs_ids x) (st_ids x) ->
  check_837_lx x1 = check_837_lx x -> Inv stk x1 y.
Proof.
  intros I G Fl. destruct I as [I1 I2 I3 I4 I5 I6 I7 I8 I9 I10 I11 I12 I13 I14].
  destruct G as (G1 & G2 & G3 & G4 & G5 & G6 & G7).
  constructor; try congruence; try lia.
  - intros Hk. rewrite G2. exact (I8 Hk).
  - intros Hk. rewrite G3. exact (I9 Hk).
  - intros Hk. rewrite G4. exact (I10 Hk).
Qed.

(* one Write *)
Lemma step_sim stk w y s rest : wd w = dl -> w_rep w = rep -> Inv stk (wx w) y -> writable dl s = true ->
  isa13_ok dl s = true ->
  well_nested_w stk (s :: rest) = true ->
  ids_unique dl (isa_ids (wx w)) (gs_ids (wx w)) (st_ids (wx w)) (s :: rest) = true ->
  forall w1 out, w_write_segs w dl s = Ok (w1, out) ->
  exists stk1 errs y1, run_steps dl y (map (rt dl) out) = Ok (errs, y1) /\ Forall silent errs /\
    Inv stk1 (wx w1) y1 /\ wd w1 = dl /\ w_rep w1 = rep /\
    well_nested_w stk1 rest = true /\
    ids_unique dl (isa_ids (wx w1)) (gs_ids (wx w1)) (st_ids (wx w1)) rest = true.
Proof.
  intros W R I Wr K13 WN IU w1 out H.
  rewrite (write_cases w dl s (i_lx _ _ _ I)) in H.
  cbn [well_nested_w] in WN. cbn [ids_unique] in IU. unfold header_kind, trailer_kind in WN.
  (* trailers: shared argument *)
  assert (TR : forall id k, In id ["IEA"; "GE"; "SE"]%string -> has_id s id = true ->
                match drop_through k stk with Some below => well_nested_w below rest | None => false end = true ->
                ids_unique dl (isa_ids (wx w)) (gs_ids (wx w)) (st_ids (wx w)) rest = true ->
                forall x1 e, base_step dl (wx w) s = Ok (x1, e) ->
                pop_to_loop (with_x w x1) (loops x1) (kstr k) = (w1, out) ->
                exists stk1 errs y1, run_steps dl y (map (rt dl) out) = Ok (errs, y1) /\ Forall silent errs /\
                  Inv stk1 (wx w1) y1 /\ wd w1 = dl /\ w_rep w1 = rep /\
                  well_nested_w stk1 rest = true /\
                  ids_unique dl (isa_ids (wx w1)) (gs_ids (wx w1)) (st_ids (wx w1)) rest = true).
  { intros id k Hin Hid WN' IU' x1 e B P.
    assert (Hin' : In id ["SE"; "GE"; "IEA"]%string) by (cbn [In] in *; tauto).
    destruct (base_trailer dl (wx w) s id Hid Hin') as (x1' & e' & B' & _ & G).
    rewrite B in B'. injection B' as <- <-.
    pose proof (Inv_x _ _ _ _ I G (base_flag _ _ _ _ _ B)) as I'.
    destruct (pop_sim k stk (with_x w x1) y W I' w1 out P) as (errs & y1 & Rn & S & I1 & W1 & R1).
    destruct (pop_ids _ _ _ _ _ P) as (P1 & P2 & P3). simp_fields.
    destruct G as (_ & _ & _ & _ & G5 & G6 & G7).
    exists (dropk k stk), errs, y1. unfold dropk in *.
    destruct (drop_through k stk) as [below|]; [|discriminate].
    split; [exact Rn|]. split; [exact S|]. split; [exact I1|]. split; [exact W1|].
    split; [congruence|]. split; [exact WN'|]. rewrite P1, P2, P3, G5, G6, G7. exact IU'. }
  destruct (has_id s "ISA") eqn:HISA.
  { rewrite (has_id_excl s "ISA" "IEA" HISA eq_refl), (has_id_excl s "ISA" "GE" HISA eq_refl),
            (has_id_excl s "ISA" "SE" HISA eq_refl) in H.
    apply andb_true_iff in WN as [M WN]. apply andb_true_iff in IU as [Du IU]. apply negb_true_iff in Du.
    remember (opt_str_eqb (el dl s 12) (Some (cs "00501"))) as b eqn:Eb. clear Eb.
    destruct (hdr_ISA stk (wx w) y s b I Wr HISA K13 M Du)
      as (x1 & e & y1 & es & B & Rd & S & I1 & Fl & E1 & E2 & E3).
    rewrite B in H. cbn [fst] in H. rewrite R, W in H.
    rewrite (isa_write _ s _ HISA (writable_isa16 dl s Wr HISA)) in H. injection H as <- <-.
    destruct (writable_parts s Wr) as [Cl _].
    destruct (isa_out_facts s b Cl HISA (writable_isa16 dl s Wr HISA)) as (Rt & _).
    exists (KISA :: stk), [es], y1. cbn [map]. rewrite Rt.
    split; [apply run_one; exact Rd|]. split; [constructor; [exact S|constructor]|].
    simp_fields. rewrite E1, E2, E3. auto 10. }
  destruct (has_id s "GS") eqn:HGS.
  { rewrite (has_id_excl s "GS" "IEA" HGS eq_refl), (has_id_excl s "GS" "GE" HGS eq_refl),
            (has_id_excl s "GS" "SE" HGS eq_refl) in H.
    apply andb_true_iff in WN as [M WN]. apply andb_true_iff in IU as [Du IU]. apply negb_true_iff in Du.
    destruct (hdr_GS stk (wx w) y s I Wr HGS M Du) as (x1 & e & y1 & es & B & Rd & S & I1 & Fl & E1 & E2 & E3).
    rewrite B in H. cbn [fst] in H. injection H as <- <-.
    exists (KGS :: stk), [es], y1. cbn [map].
    split; [apply run_one; exact Rd|]. split; [constructor; [exact S|constructor]|].
    simp_fields. rewrite E1, E2, E3. auto 10. }
  destruct (has_id s "ST") eqn:HST.
  { rewrite (has_id_excl s "ST" "IEA" HST eq_refl), (has_id_excl s "ST" "GE" HST eq_refl),
            (has_id_excl s "ST" "SE" HST eq_refl) in H.
    apply andb_true_iff in WN as [M WN]. apply andb_true_iff in IU as [Du IU]. apply negb_true_iff in Du.
    destruct (hdr_ST stk (wx w) y s I Wr HST M Du) as (x1 & e & y1 & es & B & Rd & S & I1 & Fl & E1 & E2 & E3).
    rewrite B in H. cbn [fst] in H. injection H as <- <-.
    exists (KST :: stk), [es], y1. cbn [map].
    split; [apply run_one; exact Rd|]. split; [constructor; [exact S|constructor]|].
    simp_fields. rewrite E1, E2, E3. auto 10. }
  destruct (base_step dl (wx w) s) as [[x1 e]|ex] eqn:B; [|discriminate]. cbn [fst] in H.
  destruct (has_id s "IEA") eqn:HIEA.
  { injection H as H. apply (TR "IEA"%string KISA ltac:(cbn; tauto) HIEA WN IU x1 e eq_refl). exact H. }
  destruct (has_id s "GE") eqn:HGE.
  { injection H as H. apply (TR "GE"%string KGS ltac:(cbn; tauto) HGE WN IU x1 e eq_refl). exact H. }
  destruct (has_id s "SE") eqn:HSE.
  { injection H as H. apply (TR "SE"%string KST ltac:(cbn; tauto) HSE WN IU x1 e eq_refl). exact H. }
  injection H as <- <-.
  pose proof (not_env_of_ids s HISA HGS HST HIEA HGE HSE) as NE.
  destruct (body_sim stk (wx w) y s I Wr NE) as (x1' & e' & y1 & es & B' & Rd & S & I1 & Fl & E1 & E2 & E3).
  rewrite B in B'. injection B' as <- <-.
  exists stk, [es], y1. cbn [map].
  split; [apply run_one; exact Rd|]. split; [constructor; [exact S|constructor]|].
  simp_fields. rewrite E1, E2, E3. auto 10.
Qed.

Lemma run_sim : forall h stk w y, wd w = dl -> w_rep w = rep -> Inv stk (wx w) y ->
  well_nested_w stk h = true -> forallb (writable dl) h = true -> forallb (isa13_ok dl) h = true ->
  ids_unique dl (isa_ids (wx w)) (gs_ids (wx w)) (st_ids (wx w)) h = true ->
  forall w' es, w_run_segs w dl h = Ok (w', es) ->
  exists stk' errs y', run_steps dl y (map (rt dl) es) = Ok (errs, y') /\ Forall silent errs /\
    Inv stk' (wx w') y' /\ wd w' = dl.
Proof.
  induction h as [|s h IH]; intros stk w y W R I WN Wr K IU w' es H; cbn [w_run_segs] in H.
  - injection H as <- <-. exists stk, [], y. split; [reflexivity|]. split; [constructor|auto].
  - destruct (w_write_segs w dl s) as [[w1 o1]|] eqn:E1; cbn [bind fst snd] in H; [|discriminate].
    destruct (w_run_segs w1 dl h) as [[w2 o2]|] eqn:E2; cbn [bind fst snd] in H; [|discriminate].
    injection H as <- <-. cbn [forallb] in Wr, K. apply andb_true_iff in Wr as [Ws Wr].
    apply andb_true_iff in K as [Ks K].
    destruct (step_sim stk w y s h W R I Ws Ks WN IU w1 o1 E1) as (stk1 & er1 & y1 & R1 & S1 & I1 & W1 & Rp1 & WN1 & IU1).
    destruct (IH stk1 w1 y1 W1 Rp1 I1 WN1 Wr K IU1 w2 o2 E2) as (stk2 & er2 & y2 & R2 & S2 & I2 & W2).
    exists stk2, (er1 ++ er2), y2. rewrite map_app.
    split; [eapply run_steps_app; eauto|]. split; [apply Forall_app; auto|auto].
Qed.
End Sim.

(* GOAL W2: what is written (history, then Close) is read back without envelope errors,
   and nothing is left open.  The extra hypotheses (trailer ids and count digits writable with the
   delimiters; no ISA13 ending with the component separator) are necessary: see the counterexamples below. *)
Theorem writer_accepted dl rep eol h es :
  trailer_ids_writable dl -> count_digits_writable dl -> isa_ids_writable dl h ->
  distinct_delims dl = true -> (length rep = 1 /\ free_of dl rep = true) ->
  history_ok dl h = true -> w_run_close (w0 dl rep eol) dl h = Ok es ->
  exists out xf,
    run_steps dl (fresh false) (map (rt dl) es) = Ok (out, xf) /\
    Forall (fun e => env_codes e = []) out /\ cleanup xf = [].
Proof.
  intros TW DW K13 Hd [_ Hrep] Hh H. apply history_parts in Hh as (WN & Wr & IU).
  unfold w_run_close in H.
  destruct (w_run_segs (w0 dl rep eol) dl h) as [[w1 o1]|] eqn:E; cbn [bind fst snd] in H; [|discriminate].
  injection H as <-.
  assert (I0 : Inv dl [] (wx (w0 dl rep eol)) (fresh false)).
  { constructor; cbn; auto; try lia; try tauto. }
  destruct (run_sim dl rep Hd Hrep TW DW h [] (w0 dl rep eol) (fresh false) eq_refl eq_refl I0 WN Wr K13 IU w1 o1 E)
    as (stk1 & er1 & y1 & R1 & S1 & I1 & W1).
  unfold w_close_segs, pop_to. destruct (pop_to_loop w1 _ _) as [w2 o2] eqn:P. cbn [snd].
  destruct (pop_sim dl Hd TW DW KISA stk1 w1 y1 W1 I1 w2 o2 P) as (er2 & y2 & R2 & S2 & I2 & _).
  exists (er1 ++ er2), y2. rewrite map_app.
  split; [eapply run_steps_app; eauto|]. split; [apply Forall_app; auto|].
  assert (Z : dropk KISA stk1 = []).
  { pose proof (i_ok _ _ _ _ I1) as SO. apply stack_shapes in SO as [->|[->|[->| ->]]]; reflexivity. }
  rewrite Z in I2. pose proof (i_shape _ _ _ _ I2) as S. cbn [map] in S. apply map_eq_nil in S.
  pose proof (i_loops _ _ _ _ I2) as Ly. unfold cleanup. rewrite Ly, S. reflexivity.
Qed.

(* ------------------------------------------------------------------ *)
(* The added hypotheses are necessary: W2 and W4 as originally stated  *)
(* (without them) are false.                                           *)
(* ------------------------------------------------------------------ *)
Definition cex_isa : seg :=
  {| sid := Some (cs "ISA"); els := repeat [cs "A"] 16 |}.
Definition cex_dE : delims := {| seg_term := "~"%char; ele_term := "E"%char; subele_term := ":"%char |}.
Definition cex_d0 : delims := {| seg_term := "~"%char; ele_term := "*"%char; subele_term := "0"%char |}.

(* element separator 'E': the generated "IEA" + "E" + "0" + "E" + "A" parses to a segment with id "I" *)
Example W4_needs_trailer_ids :
  history_ok cex_dE [cex_isa] = true /\
  exists es, w_run_close (w0 cex_dE (cs "^") []) cex_dE [cex_isa] = Ok es /\
    filter (fun s => negb (is_trailer s)) es <>
    map (isa_fix cex_dE (cs "^")) (filter (fun s => negb (is_trailer s)) [cex_isa]).
Proof.
  split; [vm_compute; reflexivity|]. eexists. split; [vm_compute; reflexivity|]. vm_compute. discriminate.
Qed.

Example W2_needs_trailer_ids :
  distinct_delims cex_dE = true /\ length (cs "^") = 1 /\ free_of cex_dE (cs "^") = true /\
  history_ok cex_dE [cex_isa] = true /\
  exists es out xf, w_run_close (w0 cex_dE (cs "^") []) cex_dE [cex_isa] = Ok es /\
    run_steps cex_dE (fresh false) (map (rt cex_dE) es) = Ok (out, xf) /\ cleanup xf <> [].
Proof.
  repeat (split; [vm_compute; reflexivity|]).
  eexists; eexists; eexists. split; [vm_compute; reflexivity|]. split; [vm_compute; reflexivity|].
  vm_compute. discriminate.
Qed.

(* component separator '0': the count field of "IEA*0*A" splits into two empty components and is read back empty *)
Example W2_needs_count_digits :
  distinct_delims cex_d0 = true /\ length (cs "^") = 1 /\ free_of cex_d0 (cs "^") = true /\
  history_ok cex_d0 [cex_isa] = true /\ trailer_ids_writable cex_d0 /\
  exists es out xf, w_run_close (w0 cex_d0 (cs "^") []) cex_d0 [cex_isa] = Ok es /\
    run_steps cex_d0 (fresh false) (map (rt cex_d0) es) = Ok (out, xf) /\
    ~ Forall (fun e => env_codes e = []) out.
Proof.
  repeat (split; [vm_compute; reflexivity|]).
  split; [repeat split; vm_compute; reflexivity|].
  eexists; eexists; eexists. split; [vm_compute; reflexivity|]. split; [vm_compute; reflexivity|].
  intros F. inversion F as [|? ? _ F']. inversion F' as [|? ? E _]. vm_compute in E. discriminate E.
Qed.

(* ISA13 = "A:" (clean for an ISA, whose values are not split at the component separator): the
   generated "IEA*0*A:" is parsed into IEA02 = ["A"; ""], written as "A", which is not ISA13 *)
Definition cex_d : delims := {| seg_term := "~"%char; ele_term := "*"%char; subele_term := ":"%char |}.
Definition cex_isa_ctl (v : string) : seg :=
  {| sid := Some (cs "ISA"); els := repeat [cs "A"] 12 ++ [[cs v]] ++ repeat [cs "A"] 3 |}.

Example W2_needs_isa_ids :
  distinct_delims cex_d = true /\ length (cs "^") = 1 /\ free_of cex_d (cs "^") = true /\
  history_ok cex_d [cex_isa_ctl "A:"] = true /\ trailer_ids_writable cex_d /\ count_digits_writable cex_d /\
  exists es out xf, w_run_close (w0 cex_d (cs "^") []) cex_d [cex_isa_ctl "A:"] = Ok es /\
    run_steps cex_d (fresh false) (map (rt cex_d) es) = Ok (out, xf) /\
    ~ Forall (fun e => env_codes e = []) out.
Proof.
  repeat (split; [vm_compute; reflexivity|]).
  split; [repeat split; vm_compute; reflexivity|]. split; [vm_compute; reflexivity|].
  eexists; eexists; eexists. split; [vm_compute; reflexivity|]. split; [vm_compute; reflexivity|].
  intros F. inversion F as [|? ? _ F']. inversion F' as [|? ? E _]. vm_compute in E. discriminate E.
Qed.

(* a component separator INSIDE ISA13 is within the hypotheses (and so is read back without error) *)
Example isa13_inner_sep_ok :
  history_ok cex_d [cex_isa_ctl "A:B"] = true /\ isa_ids_writable cex_d [cex_isa_ctl "A:B"].
Proof. split; vm_compute; reflexivity. Qed.

(* non-vacuity: a real history satisfies the hypotheses *)
Example real_history_ok :
  let d := {| seg_term := "~"%char; ele_term := "*"%char; subele_term := ":"%char |} in
  let p := fun t => parse_seg d (list_ascii_of_string t) in
  let h := [p "ISA*00*          *00*          *ZZ*ZZ000          *ZZ*ZZ001          *030828*1128*U*00401*000010121*0*T*:"%string;
            p "GS*HC*ZZ000*ZZ001*20030828*1128*17*X*004010X098A1"%string; p "ST*837*11280001"%string; p "REF*87*004010X098A1"%string;
            p "SE*9*11280001"%string; p "GE*7*17"%string] in
  history_ok d h = true /\ distinct_delims d = true /\ trailer_ids_writable d /\ count_digits_writable d /\
  isa_ids_writable d h.
Proof. vm_compute. repeat split; reflexivity. Qed.

Print Assumptions writer_total. Print Assumptions writer_accepted. Print Assumptions prefix_ok. Print Assumptions writer_keeps_segments.
