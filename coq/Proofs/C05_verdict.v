(* C05_verdict.v — the verdict of x12n_document is "no validation failure and get_error_count() = 0", and
   what get_error_count() = 0 says about the error tree. *)
From Coq Require Import String Lia.
From PX.Lib Require Import Base PyStr PyInt.
From PX.Model Require Import Path Segment Errh Ack997.
From PX.Model Require Driver.
From PX.Spec Require Import C06_spec C05_spec.

Local Notation l := list_ascii_of_string.

(* ------------------------------------------------------------------ *)
(* sums and counts that are zero                                       *)
(* ------------------------------------------------------------------ *)
Lemma fold_add_acc xs : forall a, fold_left Nat.add xs a = a + fold_left Nat.add xs 0.
Proof.
  induction xs as [|x r IH]; intros a; cbn [fold_left]; [lia|]. rewrite (IH (a + x)), (IH (0 + x)). lia.
Qed.

Lemma sum_nat_0 xs : sum_nat xs = 0 <-> Forall (fun n => n = 0) xs.
Proof.
  unfold sum_nat. induction xs as [|x r IH]; cbn [fold_left]; [split; [constructor|reflexivity]|].
  rewrite fold_add_acc. split.
  - intros H. constructor; [lia|]. apply IH. lia.
  - intros H. inversion H as [|? ? H1 H2]; subst. apply IH in H2. lia.
Qed.

Lemma count_pos_0 xs : count_pos xs = 0 <-> Forall (fun n => n = 0) xs.
Proof.
  unfold count_pos. induction xs as [|x r IH]; cbn [filter]; [split; [constructor|reflexivity]|].
  destruct (0 <? x) eqn:E; cbn [length].
  - split; [discriminate|]. intros H. inversion H; subst. discriminate.
  - apply Nat.ltb_ge in E. rewrite IH. split; intros H; [constructor; [lia|exact H]|inversion H; assumption].
Qed.

(* "the count at every index is 0" = "every node the indices refer to has count 0" *)
Lemma counts_at_0 {A} (heap : list A) (cnt : A -> nat) ids :
  Forall (fun n => n = 0) (map (fun i => match nth_error heap i with Some n => cnt n | None => 0 end) ids) <->
  Forall (fun n => cnt n = 0) (nodes_at heap ids).
Proof.
  unfold nodes_at. induction ids as [|i r IH]; cbn [map flat_map]; [split; constructor|].
  rewrite Forall_app, <- IH. split.
  - intros H. inversion H as [|? ? H1 H2]; subst. split; [|exact H2]. destruct (nth_error heap i); constructor; auto.
  - intros [H1 H2]. constructor; [|exact H2]. destruct (nth_error heap i); [inversion H1; assumption|reflexivity].
Qed.

Lemma Forall_iff {A} (P Q : A -> Prop) xs : (forall x, P x <-> Q x) -> (Forall P xs <-> Forall Q xs).
Proof. intros H. split; apply Forall_impl; intros x; apply H. Qed.

Lemma len0 {A} (xs : list A) : length xs = 0 <-> xs = [].
Proof. destruct xs; split; try reflexivity; discriminate. Qed.

(* ------------------------------------------------------------------ *)
(* node by node                                                        *)
(* ------------------------------------------------------------------ *)
Lemma eles_sum_0 h ids : sum_nat (map (ele_count_at h) ids) = 0 <-> eles_clean h ids.
Proof.
  rewrite sum_nat_0. unfold ele_count_at, eles_clean. rewrite (counts_at_0 (h_ele h) ele_err_count).
  apply Forall_iff. intros e. apply len0.
Qed.
Lemma eles_pos_0 h ids : count_pos (map (ele_count_at h) ids) = 0 <-> eles_clean h ids.
Proof.
  rewrite count_pos_0. unfold ele_count_at, eles_clean. rewrite (counts_at_0 (h_ele h) ele_err_count).
  apply Forall_iff. intros e. apply len0.
Qed.

Lemma seg_count_0 h n : seg_err_count h n = 0 <-> seg_clean h n.
Proof.
  unfold seg_err_count, seg_clean, seg_child_err_count. rewrite <- eles_pos_0, <- len0.
  destruct (count_pos _) as [|k]; cbn [Nat.ltb Nat.leb]; lia.
Qed.

Lemma st_count_0 h t : st_err_count h t = 0 <-> st_clean h t.
Proof.
  unfold st_err_count, st_clean, st_child_err_count.
  rewrite <- (Forall_iff _ _ _ (seg_count_0 h)), <- (counts_at_0 (h_seg h) (seg_err_count h)), <- count_pos_0, <- len0.
  fold (seg_count_at h). destruct (count_pos _) as [|k]; cbn [Nat.ltb Nat.leb]; lia.
Qed.

Lemma gs_count_0 h g : gs_error_count h g = 0 <-> gs_clean h g.
Proof.
  unfold gs_error_count, gs_clean.
  rewrite <- (Forall_iff _ _ _ (st_count_0 h)), <- (counts_at_0 (h_st h) (st_err_count h)), <- sum_nat_0, <- eles_sum_0, <- len0.
  fold (st_count_at h). lia.
Qed.

Lemma isa_count_0 h i : isa_error_count h i = 0 <-> isa_clean h i.
Proof.
  unfold isa_error_count, isa_clean.
  rewrite <- (Forall_iff _ _ _ (gs_count_0 h)), <- (counts_at_0 (h_gs h) (gs_error_count h)), <- sum_nat_0, <- eles_sum_0, <- len0.
  fold (gs_count_at h). lia.
Qed.

Theorem error_count_zero h : get_error_count h = 0 <-> heap_clean h.
Proof.
  unfold get_error_count, heap_clean. rewrite sum_nat_0, Forall_map. apply Forall_iff. intros i. apply isa_count_0.
Qed.

(* ------------------------------------------------------------------ *)
(* the verdict                                                         *)
(* ------------------------------------------------------------------ *)
Lemma d_bind_ok {A B} (m : Driver.D A) (f : A -> Driver.D B) s s' b :
  Driver.d_bind m f s = (s', Ok b) -> exists s1 a, m s = (s1, Ok a) /\ f a s1 = (s', Ok b).
Proof. unfold Driver.d_bind. destruct (m s) as [s1 [a|e]]; [eauto|discriminate]. Qed.

(* x12n_document returns True iff no segment validation failed and the handler counted no error; both are read
   from the FINAL state *)
Theorem verdict_definition s s' b :
  Driver.finish s = (s', Ok b) ->
  (b = true <-> Driver.ds_valid s' = true /\ get_error_count (Driver.ds_errh s') = 0).
Proof.
  unfold Driver.finish. intros H.
  apply d_bind_ok in H as (s1 & u1 & _ & H). apply d_bind_ok in H as (s2 & u2 & _ & H).
  apply d_bind_ok in H as (s3 & st & H3 & H). unfold Driver.d_get in H3. injection H3 as <- <-.
  unfold Driver.d_ret in H. injection H as <- <-.
  destruct (Driver.ds_valid s2); cbn [negb orb].
  - destruct (get_error_count (Driver.ds_errh s2)) as [|k]; cbn [Nat.ltb Nat.leb negb]; split; try tauto; try discriminate.
    intros [_ E]. discriminate.
  - split; [discriminate|]. intros [E _]. discriminate.
Qed.

Corollary verdict_true_tree_clean s s' :
  Driver.finish s = (s', Ok true) -> Driver.ds_valid s' = true /\ heap_clean (Driver.ds_errh s').
Proof.
  intros H. apply verdict_definition in H. destruct H as [H _]. destruct (H eq_refl) as [V E].
  split; [exact V|]. apply error_count_zero. exact E.
Qed.

(* ------------------------------------------------------------------ *)
(* no counted error => every group and every set would be accepted     *)
(* ------------------------------------------------------------------ *)
Lemma Forall_flat_map_in {A B} (P : B -> Prop) (f : A -> list B) xs :
  Forall (fun x => Forall P (f x)) xs -> Forall P (flat_map f xs).
Proof. induction 1; cbn [flat_map]; [constructor|apply Forall_app; auto]. Qed.

Lemma existsb_false_nodes {A} (heap : list A) (cnt : A -> nat) ids :
  Forall (fun n => cnt n = 0) (nodes_at heap ids) ->
  existsb (fun i => 0 <? match nth_error heap i with Some n => cnt n | None => 0 end) ids = false.
Proof.
  unfold nodes_at. induction ids as [|i r IH]; cbn [flat_map existsb]; [reflexivity|].
  rewrite Forall_app. intros [H1 H2]. rewrite (IH H2), orb_false_r.
  destruct (nth_error heap i); [inversion H1; subst|reflexivity]. match goal with H : cnt _ = 0 |- _ => rewrite H end. reflexivity.
Qed.

Theorem error_free_all_accepted h : get_error_count h = 0 ->
  Forall (fun g => gs_ack_code h g = l "A" /\
                   Forall (fun t => st_err_count h t = 0) (nodes_at (h_st h) (gn_children g))) (visited_gs h).
Proof.
  intros H. apply error_count_zero in H. unfold heap_clean in H. unfold visited_gs.
  apply Forall_flat_map_in. revert H. apply Forall_impl. intros i (_ & _ & G). revert G. apply Forall_impl.
  intros g (E & _ & S).
  assert (S0 : Forall (fun t => st_err_count h t = 0) (nodes_at (h_st h) (gn_children g))).
  { revert S. apply Forall_impl. intros t. apply st_count_0. }
  split; [|exact S0]. unfold gs_ack_code, st_count_at.
  rewrite (existsb_false_nodes (h_st h) (st_err_count h) _ S0), E. reflexivity.
Qed.

Print Assumptions error_count_zero.
Print Assumptions verdict_definition.
Print Assumptions verdict_true_tree_clean.
Print Assumptions error_free_all_accepted.
