(* C07_driver_maps.v — `map_ok` (Spec/C07_spec.v) evaluated on the shipped maps, `env_ok` for the
   environment built from them, and the finding C07-no-isa evaluated on the model.

   map_ok is true on every shipped map file except
     277.5010.X212, 820.4010.X061.A1, 830.4010.PS   walker_first_wf is false (a loop that starts with a loop
                                                    has further child loops: only the weaker
                                                    walker_entry_gen is available for them, see
                                                    Proofs/C07_walker_maps.v); 830.4010.PS also fails
                                                    valid_wf.  NOT findings of the driver: no raising
                                                    document was found on them (scratch evaluation), the
                                                    proof just does not cover them.
   841.4010.XXXC does not load (EngineError, known finding C16-841-unloadable): allowed by env_ok.
   The *.v2 maps (ST_LOOP at the root, no envelope) and comp_test are `unusable`: none of the driver's
   fixed paths resolves in them. *)
From Coq Require Import String.
From PX.Lib Require Import Base PyStr Xml.
From PX.Gen Require Import MapRegexes.
From PX.Gen.Maps Require M_dataele M_codes M_maps.
From PX.Model Require Import Segment MapLoad MapTree Driver.
From PX.Spec Require C01_spec.
From PX.Spec Require Import C07_walker_wf C07_valid_wf C07_spec.

Definition sl (s : string) : str := list_ascii_of_string s.

Definition load_tree (t : xml) : result xmap := load_map map_regexes M_dataele.tree M_codes.tree None (sl "B") t.

Definition map_ok_tree (t : xml) : bool :=
  match load_tree t with Ok m => map_ok m | Raise _ => false end.
Definition full_ok_tree (t : xml) : bool :=
  match load_tree t with Ok m => full_ok m | Raise _ => false end.

(* ---- the maps asked for: the full condition holds (not merely `unusable`) ---- *)
From PX.Gen.Maps Require M_x12_control_00401.
Example ok_x12_control_00401 : map_ok_tree M_x12_control_00401.tree = true.
Proof. vm_compute. reflexivity. Qed.
Example full_x12_control_00401 : full_ok_tree M_x12_control_00401.tree = true.
Proof. vm_compute. reflexivity. Qed.

From PX.Gen.Maps Require M_x12_control_00501.
Example ok_x12_control_00501 : map_ok_tree M_x12_control_00501.tree = true.
Proof. vm_compute. reflexivity. Qed.
Example full_x12_control_00501 : full_ok_tree M_x12_control_00501.tree = true.
Proof. vm_compute. reflexivity. Qed.

From PX.Gen.Maps Require M_837_4010_X098_A1.
Example ok_837_4010_X098_A1 : map_ok_tree M_837_4010_X098_A1.tree = true.
Proof. vm_compute. reflexivity. Qed.
Example full_837_4010_X098_A1 : full_ok_tree M_837_4010_X098_A1.tree = true.
Proof. vm_compute. reflexivity. Qed.

From PX.Gen.Maps Require M_837_5010_X222_A1.
Example ok_837_5010_X222_A1 : map_ok_tree M_837_5010_X222_A1.tree = true.
Proof. vm_compute. reflexivity. Qed.
Example full_837_5010_X222_A1 : full_ok_tree M_837_5010_X222_A1.tree = true.
Proof. vm_compute. reflexivity. Qed.

From PX.Gen.Maps Require M_834_5010_X220_A1.
Example ok_834_5010_X220_A1 : map_ok_tree M_834_5010_X220_A1.tree = true.
Proof. vm_compute. reflexivity. Qed.
Example full_834_5010_X220_A1 : full_ok_tree M_834_5010_X220_A1.tree = true.
Proof. vm_compute. reflexivity. Qed.

From PX.Gen.Maps Require M_835_4010_X091_A1.
Example ok_835_4010_X091_A1 : map_ok_tree M_835_4010_X091_A1.tree = true.
Proof. vm_compute. reflexivity. Qed.
Example full_835_4010_X091_A1 : full_ok_tree M_835_4010_X091_A1.tree = true.
Proof. vm_compute. reflexivity. Qed.

From PX.Gen.Maps Require M_270_4010_X092_A1.
Example ok_270_4010_X092_A1 : map_ok_tree M_270_4010_X092_A1.tree = true.
Proof. vm_compute. reflexivity. Qed.
Example full_270_4010_X092_A1 : full_ok_tree M_270_4010_X092_A1.tree = true.
Proof. vm_compute. reflexivity. Qed.

From PX.Gen.Maps Require M_278_4010_X094_A1.
Example ok_278_4010_X094_A1 : map_ok_tree M_278_4010_X094_A1.tree = true.
Proof. vm_compute. reflexivity. Qed.
Example full_278_4010_X094_A1 : full_ok_tree M_278_4010_X094_A1.tree = true.
Proof. vm_compute. reflexivity. Qed.

From PX.Gen.Maps Require M_278_4010_X094_27_A1.
Example ok_278_4010_X094_27_A1 : map_ok_tree M_278_4010_X094_27_A1.tree = true.
Proof. vm_compute. reflexivity. Qed.
Example full_278_4010_X094_27_A1 : full_ok_tree M_278_4010_X094_27_A1.tree = true.
Proof. vm_compute. reflexivity. Qed.

From PX.Gen.Maps Require M_997_4010.
Example ok_997_4010 : map_ok_tree M_997_4010.tree = true.
Proof. vm_compute. reflexivity. Qed.
Example full_997_4010 : full_ok_tree M_997_4010.tree = true.
Proof. vm_compute. reflexivity. Qed.

From PX.Gen.Maps Require M_999_5010.
Example ok_999_5010 : map_ok_tree M_999_5010.tree = true.
Proof. vm_compute. reflexivity. Qed.
Example full_999_5010 : full_ok_tree M_999_5010.tree = true.
Proof. vm_compute. reflexivity. Qed.

From PX.Gen.Maps Require M_277_5010_X214.
Example ok_277_5010_X214 : map_ok_tree M_277_5010_X214.tree = true.
Proof. vm_compute. reflexivity. Qed.
Example full_277_5010_X214 : full_ok_tree M_277_5010_X214.tree = true.
Proof. vm_compute. reflexivity. Qed.

(* ---- the other shipped files ---- *)
From PX.Gen.Maps Require M_271_4010_X092_A1.
Example ok_271_4010_X092_A1 : map_ok_tree M_271_4010_X092_A1.tree = true.
Proof. vm_compute. reflexivity. Qed.

From PX.Gen.Maps Require M_276_4010_X093_A1.
Example ok_276_4010_X093_A1 : map_ok_tree M_276_4010_X093_A1.tree = true.
Proof. vm_compute. reflexivity. Qed.

From PX.Gen.Maps Require M_277U_4010_X070.
Example ok_277U_4010_X070 : map_ok_tree M_277U_4010_X070.tree = true.
Proof. vm_compute. reflexivity. Qed.

From PX.Gen.Maps Require M_277_4010_X093_A1.
Example ok_277_4010_X093_A1 : map_ok_tree M_277_4010_X093_A1.tree = true.
Proof. vm_compute. reflexivity. Qed.

From PX.Gen.Maps Require M_820_5010_X218.
Example ok_820_5010_X218 : map_ok_tree M_820_5010_X218.tree = true.
Proof. vm_compute. reflexivity. Qed.

From PX.Gen.Maps Require M_820_5010_X218_v2.
Example ok_820_5010_X218_v2 : map_ok_tree M_820_5010_X218_v2.tree = true.
Proof. vm_compute. reflexivity. Qed.

From PX.Gen.Maps Require M_834_4010_X095_A1.
Example ok_834_4010_X095_A1 : map_ok_tree M_834_4010_X095_A1.tree = true.
Proof. vm_compute. reflexivity. Qed.

From PX.Gen.Maps Require M_834_5010_X220_A1_v2.
Example ok_834_5010_X220_A1_v2 : map_ok_tree M_834_5010_X220_A1_v2.tree = true.
Proof. vm_compute. reflexivity. Qed.

From PX.Gen.Maps Require M_835_5010_X221_A1.
Example ok_835_5010_X221_A1 : map_ok_tree M_835_5010_X221_A1.tree = true.
Proof. vm_compute. reflexivity. Qed.

From PX.Gen.Maps Require M_835_5010_X221_A1_v2.
Example ok_835_5010_X221_A1_v2 : map_ok_tree M_835_5010_X221_A1_v2.tree = true.
Proof. vm_compute. reflexivity. Qed.

From PX.Gen.Maps Require M_837Q3_I_5010_X223_A1.
Example ok_837Q3_I_5010_X223_A1 : map_ok_tree M_837Q3_I_5010_X223_A1.tree = true.
Proof. vm_compute. reflexivity. Qed.

From PX.Gen.Maps Require M_837Q3_I_5010_X223_A1_v2.
Example ok_837Q3_I_5010_X223_A1_v2 : map_ok_tree M_837Q3_I_5010_X223_A1_v2.tree = true.
Proof. vm_compute. reflexivity. Qed.

From PX.Gen.Maps Require M_837_4010_X096_A1.
Example ok_837_4010_X096_A1 : map_ok_tree M_837_4010_X096_A1.tree = true.
Proof. vm_compute. reflexivity. Qed.

From PX.Gen.Maps Require M_837_4010_X097_A1.
Example ok_837_4010_X097_A1 : map_ok_tree M_837_4010_X097_A1.tree = true.
Proof. vm_compute. reflexivity. Qed.

From PX.Gen.Maps Require M_841_4010_XXXC.
Example noload_841_4010_XXXC : load_tree M_841_4010_XXXC.tree = Raise EngineError.
Proof. vm_compute. reflexivity. Qed.

From PX.Gen.Maps Require M_999_5010X231_A1.
Example ok_999_5010X231_A1 : map_ok_tree M_999_5010X231_A1.tree = true.
Proof. vm_compute. reflexivity. Qed.

From PX.Gen.Maps Require M_comp_test.
Example ok_comp_test : map_ok_tree M_comp_test.tree = true.
Proof. vm_compute. reflexivity. Qed.

(* ---- not covered ---- *)
From PX.Gen.Maps Require M_277_5010_X212.
Example not_ok_277_5010_X212 : map_ok_tree M_277_5010_X212.tree = false.
Proof. vm_compute. reflexivity. Qed.

From PX.Gen.Maps Require M_820_4010_X061_A1.
Example not_ok_820_4010_X061_A1 : map_ok_tree M_820_4010_X061_A1.tree = false.
Proof. vm_compute. reflexivity. Qed.

From PX.Gen.Maps Require M_830_4010_PS.
Example not_ok_830_4010_PS : map_ok_tree M_830_4010_PS.tree = false.
Proof. vm_compute. reflexivity. Qed.

(* ---- env_ok for the shipped configuration (without the three maps above) ---- *)
Definition shipped : list (string * xml) := [
  ("270.4010.X092.A1.xml"%string, M_270_4010_X092_A1.tree);
  ("271.4010.X092.A1.xml"%string, M_271_4010_X092_A1.tree);
  ("276.4010.X093.A1.xml"%string, M_276_4010_X093_A1.tree);
  ("277U.4010.X070.xml"%string, M_277U_4010_X070.tree);
  ("277.4010.X093.A1.xml"%string, M_277_4010_X093_A1.tree);
  ("277.5010.X214.xml"%string, M_277_5010_X214.tree);
  ("278.4010.X094.27.A1.xml"%string, M_278_4010_X094_27_A1.tree);
  ("278.4010.X094.A1.xml"%string, M_278_4010_X094_A1.tree);
  ("820.5010.X218.xml"%string, M_820_5010_X218.tree);
  ("820.5010.X218.v2.xml"%string, M_820_5010_X218_v2.tree);
  ("834.4010.X095.A1.xml"%string, M_834_4010_X095_A1.tree);
  ("834.5010.X220.A1.xml"%string, M_834_5010_X220_A1.tree);
  ("834.5010.X220.A1.v2.xml"%string, M_834_5010_X220_A1_v2.tree);
  ("835.4010.X091.A1.xml"%string, M_835_4010_X091_A1.tree);
  ("835.5010.X221.A1.xml"%string, M_835_5010_X221_A1.tree);
  ("835.5010.X221.A1.v2.xml"%string, M_835_5010_X221_A1_v2.tree);
  ("837Q3.I.5010.X223.A1.xml"%string, M_837Q3_I_5010_X223_A1.tree);
  ("837Q3.I.5010.X223.A1.v2.xml"%string, M_837Q3_I_5010_X223_A1_v2.tree);
  ("837.4010.X096.A1.xml"%string, M_837_4010_X096_A1.tree);
  ("837.4010.X097.A1.xml"%string, M_837_4010_X097_A1.tree);
  ("837.4010.X098.A1.xml"%string, M_837_4010_X098_A1.tree);
  ("837.5010.X222.A1.xml"%string, M_837_5010_X222_A1.tree);
  ("841.4010.XXXC.xml"%string, M_841_4010_XXXC.tree);
  ("997.4010.xml"%string, M_997_4010.tree);
  ("999.5010.xml"%string, M_999_5010.tree);
  ("999.5010X231.A1.xml"%string, M_999_5010X231_A1.tree);
  ("codes.xml"%string, M_codes.tree);
  ("comp_test.xml"%string, M_comp_test.tree);
  ("dataele.xml"%string, M_dataele.tree);
  ("maps.xml"%string, M_maps.tree);
  ("x12.control.00401.xml"%string, M_x12_control_00401.tree);
  ("x12.control.00501.xml"%string, M_x12_control_00501.tree)
].

Fixpoint assoc_load (e : list (string * xml)) (name : str) : result xmap :=
  match e with
  | [] => Raise EngineError                       (* no such map installed *)
  | (n, t) :: rest => if str_eqb (sl n) name then load_tree t else assoc_load rest name
  end.

Definition entry_ok (p : string * xml) : bool :=
  match load_tree (snd p) with Ok m => map_ok m | Raise e => allowed e end.

Lemma assoc_env_ok e ix : forallb entry_ok e = true -> env_ok (assoc_load e) (Ok ix).
Proof.
  intros H. split; [|split].
  - induction e as [|[n t] e IH]; intros name m L; cbn [assoc_load] in L; [discriminate L|].
    cbn [forallb] in H. apply andb_true_iff in H as [H1 H2].
    destruct (str_eqb (sl n) name); [|exact (IH H2 name m L)].
    unfold entry_ok in H1. cbn [snd] in H1. rewrite L in H1. exact H1.
  - induction e as [|[n t] e IH]; intros name x L; cbn [assoc_load] in L; [injection L as <-; reflexivity|].
    cbn [forallb] in H. apply andb_true_iff in H as [H1 H2].
    destruct (str_eqb (sl n) name); [|exact (IH H2 name x L)].
    unfold entry_ok in H1. cbn [snd] in H1. rewrite L in H1. exact H1.
  - intros x L. discriminate L.
Qed.

Definition shipped_load : str -> result xmap := assoc_load shipped.
Definition shipped_idx : result (list map_entry) := Ok (load_index M_maps.tree).

Theorem shipped_env_ok : env_ok shipped_load shipped_idx.
Proof. apply assoc_env_ok. vm_compute. reflexivity. Qed.

(* ---- finding C07-no-isa: the segment terminator is the letter S ---- *)
(* header_ok accepts the text (it starts with ISA, 106 characters, version 00401); the terminator
   declared by character 106 is `S`, so the raw reader cuts the header into `I`, `A*00*...`,
   `ENDER...`; none of them is an ISA, no interchange node exists in the error handler when the IEA
   arrives, and the reader's error for it (isa 001) makes err_handler.isa_error dereference
   cur_isa_node = None. *)
Definition no_isa_text : str :=
  sl "ISA*00*          *00*          *ZZ*SENDER         *ZZ*RECEIVER       *030101*1253*U*00401*000000001*0*P*:SIEA*1*000000001S".

Example no_isa_header_ok : C01_spec.header_ok no_isa_text = true.
Proof. vm_compute. reflexivity. Qed.

Example no_isa_raises : snd (run_document_gen shipped_load shipped_idx no_isa_text) = Raise AttributeError.
Proof. vm_compute. reflexivity. Qed.

Example no_isa_not_plain : plain_delims no_isa_text = false.
Proof. vm_compute. reflexivity. Qed.

(* ---- the theorem on the shipped configuration ---- *)
From PX.Proofs Require Import C07_driver.

Theorem shipped_total :
  forall text, plain_delims text = true ->
    match snd (run_document_gen shipped_load shipped_idx text) with Ok _ => True | Raise e => allowed e = true end.
Proof. intros text P. apply driver_total_plain; [exact shipped_env_ok | exact P]. Qed.

Print Assumptions shipped_total.
