(* RegexLemmas.v — facts about the backtracking matcher used to characterise
   concrete (generated) regexes. *)
From PX.Lib Require Import Base PyStr Regex.

Lemma try_down_lt {R} n mn (f : nat -> option R) : n < mn -> try_down n mn f = None.
Proof.
  intros H. apply Nat.ltb_lt in H. destruct n; cbn [try_down]; rewrite H; reflexivity.
Qed.

Lemma try_down_top {R} n mn (f : nat -> option R) r :
  mn <= n -> f n = Some r -> try_down n mn f = Some r.
Proof.
  intros H E. assert (L : (n <? mn) = false) by (apply Nat.ltb_ge; assumption).
  destruct n; cbn [try_down]; rewrite L, E; reflexivity.
Qed.

Lemma try_down_step {R} n mn (f : nat -> option R) :
  mn <= S n -> f (S n) = None -> try_down (S n) mn f = try_down n mn f.
Proof.
  intros H E. assert (L : (S n <? mn) = false) by (apply Nat.ltb_ge; assumption).
  cbn [try_down]. rewrite L, E. reflexivity.
Qed.

Lemma try_down_none {R} n mn (f : nat -> option R) :
  (forall j, mn <= j <= n -> f j = None) -> try_down n mn f = None.
Proof.
  induction n as [|n IH]; intros H.
  - cbn [try_down]. destruct (0 <? mn) eqn:L; [reflexivity|]. apply Nat.ltb_ge in L. rewrite H by lia. reflexivity.
  - destruct (Nat.lt_ge_cases (S n) mn) as [L|L]; [apply try_down_lt; assumption|].
    rewrite try_down_step by (auto; apply H; lia). apply IH. intros j Hj. apply H. lia.
Qed.

(* unbounded span *)
Lemma span_le c cap s : span c cap s <= length s.
Proof.
  revert cap; induction s as [|x s IH]; intros cap; simpl; [lia|].
  destruct cap as [[|k]|]; try lia; destruct (cls_mem c x); simpl; try lia;
    match goal with |- S (span _ ?q _) <= _ => specialize (IH q); lia end.
Qed.

Lemma span_cap c k s : span c (Some k) s <= k.
Proof.
  revert k; induction s as [|x s IH]; intros k; simpl; [lia|].
  destruct k as [|k]; [lia|]. destruct (cls_mem c x); [|lia]. specialize (IH k). lia.
Qed.

Lemma span_all c s : span c None s = length s <-> forallb (cls_mem c) s = true.
Proof.
  induction s as [|x s IH]; simpl; [tauto|].
  destruct (cls_mem c x); simpl.
  - rewrite <- IH. split; lia.
  - split; [lia | discriminate].
Qed.

Lemma span_firstn c s : forallb (cls_mem c) (firstn (span c None s) s) = true.
Proof.
  induction s as [|x s IH]; simpl; [reflexivity|].
  destruct (cls_mem c x) eqn:E; simpl; [rewrite E, IH|]; reflexivity.
Qed.

Lemma span_next c s : match skipn (span c None s) s with [] => True | y :: _ => cls_mem c y = false end.
Proof.
  induction s as [|x s IH]; simpl; [exact I|].
  destruct (cls_mem c x) eqn:E; simpl; [exact IH | exact E].
Qed.

Lemma span_zero c cap x s : cls_mem c x = false -> span c cap (x :: s) = 0.
Proof. intros E. simpl. destruct cap as [[|k]|]; rewrite ?E; reflexivity. Qed.

Lemma span_nil c cap : span c cap [] = 0.
Proof. reflexivity. Qed.

Lemma firstn_eq_all {A} n (s : list A) : firstn n s = s <-> length s <= n.
Proof.
  split.
  - intros H. rewrite <- H at 1. rewrite firstn_length. lia.
  - apply firstn_all2.
Qed.

(* A pattern anchored with ^ can only match at position 0, so `search`
   is one attempt at position 0. *)
Lemma search_from_bol r pos s :
  search_from (RSeq RBol r) (S pos) s = None.
Proof.
  revert pos; induction s as [|x s IH]; intros pos; simpl; unfold match_at; simpl; [reflexivity|].
  apply IH.
Qed.

Lemma search_bol r s : search (RSeq RBol r) s = match_at (RSeq RBol r) 0 s.
Proof.
  unfold search. destruct s as [|x s]; simpl.
  - destruct (match_at (RSeq RBol r) 0 []); reflexivity.
  - destruct (match_at (RSeq RBol r) 0 (x :: s)); [reflexivity|]. apply search_from_bol.
Qed.

(* searching for one character of a class / a run of them *)
Lemma search_from_cls_none c pos s :
  existsb (cls_mem c) s = false -> search_from (RCls c) pos s = None.
Proof.
  revert pos; induction s as [|x s IH]; intros pos H; simpl in *; [reflexivity|].
  apply orb_false_iff in H as [H1 H2]. unfold match_at; simpl. rewrite H1. apply IH, H2.
Qed.

Lemma search_from_cls_some c pos s :
  existsb (cls_mem c) s = true ->
  exists i, i < length s /\ search_from (RCls c) pos s = Some (pos + i, S (pos + i), []).
Proof.
  revert pos; induction s as [|x s IH]; intros pos H; simpl in *; [discriminate|].
  unfold match_at; simpl. destruct (cls_mem c x) eqn:E.
  - exists 0. split; [lia|]. rewrite Nat.add_0_r. reflexivity.
  - simpl in H. destruct (IH (S pos) H) as [i [Hi Hs]]. exists (S i). split; [lia|].
    rewrite Hs. replace (S pos + i) with (pos + S i) by lia. reflexivity.
Qed.

Lemma match_at_rep1 c pos s :
  match_at (RRep c 1 None) pos s =
  if span c None s =? 0 then None else Some (pos, pos + span c None s, []).
Proof.
  unfold match_at; cbn [m]. destruct (span c None s) as [|n] eqn:E; cbn [Nat.eqb].
  - apply try_down_lt; lia.
  - apply try_down_top; [lia | reflexivity].
Qed.

Lemma search_from_rep1_none c pos s :
  existsb (cls_mem c) s = false -> search_from (RRep c 1 None) pos s = None.
Proof.
  revert pos; induction s as [|x s IH]; intros pos H; cbn [search_from]; rewrite match_at_rep1.
  - reflexivity.
  - simpl in H. apply orb_false_iff in H as [H1 H2]. rewrite span_zero by assumption. simpl. apply IH, H2.
Qed.

Lemma search_from_rep1_some c pos s :
  existsb (cls_mem c) s = true ->
  exists i n, 0 < n /\ i + n <= length s /\
    search_from (RRep c 1 None) pos s = Some (pos + i, pos + i + n, []).
Proof.
  revert pos; induction s as [|x s IH]; intros pos H; [discriminate|].
  cbn [search_from]. rewrite match_at_rep1. destruct (cls_mem c x) eqn:E.
  - exists 0, (span c None (x :: s)). pose proof (span_le c None (x :: s)).
    assert (0 < span c None (x :: s)) by (simpl; rewrite E; lia).
    destruct (span c None (x :: s)) eqn:E2; [lia|]. simpl Nat.eqb. cbv iota.
    split; [lia|]. split; [simpl in *; lia|]. rewrite !Nat.add_0_r. reflexivity.
  - rewrite span_zero by assumption. simpl. simpl in H. rewrite E in H. simpl in H.
    destruct (IH (S pos) H) as [i [n [Hn [Hl Hs]]]]. exists (S i), n. split; [assumption|].
    split; [simpl; lia|]. rewrite Hs. replace (S pos + i) with (pos + S i) by lia. reflexivity.
Qed.

Lemma group0_nonempty (val : str) st en cs0 :
  st < en -> st < length val -> group0 val (st, en, cs0) <> [].
Proof.
  intros H1 H2. unfold group0. intros E.
  assert (L : length (firstn (en - st) (skipn st val)) = 0) by (rewrite E; reflexivity).
  rewrite firstn_length, skipn_length in L. lia.
Qed.

(* one-step unfolding equations, to keep sub-terms folded in proofs *)
Lemma m_seq {R} a b p s cs (k : nat -> str -> caps -> option R) :
  m (RSeq a b) p s cs k = m a p s cs (fun p' s' cs' => m b p' s' cs' k).
Proof. reflexivity. Qed.
Lemma m_alt {R} a b p s cs (k : nat -> str -> caps -> option R) :
  m (RAlt a b) p s cs k = match m a p s cs k with Some x => Some x | None => m b p s cs k end.
Proof. reflexivity. Qed.
Lemma m_opt {R} a p s cs (k : nat -> str -> caps -> option R) :
  m (ROpt a) p s cs k = match m a p s cs k with Some x => Some x | None => k p s cs end.
Proof. reflexivity. Qed.
Lemma m_rep {R} c mn mx p s cs (k : nat -> str -> caps -> option R) :
  m (RRep c mn mx) p s cs k = try_down (span c mx s) mn (fun n => k (p + n) (skipn n s) cs).
Proof. reflexivity. Qed.
Lemma m_cls {R} c p s cs (k : nat -> str -> caps -> option R) :
  m (RCls c) p s cs k = match s with x :: s' => if cls_mem c x then k (S p) s' cs else None | [] => None end.
Proof. reflexivity. Qed.
Lemma m_group {R} name a p s cs (k : nat -> str -> caps -> option R) :
  m (RGroup name a) p s cs k = m a p s cs (fun p' s' cs' => k p' s' ((name, firstn (p' - p) s) :: cs')).
Proof. reflexivity. Qed.
Lemma m_bol {R} p s cs (k : nat -> str -> caps -> option R) :
  m RBol p s cs k = if p =? 0 then k p s cs else None.
Proof. reflexivity. Qed.
