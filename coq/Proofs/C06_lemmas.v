(* C06_lemmas.v — tools for C06_ack: one-step inversion of the state+exception monad, facts about the
   decimal printers and about parsing short literal texts, and the "recount" lemmas for C06_spec. *)
From Coq Require Import String Lia.
From PX.Lib Require Import Base PyStr PyInt.
From PX.Gen Require Import SrcConsts.
From PX.Model Require Import Show Path Segment Raw Reader Writer Errh Ack997 Ack999.
From PX.Spec Require Import C01_spec C04_spec C11_spec C06_spec.
From PX.Proofs Require Import C01_roundtrip C04_reader C11_writer.

Local Notation l := list_ascii_of_string.

(* ------------------------------------------------------------------ *)
(* the monads, one step at a time                                      *)
(* ------------------------------------------------------------------ *)
Lemma rbind_ok {A B} (r : result A) (f : A -> result B) b :
  bind r f = Ok b -> exists a, r = Ok a /\ f a = Ok b.
Proof. destruct r as [a|e]; cbn [bind]; [eauto|discriminate]. Qed.

Lemma bind_ok {S A B} (m : SE S A) (f : A -> SE S B) s s' b :
  se_bind m f s = (s', Ok b) -> exists s1 a, m s = (s1, Ok a) /\ f a s1 = (s', Ok b).
Proof. unfold se_bind. destruct (m s) as [s1 [a|e]]; [eauto|discriminate]. Qed.

Lemma lift_ok {S A} (r : result A) (s s' : S) a : se_lift r s = (s', Ok a) -> s' = s /\ r = Ok a.
Proof. unfold se_lift. intros H. injection H as -> ->. auto. Qed.
Lemma get_ok {S} (s s' a : S) : se_get s = (s', Ok a) -> s' = s /\ a = s.
Proof. unfold se_get. intros H. injection H as -> ->. auto. Qed.
Lemma mod_ok {S} (f : S -> S) s s' a : se_mod f s = (s', Ok a) -> s' = f s.
Proof. unfold se_mod. intros H. injection H as ->. auto. Qed.
Lemma ret_ok {S A} (x : A) (s s' : S) a : se_ret x s = (s', Ok a) -> s' = s /\ a = x.
Proof. unfold se_ret. intros H. injection H as -> ->. auto. Qed.
Lemma raise_ok {S A} e (s s' : S) (a : A) : se_raise e s = (s', Ok a) -> False.
Proof. unfold se_raise. discriminate. Qed.
Lemma deref_ok {S A} (o : option A) (s s' : S) a : deref o s = (s', Ok a) -> s' = s /\ o = Some a.
Proof. unfold deref. intros H. apply lift_ok in H as [-> H]. destruct o; [injection H as ->; auto|discriminate]. Qed.

Lemma iter_inv {S A} (I : S -> Prop) (f : A -> SE S unit) :
  (forall x s s' u, I s -> f x s = (s', Ok u) -> I s') ->
  forall xs s s' u, I s -> se_iter f xs s = (s', Ok u) -> I s'.
Proof.
  intros Hf. induction xs as [|x r IH]; intros s s' u Hs H; cbn [se_iter] in H.
  - apply ret_ok in H as [-> _]. exact Hs.
  - apply bind_ok in H as (s1 & a & H1 & H2). eapply IH; [|exact H2]. eapply Hf; eauto.
Qed.

(* decompose  H : (dos x <- m; k) s = (s', Ok a)  as far as the syntax goes *)
Ltac se_inv H :=
  lazymatch type of H with
  | se_bind _ _ _ = (_, Ok _) =>
      let s1 := fresh "s" in let a := fresh "a" in let H1 := fresh "Hm" in let H2 := fresh "Hk" in
      apply bind_ok in H; destruct H as (s1 & a & H1 & H2); cbv beta in H2; se_inv H1; se_inv H2
  | se_lift _ _ = (_, Ok _) => let E := fresh "E" in apply lift_ok in H; destruct H as [-> E]
  | se_get _ = (_, Ok _) => apply get_ok in H; destruct H as [-> ->]
  | se_mod _ _ = (_, Ok _) => apply mod_ok in H; subst
  | se_ret _ _ = (_, Ok _) => apply ret_ok in H; destruct H as [-> ->]
  | se_raise _ _ = (_, Ok _) => exfalso; exact (raise_ok _ _ _ _ H)
  | deref _ _ = (_, Ok _) => let E := fresh "E" in apply deref_ok in H; destruct H as [-> E]
  | _ => idtac
  end.

(* decompose  H : (do x <- r; k) = Ok b *)
Ltac r_inv H :=
  lazymatch type of H with
  | bind _ _ = Ok _ =>
      let a := fresh "a" in let H1 := fresh "Hr" in let H2 := fresh "Hq" in
      apply rbind_ok in H; destruct H as (a & H1 & H2); cbv beta in H2; r_inv H1; r_inv H2
  | _ => idtac
  end.

(* ------------------------------------------------------------------ *)
(* decimal printers: the visitors' '%i' / '%04i' / '{:d}' are the spec's dec / dec4 *)
(* ------------------------------------------------------------------ *)
Lemma show_fuel_same : forall f n acc, show_pos_fuel f n acc = show_N_fuel f n acc.
Proof. induction f as [|f IH]; intros n acc; cbn [show_pos_fuel show_N_fuel]; [reflexivity|]. rewrite IH. reflexivity. Qed.

Lemma dec_fmt_d n : dec n = fmt_d (N.of_nat n).
Proof. unfold dec, show_nat, show_N, fmt_d. apply show_fuel_same. Qed.

Lemma fmt_Zi_nat n : fmt_Zi (Z.of_nat n) = dec n.
Proof.
  rewrite dec_fmt_d. unfold fmt_Zi. rewrite <- nat_N_Z. destruct (Z.of_N (N.of_nat n)) eqn:E; try lia;
  rewrite <- E, N2Z.id; reflexivity.
Qed.
Lemma fmt_Z_nat n : fmt_Z (Z.of_nat n) = dec n.
Proof. exact (fmt_Zi_nat n). Qed.
Lemma fmt_04_nat n : fmt_04 (Z.of_nat n) = dec4 n.
Proof. unfold fmt_04, dec4. rewrite fmt_Zi_nat. reflexivity. Qed.

Lemma dec_digits n : all_digits (dec n) = true /\ dec n <> [].
Proof. rewrite dec_fmt_d. destruct (fmt_d_spec (N.of_nat n)) as (ds & -> & A & NE & _). auto. Qed.
Lemma dec4_digits n : all_digits (dec4 n) = true /\ dec4 n <> [].
Proof.
  destruct (dec_digits n) as [A NE]. unfold dec4. fold (dec n). split.
  - unfold all_digits in *. rewrite forallb_app, A, andb_true_r. induction (4 - length (dec n)); [reflexivity|exact IHn0].
  - intros H. apply app_eq_nil in H as [_ H]. auto.
Qed.

Lemma digits_notin c ds : is_digit c = false -> all_digits ds = true -> ~ In c ds.
Proof.
  intros C A H. unfold all_digits in A. rewrite forallb_forall in A. apply A in H. congruence.
Qed.
Lemma digits_free3 ds : all_digits ds = true -> ~ In "~"%char ds /\ ~ In "*"%char ds /\ ~ In ":"%char ds.
Proof. intros A. repeat split; apply digits_notin; auto. Qed.

(* ------------------------------------------------------------------ *)
(* the recount of C06_spec, compositionally                            *)
(* ------------------------------------------------------------------ *)
Definition body_seg (s : seg) : Prop := is_env s = false.

Lemma sid_not_env s id : sid s = Some id ->
  existsb (fun e => str_eqb id (l e)) ["ISA"; "IEA"; "GS"; "GE"; "ST"; "SE"]%string = false -> is_env s = false.
Proof.
  intros S H. unfold is_env, has_sid. rewrite S. cbn [opt_eqb]. exact H.
Qed.

(* one set numbered n: ST .. SE *)
Definition one_set (n : nat) (st : seg) (body : list seg) (se : seg) : Prop :=
  has_sid st "ST" = true /\ Forall body_seg body /\ has_sid se "SE" = true /\
  elc_is st 2 (dec4 n) = true /\ elc_is se 2 (dec4 n) = true /\ elc_is se 1 (dec (length body + 2)) = true.

(* xs = complete sets numbered n, n+1, .., m-1 *)
Inductive sets_from : nat -> list seg -> nat -> Prop :=
| sets_nil n : sets_from n [] n
| sets_cons n st body se rest m :
    one_set n st body se -> sets_from (S n) rest m -> sets_from n (st :: body ++ se :: rest) m.

Lemma sets_snoc n xs m : sets_from n xs m -> forall st body se, one_set m st body se ->
  sets_from n (xs ++ st :: body ++ [se]) (S m).
Proof.
  induction 1 as [n|n st0 body0 se0 rest m O _ IH]; intros st body se H.
  - cbn [app]. apply sets_cons; [exact H|constructor].
  - cbn [app]. rewrite <- app_assoc. cbn [app]. apply sets_cons; [exact O|]. apply IH. exact H.
Qed.

Lemma has_sid_env s id : has_sid s id = true -> In id ["ISA"; "IEA"; "GS"; "GE"; "ST"; "SE"]%string -> is_env s = true.
Proof. intros H I. unfold is_env. apply existsb_exists. exists id. auto. Qed.

Lemma take_body_app body : Forall body_seg body -> forall s r, is_env s = true ->
  take_body (body ++ s :: r) = (body, s :: r).
Proof.
  induction 1 as [|b body B _ IH]; intros s r E; cbn [app take_body].
  - rewrite E. reflexivity.
  - rewrite B, (IH s r E). reflexivity.
Qed.

Lemma sets_ok_run n xs m : sets_from n xs m -> forall fuel tail, length xs < fuel ->
  match tail with t :: _ => has_sid t "ST" = false | [] => True end ->
  sets_ok fuel n (xs ++ tail) = Some (m, tail).
Proof.
  induction 1 as [n|n st body se rest m O _ IH]; intros fuel tail L T.
  - destruct fuel as [|f]; [cbn in L; lia|]. cbn [app sets_ok]. destruct tail as [|t r]; [reflexivity|]. rewrite T. reflexivity.
  - destruct fuel as [|f]; [cbn in L; lia|]. destruct O as (O1 & O2 & O3 & O4 & O5 & O6).
    cbn [app sets_ok]. rewrite O1. rewrite <- app_assoc. cbn [app].
    rewrite (take_body_app body O2 se (rest ++ tail)) by (apply (has_sid_env se "SE"); [exact O3|cbn; tauto]).
    rewrite O3, O4, O5, O6. cbn [andb]. apply IH; [|exact T].
    cbn [length] in L. rewrite app_length in L. cbn [length] in L. lia.
Qed.

Lemma has_sid_diff s a b : has_sid s a = true -> str_eqb (l a) (l b) = false -> has_sid s b = false.
Proof.
  unfold has_sid. destruct (sid s) as [i|]; cbn [opt_eqb]; [|discriminate].
  intros H N. apply str_eqb_eq in H. subst i. exact N.
Qed.

Lemma envelope_intro isa gs rest k ge tail :
  has_sid isa "ISA" = true -> length (els isa) = 16 -> has_sid gs "GS" = true ->
  sets_from 1 rest (S k) ->
  has_sid ge "GE" = true -> elc_is ge 1 (dec k) = true -> elc_same ge 2 gs 6 = true ->
  (exists iea, iea_ok isa iea = true /\ (tail = [iea] \/ exists ta1, has_sid ta1 "TA1" = true /\ tail = [ta1; iea])) ->
  envelope_ok (isa :: gs :: rest ++ ge :: tail) = true.
Proof.
  intros I1 I2 G1 HS G2 G3 G4 (iea & Hi & T). unfold envelope_ok.
  rewrite I1, I2, G1. cbn [Nat.eqb andb].
  rewrite (sets_ok_run 1 rest (S k) HS).
  - rewrite G2, G4. replace (S k - 1) with k by lia. rewrite G3. cbn [andb].
    destruct T as [->|(ta1 & T1 & ->)]; [exact Hi|]. rewrite T1, Hi. reflexivity.
  - rewrite app_length. cbn [length]. lia.
  - apply (has_sid_diff ge "GE" "ST" G2). reflexivity.
Qed.

(* ------------------------------------------------------------------ *)
(* building segments: the id never changes                             *)
(* ------------------------------------------------------------------ *)
Lemma seg_append_ok s v s' : seg_append s v = Ok s' ->
  exists x, v = Some x /\ s' = {| sid := sid s; els := els s ++ [split ":"%char x] |}.
Proof. destruct v as [x|]; cbn [seg_append]; [|discriminate]. intros H. injection H as <-. eauto. Qed.

Lemma seg_append_sid s v s' : seg_append s v = Ok s' -> sid s' = sid s.
Proof. intros H. apply seg_append_ok in H as (x & _ & ->). reflexivity. Qed.

Lemma seg_set_sid d s r v s' : seg_set d s r v = Ok s' -> sid s' = sid s.
Proof. unfold seg_set. intros H. r_inv H. eapply set_ix_sid; eauto. Qed.

Lemma seg_set_opt_sid s r v s' : seg_set_opt s r v = Ok s' -> sid s' = sid s.
Proof. destruct v; cbn [seg_set_opt]; [apply seg_set_sid|discriminate]. Qed.

Lemma fold_append_sid codes : forall s s',
  fold_left (fun acc c => do s <- acc; seg_append s (Some c)) codes (Ok s) = Ok s' -> sid s' = sid s.
Proof.
  induction codes as [|c r IH]; intros s s' H; cbn [fold_left] in H.
  - injection H as ->. reflexivity.
  - cbn [bind seg_append] in H. apply IH in H. exact H.
Qed.

Lemma reparse_sid s id : sid s = Some id -> ~ In "*"%char id -> sid (parse_seg D (format_seg D s)) = Some id.
Proof.
  intros S N. unfold format_seg. rewrite S. cbn [show_sid]. apply (parse_seg_sid D id). exact N.
Qed.

Lemma parse_lit_sid id r : ~ In "*"%char id -> sid (parse_seg D (id ++ "*"%char :: r)) = Some id.
Proof. apply (parse_seg_sid D id). Qed.

(* ------------------------------------------------------------------ *)
(* parsing a text built from literals and values                       *)
(* ------------------------------------------------------------------ *)
Lemma parse_seg_nolast s : s <> [] -> ends_with "~"%char s = false -> parse_seg D s = parse_body D s.
Proof.
  intros NE E. unfold parse_seg, parse_body. destruct s as [|a r]; [congruence|].
  unfold ends_with in E. destruct (rev (a :: r)) as [|c q]; [reflexivity|].
  cbn [seg_term D]. rewrite E. reflexivity.
Qed.

Lemma ends_with_app c a b : b <> [] -> ends_with c (a ++ b) = ends_with c b.
Proof.
  intros NE. unfold ends_with. rewrite rev_app_distr. destruct (rev b) as [|x q] eqn:R; [|reflexivity].
  exfalso. apply NE. rewrite <- (rev_involutive b), R. reflexivity.
Qed.

Lemma ends_with_notin c s : ~ In c s -> ends_with c s = false.
Proof.
  intros N. unfold ends_with. destruct (rev s) as [|x q] eqn:R; [reflexivity|].
  apply Ascii.eqb_neq. intros ->. apply N. apply in_rev. rewrite R. left. reflexivity.
Qed.

Lemma nostar id : forallb (fun c => negb (Ascii.eqb c "*"%char)) id = true -> ~ In "*"%char id.
Proof.
  intros H I. rewrite forallb_forall in H. apply H in I. rewrite Ascii.eqb_refl in I. discriminate.
Qed.

(* "ID*lit*<digits>" *)
Lemma parse_ST n : parse_seg D (l "ST*997*" ++ dec4 n) = {| sid := Some (l "ST"); els := [[l "997"]; [dec4 n]] |}.
Proof.
  destruct (dec4_digits n) as [A NE]. destruct (digits_free3 _ A) as (F1 & F2 & F3).
  rewrite parse_seg_nolast.
  - unfold parse_body. change (l "ST*997*" ++ dec4 n) with (l "ST" ++ "*"%char :: l "997" ++ "*"%char :: dec4 n).
    cbn [ele_term subele_term D].
    rewrite split_app by (apply nostar; reflexivity). rewrite split_app by (apply nostar; reflexivity).
    rewrite (split_free _ _ F2). cbn [map str_eqb]. rewrite (split_free _ _ F3). reflexivity.
  - destruct (dec4 n); [congruence|discriminate].
  - rewrite ends_with_app by exact NE. apply ends_with_notin. exact F1.
Qed.

Lemma split_dec n : split ":"%char (dec n) = [dec n].
Proof. apply split_free. apply (digits_free3 _ (proj1 (dec_digits n))). Qed.
Lemma split_dec4 n : split ":"%char (dec4 n) = [dec4 n].
Proof. apply split_free. apply (digits_free3 _ (proj1 (dec4_digits n))). Qed.

Lemma elc_is_intro s i v c : elc s i = Some c -> c = [v] -> elc_is s i v = true.
Proof. intros E ->. unfold elc_is. rewrite E. apply str_eqb_refl. Qed.

(* "ID*<count>*<value>": the GE / IEA of the 997 and every trailer of the writer *)
Lemma parse_trailer id n y : ~ In "*"%char id -> str_eqb id (l "ISA") = false ->
  ~ In "*"%char y -> ends_with "~"%char y = false ->
  parse_seg D (id ++ "*"%char :: dec n ++ "*"%char :: y) = {| sid := Some id; els := [[dec n]; split ":"%char y] |}.
Proof.
  intros Hid NI Hy Ey. destruct (dec_digits n) as [A NE]. destruct (digits_free3 _ A) as (F1 & F2 & F3).
  rewrite parse_seg_nolast.
  - unfold parse_body. cbn [ele_term subele_term D].
    rewrite split_app by exact Hid. rewrite split_app by exact F2. rewrite (split_free _ _ Hy).
    change (C01_spec.cs "ISA") with (l "ISA"). rewrite NI. cbn [map]. rewrite (split_free _ _ F3). reflexivity.
  - destruct id; discriminate.
  - replace (id ++ "*"%char :: dec n ++ "*"%char :: y) with ((id ++ "*"%char :: dec n) ++ ("*"%char :: y))
      by (rewrite <- app_assoc; reflexivity).
    rewrite ends_with_app by discriminate. destruct y as [|c y]; [reflexivity|]. rewrite ends_with_cons. exact Ey.
Qed.

Lemma parse_isa_lit : parse_seg D (l "ISA*00*          *00*          ") =
  {| sid := Some (l "ISA"); els := [[l "00"]; [l "          "]; [l "00"]; [l "          "]] |}.
Proof. vm_compute. reflexivity. Qed.
Lemma parse_id_lit id : ~ In "*"%char id -> id <> [] -> ends_with "~"%char id = false -> parse_seg D id = {| sid := Some id; els := [] |}.
Proof.
  intros H NE E. rewrite parse_seg_nolast by assumption. unfold parse_body. cbn [ele_term D]. rewrite (split_free _ _ H). reflexivity.
Qed.

Lemma get_gs06 e1 e2 e3 e4 e5 e6 e7 e8 :
  seg_get_value D {| sid := Some (l "GS"); els := [e1; e2; e3; e4; e5; e6; e7; e8] |} (l "GS06") = Ok (Some (format_comp ":"%char e6)).
Proof. vm_compute. reflexivity. Qed.

(* every file has its own `l`; normalise them *)
Ltac unl := change Ack997.l with list_ascii_of_string in *; change Ack999.l with list_ascii_of_string in *;
            change Writer.l with list_ascii_of_string in *; change Segment.l with list_ascii_of_string in *;
            change Errh.l with list_ascii_of_string in *; change C06_spec.l with list_ascii_of_string in *.

(* ------------------------------------------------------------------ *)
(* composites that print alike give the same line                      *)
(* ------------------------------------------------------------------ *)
Definition comp_like (a b : composite) : Prop :=
  comp_empty a = comp_empty b /\ format_comp ":"%char a = format_comp ":"%char b.

Lemma comp_like_refl a : comp_like a a.
Proof. split; reflexivity. Qed.
Lemma comp_like_trim a : comp_like a (keep ele_empty a).
Proof. split; [symmetry; apply comp_empty_trim|symmetry; apply (format_comp_trim ":"%char a)]. Qed.

Lemma like_forallb xs ys : Forall2 comp_like xs ys -> forallb comp_empty xs = forallb comp_empty ys.
Proof. induction 1 as [|a b xs ys [E _] _ IH]; cbn [forallb]; [reflexivity|]. rewrite E, IH. reflexivity. Qed.
Lemma like_idx xs ys : Forall2 comp_like xs ys -> last_nonempty_idx comp_empty xs = last_nonempty_idx comp_empty ys.
Proof.
  induction 1 as [|a b xs ys _ F IH]; cbn [last_nonempty_idx]; [reflexivity|].
  rewrite (like_forallb _ _ F), IH. reflexivity.
Qed.
Lemma like_firstn xs ys : Forall2 comp_like xs ys -> forall n,
  map (format_comp ":"%char) (firstn n xs) = map (format_comp ":"%char) (firstn n ys).
Proof.
  induction 1 as [|a b xs ys [_ E] _ IH]; intros n; destruct n; cbn [firstn map]; try reflexivity.
  rewrite E, IH. reflexivity.
Qed.
Lemma format_seg_like i xs ys : Forall2 comp_like xs ys ->
  format_seg D {| sid := i; els := xs |} = format_seg D {| sid := i; els := ys |}.
Proof.
  intros F. unfold format_seg. cbn [sid els subele_term D]. rewrite (like_idx _ _ F), (like_firstn _ _ F). reflexivity.
Qed.

Lemma comp_eqb_refl c : comp_eqb c c = true.
Proof. unfold comp_eqb. induction c as [|x c IH]; cbn [Path.list_eqb]; [reflexivity|]. rewrite str_eqb_refl, IH. reflexivity. Qed.

(* a value as it is read back from the segment it was put in: trailing empty components are gone *)
Definition echo (x : str) : str := format_comp ":"%char (split ":"%char x).

Lemma split_echo x : split ":"%char (echo x) = keep ele_empty (split ":"%char x).
Proof.
  unfold echo. rewrite format_comp_keep. apply split_join.
  - apply keep_nonnil. apply split_aux_nonnil.
  - intros p Hp. apply keep_In in Hp. eapply split_In. exact Hp.
Qed.

Lemma mem_false_notin c s : mem_ascii c s = false -> ~ In c s.
Proof. intros H I. apply mem_ascii_In in I. congruence. Qed.

(* ------------------------------------------------------------------ *)
(* reading envelope_ok backwards (for the counterexamples)             *)
(* ------------------------------------------------------------------ *)
Lemma take_body_split xs : forall body r, take_body xs = (body, r) -> xs = body ++ r.
Proof.
  induction xs as [|s xs IH]; intros body r H; cbn [take_body] in H.
  - injection H as <- <-. reflexivity.
  - destruct (is_env s); [injection H as <- <-; reflexivity|].
    destruct (take_body xs) as [b r']. injection H as <- <-. cbn [app]. f_equal. apply IH. reflexivity.
Qed.

Lemma sets_ok_split : forall fuel next xs m rest, sets_ok fuel next xs = Some (m, rest) -> exists sets, xs = sets ++ rest.
Proof.
  induction fuel as [|f IH]; intros next xs m rest H; cbn [sets_ok] in H; [discriminate|].
  destruct xs as [|st r]; [injection H as <- <-; exists []; reflexivity|].
  destruct (has_sid st "ST"); [|injection H as <- <-; exists []; reflexivity].
  destruct (take_body r) as [body r2] eqn:T. apply take_body_split in T. destruct r2 as [|se r3]; [discriminate|].
  destruct (_ && _); [|discriminate]. apply IH in H as (sets & ->).
  exists (st :: body ++ se :: sets). cbn [app]. rewrite T, <- app_assoc. reflexivity.
Qed.

Lemma envelope_inv xs : envelope_ok xs = true ->
  exists isa gs sets m ge tail iea,
    xs = isa :: gs :: sets ++ ge :: tail /\ has_sid isa "ISA" = true /\ length (els isa) = 16 /\
    has_sid gs "GS" = true /\ has_sid ge "GE" = true /\ elc_is ge 1 (dec m) = true /\ elc_same ge 2 gs 6 = true /\
    iea_ok isa iea = true /\ (tail = [iea] \/ exists ta1, has_sid ta1 "TA1" = true /\ tail = [ta1; iea]).
Proof.
  unfold envelope_ok. destruct xs as [|isa [|gs r]]; try discriminate.
  destruct (sets_ok _ 1 r) as [[next [|ge r2]]|] eqn:S; rewrite ?andb_false_r; try discriminate.
  apply sets_ok_split in S as (sets & ->). rewrite !andb_true_iff.
  intros (((I1 & I2) & G1) & ((G2 & G3) & G4) & T). apply Nat.eqb_eq in I2.
  destruct r2 as [|a [|b [|c r3]]]; try discriminate.
  - exists isa, gs, sets, (next - 1), ge, [a], a. repeat split; auto.
  - apply andb_true_iff in T as [T1 T2]. exists isa, gs, sets, (next - 1), ge, [a; b], b. repeat split; auto.
    right. exists a. auto.
Qed.

(* ------------------------------------------------------------------ *)
(* what a written line says about the segment behind it                *)
(* ------------------------------------------------------------------ *)
(* the text between "ID*" and "~" *)
Definition Tof (s : seg) : str :=
  join "*"%char (map (format_comp ":"%char) (firstn (S (last_nonempty_idx comp_empty (els s))) (els s))).

Lemma format_seg_T s : format_seg D s = show_sid (sid s) ++ "*"%char :: Tof s ++ ["~"%char].
Proof. reflexivity. Qed.

Lemma split_aux_cat c b : forall a cur, split_aux c (a ++ c :: b) cur = split_aux c a cur ++ split c b.
Proof.
  induction a as [|x a IH]; intros cur; cbn [app split_aux].
  - rewrite Ascii.eqb_refl. reflexivity.
  - destruct (Ascii.eqb x c); [cbn [app]; f_equal|]; apply IH.
Qed.
Lemma split_cat c a b : split c (a ++ c :: b) = split c a ++ split c b.
Proof. apply split_aux_cat. Qed.

Lemma split_join_flat c F : F <> [] -> split c (join c F) = flat_map (split c) F.
Proof.
  induction F as [|x F IH]; intros NE; [congruence|]. destruct F as [|y F].
  - cbn [join flat_map]. rewrite app_nil_r. reflexivity.
  - change (join c (x :: y :: F)) with (x ++ c :: join c (y :: F)). rewrite split_cat, IH by discriminate. reflexivity.
Qed.

Lemma after_idx_empty {A} (emp : A -> bool) : forall xs i c,
  last_nonempty_idx emp xs < i -> nth_error xs i = Some c -> emp c = true.
Proof.
  induction xs as [|x xs IH]; intros i c L H; [destruct i; discriminate|].
  destruct i as [|i]; [lia|]. cbn [nth_error] in H. cbn [last_nonempty_idx] in L.
  destruct (forallb emp xs) eqn:F.
  - rewrite forallb_forall in F. apply F. eapply nth_error_In. exact H.
  - apply (IH i c); [lia|exact H].
Qed.

Lemma fc_empty c : comp_empty c = true -> format_comp ":"%char c = [].
Proof.
  intros E. destruct (format_comp ":"%char c) eqn:F; [reflexivity|].
  assert (N : format_comp ":"%char c <> []) by (rewrite F; discriminate).
  apply format_comp_nonempty in N. congruence.
Qed.

Lemma nth_firstn_lt {A} : forall n (xs : list A) i, i < n -> nth_error (firstn n xs) i = nth_error xs i.
Proof.
  induction n as [|n IH]; intros xs i L; [lia|]. destruct xs as [|x xs]; [reflexivity|].
  destruct i as [|i]; [reflexivity|]. cbn [firstn nth_error]. apply IH. lia.
Qed.

(* an element of a segment shows in its text, unless it prints as nothing *)
Lemma element_shows s i c : nth_error (els s) i = Some c ->
  format_comp ":"%char c = [] \/ incl (split "*"%char (format_comp ":"%char c)) (split "*"%char (Tof s)).
Proof.
  intros H. destruct (Nat.ltb (last_nonempty_idx comp_empty (els s)) i) eqn:L.
  - apply Nat.ltb_lt in L. left. apply fc_empty. eapply after_idx_empty; eauto.
  - apply Nat.ltb_ge in L. right. unfold Tof.
    set (n := S (last_nonempty_idx comp_empty (els s))).
    assert (I : In c (firstn n (els s))).
    { apply (nth_error_In _ i). rewrite nth_firstn_lt by (subst n; lia). exact H. }
    rewrite split_join_flat by (intros E; apply map_eq_nil in E; rewrite E in I; destruct I).
    intros p Hp. apply in_flat_map. exists (format_comp ":"%char c). split; [apply in_map; exact I|exact Hp].
Qed.

Lemma cut_unique (c : ascii) a b a' b' : ~ In c a -> ~ In c a' -> a ++ c :: b = a' ++ c :: b' -> a = a' /\ b = b'.
Proof.
  revert a'. induction a as [|x a IH]; intros a' N N' E; destruct a' as [|y a']; cbn [app] in E.
  - injection E as <-. auto.
  - injection E as -> _. exfalso. apply N'. left. reflexivity.
  - injection E as <- _. exfalso. apply N. left. reflexivity.
  - injection E as <- E. destruct (IH a') as [-> ->]; auto; intros I; [apply N|apply N']; right; exact I.
Qed.

(* a trailer "ID*<d>*<p>": its second element prints as p *)
Lemma trailer_second s d c p :
  nth_error (els s) 0 = Some [d] -> nth_error (els s) 1 = Some c ->
  ~ In "*"%char d -> ~ In ":"%char d -> ~ In "*"%char p ->
  (exists d', ~ In "*"%char d' /\ Tof s = d' ++ "*"%char :: p) -> format_comp ":"%char c = p.
Proof.
  intros H0 H1 Nd Nd' Np (d' & Nd'' & T). unfold Tof in T.
  destruct (els s) as [|e0 [|e1 rest]]; try discriminate. injection H0 as ->. injection H1 as ->.
  assert (Fd : format_comp ":"%char [d] = d) by reflexivity.
  match type of T with context [last_nonempty_idx ?e ?x] => remember (last_nonempty_idx e x) as n0 eqn:EN in T end.
  clear EN. destruct n0 as [|n].
  - cbn [firstn map join] in T. rewrite Fd in T. exfalso. apply Nd. rewrite T. apply in_or_app. right. left. reflexivity.
  - change (firstn (S (S n)) ([d] :: c :: rest)) with ([d] :: c :: firstn n rest) in T. cbn [map] in T. rewrite Fd in T.
    set (F := map (format_comp ":"%char) (firstn n rest)) in T.
    change (join "*"%char (d :: format_comp ":"%char c :: F)) with (d ++ "*"%char :: join "*"%char (format_comp ":"%char c :: F)) in T.
    apply cut_unique in T as [_ T]; auto.
    destruct F as [|f F]; [exact T|].
    change (join "*"%char (format_comp ":"%char c :: f :: F)) with (format_comp ":"%char c ++ "*"%char :: join "*"%char (f :: F)) in T.
    exfalso. apply Np. rewrite <- T. apply in_or_app. right. left. reflexivity.
Qed.

Lemma comp_eqb_eq a b : comp_eqb a b = true -> a = b.
Proof.
  unfold comp_eqb. revert b. induction a as [|x a IH]; intros [|y b] H; cbn [Path.list_eqb] in H; try discriminate; [reflexivity|].
  apply andb_true_iff in H as [H1 H2]. apply str_eqb_eq in H1. subst y. f_equal. apply IH. exact H2.
Qed.

Lemma elc_is_E s i v : elc_is s (S i) v = true -> nth_error (els s) i = Some [v].
Proof.
  unfold elc_is, elc. destruct (nth_error (els s) i) as [[|x [|y c]]|]; try discriminate.
  intros H. apply str_eqb_eq in H. subst x. reflexivity.
Qed.

(* if the trailer b = "ID*<d>*<p>" repeats, as its second element, element i+1 of a, then p is one of the
   "*"-separated pieces of a's text *)
Lemma no_echo a b i d p :
  elc_is b 1 d = true -> elc_same b 2 a (S i) = true ->
  ~ In "*"%char d -> ~ In ":"%char d -> ~ In "*"%char p -> p <> [] ->
  (exists d', ~ In "*"%char d' /\ Tof b = d' ++ "*"%char :: p) ->
  In p (split "*"%char (Tof a)).
Proof.
  intros H1 H2 Nd Nd' Np NE T. apply elc_is_E in H1. unfold elc_same, elc in H2.
  destruct (nth_error (els b) 1) as [c|] eqn:B; [|discriminate]. destruct (nth_error (els a) i) as [c'|] eqn:A; [|discriminate].
  apply comp_eqb_eq in H2. subst c'.
  pose proof (trailer_second b d c p H1 B Nd Nd' Np T) as F.
  destruct (element_shows a i c A) as [E|I]; [congruence|].
  apply I. rewrite F, (split_free _ _ Np). left. reflexivity.
Qed.

Lemma rl2 {A} (x : list A) a b : removelast (removelast (x ++ [a; b])) = x.
Proof. change (x ++ [a; b]) with (x ++ [a] ++ [b]). rewrite app_assoc, !removelast_last. reflexivity. Qed.

Lemma tail2 {A} (x y : list A) a b a' b' : x ++ [a; b] = y ++ [a'; b'] -> a = a' /\ b = b'.
Proof.
  change (x ++ [a; b]) with (x ++ [a] ++ [b]). change (y ++ [a'; b']) with (y ++ [a'] ++ [b']). rewrite !app_assoc.
  intros H. apply app_inj_tail in H as [H ->]. apply app_inj_tail in H as [_ ->]. auto.
Qed.
Lemma tail3 {A} (x y : list A) a b c a' b' c' : x ++ [a; b; c] = y ++ [a'; b'; c'] -> a = a' /\ b = b' /\ c = c'.
Proof.
  change (x ++ [a; b; c]) with (x ++ [a] ++ [b; c]). change (y ++ [a'; b'; c']) with (y ++ [a'] ++ [b'; c']). rewrite !app_assoc.
  intros H. apply tail2 in H as H'. destruct H' as [-> ->].
  apply (f_equal (fun z => removelast (removelast z))) in H. rewrite !rl2 in H. apply app_inj_tail in H as [_ ->]. auto.
Qed.
