(* C06_reread999.v — the segments of the 999 as an explicit, computable function of the clock and the handler
   state (segs_999); echo_clean_999 ck h: the hypothesis of the re-read theorem on the handler state. *)
From Coq Require Import String Lia.
From PX.Lib Require Import Base PyStr PyInt.
From PX.Gen Require Import SrcConsts.
From PX.Model Require Import Show Path Segment Raw Reader Writer Errh Ack997 Ack999.
From PX.Spec Require Import C01_spec C04_spec C06_spec C05_spec C05_spec999 C12_spec.
From PX.Proofs Require Import C01_roundtrip C04_reader C06_lemmas C06_build C06_ack997 C06_ack999 C06_ack C05_ack C05_ack999
  C06_reread C06_reread997.

Local Notation l := list_ascii_of_string.
Local Notation LF := (ascii_of_nat 10).

(* ------------------------------------------------------------------ *)
(* the header, explicitly                                              *)
(* ------------------------------------------------------------------ *)
(* ISA: as the 997, but ISA11 is "^" and ISA16 is the one-component ":" the writer puts there *)
Definition isa9_x (ck : clock) (a7 a8 a5 a6 a12 a15 : str) : seg :=
  {| sid := Some (l "ISA");
     els := [[l "00"]; [l "          "]; [l "00"]; [l "          "]; sp a7; sp a8; sp a5; sp a6;
             sp (ck_ymd6 ck); sp (ck_hm ck); sp (l "^"); sp a12; sp (ctl_of ck); sp (l "0"); sp a15; [[":"%char]]] |}.

(* GS: "FA", GS03 and GS02 of the acknowledged group (right-stripped), the clock, the random group control number,
   GS07, the version of the 999 *)
Definition gs9_x (ck : clock) (b3 b2 b7 : str) : seg :=
  {| sid := Some (l "GS");
     els := [sp (l "FA"); sp (rstrip_ws b3); sp (rstrip_ws b2); sp (ck_ymd8 ck); sp (ck_hms ck);
             sp (gctl_of ck); sp b7; sp vriic] |}.

Definition hdr_999 (ck : clock) (h : errh) : option (seg * seg) :=
  obind (c_isa h) (fun i => obind (nth_error (h_isa h) i) (fun inode =>
  obind (c_gs h) (fun g => obind (nth_error (h_gs h) g) (fun gnode =>
  let q := in_seg inode in let p := gn_seg gnode in
  obind (oget (xget q "ISA07")) (fun a7 => obind (oget (xget q "ISA08")) (fun a8 =>
  obind (oget (xget q "ISA05")) (fun a5 => obind (oget (xget q "ISA06")) (fun a6 =>
  obind (oget (xget q "ISA12")) (fun a12 => obind (oget (xget q "ISA15")) (fun a15 =>
  obind (oget (xget p "GS03")) (fun b3 => obind (oget (xget p "GS02")) (fun b2 =>
  obind (oget (xget p "GS07")) (fun b7 =>
  Some (isa9_x ck a7 a8 a5 a6 a12 a15, gs9_x ck b3 b2 b7)))))))))))))).

Lemma visit_root_pre9_x ck h v' u : visit_root_pre9 ck (v999_init h) = (v', Ok u) ->
  exists isa gs, hdr_999 ck h = Some (isa, gs) /\
    Inv9 isa gs (Some (echo (ctl_of ck))) (Some (echo (gctl_of ck))) 0 [] v'.
Proof.
  intros H. unfold visit_root_pre9 in H. se_inv H. fold (ctl_of ck) in *.
  match goal with H : in_hy (get_isa _) _ = (?x, Ok ?n) |- _ => apply in_hy_get_isa in H as (Y1 & R1 & HH1 & N1); rename x into v1 end.
  match goal with H : wr_write ?s (set_y_ctls v1 _ _) = (?x, Ok _) |- _ =>
    pose proof (wr_write_h _ _ _ _ H) as HH2; rename H into H2; rename x into v2; rename s into isa end.
  match goal with H : in_hy (get_gs _) v2 = (?x, Ok _) |- _ => apply in_hy_get_gs in H as (Y3 & R3 & HH3 & N3); rename x into v3 end.
  match goal with H : wr_write ?s v3 = (_, Ok _) |- _ => rename H into H4; rename s into gs end.
  match goal with H : bind _ _ = Ok isa |- _ => r_inv H end.
  match goal with H : bind _ _ = Ok gs |- _ => r_inv H end.
  unl. rewrite parse_isa_lit in *. rewrite (parse_id_lit (l "GS")) in * by (try apply nostar; try discriminate; reflexivity).
  sets9.
  assert (W1 : WS (y_wr (set_y_ctls v1 (Some (ctl_of ck)) (Some (fmt_Zi (ck_rand ck))))) [] 0 0 0).
  { cbn [y_wr set_y_ctls]. rewrite R1. apply WS_init. }
  destruct (wr_write_gen _ _ _ _ _ _ _ _ W1 H2) as (o2 & X2 & Y2).
  eapply ws_isa in X2; [|exact W1|reflexivity]. destruct X2 as (_ & (isa2 & -> & FX) & W2).
  assert (W3 : WS (y_wr v3) [(l "ISA", Some (echo (ctl_of ck)))] 0 0 0) by (rewrite R3; exact W2).
  destruct (wr_write_gen _ _ _ _ _ _ _ _ W3 H4) as (o4 & X4 & Y4).
  eapply ws_gs in X4; [|exact W3|reflexivity]. destruct X4 as (-> & W4).
  match goal with H : c_gs _ = Some _ |- _ => rename H into CG end.
  match goal with H : c_isa _ = Some _ |- _ => rename H into CI end.
  cbn [y_h v999_init set_y_ctls] in *. rewrite HH2, HH1 in N3. cbn [y_h v999_init set_y_ctls] in N3.
  unfold isa_fixed in FX.
  destruct (opt_eqb str_eqb _ _) in FX; [rewrite fix_isa_10 in FX; cbn [bind] in FX|cbn [bind] in FX];
    rewrite fix_isa_15 in FX; injection FX as <-.
  all: eexists _, _; split;
    [ unfold hdr_999; rewrite CI; cbn [obind]; rewrite N1; cbn [obind]; rewrite CG; cbn [obind]; rewrite N3; cbn [obind];
      repeat match goal with H : xget _ _ = Ok (Some _) |- _ => rewrite H; clear H end; cbn [oget obind]; reflexivity
    | constructor;
      [ rewrite (w9_out _ _ _ Y4), (w9_out _ _ _ Y3), (w9_out _ _ _ Y2); cbn [y_out set_y_ctls]; rewrite (w9_out _ _ _ Y1); reflexivity
      | constructor
      | rewrite (w9_st _ _ _ Y4), (w9_st _ _ _ Y3), (w9_st _ _ _ Y2); cbn [y_st_ctl set_y_ctls]; rewrite (w9_st _ _ _ Y1); reflexivity
      | exists 0%Z; exact W4 ] ].
Qed.

Lemma hdr_999_inv ck h isa gs : hdr_999 ck h = Some (isa, gs) ->
  exists i inode a7 a8 a5 a6 a12 a15 b3 b2 b7,
    c_isa h = Some i /\ nth_error (h_isa h) i = Some inode /\
    isa = isa9_x ck a7 a8 a5 a6 a12 a15 /\ gs = gs9_x ck b3 b2 b7.
Proof.
  intros H. unfold hdr_999 in H. ob_inv H.
  match goal with H : Some _ = Some _ |- _ => injection H as <- <- end.
  eexists _, _, _, _, _, _, _, _, _, _, _. split; [exact Ho|]. split; [exact Ho0|]. split; reflexivity.
Qed.

(* ------------------------------------------------------------------ *)
(* the trailer, explicitly                                             *)
(* ------------------------------------------------------------------ *)
Definition ta1_seg_999 (h : errh) (n : isa_node) : result seg :=
  do s <- seg_append (parse_seg D (l "TA1")) (in_trn n);
  do s0 <- seg_append s (in_date n);
  do s1 <- seg_append s0 (in_time n);
  do codes <- get_isa_errors9 h n;
  match codes with
  | [] => do s2 <- seg_append s1 (Some (l "A")); seg_append s2 (Some (l "000"))
  | c :: _ => do s2 <- seg_append s1 (Some (l "R")); seg_append s2 (Some c)
  end.

Definition ta1_list9 (h : errh) (n : isa_node) : list seg :=
  if opt_eqb str_eqb (in_ta1 n) (Some (l "1"))
  then match ta1_seg_999 h n with Ok t => [t] | Raise _ => [] end
  else [].

Lemma ta1_list9_set_gs h x n : ta1_list9 (set_h_gs h x) n = ta1_list9 h n.
Proof. reflexivity. Qed.

Lemma ta1_seg_999_sid h n t : ta1_seg_999 h n = Ok t -> sid t = Some (l "TA1").
Proof.
  intros E. unfold ta1_seg_999 in E. r_inv E.
  match goal with H : match ?c with [] => _ | _ => _ end = Ok t |- _ => destruct c; r_inv H end; repeat sid_step; reflexivity.
Qed.

Lemma ta1_list9_shape h n : ta1_list9 h n = [] \/ exists ta1, has_sid ta1 "TA1" = true /\ ta1_list9 h n = [ta1].
Proof.
  unfold ta1_list9. destruct (opt_eqb _ _ _); [|left; reflexivity].
  destruct (ta1_seg_999 h n) as [t|e] eqn:E; [|left; reflexivity]. right. exists t. split; [|reflexivity].
  unfold has_sid. rewrite (ta1_seg_999_sid _ _ _ E). reflexivity.
Qed.

Lemma visit_root_post9_x isa gs icn g6 k rest v v' u :
  Inv9 isa gs icn g6 k rest v -> visit_root_post9 v = (v', Ok u) ->
  exists i inode,
    c_isa (y_h v) = Some i /\ nth_error (h_isa (y_h v)) i = Some inode /\
    y_out v' = map line_999 (isa :: gs :: rest ++ tr "GE" (Z.of_nat k) g6 :: ta1_list9 (y_h v) inode ++ [tr "IEA" 1 icn]).
Proof.
  intros [I1 I2 I3 (n & I4)] H. unfold visit_root_post9 in H. se_inv H.
  match goal with H : wr_write ?s v = (?x, Ok _) |- _ =>
    pose proof (wr_write_h _ _ _ _ H) as HH1; rename H into H1; rename x into v1; rename s into ge end.
  match goal with H : in_hy _ v1 = (?x, Ok ?nd) |- _ => apply in_hy_get_isa in H as (Y2 & R2 & HH2 & N2); rename x into v2; rename nd into inode end.
  match goal with H : wr_write _ ?y = (v', Ok _) |- _ => rename H into H4; rename y into v3 end.
  match goal with H : _ v2 = (v3, Ok _) |- _ => rename H into HT end.
  match goal with H : c_isa (y_h v) = Some _ |- _ => rename H into CI end.
  rewrite HH1 in N2.
  assert (SG : sid ge = Some (l "GE")).
  { match goal with H : seg_set_opt _ _ _ = Ok ge |- _ => rewrite (seg_set_opt_sid _ _ _ _ H) end. reflexivity. }
  destruct (wr_write_gen _ _ _ _ _ _ _ _ I4 H1) as (o1 & X1 & Y1).
  destruct (ws_ge _ _ _ _ _ _ _ _ _ I4 SG X1) as [-> W1].
  assert (W2 : WS (y_wr v2) [(l "ISA", icn)] 1 0 n) by (rewrite R2; exact W1).
  assert (C3 : exists m, wrote9 v2 v3 (ta1_list9 (y_h v) inode) /\ WS (y_wr v3) [(l "ISA", icn)] 1 0 m).
  { unfold ta1_list9. destruct (opt_eqb str_eqb (in_ta1 inode) _).
    - se_inv HT. match goal with H : wr_write ?s v2 = _ |- _ => rename s into ta1; rename H into HW end.
      match goal with H : bind _ _ = Ok ta1 |- _ => rename H into ET end.
      unl. change (ta1_seg_999 (y_h v) inode = Ok ta1) in ET. rewrite ET.
      pose proof (ta1_seg_999_sid _ _ _ ET) as S1.
      destruct (wr_write_plain _ _ _ _ _ _ _ _ _ W2 S1 (eq_refl : plain_id "TA1") HW) as [A B].
      exists (n + 1)%Z. split; [exact A|exact B].
    - se_inv HT. exists n. split; [apply wrote9_refl|exact W2]. }
  destruct C3 as (m & Y3 & W3).
  destruct (wr_write_gen _ _ _ _ _ _ _ _ W3 H4) as (o4 & X4 & Y4).
  eapply ws_iea in X4; [|exact W3|reflexivity]. destruct X4 as [-> W4].
  eexists _, inode. split; [exact CI|]. split; [exact N2|].
  rewrite (w9_out _ _ _ Y4), (w9_out _ _ _ Y3), (w9_out _ _ _ Y2), (w9_out _ _ _ Y1), I1.
  cbn [map app]. rewrite !map_app. cbn [map app]. rewrite !map_app. cbn [map app]. rewrite <- !app_assoc. cbn [app]. reflexivity.
Qed.

(* ------------------------------------------------------------------ *)
(* the whole acknowledgement, explicitly                               *)
(* ------------------------------------------------------------------ *)
Definition ge9_x (ck : clock) (k : nat) : seg := {| sid := Some (l "GE"); els := [[dec k]; sp (gctl_of ck)] |}.
Definition iea9_x (ck : clock) : seg := {| sid := Some (l "IEA"); els := [[dec 1]; keep ele_empty (sp (ctl_of ck))] |}.

(* trailing empty components of ISA13 are not printed: drop them (the line is the same) *)
Definition trim_isa13 (isa : seg) : seg :=
  {| sid := sid isa;
     els := match els isa with
            | [e1; e2; e3; e4; e5; e6; e7; e8; e9; e10; e11; e12; e13; e14; e15; e16] =>
                [e1; e2; e3; e4; e5; e6; e7; e8; e9; e10; e11; e12; keep ele_empty e13; e14; e15; e16]
            | x => x
            end |}.

Definition segs_999 (ck : clock) (h : errh) : option (list seg) :=
  obind (hdr_999 ck h) (fun p =>
  obind (c_isa h) (fun i => obind (nth_error (h_isa h) i) (fun inode =>
  let sets := expected_sets_999 h in
  Some (trim_isa13 (fst p) :: snd p :: number_sets_999 1 sets ++
        ge9_x ck (length sets) :: ta1_list9 h inode ++ [iea9_x ck])))).

Theorem segs_999_spec ck h h' lines :
  clock_digits ck = true ->
  render_999 ck h = (h', lines, None) ->
  exists segs, segs_999 ck h = Some segs /\ lines = map line_999 segs /\ envelope_ok segs = true.
Proof.
  intros CKD H. destruct (clock_digits_ok ck CKD) as [_ CK].
  unfold render_999 in H. destruct (accept_root9 ck (v999_init h)) as [v r] eqn:E.
  destruct r as [u|e]; [|discriminate]. injection H as _ <-.
  unfold accept_root9 in E. apply bind_ok in E as (v1 & u1 & H1 & E).
  pose proof (visit_root_pre9_keeps ck _ _ _ H1) as K1. cbn [y_h v999_init] in K1.
  apply visit_root_pre9_x in H1 as (isa & gs & HD & I0).
  apply bind_ok in E as (v1' & vv & Hg & E). se_inv Hg.
  apply bind_ok in E as (v2 & u2 & H2 & H3).
  set (icn := Some (echo (ctl_of ck))) in *. set (g6 := Some (echo (gctl_of ck))) in *.
  assert (IC0 : InvC9 h isa gs icn g6 [] [] v1).
  { split; [exact I0|]. unfold Good9. rewrite norm_at_nil, set_h_gs_same. exact K1. }
  apply (iter_isa9_content _ _ _ _ _ _ _ _ _ _ _ IC0) in H2. rewrite K1, !flat_at_all in H2. cbn [app] in H2.
  fold (visited_gs h) in H2. fold (expected_sets_999 h) in H2. destruct H2 as [I2 G2].
  apply (visit_root_post9_x _ _ _ _ _ _ _ _ _ I2) in H3 as (i & inode & CI & NI & O).
  unfold Good9 in G2. rewrite G2 in CI, NI, O. rewrite ta1_list9_set_gs in O.
  cbn [c_isa h_isa set_h_gs set_heaps] in CI, NI.
  pose proof (j_sets _ _ _ _ _ _ _ I2) as SF.
  destruct (hdr_999_inv ck h isa gs HD) as (i' & inode' & a7 & a8 & a5 & a6 & a12 & a15 & b3 & b2 & b7 & CI' & NI' & -> & ->).
  set (k := length (expected_sets_999 h)) in *. set (rest := number_sets_999 1 (expected_sets_999 h)) in *.
  unfold icn, g6, gctl_of in O.
  set (gctl := fmt_Zi (ck_rand ck)) in *. set (ctl := ctl_of ck) in *.
  destruct (fmt_Zi_free (ck_rand ck)) as (G1 & G2' & G3). fold gctl in G1, G2', G3.
  rewrite (echo_free gctl G3) in O.
  assert (GE : tr "GE" (Z.of_nat k) (Some gctl) = ge9_x ck k).
  { unfold tr, ge9_x, gctl_of, sp. fold gctl. cbn [show_oid]. rewrite fmt_Z_nat.
    apply parse_trailer; [apply nostar; reflexivity|reflexivity|exact G2'|apply ends_with_notin; exact G1]. }
  rewrite GE in O.
  apply tail_ok_E in CK as [CK1 CK2]. fold ctl in CK1, CK2.
  assert (IE : tr "IEA" 1 (Some (echo ctl)) = iea9_x ck).
  { unfold tr, iea9_x, sp. fold ctl. cbn [show_oid]. change (fmt_Z 1) with (dec 1). rewrite <- split_echo.
    apply parse_trailer; [apply nostar; reflexivity|reflexivity|exact CK1|exact CK2]. }
  rewrite IE in O.
  set (isa := isa9_x ck a7 a8 a5 a6 a12 a15) in *. set (gs := gs9_x ck b3 b2 b7) in *.
  assert (L : line_999 isa = line_999 (trim_isa13 isa)).
  { unfold line_999, emit, isa, isa9_x, trim_isa13. cbn [wd w_init sid els]. f_equal. apply format_seg_like.
    repeat (apply Forall2_cons; [first [apply comp_like_refl|apply comp_like_trim]|]). constructor. }
  eexists. split; [|split].
  - unfold segs_999. rewrite HD, CI. cbn [obind]. rewrite NI. cbn [obind fst snd]. reflexivity.
  - rewrite O. cbn [map]. rewrite L. reflexivity.
  - apply (envelope_intro (trim_isa13 isa) gs rest k (ge9_x ck k) (ta1_list9 h inode ++ [iea9_x ck])).
    + reflexivity.
    + reflexivity.
    + reflexivity.
    + exact SF.
    + reflexivity.
    + apply (elc_is_intro (ge9_x ck k) 1 _ [dec k]); reflexivity.
    + unfold elc_same, ge9_x, gs, gs9_x. cbn [elc els nth_error]. apply comp_eqb_refl.
    + exists (iea9_x ck). split.
      * unfold iea_ok. replace (has_sid _ "IEA") with true by reflexivity.
        rewrite (elc_is_intro _ 1 (dec 1) [dec 1]) by reflexivity. cbn [andb].
        unfold elc_same, iea9_x, isa, isa9_x, trim_isa13. cbn [elc els nth_error]. apply comp_eqb_refl.
      * destruct (ta1_list9_shape h inode) as [->|(ta1 & T & ->)]; [left; reflexivity|right; exists ta1; auto].
Qed.

(* ================================================================== *)
(* echo_clean_999                                                      *)
(* ================================================================== *)
Definition echo_clean_999 (ck : clock) (h : errh) : bool :=
  match segs_999 ck h with Some segs => text_ok_999 segs | None => false end.

Definition segs_or_nil_999 (ck : clock) (h : errh) : list seg := match segs_999 ck h with Some s => s | None => [] end.

(* THE 999. *)
Theorem ack999_reread_clean ck h h' lines lx sch :
  clock_digits ck = true -> echo_clean_999 ck h = true ->
  render_999 ck h = (h', lines, None) ->
  exists out,
    reading lx (concat lines) sch = Ok (version_999 (segs_or_nil_999 ck h), out, Ok []) /\
    map fst out = reread_999 (segs_or_nil_999 ck h) /\
    Forall (fun p => env_codes (snd p) = []) out.
Proof.
  intros CK EC H. destruct (segs_999_spec ck h h' lines CK H) as (segs & S & -> & EO).
  unfold echo_clean_999, segs_or_nil_999 in *. rewrite S in *. apply ack999_text_silent; assumption.
Qed.

Print Assumptions segs_999_spec.
Print Assumptions ack999_reread_clean.
