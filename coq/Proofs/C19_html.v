(* C19_html.v — the HTML report: escaping and the per-segment text (Model/Html.v against Spec/C19_spec.v). *)
From Coq Require Import String Lia.
From PX.Lib Require Import Base PyStr.
From PX.Model Require Import Path Segment Errh ErrIter OutW Html.
From PX.Spec Require Import C19_spec.

Local Definition l (s : string) : str := list_ascii_of_string s.

(* escape_html_chars never produces a character that opens or closes a tag, whatever the value *)
Theorem esc_no_angle : forall v, forallb (fun c => negb (Ascii.eqb c "<"%char || Ascii.eqb c ">"%char)) (esc v) = true.
Admitted.

(* ... and a tag stripper gives the value back, in any context *)
Theorem strip_esc : forall v rest, strip false (esc v ++ rest) = v ++ strip false rest.
Admitted.

Theorem tags_esc : forall v rest, tags_of None (esc v ++ rest) = tags_of None rest.
Admitted.

(* one gen_seg call that completes: what a tag stripper leaves is exactly the pre-errors, the loop heading,
   the line number with the segment as the source has it, and the other errors; all tags are the report's own *)
Theorem gen_seg_strip :
  forall h x line nodes info st' writes,
    codes_plain h (sid (xs_s x)) nodes ->
    html_gen_seg (cfg_of (xs_d x)) h x (Some line) nodes {| loop_info := option_map esc info |} = (st', writes, Ok tt) ->
    strip_markup (concat writes) = plain_gen_seg h x line info nodes /\ loop_info st' = None.
Admitted.

Theorem gen_seg_tags :
  forall h x line nodes info st' writes,
    codes_plain h (sid (xs_s x)) nodes ->
    html_gen_seg (cfg_of (xs_d x)) h x (Some line) nodes {| loop_info := option_map esc info |} = (st', writes, Ok tt) ->
    forall t, In t (tags (concat writes)) -> In t report_tags.
Admitted.

(* the heading stored by loop() is always an escaped string *)
Theorem loop_info_escaped :
  forall st i n t, (exists info, loop_info st = option_map esc info) ->
                   exists info, loop_info (html_loop st i n t) = option_map esc info.
Admitted.

(* footer: the trailing envelope errors, then the fixed closing text *)
Definition plain_footer_part {A} (cur : option nat) (heap : list A) (closed : A -> bool) (errors : A -> list err2) (code : string) : str :=
  match cur with
  | None => []
  | Some i => match nth_error heap i with
              | Some n => if closed n then [] else concat (map plain_seg_err (filter (fun e => str_eqb (fst e) (l code)) (errors n)))
              | None => []
              end
  end.

Theorem footer_strip :
  forall h writes,
    html_footer h tt = (tt, writes, Ok tt) ->
    strip_markup (concat writes) =
      plain_footer_part (c_st h) (h_st h) st_is_closed tn_errors "2" ++
      plain_footer_part (c_gs h) (h_gs h) gs_is_closed gn_errors "3" ++
      plain_footer_part (c_isa h) (h_isa h) isa_is_closed in_errors "023" ++
      NL ++ NL ++ l "pyx12 Validator" ++ NL ++ NL ++ NL ++ NL
    /\ (forall t, In t (tags (concat writes)) -> In t report_tags).
Admitted.

(* non-vacuity: a segment with markup characters in its values, with '<' as element separator *)
Example gen_seg_example :
  let d := {| seg_term := "~"%char; ele_term := "<"%char; subele_term := ":"%char |} in
  let x := {| xs_d := d; xs_s := parse_seg d (l "N<M1<a&b c:<x>::<<") |} in
  exists st' writes,
    html_gen_seg (cfg_of d) errh_init x (Some 7%Z) [] {| loop_info := option_map esc (Some (l "Loop 2000A: A&B")) |} = (st', writes, Ok tt)
    /\ strip_markup (concat writes) = l "  Loop 2000A: A&B" ++ NL ++ l "7: N<M1<a&b c:<x>::<<~" ++ NL.
Proof. vm_compute. eexists. eexists. split; reflexivity. Qed.
