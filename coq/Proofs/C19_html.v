(* C19_html.v — the HTML report: escaping and the per-segment text (Model/Html.v against Spec/C19_spec.v). *)
From Coq Require Import String Lia.
From PX.Lib Require Import Base PyStr.
From PX.Model Require Import Path Segment Errh ErrIter OutW Html.
From PX.Spec Require Import C19_spec.
From PX.Proofs Require Import C19_lemmas.

Local Definition l (s : string) : str := list_ascii_of_string s.

Lemma concat_one (x : str) : concat [x] = x.
Proof. apply app_nil_r. Qed.

(* escape_html_chars never produces a character that opens or closes a tag, whatever the value *)
Theorem esc_no_angle : forall v, forallb (fun c => negb (Ascii.eqb c "<"%char || Ascii.eqb c ">"%char)) (esc v) = true.
Proof.
  induction v as [|c v IH]; [reflexivity|].
  rewrite esc_cons, forallb_app, IH, esc_one_no_angle. reflexivity.
Qed.

(* ... and a tag stripper gives the value back, in any context *)
Theorem strip_esc : forall v rest, strip false (esc v ++ rest) = v ++ strip false rest.
Proof. intros v rest. apply (proj1 (chunk_esc v)). Qed.

Theorem tags_esc : forall v rest, tags_of None (esc v ++ rest) = tags_of None rest.
Proof.
  induction v as [|c v IH]; intros rest; [reflexivity|].
  rewrite esc_cons, <- app_assoc.
  assert (H : forall r, tags_of None (esc [c] ++ r) = tags_of None r).
  { intros r. rewrite esc_one. unfold esc1.
    destruct (Ascii.eqb_spec c "&"%char) as [->|N1]; [reflexivity|].
    destruct (Ascii.eqb_spec c " "%char) as [->|N2]; [reflexivity|].
    destruct (Ascii.eqb_spec c ">"%char) as [->|N3]; [reflexivity|].
    destruct (Ascii.eqb_spec c "<"%char) as [->|N4]; [reflexivity|].
    apply tags_other. exact N4. }
  rewrite H. apply IH.
Qed.


(* the whole output of a completed gen_seg call is one chunk *)
Lemma gen_seg_chunk h x line nodes info st' writes :
    codes_plain h (sid (xs_s x)) nodes ->
    html_gen_seg (cfg_of (xs_d x)) h x (Some line) nodes {| loop_info := option_map esc info |} = (st', writes, Ok tt) ->
    chunk (concat writes) (plain_gen_seg h x line info nodes) /\ loop_info st' = None.
Proof.
  intros CP H. unfold html_gen_seg in H. cbv zeta in H.
  apply w_bind_inv in H as (s1 & o1 & m & o2 & H1 & H & ->). apply w_lift_inv in H1 as (-> & -> & Em).
  apply w_bind_inv in H as (s1 & o1 & [] & o4 & H1 & H & ->).
  assert (P1 := wspec_iter (write_pre_errors h (sid (xs_s x)))
                  (fun r => concat (map plain_seg_err (filter is3 (node_errors h (sid (xs_s x)) r)))) nodes
                  (fun r Hr => wspec_pre h _ r (proj1 (CP r Hr))) _ _ _ H1).
  destruct P1 as [-> C1].
  apply w_bind_inv in H as (s2 & o5 & st & o6 & H2 & H & ->). unfold w_get in H2. injection H2 as <- <- <-.
  apply w_bind_inv in H as (s2 & o5 & [] & o7 & H2 & H & ->).
  assert (C2 : s2 = {| loop_info := option_map esc info |} /\ chunk (concat o5) (plain_info info)).
  { cbn [loop_info] in H2. destruct info as [[|c r]|]; cbn [option_map] in H2.
    - rewrite esc_nil in H2. injection H2 as <- <-. split; [reflexivity | apply chunk_nil].
    - destruct (esc (c :: r)) as [|ch rest] eqn:Ee; [exfalso; eapply esc_nonempty; eauto|].
      unfold gen_info, w_write in H2. apply pair_equal_spec in H2 as [H2 _]. apply pair_equal_spec in H2 as [<- <-]. split; [cbn [option_map]; rewrite Ee; reflexivity|]. rewrite concat_one.
      rewrite <- Ee. unfold plain_info.
      apply chunk_app; [chunk_const [l "<span class=""info"">"]|]. apply chunk_app; [apply chunk_esc|].
      apply (chunk_app _ [] _ NL); [chunk_const [l "</span>"; l "<br />"] | apply chunk_NL].
    - injection H2 as <- <-. split; [reflexivity | apply chunk_nil]. }
  destruct C2 as [-> C2].
  apply w_bind_inv in H as (s3 & o8 & [] & o9 & H3 & H & ->). unfold w_put in H3. injection H3 as <- <-.
  apply w_bind_inv in H as (s4 & o10 & body & o11 & H4 & H & ->). apply w_lift_inv in H4 as (-> & -> & Eb).
  apply w_bind_inv in H as (s5 & o12 & ln & o13 & H5 & H & ->). apply w_lift_inv in H5 as (-> & -> & El).
  cbn [fmt_i] in El. injection El as <-.
  apply w_bind_inv in H as (s6 & o14 & [] & o15 & H6 & H & ->). unfold w_write in H6. apply pair_equal_spec in H6 as [H6 _]. apply pair_equal_spec in H6 as [<- <-].
  assert (P2 := wspec_iter (write_post_errors h (sid (xs_s x))) (plain_post_node h (sid (xs_s x))) nodes
                  (fun r Hr => wspec_post h _ r (proj1 (CP r Hr)) (proj2 (CP r Hr))) _ _ _ H).
  destruct P2 as [-> C3].
  split; [|reflexivity].
  cbn [app]. rewrite !concat_app. cbn [concat app]. unfold plain_gen_seg. cbv zeta.
  apply chunk_app; [exact C1|]. apply chunk_app; [exact C2|].
  rewrite <- !app_assoc.
  apply (chunk_app _ []); [chunk_const [l "<span class=""seg"">"]|].
  apply chunk_app; [apply chunk_free, fmt_Zi_free|].
  apply chunk_app; [chunk_const (@nil str)|].
  apply chunk_app; [apply (seg_line_chunk x m body Eb)|].
  apply (chunk_app _ [] _ (NL ++ plain_post h (sid (xs_s x)) nodes)); [chunk_const [l "</span>"; l "<br />"]|].
  apply (chunk_app NLs NL (concat o15) (plain_post h (sid (xs_s x)) nodes)); [apply chunk_NL | exact C3].
Qed.

(* one gen_seg call that completes: what a tag stripper leaves is exactly the pre-errors, the loop heading,
   the line number with the segment as the source has it, and the other errors; all tags are the report's own *)
Theorem gen_seg_strip :
  forall h x line nodes info st' writes,
    codes_plain h (sid (xs_s x)) nodes ->
    html_gen_seg (cfg_of (xs_d x)) h x (Some line) nodes {| loop_info := option_map esc info |} = (st', writes, Ok tt) ->
    strip_markup (concat writes) = plain_gen_seg h x line info nodes /\ loop_info st' = None.
Proof.
  intros h x line nodes info st' writes CP H.
  destruct (gen_seg_chunk h x line nodes info st' writes CP H) as [C E].
  split; [apply chunk_strip; exact C | exact E].
Qed.

Theorem gen_seg_tags :
  forall h x line nodes info st' writes,
    codes_plain h (sid (xs_s x)) nodes ->
    html_gen_seg (cfg_of (xs_d x)) h x (Some line) nodes {| loop_info := option_map esc info |} = (st', writes, Ok tt) ->
    forall t, In t (tags (concat writes)) -> In t report_tags.
Proof.
  intros h x line nodes info st' writes CP H.
  destruct (gen_seg_chunk h x line nodes info st' writes CP H) as [C _].
  exact (chunk_tags _ _ C).
Qed.

(* the heading stored by loop() is always an escaped string *)
Theorem loop_info_escaped :
  forall st i n t, (exists info, loop_info st = option_map esc info) ->
                   exists info, loop_info (html_loop st i n t) = option_map esc info.
Proof.
  intros st i n t H. unfold html_loop.
  destruct (opt_eqb str_eqb t (Some (Html.l "wrapper"))); [exact H|].
  eexists (Some _). reflexivity.
Qed.

(* footer: the trailing envelope errors, then the fixed closing text *)
Definition plain_footer_part {A} (cur : option nat) (heap : list A) (closed : A -> bool) (errors : A -> list err2) (code : string) : str :=
  match cur with
  | None => []
  | Some i => match nth_error heap i with
              | Some n => if closed n then [] else concat (map plain_seg_err (filter (fun e => str_eqb (fst e) (l code)) (errors n)))
              | None => []
              end
  end.

Lemma footer_part_spec {A} (cur : option nat) (heap : list A) (closed : A -> bool) (errors : A -> list err2) (code : string) :
  markup_free (l code) = true ->
  wspec (footer_part cur heap closed errors code) (plain_footer_part cur heap closed errors code).
Proof.
  intros F. unfold footer_part, plain_footer_part. destruct cur as [i|]; [|apply wspec_ret].
  apply wspec_lift. intros n E. unfold heap_nth in E. destruct (nth_error heap i) as [n'|]; [|discriminate E].
  injection E as ->. destruct (closed n); [apply wspec_ret|].
  apply (wspec_iter_filter (fun e : err2 => str_eqb (fst e) (l code)) (fun e => seg_err_line (snd e) (fst e)) plain_seg_err).
  intros e _ He. apply chunk_seg_err. apply str_eqb_eq in He. rewrite He. exact F.
Qed.

Theorem footer_strip :
  forall h writes,
    html_footer h tt = (tt, writes, Ok tt) ->
    strip_markup (concat writes) =
      plain_footer_part (c_st h) (h_st h) st_is_closed tn_errors "2" ++
      plain_footer_part (c_gs h) (h_gs h) gs_is_closed gn_errors "3" ++
      plain_footer_part (c_isa h) (h_isa h) isa_is_closed in_errors "023" ++
      NL ++ NL ++ l "pyx12 Validator" ++ NL ++ NL ++ NL ++ NL
    /\ (forall t, In t (tags (concat writes)) -> In t report_tags).
Proof.
  intros h writes H.
  assert (W : wspec (html_footer h)
                (plain_footer_part (c_st h) (h_st h) st_is_closed tn_errors "2" ++
                 plain_footer_part (c_gs h) (h_gs h) gs_is_closed gn_errors "3" ++
                 plain_footer_part (c_isa h) (h_isa h) isa_is_closed in_errors "023" ++
                 NL ++ NL ++ l "pyx12 Validator" ++ NL ++ NL ++ NL ++ NL)).
  { unfold html_footer.
    apply wspec_seq; [apply footer_part_spec; reflexivity|].
    apply wspec_seq; [apply footer_part_spec; reflexivity|].
    apply wspec_seq; [apply footer_part_spec; reflexivity|].
    apply (wspec_seq _ _ NL); [apply wspec_write; chunk_const [l "</div>"]|].
    apply (wspec_seq _ _ (NL ++ l "pyx12 Validator" ++ NL ++ NL));
      [apply wspec_write; chunk_const [l "<p>"; l "<a href=""http://sourceforge.net/projects/pyx12/"">"; l "</a>"; l "</p>"]|].
    apply wspec_write. chunk_const [l "</body>"; l "</html>"]. }
  destruct (W tt tt writes H) as [_ C].
  split; [apply chunk_strip; exact C | exact (chunk_tags _ _ C)].
Qed.

(* non-vacuity: a segment with markup characters in its values, with '<' as element separator *)
Example gen_seg_example :
  let d := {| seg_term := "~"%char; ele_term := "<"%char; subele_term := ":"%char |} in
  let x := {| xs_d := d; xs_s := parse_seg d (l "N<M1<a&b c:<x>::<<") |} in
  exists st' writes,
    html_gen_seg (cfg_of d) errh_init x (Some 7%Z) [] {| loop_info := option_map esc (Some (l "Loop 2000A: A&B")) |} = (st', writes, Ok tt)
    /\ strip_markup (concat writes) = l "  Loop 2000A: A&B" ++ NL ++ l "7: N<M1<a&b c:<x>::<<~" ++ NL.
Proof. vm_compute. eexists. eexists. split; reflexivity. Qed.
