(* NV_C13.v — non-vacuity of the hypotheses of the theorems of Props/C13.v.
   Every theorem there has the single hypothesis `charset_ok charset`
   (charset = "B" or charset = "E").  It is satisfied by exactly the two
   settings the source uses; each example states it and evaluates the theorem's
   conclusion on accepted AND rejected concrete values.
   Existing examples in C13_main.v: ex_N, ex_R_no, ex_leap (they evaluate the
   recogniser and the languages, but do not state charset_ok). *)
From Coq Require Import String.
From PX.Lib Require Import Base.
From PX.Model Require Import Validation.
From PX.Spec Require Import C13_spec C13_dec.
From PX.Proofs Require Import C13_lang C13_main.

Local Open Scope string_scope.

Lemma nv_B : charset_ok (l "B"). Proof. left; reflexivity. Qed.
Lemma nv_E : charset_ok (l "E"). Proof. right; reflexivity. Qed.

(* a value the recogniser accepts and that is in the selected language /
   a value the recogniser rejects and that is not *)
Lemma nv_yes ty c i s :
  IsValidDataType s ty c i = Ok true -> in_language_b ty c i s = true ->
  IsValidDataType s ty c i = Ok true /\ In_language ty c i s.
Proof. intros H1 H2. split; [exact H1 | apply in_language_b_iff; exact H2]. Qed.
Lemma nv_no ty c i s :
  IsValidDataType s ty c i = Ok false -> in_language_b ty c i s = false ->
  IsValidDataType s ty c i = Ok false /\ ~ In_language ty c i s.
Proof. intros H1 H2. split; [exact H1 | intros H; apply in_language_b_iff in H; congruence]. Qed.

Ltac yes ty c i s := refine (nv_yes (l ty) (l c) (l i) (l s) _ _); vm_compute; reflexivity.
Ltac no ty c i s := refine (nv_no (l ty) (l c) (l i) (l s) _ _); vm_compute; reflexivity.

(* C13_exact_languages: both settings, both versions, six types, yes and no *)
Example nv_C13_exact_languages :
  charset_ok (l "B") /\ charset_ok (l "E") /\
  (IsValidDataType (l "JOHN Q. O'DOE") (l "AN") (l "B") (l "00401") = Ok true /\ In_language (l "AN") (l "B") (l "00401") (l "JOHN Q. O'DOE")) /\
  (IsValidDataType (l "John") (l "AN") (l "B") (l "00401") = Ok false /\ ~ In_language (l "AN") (l "B") (l "00401") (l "John")) /\
  (IsValidDataType (l "John_<doe>@x") (l "AN") (l "E") (l "00401") = Ok true /\ In_language (l "AN") (l "E") (l "00401") (l "John_<doe>@x")) /\
  (IsValidDataType (l "A^B") (l "ID") (l "E") (l "00401") = Ok false /\ ~ In_language (l "ID") (l "E") (l "00401") (l "A^B")) /\
  (IsValidDataType (l "A^B") (l "ID") (l "E") (l "00501") = Ok true /\ In_language (l "ID") (l "E") (l "00501") (l "A^B")) /\
  (IsValidDataType (l "-00123") (l "N2") (l "B") (l "00501") = Ok true /\ In_language (l "N2") (l "B") (l "00501") (l "-00123")) /\
  (IsValidDataType (l "20030230") (l "D8") (l "E") (l "00501") = Ok false /\ ~ In_language (l "D8") (l "E") (l "00501") (l "20030230")) /\
  (IsValidDataType (l "anything") (l "ZZ") (l "E") (l "00501") = Ok false /\ ~ In_language (l "ZZ") (l "E") (l "00501") (l "anything")).
Proof.
  split; [exact nv_B|]. split; [exact nv_E|].
  split; [yes "AN" "B" "00401" "JOHN Q. O'DOE"|].
  split; [no "AN" "B" "00401" "John"|].
  split; [yes "AN" "E" "00401" "John_<doe>@x"|].
  split; [no "ID" "E" "00401" "A^B"|].
  split; [yes "ID" "E" "00501" "A^B"|].
  split; [yes "N2" "B" "00501" "-00123"|].
  split; [no "D8" "E" "00501" "20030230"|].
  no "ZZ" "E" "00501" "anything".
Qed.

(* C13_never_raises: same hypothesis; including values that make the RD8 and
   date code take their unusual branches *)
Example nv_C13_never_raises :
  charset_ok (l "B") /\ charset_ok (l "E") /\
  IsValidDataType (l "2003-08-28") (l "RD8") (l "B") (l "00401") = Ok false /\
  IsValidDataType (l "-") (l "RD8") (l "E") (l "00501") = Ok false /\
  IsValidDataType (l "2003082x") (l "DT") (l "E") (l "00501") = Ok false /\
  IsValidDataType [ascii_of_nat 7; ascii_of_nat 200] (l "AN") (l "E") (l "00501") = Ok false.
Proof. split; [exact nv_B|]. split; [exact nv_E|]. vm_compute. repeat split; reflexivity. Qed.

Example nv_C13_integer :
  charset_ok (l "B") /\
  (IsValidDataType (l "-0123") (l "N2") (l "B") (l "00401") = Ok true /\ L_N (l "-0123")) /\
  (IsValidDataType (l "12.5") (l "N") (l "B") (l "00401") = Ok false /\ ~ L_N (l "12.5")) /\
  (IsValidDataType (l "-") (l "N0") (l "B") (l "00401") = Ok false /\ ~ L_N (l "-")).
Proof.
  split; [exact nv_B|].
  split; [yes "N2" "B" "00401" "-0123"|]. split; [no "N" "B" "00401" "12.5" | no "N0" "B" "00401" "-"].
Qed.

Example nv_C13_decimal :
  charset_ok (l "E") /\
  (IsValidDataType (l "-12.50") (l "R") (l "E") (l "00501") = Ok true /\ L_R (l "-12.50")) /\
  (IsValidDataType (l ".5") (l "R") (l "E") (l "00501") = Ok true /\ L_R (l ".5")) /\
  (IsValidDataType (l "12.") (l "R") (l "E") (l "00501") = Ok false /\ ~ L_R (l "12.")) /\
  (IsValidDataType (l "1.2.3") (l "R") (l "E") (l "00501") = Ok false /\ ~ L_R (l "1.2.3")).
Proof.
  split; [exact nv_E|].
  split; [yes "R" "E" "00501" "-12.50"|]. split; [yes "R" "E" "00501" ".5"|].
  split; [no "R" "E" "00501" "12." | no "R" "E" "00501" "1.2.3"].
Qed.

Example nv_C13_identifier :
  charset_ok (l "B") /\ charset_ok (l "E") /\
  (IsValidDataType (l "HC:99213") (l "ID") (l "B") (l "00401") = Ok true /\ L_ID (l "B") (l "00401") (l "HC:99213")) /\
  (IsValidDataType (l "hc") (l "ID") (l "B") (l "00401") = Ok false /\ ~ L_ID (l "B") (l "00401") (l "hc")) /\
  (IsValidDataType (l "hc") (l "ID") (l "E") (l "00401") = Ok true /\ L_ID (l "E") (l "00401") (l "hc")).
Proof.
  split; [exact nv_B|]. split; [exact nv_E|].
  split; [yes "ID" "B" "00401" "HC:99213"|]. split; [no "ID" "B" "00401" "hc" | yes "ID" "E" "00401" "hc"].
Qed.

Example nv_C13_string :
  charset_ok (l "B") /\ charset_ok (l "E") /\
  (IsValidDataType (l "123 MAIN ST.") (l "AN") (l "B") (l "00501") = Ok true /\ L_ID (l "B") (l "00501") (l "123 MAIN ST.")) /\
  (IsValidDataType (l "a`b") (l "AN") (l "E") (l "00401") = Ok false /\ ~ L_ID (l "E") (l "00401") (l "a`b")) /\
  (IsValidDataType (l "a`b") (l "AN") (l "E") (l "00501") = Ok true /\ L_ID (l "E") (l "00501") (l "a`b")).
Proof.
  split; [exact nv_B|]. split; [exact nv_E|].
  split; [yes "AN" "B" "00501" "123 MAIN ST."|]. split; [no "AN" "E" "00401" "a`b" | yes "AN" "E" "00501" "a`b"].
Qed.

Example nv_C13_date :
  charset_ok (l "B") /\
  (IsValidDataType (l "200308281128") (l "DT") (l "B") (l "00401") = Ok true /\ L_DT (l "200308281128")) /\
  (IsValidDataType (l "200308282460") (l "DT") (l "B") (l "00401") = Ok false /\ ~ L_DT (l "200308282460")) /\
  (IsValidDataType (l "20240229") (l "D8") (l "B") (l "00401") = Ok true /\ date8 (l "20240229")) /\
  (IsValidDataType (l "19000229") (l "D8") (l "B") (l "00401") = Ok false /\ ~ date8 (l "19000229")) /\
  (IsValidDataType (l "490229") (l "D6") (l "B") (l "00401") = Ok false /\ ~ date6 (l "490229")) /\
  (IsValidDataType (l "480229") (l "D6") (l "B") (l "00401") = Ok true /\ date6 (l "480229")).
Proof.
  split; [exact nv_B|].
  split; [yes "DT" "B" "00401" "200308281128"|]. split; [no "DT" "B" "00401" "200308282460"|].
  split; [yes "D8" "B" "00401" "20240229"|]. split; [no "D8" "B" "00401" "19000229"|].
  split; [no "D6" "B" "00401" "490229" | yes "D6" "B" "00401" "480229"].
Qed.

Example nv_C13_date_range :
  charset_ok (l "E") /\
  (IsValidDataType (l "20030828-20030901") (l "RD8") (l "E") (l "00401") = Ok true /\ L_RD8 (l "20030828-20030901")) /\
  (IsValidDataType (l "20030828-20030931") (l "RD8") (l "E") (l "00401") = Ok false /\ ~ L_RD8 (l "20030828-20030931")) /\
  (IsValidDataType (l "20030828--20030901") (l "RD8") (l "E") (l "00401") = Ok false /\ ~ L_RD8 (l "20030828--20030901")).
Proof.
  split; [exact nv_E|].
  split; [yes "RD8" "E" "00401" "20030828-20030901"|].
  split; [no "RD8" "E" "00401" "20030828-20030931" | no "RD8" "E" "00401" "20030828--20030901"].
Qed.

Example nv_C13_time :
  charset_ok (l "B") /\
  (IsValidDataType (l "1128") (l "TM") (l "B") (l "00401") = Ok true /\ L_TM (l "1128")) /\
  (IsValidDataType (l "23595999") (l "TM") (l "B") (l "00401") = Ok true /\ L_TM (l "23595999")) /\
  (IsValidDataType (l "2400") (l "TM") (l "B") (l "00401") = Ok false /\ ~ L_TM (l "2400")) /\
  (IsValidDataType (l "11280") (l "TM") (l "B") (l "00401") = Ok false /\ ~ L_TM (l "11280")).
Proof.
  split; [exact nv_B|].
  split; [yes "TM" "B" "00401" "1128"|]. split; [yes "TM" "B" "00401" "23595999"|].
  split; [no "TM" "B" "00401" "2400" | no "TM" "B" "00401" "11280"].
Qed.
