(* C02_whole_c04.v — reader_silent (Spec/C02_whole_spec.v) from C04's independent recount: for an interchange
   none of whose groups selects an 837 map and without HL segments, whose segments are non-empty with
   well-formed ids, a well-formed CONSISTENT envelope tree (Spec/C04_spec.v: wf_doc, consistent) whose
   flattening is the document makes the reader silent.  (With an 837 map the reader also checks the LX
   numbering, and with HL segments the HL numbering / parents: these are the reader's own checks, outside C04.) *)
From Coq Require Import String Lia.
From PX.Lib Require Import Base PyStr PyInt.
From PX.Model Require Import Path Segment Raw Reader MapLoad Driver.
From PX.Spec Require Import C04_spec C02_whole_spec.
From PX.Proofs Require Import C04_reader C02_whole_reader.

Local Definition l (x : string) : str := list_ascii_of_string x.

(* a segment the reader has nothing of its own to say about *)
Definition seg_fine (s : seg) : bool := negb (seg_empty s) && seg_id_valid s && negb (sid_is s "HL").

Definition env_lvl (e : err) : Prop := is_env_level (e_lvl e) = true.

Lemma env_only_nil es : Forall env_lvl es -> env_codes es = [] -> es = [].
Proof.
  intros F H. unfold env_codes in H. destruct es as [|e es]; [reflexivity|].
  inversion F as [|? ? He _]; subst. unfold env_lvl in He. cbn [filter] in H. rewrite He in H. discriminate.
Qed.

Ltac all_env :=
  repeat match goal with
         | |- Forall _ (_ ++ _) => apply Forall_app; split
         | |- Forall _ (_ :: _) => constructor; [reflexivity|]
         | |- Forall _ [] => constructor
         | |- Forall _ (if ?b then _ else _) => destruct b
         | |- Forall _ (match ?t with _ => _ end) => destruct t
         end.

Lemma base_env d x s x1 e :
  base_step d x s = Ok (x1, e) -> seg_fine s = true -> check_837_lx x = false -> Forall env_lvl e.
Proof.
  unfold seg_fine. intros B F Lx. apply andb_true_iff in F as [F Hl]. apply andb_true_iff in F as [Em Iv].
  apply negb_true_iff in Em, Hl. unfold base_step in B. rewrite Em, Iv, Hl, Lx in B. cbn [app andb] in B.
  destruct (sid_is s "ISA").
  { destruct (negb _); [discriminate|]. injection B as _ <-. all_env. }
  destruct (sid_is s "GS"); [injection B as _ <-; all_env|].
  destruct (sid_is s "ST"); [injection B as _ <-; all_env|].
  injection B as _ <-. constructor.
Qed.

Lemma reader_env d x s x' es :
  reader_step d x s = Ok (x', es) -> seg_fine s = true -> check_837_lx x = false -> Forall env_lvl es.
Proof.
  intros R F Lx. unfold reader_step in R. destruct (base_step d x s) as [[x1 e]|ex] eqn:B; [|discriminate].
  pose proof (base_env _ _ _ _ _ B F Lx) as Fe. cbn [bind] in R. cbv zeta in R.
  assert (Pre : Forall env_lvl
    (if sid_is s "ISA" then match loops x with [] => [] | _ :: _ => [mk_err "isa" "024" None] end
     else if sid_is s "GS" then if top_kind_is (loops x) "ISA" then [] else [mk_err "isa" "024" None]
     else if sid_is s "ST" then if top_kind_is (loops x) "GS" then [] else [mk_err "isa" "024" None] else [])).
  { all_env. }
  destruct (sid_is s "IEA").
  { destruct (loops x1) as [|[k i] r].
    - injection R as _ <-. all_env; assumption.
    - destruct (str_eqb k _).
      + injection R as _ <-. all_env; assumption.
      + destruct r as [|[k2 i2] r2]; injection R as _ <-; all_env; assumption. }
  destruct (sid_is s "GE").
  { destruct (loops x1) as [|[k i] r].
    - injection R as _ <-. all_env; assumption.
    - destruct (str_eqb k _).
      + injection R as _ <-. all_env; assumption.
      + destruct r as [|[k2 i2] r2]; injection R as _ <-; all_env; assumption. }
  destruct (sid_is s "SE").
  { destruct (loops x1) as [|[k i] r]; injection R as _ <-; all_env; assumption. }
  injection R as _ <-. all_env; assumption.
Qed.

Lemma cleanup_env x : Forall env_lvl (cleanup x).
Proof.
  unfold cleanup. induction (rev (loops x)) as [|lp r IH]; [constructor|]. cbn [flat_map]. apply Forall_app. split; [|exact IH].
  destruct (str_eqb (fst lp) _); [repeat constructor|]. destruct (str_eqb (fst lp) _); [repeat constructor|].
  destruct (str_eqb (fst lp) _); repeat constructor.
Qed.

Lemma with_lx_same x b : check_837_lx x = b -> with_lx x b = x.
Proof. intros <-. destruct x. reflexivity. Qed.

(* a silent run of the reader, flag off *)
Lemma run_steps_quiet d : forall segs x out xf,
  run_steps d x segs = Ok (out, xf) -> check_837_lx x = false ->
  forallb seg_fine segs = true -> Forall (fun es => env_codes es = []) out ->
  quiet_segs d x segs = Some xf /\ check_837_lx xf = false.
Proof.
  induction segs as [|s segs IH]; intros x out xf R Lx F Q; cbn [run_steps quiet_segs] in *.
  - injection R as _ <-. auto.
  - destruct (reader_step d x s) as [[x1 es]|ex] eqn:R1; [|discriminate].
    destruct (run_steps d x1 segs) as [[out1 xf1]|ex] eqn:R2; [|discriminate]. injection R as <- <-.
    cbn [forallb] in F. apply andb_true_iff in F as [F1 F2]. inversion Q as [|? ? Q1 Q2]; subst.
    rewrite (env_only_nil es (reader_env _ _ _ _ _ R1 F1 Lx) Q1) in *.
    apply (IH x1 out1 xf1 R2); [|exact F2 | exact Q2].
    rewrite (reader_step_lx _ _ _ _ _ R1). exact Lx.
Qed.

Lemma quiet_segs_app d a : forall b x x2, quiet_segs d x (a ++ b) = Some x2 ->
  exists x1, quiet_segs d x a = Some x1 /\ quiet_segs d x1 b = Some x2.
Proof.
  induction a as [|s a IH]; intros b x x2 Q; cbn [app quiet_segs] in *; [eauto|].
  destruct (reader_step d x s) as [[x1 [|e es]]|ex]; try discriminate. apply IH, Q.
Qed.

Lemma quiet_groups_of_segs d : forall gs x x2,
  Forall (fun g => is837 (cg_map g) = false) gs -> check_837_lx x = false ->
  quiet_segs d x (flat_map group_segs gs) = Some x2 -> quiet_groups d x gs = Some x2.
Proof.
  induction gs as [|g gs IH]; intros x x2 F Lx Q; cbn [flat_map quiet_groups] in *; [exact Q|].
  inversion F as [|? ? Fg F']; subst.
  apply quiet_segs_app in Q as (xm & Q1 & Q2). unfold group_segs in Q1. cbn [quiet_segs] in Q1.
  destruct (reader_step d x (cg_gs g)) as [[x1 [|e es]]|ex] eqn:R; try discriminate.
  assert (L1 : check_837_lx x1 = false) by (rewrite (reader_step_lx _ _ _ _ _ R); exact Lx).
  rewrite Fg. rewrite (with_lx_same x1 false L1), Q1.
  apply IH; [exact F' | | exact Q2].
  clear -Q1 L1. revert x1 xm Q1 L1. induction (map snd (cg_items g)) as [|s r IHr]; intros x1 xm Q1 L1; cbn [quiet_segs] in Q1.
  - injection Q1 as <-. exact L1.
  - destruct (reader_step d x1 s) as [[xa [|e es]]|ex] eqn:R; try discriminate.
    apply (IHr xa xm Q1). rewrite (reader_step_lx _ _ _ _ _ R). exact L1.
Qed.

(* THE BRIDGE *)
Theorem reader_silent_of_consistent d isa gs iea (i : inter) :
  flatten_inter i = isa :: doc_body gs iea ->
  wf_doc [i] = true -> consistent d [i] ->
  forallb seg_fine (isa :: doc_body gs iea) = true ->
  Forall (fun g => is837 (cg_map g) = false) gs ->
  reader_silent d isa gs iea.
Proof.
  intros Fl Wf Co Fine N837.
  destruct (consistent_silent d false [i] Wf Co) as (out & xf & R & Q & Cu).
  cbn [flatten flat_map] in R. rewrite app_nil_r, Fl in R.
  destruct (run_steps_quiet d _ _ _ _ R eq_refl Fine Q) as [Qs Lf].
  change (fresh false) with x_init in Qs. cbn [quiet_segs] in Qs.
  destruct (reader_step d x_init isa) as [[x1 [|e es]]|ex] eqn:R1; try discriminate.
  unfold doc_body in Qs. apply quiet_segs_app in Qs as (x2 & Q2 & Q3). cbn [quiet_segs] in Q3.
  destruct (reader_step d x2 iea) as [[x3 [|e es]]|ex] eqn:R3; try discriminate. injection Q3 as ->.
  exists x1, x2, xf. split; [exact R1|]. split; [|split; [exact R3|]].
  - apply quiet_groups_of_segs; [exact N837 | | exact Q2]. rewrite (reader_step_lx _ _ _ _ _ R1). reflexivity.
  - apply (env_only_nil _ (cleanup_env xf) Cu).
Qed.

Print Assumptions reader_silent_of_consistent.
