(* NV_C20.v — non-vacuity of the hypotheses of the theorems of Props/C20.v.
   (C20_content_preserved and C20_output_rereads restate C01_format_parse_canon
   and C01_reread; see also NV_C01.v and C01_roundtrip.isa_is_clean.  Here the
   delimiters are | ^ ~ for variety.) *)
From Coq Require Import String.
From PX.Lib Require Import Base PyStr.
From PX.Model Require Import Path Segment Raw Reader Writer Norm.
From PX.Spec Require Import C01_spec.
From PX.Proofs Require Import C01_roundtrip C17_segment C20_norm.

Definition nv_d : delims := {| seg_term := "~"%char; ele_term := "|"%char; subele_term := "^"%char |}.
Definition p (t : string) : seg := parse_seg nv_d (cs t).

(* composites with inner and trailing empty components, inner and trailing
   empty elements; values containing the characters * and : (not delimiters here) *)
Definition nv_seg : seg :=
  {| sid := Some (cs "SV1");
     els := [[cs "HC"; cs "99213"; []; cs "25"; []; []]; [[]]; [cs "40.5*2"]; [[]; cs "X:Y"]; [[]; []]; [[]]] |}.

(* C20_content_preserved *)
Example nv_C20_content_preserved :
  distinct_delims nv_d = true /\ clean_seg nv_d nv_seg = true /\
  format_seg nv_d nv_seg = cs "SV1|HC^99213^^25||40.5*2|^X:Y~" /\
  canon nv_seg <> nv_seg /\
  canon (parse_seg nv_d (format_seg nv_d nv_seg)) = canon nv_seg.
Proof. vm_compute. repeat split; try reflexivity. intros H; discriminate H. Qed.

(* C20_output_rereads: a real ISA declaring these delimiters, and four more segments *)
Definition nv_segs : list seg :=
  [ p "ISA|00|          |00|          |ZZ|ZZ000          |ZZ|ZZ001          |030828|1128|U|00401|000010121|0|T|^~";
    p "GS|HC|ZZ000|ZZ001|20030828|1128|17|X|004010X098A1";
    nv_seg;
    p "HL|1||20|1|";
    {| sid := Some (cs "IEA"); els := [[cs "1"]; [cs "000010121"]; [[]]] |} ].

Example nv_C20_output_rereads :
  distinct_delims nv_d = true /\
  forallb (clean_seg nv_d) nv_segs = true /\ forallb id_starts_plain nv_segs = true /\
  map (seg_of_line nv_d) (raw_spec (seg_term nv_d) (concat (map (format_seg nv_d) nv_segs)))
  = map (fun s => parse_seg nv_d (format_seg nv_d s)) nv_segs.
Proof. vm_compute. repeat split; reflexivity. Qed.

(* C20_idempotent *)
Example nv_C20_idempotent :
  distinct_delims nv_d = true /\ clean_seg nv_d nv_seg = true /\
  parse_seg nv_d (format_seg nv_d nv_seg) <> nv_seg /\
  format_seg nv_d (parse_seg nv_d (format_seg nv_d nv_seg)) = format_seg nv_d nv_seg.
Proof. vm_compute. repeat split; try reflexivity. intros H; discriminate H. Qed.

(* ---- count repair: a reader state inside ISA / GS / ST, at line 8 ---- *)
Definition nv_x : xstate :=
  {| loops := [(cs "ST", Some (cs "0001")); (cs "GS", Some (cs "17")); (cs "ISA", Some (cs "000010121"))];
     hl_stack := [1%Z]; gs_count := 2; st_count := 3; hl_count := 1; seg_count := 5; cur_line := 8;
     isa_ids := [Some (cs "000010121")]; gs_ids := [Some (cs "16"); Some (cs "17")]; st_ids := [Some (cs "0001")];
     lx_count := 0; check_837_lx := false |}.
Definition nv_xg : xstate := with_loops nv_x (tl (loops nv_x)).          (* the set closed *)
Definition nv_xi : xstate := with_loops nv_x (tl (tl (loops nv_x))).     (* the group closed *)

Definition step_x (x : xstate) (s : seg) : xstate := match reader_step nv_d x s with Ok (x', _) => x' | Raise _ => x end.
Definition step_es (x : xstate) (s : seg) : list err := match reader_step nv_d x s with Ok (_, es) => es | Raise _ => [] end.
Definition codes (es : list err) : list (str * str) := map (fun e => (e_lvl e, e_code e)) es.

Lemma nv_sep : sep_not_numeric nv_d.
Proof. split; [reflexivity | discriminate]. Qed.

(* an SE with a wrong count (a composite, even), a wrong control number and further elements *)
Definition nv_se : seg := p "SE|99^1|0002|extra^comp".
(* a GE with a non-numeric count and a wrong control number, trailing empty elements *)
Definition nv_ge : seg := p "GE|x|18||".
(* an IEA with an EMPTY count (the segment is not empty: IEA02 is there) and a wrong control number *)
Definition nv_iea : seg := p "IEA||000010129".
(* an HL with a wrong sequence number *)
Definition nv_hl : seg := p "HL|5|1|22|0".

(* C20_fix_only_count: the hypothesis for all four repairs; first elements
   rewritten, everything else (a window of positions) unchanged *)
Example nv_C20_fix_only_count :
  fix_seg nv_d (step_x nv_x nv_se) nv_se (step_es nv_x nv_se) = Ok (p "SE|6|0002|extra^comp") /\
  fix_seg nv_d (step_x nv_xg nv_ge) nv_ge (step_es nv_xg nv_ge) = Ok (p "GE|3|18||") /\
  fix_seg nv_d (step_x nv_xi nv_iea) nv_iea (step_es nv_xi nv_iea) = Ok (p "IEA|2|000010129") /\
  fix_seg nv_d (step_x nv_x nv_hl) nv_hl (step_es nv_x nv_hl) = Ok (p "HL|2|1|22|0") /\
  sid (p "SE|6|0002|extra^comp") = sid nv_se /\
  forallb (fun ij => str_eqb (cell (p "SE|6|0002|extra^comp") (S (fst ij)) (snd ij)) (cell nv_se (S (fst ij)) (snd ij)))
          (list_prod (seq 0 6) (seq 0 4)) = true /\
  cell nv_se 0 1 = cs "1" /\ cell (p "SE|6|0002|extra^comp") 0 1 = [].
Proof. vm_compute. repeat split; reflexivity. Qed.

(* C20_fix_noop: the four hypotheses on a NON-empty error list (wrong control
   number st/3, right count), and on an SE drawing no error *)
Example nv_C20_fix_noop :
  let s := p "SE|6|0002" in let es := step_es nv_x s in
  codes es = [(cs "st", cs "3")] /\
  has_code "021" es = false /\ has_code "5" es = false /\ has_code "4" es = false /\ has_code "HL1" es = false /\
  fix_seg nv_d (step_x nv_x s) s es = Ok s.
Proof. vm_compute. repeat split; reflexivity. Qed.

(* C20_fix_repairs_se: six hypotheses, conclusion *)
Example nv_C20_fix_repairs_se :
  let x' := step_x nv_x nv_se in let es := step_es nv_x nv_se in let s' := p "SE|6|0002|extra^comp" in
  sep_not_numeric nv_d /\ sid_is nv_se "SE" = true /\ seg_empty nv_se = false /\
  reader_step nv_d nv_x nv_se = Ok (x', es) /\ has_code "4" es = true /\ fix_seg nv_d x' nv_se es = Ok s' /\
  codes es = [(cs "st", cs "3"); (cs "st", cs "4")] /\
  exists es', reader_step nv_d nv_x s' = Ok (x', es') /\ has_code "4" es' = false /\ codes_but "4" es' = codes_but "4" es /\
              codes es' = [(cs "st", cs "3")].
Proof.
  cbv zeta. split; [exact nv_sep|]. repeat (split; [vm_compute; reflexivity|]).
  eexists. split; [vm_compute; reflexivity|]. vm_compute. repeat split; reflexivity.
Qed.

(* C20_fix_repairs_ge *)
Example nv_C20_fix_repairs_ge :
  let x' := step_x nv_xg nv_ge in let es := step_es nv_xg nv_ge in let s' := p "GE|3|18||" in
  sep_not_numeric nv_d /\ sid_is nv_ge "GE" = true /\ seg_empty nv_ge = false /\
  reader_step nv_d nv_xg nv_ge = Ok (x', es) /\ has_code "5" es = true /\ fix_seg nv_d x' nv_ge es = Ok s' /\
  codes es = [(cs "gs", cs "4"); (cs "gs", cs "5")] /\
  exists es', reader_step nv_d nv_xg s' = Ok (x', es') /\ has_code "5" es' = false /\ codes_but "5" es' = codes_but "5" es /\
              codes es' = [(cs "gs", cs "4")].
Proof.
  cbv zeta. split; [exact nv_sep|]. repeat (split; [vm_compute; reflexivity|]).
  eexists. split; [vm_compute; reflexivity|]. vm_compute. repeat split; reflexivity.
Qed.

(* C20_fix_repairs_iea *)
Example nv_C20_fix_repairs_iea :
  let x' := step_x nv_xi nv_iea in let es := step_es nv_xi nv_iea in let s' := p "IEA|2|000010129" in
  sep_not_numeric nv_d /\ sid_is nv_iea "IEA" = true /\ seg_empty nv_iea = false /\
  reader_step nv_d nv_xi nv_iea = Ok (x', es) /\ has_code "021" es = true /\ fix_seg nv_d x' nv_iea es = Ok s' /\
  codes es = [(cs "isa", cs "001"); (cs "isa", cs "021")] /\
  exists es', reader_step nv_d nv_xi s' = Ok (x', es') /\ has_code "021" es' = false /\ codes_but "021" es' = codes_but "021" es /\
              codes es' = [(cs "isa", cs "001")].
Proof.
  cbv zeta. split; [exact nv_sep|]. repeat (split; [vm_compute; reflexivity|]).
  eexists. split; [vm_compute; reflexivity|]. vm_compute. repeat split; reflexivity.
Qed.
