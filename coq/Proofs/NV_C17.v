(* NV_C17.v — non-vacuity of the hypotheses of the theorems of Props/C17.v. *)
From Coq Require Import String.
From PX.Lib Require Import Base PyStr.
From PX.Model Require Import Path Segment.
From PX.Spec Require Import C17_spec.
From PX.Proofs Require Import C17_path C17_segment C17_link.
From PX.Proofs Require C08_lemmas.   (* digits_not_shaped *)

Definition nv_d : delims := {| seg_term := "~"%char; ele_term := "*"%char; subele_term := ":"%char |}.

(* ------------------------------------------------------------------ *)
(* paths                                                               *)
(* ------------------------------------------------------------------ *)
(* absolute, seven loops, segment id, qualifier, element and component index *)
Definition nv_r_full : refdes := {| r_seg := Some (cs "REF"); r_qual := Some (cs "EA"); r_ele := Some (cs "02"); r_sub := Some (cs "12") |}.
Definition nv_p_full : path_ast :=
  {| p_rel := false;
     p_loops := [cs "ISA_LOOP"; cs "GS_LOOP"; cs "ST_LOOP"; cs "DETAIL"; cs "2000A"; cs "2000B"; cs "2300"];
     p_ref := Some nv_r_full |}.
(* relative, two loops, segment and element only *)
Definition nv_p_rel : path_ast :=
  {| p_rel := true; p_loops := [cs "2000B"; cs "2300"];
     p_ref := Some {| r_seg := Some (cs "CLM"); r_qual := None; r_ele := Some (cs "05"); r_sub := None |} |}.
(* a bare designator: element and component, no segment id (stands alone) *)
Definition nv_p_bare : path_ast :=
  {| p_rel := true; p_loops := [];
     p_ref := Some {| r_seg := None; r_qual := None; r_ele := Some (cs "03"); r_sub := Some (cs "2") |} |}.
(* loops only; the last loop id (all digits) does not look like a designator *)
Definition nv_p_loops : path_ast :=
  {| p_rel := false; p_loops := [cs "ISA_LOOP"; cs "GS_LOOP"; cs "ST_LOOP"; cs "DETAIL"; cs "2000A"; cs "2300"]; p_ref := None |}.

Lemma nv_wf_full : wf_path nv_p_full.
Proof. split; [vm_compute; reflexivity|]. split; [|exact I]. split; [vm_compute; reflexivity | intros H; discriminate H]. Qed.
Lemma nv_wf_rel : wf_path nv_p_rel.
Proof. split; [vm_compute; reflexivity|]. split; [|exact I]. split; [vm_compute; reflexivity | intros H; discriminate H]. Qed.
Lemma nv_wf_bare : wf_path nv_p_bare.
Proof. split; [vm_compute; reflexivity|]. split; [|exact I]. split; [vm_compute; reflexivity | intros _; split; reflexivity]. Qed.
Lemma nv_wf_loops : wf_path nv_p_loops.
Proof.
  split; [vm_compute; reflexivity|]. split; [|exact I].
  change (~ refdes_shaped (cs "2300")). apply C08_lemmas.digits_not_shaped; [reflexivity|].
  apply Nat.leb_le. reflexivity.
Qed.

Definition xp (rel : bool) (ll : list string) (sg q : option string) (e u : option N) : xpath :=
  {| relative := rel; loop_list := map cs ll; seg_id := option_map cs sg; id_val := option_map cs q; ele_idx := e; subele_idx := u |}.

Definition nv_x_full := xp false ["ISA_LOOP"; "GS_LOOP"; "ST_LOOP"; "DETAIL"; "2000A"; "2000B"; "2300"]%string (Some "REF"%string) (Some "EA"%string) (Some 2%N) (Some 12%N).
Definition nv_x_rel := xp true ["2000B"; "2300"]%string (Some "CLM"%string) None (Some 5%N) None.
Definition nv_x_bare := xp true [] None None (Some 3%N) (Some 2%N).
Definition nv_x_loops := xp false ["ISA_LOOP"; "GS_LOOP"; "ST_LOOP"; "DETAIL"; "2000A"; "2300"]%string None None None None.

(* C17_parse_print *)
Example nv_C17_parse_print :
  wf_path nv_p_full /\ wf_path nv_p_rel /\ wf_path nv_p_bare /\ wf_path nv_p_loops /\
  print_path nv_p_full = cs "/ISA_LOOP/GS_LOOP/ST_LOOP/DETAIL/2000A/2000B/2300/REF[EA]02-12" /\
  parse_path (print_path nv_p_full) = Ok nv_x_full /\
  print_path nv_p_rel = cs "2000B/2300/CLM05" /\ parse_path (print_path nv_p_rel) = Ok nv_x_rel /\
  print_path nv_p_bare = cs "03-2" /\ parse_path (print_path nv_p_bare) = Ok nv_x_bare /\
  parse_path (print_path nv_p_loops) = Ok nv_x_loops /\
  (relative nv_x_full = p_rel nv_p_full /\ loop_list nv_x_full = p_loops nv_p_full /\ seg_id nv_x_full = expected_seg nv_p_full /\
   id_val nv_x_full = expected_qual nv_p_full /\ ele_idx nv_x_full = expected_ele nv_p_full /\ subele_idx nv_x_full = expected_sub nv_p_full).
Proof.
  split; [exact nv_wf_full|]. split; [exact nv_wf_rel|]. split; [exact nv_wf_bare|]. split; [exact nv_wf_loops|].
  vm_compute. repeat split; reflexivity.
Qed.

(* C17_format_parse: both hypotheses, and the conclusion *)
Example nv_C17_format_parse :
  (wf_path nv_p_full /\ parse_path (print_path nv_p_full) = Ok nv_x_full /\ format_path nv_x_full = print_path nv_p_full) /\
  (wf_path nv_p_rel /\ parse_path (print_path nv_p_rel) = Ok nv_x_rel /\ format_path nv_x_rel = print_path nv_p_rel) /\
  (wf_path nv_p_bare /\ parse_path (print_path nv_p_bare) = Ok nv_x_bare /\ format_path nv_x_bare = print_path nv_p_bare) /\
  (wf_path nv_p_loops /\ parse_path (print_path nv_p_loops) = Ok nv_x_loops /\ format_path nv_x_loops = print_path nv_p_loops).
Proof.
  split; [split; [exact nv_wf_full | vm_compute; split; reflexivity]|].
  split; [split; [exact nv_wf_rel | vm_compute; split; reflexivity]|].
  split; [split; [exact nv_wf_bare | vm_compute; split; reflexivity]|].
  split; [exact nv_wf_loops | vm_compute; split; reflexivity].
Qed.

(* C17_reparse_equal: both hypotheses, and the conclusion *)
Example nv_C17_reparse_equal :
  (wf_path nv_p_full /\ parse_path (print_path nv_p_full) = Ok nv_x_full /\
   exists y, parse_path (format_path nv_x_full) = Ok y /\ path_eqb nv_x_full y = true) /\
  (wf_path nv_p_bare /\ parse_path (print_path nv_p_bare) = Ok nv_x_bare /\
   exists y, parse_path (format_path nv_x_bare) = Ok y /\ path_eqb nv_x_bare y = true).
Proof.
  split.
  - split; [exact nv_wf_full|]. split; [vm_compute; reflexivity|]. eexists. split; vm_compute; reflexivity.
  - split; [exact nv_wf_bare|]. split; [vm_compute; reflexivity|]. eexists. split; vm_compute; reflexivity.
Qed.

(* C17_rejects: the five hypotheses; an element index, and a qualifier, after loop ids without a segment id *)
Definition nv_r_noseg : refdes := {| r_seg := None; r_qual := None; r_ele := Some (cs "02"); r_sub := Some (cs "1") |}.
Definition nv_r_qualonly : refdes := {| r_seg := None; r_qual := Some (cs "EA"); r_ele := None; r_sub := None |}.
Definition nv_loops : list str := [cs "2000A"; cs "2300"].

Example nv_C17_rejects :
  nv_loops <> [] /\ forallb wf_loop nv_loops = true /\
  (shape_ok nv_r_noseg = true /\ r_seg nv_r_noseg = None /\
   (r_qual nv_r_noseg <> None \/ r_ele nv_r_noseg <> None \/ r_sub nv_r_noseg <> None)) /\
  (shape_ok nv_r_qualonly = true /\ r_seg nv_r_qualonly = None /\
   (r_qual nv_r_qualonly <> None \/ r_ele nv_r_qualonly <> None \/ r_sub nv_r_qualonly <> None)) /\
  parse_path (["/"%char] ++ join "/"%char nv_loops ++ "/"%char :: print_refdes nv_r_noseg) = Raise X12PathError /\
  parse_path ([] ++ join "/"%char nv_loops ++ "/"%char :: print_refdes nv_r_qualonly) = Raise X12PathError /\
  ["/"%char] ++ join "/"%char nv_loops ++ "/"%char :: print_refdes nv_r_noseg = cs "/2000A/2300/02-1".
Proof.
  split; [discriminate|]. split; [vm_compute; reflexivity|].
  split; [split; [vm_compute; reflexivity | split; [reflexivity | right; left; discriminate]]|].
  split; [split; [vm_compute; reflexivity | split; [reflexivity | left; discriminate]]|].
  vm_compute. repeat split; reflexivity.
Qed.

(* ------------------------------------------------------------------ *)
(* segments                                                            *)
(* ------------------------------------------------------------------ *)
Definition nv_s : seg := parse_seg nv_d (cs "SV1*HC:99213:25**40*UN*1***1:2").
Definition nv_isa : seg :=
  parse_seg nv_d (cs "ISA*00*          *00*          *ZZ*ZZ000          *ZZ*ZZ001          *030828*1128*U*00401*000010121*0*T*:").

Lemma value_ok_intro d s i v :
  (if is_isa16 s i then negb (mem_ascii (ele_term d) v) else negb (mem_ascii (subele_term d) v)) = true -> value_ok d s i v.
Proof.
  unfold value_ok. destruct (is_isa16 s i); intros H I; apply mem_ascii_In in I; rewrite I in H; discriminate.
Qed.

(* C17_set_get_element: overwrite a composite (0), write far beyond the end
   (11), and ISA16 with a value that IS the component separator *)
Example nv_C17_set_get_element :
  value_ok nv_d nv_s 0 (cs "AD*X") /\ value_ok nv_d nv_s 11 (cs "Y 4") /\ value_ok nv_d nv_isa 15 (cs ":") /\
  (exists s', set_ix nv_d nv_s (zi 0, None) (cs "AD*X") = Ok s' /\
     get_ix s' (zi 0, None) = Ok (GotComp [cs "AD*X"]) /\ value_of nv_d (GotComp [cs "AD*X"]) = Some (cs "AD*X")) /\
  (exists s', set_ix nv_d nv_s (zi 11, None) (cs "Y 4") = Ok s' /\ seg_len s' = 12 /\
     get_ix s' (zi 11, None) = Ok (GotComp [cs "Y 4"])) /\
  (exists s', set_ix nv_d nv_isa (zi 15, None) (cs ":") = Ok s' /\ get_ix s' (zi 15, None) = Ok (GotComp [cs ":"])).
Proof.
  split; [apply value_ok_intro; vm_compute; reflexivity|].
  split; [apply value_ok_intro; vm_compute; reflexivity|].
  split; [apply value_ok_intro; vm_compute; reflexivity|].
  repeat split; eexists; repeat split; vm_compute; reflexivity.
Qed.

(* C17_set_get_component: inside an existing composite, beyond its end, and in
   a new element beyond the segment's end; also in an ISA away from ISA16 *)
Example nv_C17_set_get_component :
  is_isa16 nv_s 0 = false /\ is_isa16 nv_s 12 = false /\ is_isa16 nv_isa 12 = false /\
  (exists s', set_ix nv_d nv_s (zi 0, zi 1) (cs "99214") = Ok s' /\ get_ix s' (zi 0, zi 1) = Ok (GotEle (cs "99214"))) /\
  (exists s', set_ix nv_d nv_s (zi 0, zi 5) (cs "a:b") = Ok s' /\ get_ix s' (zi 0, zi 5) = Ok (GotEle (cs "a:b"))) /\
  (exists s', set_ix nv_d nv_s (zi 12, zi 3) (cs "Z") = Ok s' /\ get_ix s' (zi 12, zi 3) = Ok (GotEle (cs "Z")) /\ seg_len s' = 13) /\
  (exists s', set_ix nv_d nv_isa (zi 12, zi 1) (cs "9") = Ok s' /\ get_ix s' (zi 12, zi 1) = Ok (GotEle (cs "9"))).
Proof.
  split; [reflexivity|]. split; [reflexivity|]. split; [reflexivity|].
  repeat split; eexists; repeat split; vm_compute; reflexivity.
Qed.

(* C17_set_extends: element-level (cj = None) and component-level (cj = Some 2) writes *)
Definition nv_s_ext1 : seg := match set_ix nv_d nv_s (zi 11, option_map Z.of_nat None) (cs "Y:4") with Ok x => x | Raise _ => nv_s end.
Definition nv_s_ext2 : seg := match set_ix nv_d nv_s (zi 3, option_map Z.of_nat (Some 2)) (cs "Q") with Ok x => x | Raise _ => nv_s end.
Example nv_C17_set_extends :
  set_ix nv_d nv_s (zi 11, option_map Z.of_nat None) (cs "Y:4") = Ok nv_s_ext1 /\
  set_ix nv_d nv_s (zi 3, option_map Z.of_nat (Some 2)) (cs "Q") = Ok nv_s_ext2 /\
  seg_len nv_s = 8 /\
  seg_len nv_s_ext1 = Nat.max (seg_len nv_s) 12 /\ sid nv_s_ext1 = sid nv_s /\
  seg_len nv_s_ext2 = Nat.max (seg_len nv_s) 4 /\ sid nv_s_ext2 = sid nv_s /\
  nth 11 (els nv_s_ext1) [] = [cs "Y"; cs "4"] /\ nth 3 (els nv_s_ext2) [] = [cs "UN"; []; cs "Q"].
Proof. vm_compute. repeat split; reflexivity. Qed.

(* a finite window of positions on which the frame conclusions are evaluated *)
Definition grid : list (nat * nat) := list_prod (seq 0 15) (seq 0 8).

(* C17_set_frame *)
Definition nv_s_fr : seg := match set_ix nv_d nv_s (zi 9, zi 2) (cs "NEW") with Ok x => x | Raise _ => nv_s end.
Example nv_C17_set_frame :
  is_isa16 nv_s 9 = false /\ set_ix nv_d nv_s (zi 9, zi 2) (cs "NEW") = Ok nv_s_fr /\
  forallb (fun ij => str_eqb (cell nv_s_fr (fst ij) (snd ij))
                             (if (fst ij =? 9) && (snd ij =? 2) then cs "NEW" else cell nv_s (fst ij) (snd ij))) grid = true /\
  cell nv_s_fr 9 2 = cs "NEW" /\ cell nv_s_fr 0 1 = cs "99213" /\ cell nv_s_fr 7 1 = cs "2".
Proof. vm_compute. repeat split; reflexivity. Qed.

(* C17_set_frame_element: an element-level write over a three-component composite *)
Definition nv_s_fe : seg := match set_ix nv_d nv_s (zi 0, None) (cs "AD") with Ok x => x | Raise _ => nv_s end.
Example nv_C17_set_frame_element :
  value_ok nv_d nv_s 0 (cs "AD") /\ set_ix nv_d nv_s (zi 0, None) (cs "AD") = Ok nv_s_fe /\
  forallb (fun ij => str_eqb (cell nv_s_fe (fst ij) (snd ij))
                             (if fst ij =? 0 then (if snd ij =? 0 then cs "AD" else []) else cell nv_s (fst ij) (snd ij))) grid = true /\
  cell nv_s 0 1 = cs "99213" /\ cell nv_s_fe 0 1 = [] /\ cell nv_s_fe 7 1 = cs "2".
Proof. split; [apply value_ok_intro; vm_compute; reflexivity|]. vm_compute. repeat split; reflexivity. Qed.

(* C17_other_segment_refused: a designator naming CLM applied to an SV1 segment *)
Example nv_C17_other_segment_refused :
  let rd := cs "CLM05-2" in
  parse_path rd = Ok (xp true [] (Some "CLM"%string) None (Some 5%N) (Some 2%N)) /\
  seg_id (xp true [] (Some "CLM"%string) None (Some 5%N) (Some 2%N)) = Some (cs "CLM") /\
  sid nv_s <> Some (cs "CLM") /\
  seg_set nv_d nv_s rd (cs "v") = Raise EngineError /\ seg_get nv_s rd = Raise EngineError.
Proof. cbv zeta. split; [vm_compute; reflexivity|]. split; [reflexivity|]. split; [vm_compute; discriminate|]. vm_compute. split; reflexivity. Qed.

(* C17_write_sequences: six writes on a real ISA (none of them to ISA16),
   overwriting one another and extending the segment *)
Definition nv_ops : list wop :=
  [WSet 12 0 (cs "000010122"); WSet 0 1 (cs "x"); WSet 12 0 (cs "000010123"); WSet 17 2 (cs "far"); WSet 0 0 (cs "01"); WSet 14 3 (cs "P")].
Definition nv_isa_w : seg := match run_sets nv_d nv_isa nv_ops with Ok x => x | Raise _ => nv_isa end.

Example nv_C17_write_sequences :
  no_isa16 nv_isa nv_ops /\ run_sets nv_d nv_isa nv_ops = Ok nv_isa_w /\
  forallb (fun ij => str_eqb (cell nv_isa_w (fst ij) (snd ij)) (fold_left upd nv_ops (cell nv_isa) (fst ij) (snd ij)))
          (list_prod (seq 0 20) (seq 0 5)) = true /\
  cell nv_isa_w 12 0 = cs "000010123" /\ cell nv_isa_w 17 2 = cs "far" /\ seg_len nv_isa_w = 18.
Proof.
  split.
  - intros i j v H. repeat (destruct H as [H|H]; [injection H as <- _ _; reflexivity|]). destruct H.
  - vm_compute. repeat split; reflexivity.
Qed.

(* C17_designator_indices: with the segment's own id (and a qualifier), and without an id *)
Example nv_C17_designator_indices :
  let r1 := {| r_seg := Some (cs "SV1"); r_qual := Some (cs "HC"); r_ele := Some (cs "01"); r_sub := Some (cs "3") |} in
  let r2 := {| r_seg := None; r_qual := None; r_ele := Some (cs "08"); r_sub := None |} in
  (wf_refdes r1 = true /\ r_ele r1 = Some (cs "01") /\ (r_seg r1 = None \/ r_seg r1 = sid nv_s) /\
   print_refdes r1 = cs "SV1[HC]01-3" /\
   parse_refdes nv_s (print_refdes r1) = Ok (Some (idx_of (cs "01")), option_map idx_of (r_sub r1)) /\
   idx_of (cs "01") = 0%Z /\ option_map idx_of (r_sub r1) = Some 2%Z) /\
  (wf_refdes r2 = true /\ r_ele r2 = Some (cs "08") /\ (r_seg r2 = None \/ r_seg r2 = sid nv_s) /\
   parse_refdes nv_s (print_refdes r2) = Ok (Some 7%Z, None)).
Proof.
  cbv zeta. split.
  - split; [vm_compute; reflexivity|]. split; [reflexivity|]. split; [right; vm_compute; reflexivity|].
    vm_compute. repeat split; reflexivity.
  - split; [vm_compute; reflexivity|]. split; [reflexivity|]. split; [left; reflexivity|]. vm_compute. reflexivity.
Qed.

(* C17_designator_other_segment *)
Example nv_C17_designator_other_segment :
  let r := {| r_seg := Some (cs "CLM"); r_qual := None; r_ele := Some (cs "05"); r_sub := Some (cs "2") |} in
  wf_refdes r = true /\ r_seg r = Some (cs "CLM") /\ sid nv_s <> Some (cs "CLM") /\
  parse_refdes nv_s (print_refdes r) = Raise EngineError.
Proof. cbv zeta. split; [vm_compute; reflexivity|]. split; [reflexivity|]. split; [vm_compute; discriminate|]. vm_compute. reflexivity. Qed.
